#!/usr/bin/env python3
"""tools/materialise_overlay.py <overlay.json> <copy-of-repo>: write every file the build overlay substitutes or adds
into a real copy of the repository (the coverage tool reads sources from disk and ignores overlays)."""
import json, sys, shutil, os
d = json.load(open(sys.argv[1]))['Replace']
for dst, src in d.items():
    assert dst.startswith('/repo/'), dst
    t = os.path.join(sys.argv[2], dst[len('/repo/'):])
    os.makedirs(os.path.dirname(t), exist_ok=True)
    shutil.copyfile(src, t)
