#!/usr/bin/env python3
"""Regenerate the seeded-changes table in DESIGN.md from /verif/seeded/*/meta.json."""
import json,glob,os,re
rows=[]
for m in sorted(glob.glob('/verif/seeded/*/meta.json')):
    d=json.load(open(m))
    checks=', '.join('%s→exit %d'%(k,v) for k,v in sorted(d.get('checks_run_quick',{}).items()))
    final=d.get('final','')
    rows.append('| `%s` | %s | %s | demo with/without: %d/%d; suite failures: %d | %s | %s |'%(d['seed'],', '.join(d.get('files_changed',[])),d.get('breaks',''),d['demo_exit_with_change'],d['demo_exit_without_change'],d['repo_suite_failures_with_change'],checks,final))
table='| seed | file | what it breaks / what it needs | confirmation | first run of the checks (quick) | after strengthening |\n|---|---|---|---|---|---|\n'+'\n'.join(rows)
p='/verif/DESIGN.md'
s=open(p).read()
if 'SEEDED_TABLE' in s:
    s=s.replace('SEEDED_TABLE','<!-- SEEDED-BEGIN -->\n'+table+'\n<!-- SEEDED-END -->')
else:
    s=re.sub(r'<!-- SEEDED-BEGIN -->.*<!-- SEEDED-END -->','<!-- SEEDED-BEGIN -->\n'+table.replace('\\','\\\\')+'\n<!-- SEEDED-END -->',s,flags=re.S)
open(p,'w').write(s)
print(len(rows),'rows')
