#!/bin/bash
# tools/reseed.sh [seed-name-prefix ...]
# Regression over the seeded changes: for every /verif/seeded/<name>/patch.diff the changed files are copied
# from /repo, patched in a scratch directory, substituted through the overlay (VERIF_MUTANT: /repo itself is
# never touched) and the check(s) that are supposed to catch the change are run in the quick tier.
# Prints one line per (seed, check): caught (exit 1 with a VIOLATION line) / MISSED / engine-error.
# Exit status 0 iff everything that is expected to be caught is caught.
set -u
cd /verif
scratch=$(mktemp -d /tmp/reseed.XXXXXX)
trap 'rm -rf "$scratch"' EXIT
# which checks are expected to catch which seed (default: the property id the name starts with)
expect() {
  case "$1" in
    C03c-*) echo C11 ;;
    C05-waitforspace-*) echo "C02" ;; # C05 sees it only in some runs: the change makes the broker worker resolve a two-way select at random
    C07-close-does-not-cancel-session) echo C12 ;;
    C10b-*) echo "C10 C14" ;;
    C10-peekint8-*) echo "C10 C03" ;;
    C12c-*) echo "C12 C01" ;;
    C16b-*) echo "C16 C01" ;;
    C07c-*) echo "C07 C06" ;;
    C03d-*) echo "C03 C12" ;;
    C12d-*) echo "C12 C06" ;;
    C04d-*) echo "C04 C01" ;;
    C01d-*) echo "C01" ;;
    C14f-*) echo "C03" ;;
    C07g-*) echo "C12" ;;
    C15f-*) echo "" ;; # nothing observable through the public API (DESIGN.md §11)
    C04f-*) echo "C04 C05" ;;
    C01g-*) echo "C01 C12" ;;
    C04e-*) echo C17 ;;
    C17e-*) echo "C17 C15" ;;
    C05e-*) echo "C05 C16" ;;
    C04i*) echo "C04 C09" ;;
    C03j*) echo "C11" ;;
    C03k-*) echo "C11" ;;
    C13m-*) echo "C08" ;;
    C05m-*|C05n-*|C10m-*|C12m-*|C18m-*|C19m-*) echo "" ;; # need an interleaving or an application habit outside what is enumerated (DESIGN.md §9, §11)
    C13p-*) echo "" ;; # not a valid seed: the repository's own randomized test fails with it in about half of the runs
    C17j*) echo "C15" ;; # the stale writable list is client metadata; the routing rig has no leadership change between messages
    C17i*) echo "C17 C15" ;;
    C19-retry-budget-off-by-one) echo "" ;; # deliberately not flagged (DESIGN.md §11)
    *) echo "${1:0:3}" ;;
  esac
}
bad=0
for d in seeded/*/; do
  name=$(basename "$d")
  if [ $# -gt 0 ]; then
    m=0; for p in "$@"; do case "$name" in $p*) m=1;; esac; done; [ $m = 1 ] || continue
  fi
  [ -s "$d/patch.diff" ] || continue
  mut="$scratch/$name"; mkdir -p "$mut"
  files=$(grep '^+++ b/' "$d/patch.diff" | sed 's#^+++ b/##')
  for f in $files; do mkdir -p "$mut/$(dirname "$f")"; cp "/repo/$f" "$mut/$f"; done
  if ! (cd "$mut" && patch -s -p1 < "/verif/$d/patch.diff"); then echo "$name: patch does not apply to the current tree"; bad=1; continue; fi
  checks=$(expect "$name")
  if [ -z "$checks" ]; then echo "$name: (not expected to be flagged)"; continue; fi
  for id in $checks; do
    VERIF_MUTANT=$mut VERIF_OVERLAY_NAME=reseed.json VERIF_BIN_PREFIX=reseed- ./check "$id" quick > "$scratch/log" 2>&1; rc=$?
    sig=$(grep -ao 'signature=[^ ]*' "$scratch/log" | sort -u | head -3 | tr '\n' ' ')
    if [ $rc = 1 ] && grep -aq '^VIOLATION property=' "$scratch/log"; then echo "$name: $id caught  $sig"
    elif [ $rc = 0 ]; then echo "$name: $id MISSED"; bad=1
    else echo "$name: $id engine-error (exit $rc)"; bad=1; fi
  done
done
exit $bad
