#!/usr/bin/env python3
"""tools/trace.py <property> <scenario> <mutant-dir|-> want...
Builds a schedule for one scenario step by step: each `want` is a label to choose at the first later decision that
offers it ("!label": wait until that label is the default choice and take it). Prints the resulting trace (chosen << offered)
and the verdict of the replay. Uses ./check --replay with VERIF_LOG."""
import json,subprocess,re,sys,os
prop,scen,mutant=sys.argv[1:4]; want=sys.argv[4:]
def run(choices):
    d={"property":prop,"signature":"x","message":"","check":"","replay":{"choices":choices,"scenario":scen,"trace":[]}}
    os.makedirs('/verif/.build/trace',exist_ok=True)
    json.dump(d,open('/verif/.build/trace/x.json','w'))
    env=dict(os.environ, VERIF_LOG='1')
    if mutant!='-':
        env.update(VERIF_MUTANT=mutant, VERIF_OVERLAY_NAME='mtrace.json', VERIF_BIN_PREFIX='mtrace-')
    out=subprocess.run(['./check','--replay','/verif/.build/trace/x.json'],capture_output=True,env=env,cwd='/verif').stdout.decode('utf-8','replace')
    steps=[]
    for l in out.splitlines():
        m=re.search(r'choose "([^"]+)" of \[(.*)\]',l)
        if m: steps.append((m.group(1),m.group(2).split(' ')))
    return steps,out
choices=[]; wi=0
while wi<len(want):
    steps,out=run(choices); found=False
    for k in range(len(choices),len(steps)):
        lab,opts=steps[k]
        w=want[wi]
        if w.startswith('!'):
            if lab==w[1:]:
                for j in range(len(choices),k+1): choices.append({'i':steps[j][1].index(steps[j][0]),'l':steps[j][0]})
                wi+=1; found=True; break
            continue
        if w in opts:
            for j in range(len(choices),k): choices.append({'i':steps[j][1].index(steps[j][0]),'l':steps[j][0]})
            choices.append({'i':opts.index(w),'l':w}); wi+=1; found=True; break
    if not found:
        print("cannot place",want[wi]); break
steps,out=run(choices)
for lab,opts in steps: print(lab,'  <<',' '.join(opts)[:170])
print([l[:300] for l in out.splitlines() if 'violat' in l.lower() or 'REPLAY' in l][:6])
