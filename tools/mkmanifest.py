#!/usr/bin/env python3
"""Generate /verif/MANIFEST.json from the table below (kept in one place so it stays valid)."""
import json, os, subprocess
ROOT = os.path.dirname(os.path.dirname(os.path.abspath(__file__)))

MC = "model_checking"; EX = "exploration"; FE = "fault_enumeration"
# id: (level, technique, text, note, design_ref)
GXT = "stateless deviation-bounded exhaustive exploration of the real implementation under a controlled scheduler (synctest bubble + gates + simulated broker answers)"
PNOTE = "simkafka's reading of the Kafka protocol; interleavings only at gates/answers/application operations/ticks (not at every memory access); bounds 2-4 messages, 1-2 partitions, 1-2 brokers, <=B deviations from each scenario's default policy."
CHECKS = {
 "C01": (MC, GXT,
         "Every execution of the producer scenarios (incl. leader elections as an environment state, input landing in an open retry window, the hand-over of a partition to a broker worker as a decision point; configurations: idempotent on/off, Retry.Max 0..2, flush settings, 1-2 partitions, 1-2 brokers, message formats v0/v1/v2, back-off, metadata faults, early close) with at most B deviations (fault answers, gate postponements, early input, early close) is run on the real implementation and judged by the exactly-one-outcome ledger; B iterated 0..3/4 quick, 0..4/5 thorough.",
         PNOTE, "§6 C01"),
 "C02": (MC, GXT,
         "Same exhaustive exploration as C01, judged by the per-partition order oracle: offsets of successes increase with submission order, first copies in the simulated log are in submission order.",
         PNOTE, "§6 C02"),
 "C04": (MC, GXT,
         "Same exhaustive exploration as C01 plus a format x codec x composition family (produce request versions for message v0/v1 and record batches x none/gzip/snappy/lz4/zstd x 1-2 partitions per request x key/header shapes x sync/async API, <=1 deviation each), judged by: reported (partition, offset) addresses a log entry equal to the submitted message (key, value, headers); every request on the wire is decodable by the independent broker-side reader and carries only submitted messages in the partition the partitioner chose.",
         PNOTE + " Payloads, keys and headers come from a small alphabet (<= 40 bytes).", "§6 C04"),
 "C05": (MC, GXT,
         "Idempotent scenarios against a sequence-enforcing simulated broker (pid/epoch/sequence rules of brokers >= 1.0, last-5-batches dedup), all executions with <= B deviations; oracle: no duplicate in any log, success => exactly once in log, sequence continuity per (partition, epoch), re-sent batch identical.",
         PNOTE, "§6 C05"),
 "C18": (MC, GXT,
         "Producer scenarios with a chain of counting + header-appending (+ panicking) interceptors, all executions with <= B deviations; oracle: exactly one invocation per submitted message per interceptor in configuration order, none for internal markers, one application visible in the log.",
         PNOTE + " Consumer half: slow-reader scenarios of the consumer rig (MaxProcessingTime expiries inside a batch).", "§6 C18"),
 "C17": (EX, "bounded-exhaustive enumeration of (constructor/options, injected hash value, partition count, key kind) through the real partitioners in attributed child processes, against an independent reference",
         "All listed hash boundary values plus 2^16 (quick) / ~10^6 (thorough) structured hash values x partition counts 1..17 and 2^31-1 x every constructor/option subset x key kinds, plus all round-robin count sequences up to length 6/8; range, Java-reference equality, consistency, fallback routing, manual, cycle oracles. Producer-routing half: every partitioner x key pattern x every leaderless subset of a 3-partition topic through the real client + producer in synctest bubbles (default schedule; all 1-deviation schedules in thorough), judged against the recorded choices of the wrapped partitioner (offered set = all partitions for keyed consistency-requiring messages, writable ones otherwise; illegal choice or no partition => error and nothing on the wire).",
         "'all keys' is reduced to hash values through WithCustomHashFunction and short real keys; math/rand trusted; white-box bridge setters for cursors/fallbacks.", "§6 C17"),
 "C19": (FE, "exhaustive enumeration of controller-answer scripts and leader/coordinator spreads, each executed through the real ClusterAdmin inside a synctest bubble against a scripted cluster, judged by a reference model",
         "Every answer script of length <= Retry.Max+2 over {ok, NOT_CONTROLLER with/without move, other error, incomplete response, connection drop} for Retry.Max in {0,1,2} (5: restricted quick, full thorough) x 4 controller-bound ops x 5 Kafka versions; every spread of 1-3 items over 1-3 brokers with single faults for the leader/coordinator-bound ops; every KError in place of success.",
         "default goroutine schedule (the quantifier is over fault sequences); 2-3 brokers; 'within Retry.Max' accepted as Max or Max+1 tries but at least one.", "§6 C19"),
 "C20": (EX, "bounded-exhaustive enumeration of expectation scripts x message counts x partitioners x configs through the real mocks (async/concurrent cases in synctest bubbles with every sender interleaving), against an independent reference mock",
         "Every expectation script of length <=3 (quick) / <=4 (thorough) x 0..len+1 messages x partitioners x topic configs x Return flags for async, sync (every SendMessage/SendMessages split) and two concurrent senders (all interleavings); consumer yield scripts over <=2 partitions with every close order; exact ErrorReporter call multiset.",
         "behaviour the mocks' documentation leaves open (first offset value, offsets after an error expectation, ...) is not judged; listed in the evidence assumptions.", "§6 C20"),
 "C03": (MC, GXT + " + bounded-exhaustive enumeration of log layouts through the real consumer",
         "Layout layer: every log of <=3 (quick) / <=5 (thorough) records x every cut into batches x every format legal for the version (message v0/v1 plain, compressed wrappers with absolute/relative offsets, LogAppendTime, record batches, compaction gaps, trailing control batch, mixed formats) x codecs x start offsets (oldest, newest, every literal, beyond the end) x fetch sizes at/around batch boundaries x 9 Kafka versions, run through the real partition consumer against an independently encoded log; fault/schedule layer: all executions with <=B deviations (fetch faults, slow reader ticks, subscribe/redispatch gates, leader move, append) on representative logs; oracle: delivered == reference slice of the log, field by field, plus progress.",
         "simkafka serves byte ranges of an independently encoded log like a broker does; interleavings at answers/reads/ticks/gates only.", "§6 C03"),
 "C11": (MC, GXT + " + bounded-exhaustive enumeration of transactional logs through the real consumer",
         "Every well-formed transactional log of <=5 (quick) / <=6 (thorough) batches over {data A, data B, non-transactional data, commit/abort markers} x batches per fetch x every start offset x isolation level x every order of the aborted index x two protocol generations; plus fault/schedule layer with <=B deviations; oracle: read-committed delivers exactly committed+non-transactional records below the last stable offset, read-uncommitted all data records, control records never.",
         "aborted index and last stable offset computed by simkafka as a faithful broker would.", "§6 C11"),
 "C06": (MC, "explicit-state breadth-first search over the real offset manager (successor = history replayed on a fresh instance + one event, visited set on a canonical state key validated by an unpruned differential search) under the controlled scheduler",
         "All event sequences (MarkOffset/ResetOffset with offsets cur-1..cur+2, auto-commit tick or manual Commit, the om.flush.sent gate, every coordinator answer incl. per-partition error classes, missing block (stored or not stored), one request spanning two topics, equal metadata on every mark, a stored commit at offset 0, connection loss with/without storing, Close, second Close) to depth 7 (quick) / 9 (thorough) for 1 partition (auto and manual commit) and depth 5/7 for 2 partitions with retention; invariants in every state: committed pairs are marked pairs, no unexplained backwards store, Mark never lowers / Reset never raises, fresh NextOffset, position!=store => dirty, after a clean Close the store equals the latest mark.",
         "state key = bridge dump of the manager + coordinator store + request in flight + parked committer's snapshot + connection states + call history; its soundness is checked by the unpruned search two levels shallower (identical key sets required) and by run-to-run stability of the state count.", "§6 C06"),
 "C07": (MC, GXT,
         "1-2 real ConsumerGroup members (own clients) against a simulated group coordinator (join/sync/heartbeat/leave state machine, commit admission by member/generation) and partition leaders; handler behaviours {returns at once, reads k then returns, reads until closed, Setup error}; coordinator answers incl. NOT_COORDINATOR on sync; a stored commit at offset 0; end triggers {context cancel, second member joins, fencing answers, claim ends, Close}; strategies range/round-robin/sticky; committed offsets none/valid/out of range; all executions with <=B deviations (B=2 quick for one member, 1-2 for two); oracle: per-session life-cycle automaton (Setup once, <=1 ConsumeClaim per claimed partition, Cleanup after all claims, final commit before Consume returns), claim start offsets, identities carried by Sync/Heartbeat/OffsetCommit, fresh identity after fencing, no record skipped across sessions.",
         "heartbeats, fetch rounds, claim start and subscriptions are gated so that the session's goroutines never race for one connection within a step; time passes only while every ticker-driven loop is idle; sticky assignment only with one member (its plan depends on Go map order with two).", "§6 C07"),
 "C08": (MC, "explicit-state breadth-first search over group states through the real BalanceStrategy.Plan / AssignmentData / user-data decode path (visited set on a canonical key, differential unpruned search), cases in watched child processes",
         "Every group of <=3 members x <=3 topics x <=3 (thorough 4) partitions x every subscription pattern for range and round-robin; sticky: chains of rebalances (join fresh / with stale or conflicting user data, leave, subscription change, partitions added/removed, topic deleted) to depth 2-3 (quick) / 3-5 (thorough); oracle: every partition with a subscriber assigned exactly once, only to a subscriber, no unknown member / nonexistent partition, Plan returns.",
         "the sticky assignor iterates Go maps: each case is evaluated R>=3 (quick) / 10 (thorough) times in different presentation orders until no new plan appears; map orders are sampled, not enumerated.", "§6 C08/C13"),
 "C13": (MC, "same explicit-state search as C08, judged by the balance/stickiness oracle",
         "Same state graph as C08; oracle: range contiguous ranges with sizes differing <=1 per topic, round-robin totals of identically subscribed members differ <=1, sticky balanced in Kafka's sense (written from subscriptions), fixed point on unchanged input, keep-on-leave and no-move-between-old-members-on-join with identical subscriptions, no pairwise swap within a topic.",
         "stickiness clauses are judged only for plans fed back with increasing generations and only on plans valid per C08.", "§6 C08/C13"),
 "C12": (MC, GXT,
         "Close/AsyncClose enabled as an action at every decision point of the producer, partition-consumer, offset-manager and consumer-group scenarios (closeany), combined with <=B other deviations (faults, postponements); oracle: Close/Consume return, public channels are closed after their last event, no panic (recovered PanicHandler or process death), second Close harmless. Scenarios include a sibling partition on a worker that is being left, two slow readers on one worker (hand-over of new subscriptions as a decision point), an auto-commit close with a clean and a dirty partition, a slow Errors() reader, an idle group member.",
         PNOTE + " Goroutine leaks after Close are reported as INFO only.", "§6 C12"),
 "C14": (MC, GXT,
         "One real Broker on an in-memory connection, 2-4 callers x 1-2 calls, MaxOpenRequests 1-3, server actions on the oldest unanswered request {correct, swapped / unknown correlation id, a stale (lower) correlation id followed by the proper answer, truncated header/body, oversized / undersized / negative length, stall, abrupt close}, read-timeout ticks, Close racing; all executions with <=4 (quick) / <=5-7 (thorough) deviations; oracle: own response or error, mismatching id never delivered, fail-stop after a fault, requests on the wire <= MaxOpenRequests.",
         "one call enters per step (callers never race for the broker lock within a step); one server fault per execution.", "§6 C14"),
 "C15": (MC, "explicit-state BFS over metadata-response histories through the real client (canonical key = bridge dump of the client's caches, validated by an unpruned differential search) + controlled-scheduler exploration of reader/refresher interleavings down to lock acquisitions + exhaustive enumeration of reachability patterns",
         "History: 10-16 operations x 21-26 cluster snapshots (topics appearing/vanishing/erroring per class, partitions added/removed, leaders moving/unavailable/unknown, brokers added/removed/readdressed, full vs per-topic refresh): the state graph closes at depth 3; after every event all read APIs are compared with a reference fold. Atomicity: readers vs refresher at quiescent points and at every acquisition of client.lock (preemption bound 2-3): every observation equals the state before or after the refresh. Reachability: 1-3 seeds x 0-2 known brokers x every per-address behaviour x every seed order x every any() pick x Retry.Max 0/1: refresh/NewClient succeed iff a candidate answers; plus a family with two concurrent RefreshMetadata calls followed by a single one (the two callers' interleaving is the Go scheduler's, not enumerated).",
         "open points of the property (WritablePartitions with an unknown leader id, per-topic responses and the broker list, ...) are accepted either way and counted in the evidence.", "§6 C15"),
 "C16": (MC, GXT + " + bounded-exhaustive families of size vectors x flush settings through the real producer",
         "Message-size vectors at/around each limit (MaxMessageBytes, per-partition batch limit, MaxRequestSize lowered inside the scenario) x Flush.{Messages,Bytes,Frequency,MaxMessages} x message formats v0/v1/v2 x 1-2 partitions x input-first / latency policies; GX scenarios with <=3-4 (quick) / <=4-6 (thorough) deviations; oracle at the simulated broker and on a byte tap of the connection: records per request <= MaxMessages, batch key+value bytes <= MaxMessageBytes unless single, frame <= MaxRequestSize, oversize message rejected and never sent, one outcome per message, flush liveness (no further input needed once a trigger fires).",
         "rejection is judged with a 36-byte margin around the version-dependent overhead constant; one broker, no faults.", "§6 C16"),
 "C09": (EX, "bounded-exhaustive enumeration of (protocol body, version, <=k field deviations, codec) through the real two-pass encoder and decoder, with an independent wire reader; registry found by a go/parser scan of /repo at check time and cross-checked against a compiled table",
         "76 request/response bodies x every version 0..max plus RecordBatch, MessageSet, Records, member metadata/assignment, sticky user data, request/response headers; a reflective generator builds a base value and every value differing in <=1 (quick) / <=2 (thorough) leaf slots; oracles: prep length == bytes written; decode(encode(v)) re-encodes to the same length/bytes and decodes to the same value; a deviation that changes the bytes changes the decoded value; length prefixes, CRC ranges (IEEE / Castagnoli), varints and compact encodings checked by an independent reader. Plus size sweeps: record batches whose value / key / header value / header key / second record / record count takes EVERY size in [0,300], [8100,8300], [16300,16500] (where the widths of the varint length prefixes change); lists of scalars also with 126, 127, 128 elements.",
         "values come from small per-kind alphabets (sizes around prefix-width changes are swept for record batches only); records nested in Produce/Fetch are covered by the round-trip oracles only.", "§6 C09"),
 "C10": (EX, "bounded-exhaustive single mutation of every valid encoding (truncation at every length, every bit flip, every 1/2/4-byte and varint overwrite with boundary values) plus all short byte strings, fed to every decode entry point in memory-capped child processes",
         "Every response body x version, response header, RecordBatch, MessageSet, Records, fetch blocks with compressed payloads, member metadata/assignment, sticky user data: 2.3 M (quick) / 280 M (thorough) mutated inputs; every mutation inside a checksummed region is also decoded with the checksum recomputed (a corrupted payload with a matching checksum: panics and clearly disproportionate allocation only); the response-header family replays the body sizing of Broker.responseReceiver; oracle: value or error, no panic, no hang, allocation proportional to the input (plus what decompression legitimately yields), and a checksummed region that was altered never yields different records.",
         "single mutations (plus checksum repair) only; the allocation bound is 64 KiB + 1000 x input length (+ measured codec working set).", "§6 C10"),
}
NOT_YET = {}
props = [json.loads(l) for l in open(os.path.join(ROOT, "properties.jsonl"))]
hooks_commits = subprocess.run(["git", "-C", "/repo", "log", "--format=%H", "--grep=^verif hooks"], capture_output=True, text=True).stdout.split()
m = {
 "version": 1,
 "setup_cmd": "./check --build",
 "hooks": {"guard": "verif", "enable": "go1.26 test -c -tags verif -overlay /verif/.build/overlay*.json (see ./check)",
           "baseline_off_cmd": "cd /repo && go test -mod=mod -json -vet=off -count=1 -timeout 25m ./...",
           "source_commits": hooks_commits, "add_only": True},
 "engines": [
  {"name": "gx", "path": "engine/gx", "kind_free_text": "stateless, deviation-bounded (delay-bounded) exhaustive explorer of the real implementation inside testing/synctest bubbles; sharded over worker processes", "serves_properties": []},
  {"name": "bx", "path": "engine/bx", "kind_free_text": "bounded-exhaustive enumeration / explicit-state BFS over real functions against reference models", "serves_properties": []},
 ],
 "checks": [], "not_applicable": [],
 "notes": "See DESIGN.md. ./check <ID> <tier> rebuilds from /repo's working tree (overlay generated from the current files) and writes evidence/<ID>.json; exit 0 held, 1 violation, 3 engine error.",
}
for p in props:
    i = p["id"]
    if i in CHECKS:
        lvl, tech, text, note, ref = CHECKS[i]
        m["checks"].append({"property_id": i, "quick_cmd": f"./check {i} quick", "thorough_cmd": f"./check {i} thorough",
            "evidence_file": f"evidence/{i}.json", "replay_cmd_template": "./check --replay {path}", "engine": "gx" if "controlled scheduler" in tech else "bx",
            "level_claimed": {"category": lvl, "text": text, "design_ref": ref}, "level_note": note, "technique": tech})
        for e in m["engines"]:
            if e["name"] == m["checks"][-1]["engine"]:
                e["serves_properties"].append(i)
    else:
        m["not_applicable"].append({"property_id": i, "reason": NOT_YET.get(i, "check designed (DESIGN.md §6) but not built yet in this session; nothing is claimed for it")})
json.dump(m, open(os.path.join(ROOT, "MANIFEST.json"), "w"), indent=1)
print("checks:", [c["property_id"] for c in m["checks"]])
