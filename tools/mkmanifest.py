#!/usr/bin/env python3
"""Generate /verif/MANIFEST.json from the table below (kept in one place so it stays valid)."""
import json, os, subprocess
ROOT = os.path.dirname(os.path.dirname(os.path.abspath(__file__)))

MC = "model_checking"; EX = "exploration"; FE = "fault_enumeration"
# id: (level, technique, text, note, design_ref)
CHECKS = {
 "C01": (MC, "stateless deviation-bounded exhaustive exploration of the real producer under a controlled scheduler (synctest bubble + gates + simulated broker answers)",
         "Every execution of the producer scenarios with at most B deviations (fault answers, gate postponements, early input, early close) is run on the real implementation and judged by the exactly-one-outcome ledger; B iterated 0..2 quick, 0..3 thorough.",
         "simkafka's reading of the produce protocol; interleavings only at gates/answers/app operations (not at every memory access); bounds 2-4 messages, 1-2 partitions, 1-2 brokers.", "§6 C01"),
}
NOT_YET = {}
props = [json.loads(l) for l in open(os.path.join(ROOT, "properties.jsonl"))]
hooks_commits = subprocess.run(["git", "-C", "/repo", "log", "--format=%H", "--grep=^verif hooks"], capture_output=True, text=True).stdout.split()
m = {
 "version": 1,
 "setup_cmd": "./check --build",
 "hooks": {"guard": "verif", "enable": "go1.26 test -c -tags verif -overlay /verif/.build/overlay*.json (see ./check)",
           "baseline_off_cmd": "cd /repo && go test -mod=mod -json -vet=off -count=1 -timeout 25m ./...",
           "source_commits": hooks_commits, "add_only": True},
 "engines": [
  {"name": "gx", "path": "engine/gx", "kind_free_text": "stateless, deviation-bounded (delay-bounded) exhaustive explorer of the real implementation inside testing/synctest bubbles; sharded over worker processes", "serves_properties": []},
  {"name": "bx", "path": "engine/bx", "kind_free_text": "bounded-exhaustive enumeration / explicit-state BFS over real functions against reference models", "serves_properties": []},
 ],
 "checks": [], "not_applicable": [],
 "notes": "See DESIGN.md. ./check <ID> <tier> rebuilds from /repo's working tree (overlay generated from the current files) and writes evidence/<ID>.json; exit 0 held, 1 violation, 3 engine error.",
}
for p in props:
    i = p["id"]
    if i in CHECKS:
        lvl, tech, text, note, ref = CHECKS[i]
        m["checks"].append({"property_id": i, "quick_cmd": f"./check {i} quick", "thorough_cmd": f"./check {i} thorough",
            "evidence_file": f"evidence/{i}.json", "replay_cmd_template": "./check --replay {path}", "engine": "gx" if "explor" in tech and "controlled" in tech else "bx",
            "level_claimed": {"category": lvl, "text": text, "design_ref": ref}, "level_note": note, "technique": tech})
        for e in m["engines"]:
            if e["name"] == m["checks"][-1]["engine"]:
                e["serves_properties"].append(i)
    else:
        m["not_applicable"].append({"property_id": i, "reason": NOT_YET.get(i, "check designed (DESIGN.md §6) but not built yet in this session; nothing is claimed for it")})
json.dump(m, open(os.path.join(ROOT, "MANIFEST.json"), "w"), indent=1)
print("checks:", [c["property_id"] for c in m["checks"]])
