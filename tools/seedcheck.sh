#!/bin/bash
# tools/seedcheck.sh <seed-name> <worktree> <property-id> [more property ids...]
# 1. confirms the seeded change in its scratch worktree (suite passes with it, demo fails with it and passes without),
# 2. stores it under /verif/seeded/<seed-name>/,
# 3. runs the given checks against it (through the overlay: /repo is not touched) and reports exit codes.
set -u
name=$1; wt=$2; shift 2
export GOFLAGS=-mod=mod GOPROXY=off GOSUMDB=off
dst=/verif/seeded/$name
mkdir -p "$dst"
cd "$wt" || exit 2
demo=$(git status --porcelain | grep '^??' | awk '{print $2}' | grep -v 'SEED_\|\.diff$\|\.md$' | tr '\n' ' ')
git diff -- . ':(exclude)SEED_PATCH.diff' > "$dst/patch.diff"
[ -s "$dst/patch.diff" ] || { echo "no source change in $wt"; exit 2; }
changed=$(git diff --name-only)
echo "== changed: $changed ; demo files: $demo"
for f in $demo; do mkdir -p "$dst/demo/$(dirname $f)"; cp -r "$f" "$dst/demo/$f"; done
cp SEED_NOTES.md "$dst/NOTES.md" 2>/dev/null
run=$(grep -ho 'func Test[A-Za-z0-9_]*' $demo 2>/dev/null | sed 's/func //' | sort -u | paste -sd'|')
pkgs=$(for f in $demo; do echo "./$(dirname $f)"; done | sort -u | tr '\n' ' ')
echo "== demo tests: $run in $pkgs"
if [ -z "${SEED_SKIP_CONFIRM:-}" ]; then
go test -vet=off -count=1 -run "^($run)\$" $pkgs > /tmp/seedlog-$name-with.log 2>&1; with=$?
# (no git stash: refs/stash is shared by all worktrees of a repository)
git apply -R "$dst/patch.diff"
go test -vet=off -count=1 -run "^($run)\$" $pkgs > /tmp/seedlog-$name-without.log 2>&1; without=$?
git apply "$dst/patch.diff"
echo "== demo with change: exit $with ; without change: exit $without"
# suite with the change, demo moved aside
mkdir -p /tmp/seed-aside-$$; for f in $demo; do mv "$f" /tmp/seed-aside-$$/$(echo $f | tr '/' '_'); done
go test -vet=off -count=1 -timeout 25m ./... 2>&1 | grep -v "no test files" | tail -4 > /tmp/seedlog-$name-suite.log; suite=$(grep -c '^FAIL\|^---' /tmp/seedlog-$name-suite.log)
for f in $demo; do mv /tmp/seed-aside-$$/$(echo $f | tr '/' '_') "$f"; done; rmdir /tmp/seed-aside-$$
cat /tmp/seedlog-$name-suite.log
else
  with=$(python3 -c "import json;print(json.load(open('$dst/meta.json'))['demo_exit_with_change'])"); without=$(python3 -c "import json;print(json.load(open('$dst/meta.json'))['demo_exit_without_change'])"); suite=$(python3 -c "import json;print(json.load(open('$dst/meta.json'))['repo_suite_failures_with_change'])")
  echo "== (confirmation taken from the earlier run: with=$with without=$without suite failures=$suite)"
fi
# mutated files for the overlay
mut=/verif/.build/seed/$name; rm -rf "$mut"; mkdir -p "$mut"
for f in $changed; do case "$f" in mocks/*) mkdir -p "$mut/mocks"; cp "$f" "$mut/mocks/";; *) cp "$f" "$mut/";; esac; done
results=""
cd /verif
[ -n "${SEED_CONFIRM_ONLY:-}" ] && set --
for id in "$@"; do
  VERIF_MUTANT=$mut VERIF_OVERLAY_NAME=seed-$name.json VERIF_BIN_PREFIX=seed-$name- ./check $id quick > /verif/.build/seed/$name-$id.log 2>&1; rc=$?
  sig=$(grep -o 'signature=[^ ]*[^\n]*' /verif/.build/seed/$name-$id.log | head -3 | tr '\n' ';' | cut -c1-300)
  echo "== check $id quick against seed $name: exit $rc  $sig"
  results="$results $id=$rc"
done
python3 - "$name" "$with" "$without" "$suite" "$results" "$changed" <<'PY'
import json,sys
name,with_,without,suite,results,changed=sys.argv[1:7]
meta={"seed":name,"files_changed":changed.split(),"demo_exit_with_change":int(with_),"demo_exit_without_change":int(without),
 "repo_suite_failures_with_change":int(suite),"checks_run_quick":{k:int(v) for k,v in (x.split('=') for x in results.split())} or None,
 "ran":"tools/seedcheck.sh (demo with/without via git stash in the scratch worktree; full go test ./... with the change; checks through the overlay, /repo untouched)"}
p='/verif/seeded/%s/meta.json'%name
try: old=json.load(open(p))
except Exception: old={}
old.update({k:v for k,v in meta.items() if v is not None})
json.dump(old,open(p,'w'),indent=1)
print(json.dumps(meta))
PY
