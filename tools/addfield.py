#!/usr/bin/env python3
"""addfield.py <file> <after-field-name> <new field line>: insert a struct field after the first line declaring <after-field-name> (whitespace-insensitive)."""
import re,sys
p,after,new=sys.argv[1:4]
s=open(p).read()
m=re.search(r'^\t'+re.escape(after)+r'\s+\S.*\n',s,re.M)
assert m,(p,after)
s=s[:m.end()]+'\t'+new+'\n'+s[m.end():]
open(p,'w').write(s)
