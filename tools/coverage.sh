#!/bin/bash
# tools/coverage.sh [ID ...]   (default: all 20)
# Which statements of package sarama do the QUICK checks execute at all? A statement no check ever runs cannot be
# noticed when it is changed. Builds every checker with coverage instrumentation of github.com/Shopify/sarama, runs the
# quick tier, merges the counters of parent and worker processes and prints per-function coverage
# (.build/coverage-func.txt). Diagnostic only: nothing here is registered in MANIFEST.json.
# Everything instrumented lives in a scratch directory outside /verif and is removed at the end (KEEP=1 keeps it).
set -u
cd "$(dirname "$0")/.."
ROOT=$(pwd)
export GOFLAGS=-mod=mod GOPROXY=off GOSUMDB=off GOTOOLCHAIN=local
GO=go1.26
ids=${*:-C01 C02 C03 C04 C05 C06 C07 C08 C09 C10 C11 C12 C13 C14 C15 C16 C17 C18 C19 C20}
scratch=$(mktemp -d /tmp/verifcov.XXXXXX)
trap '[ -n "${KEEP:-}" ] || rm -rf "$scratch"' EXIT
mkdir -p "$scratch/bin" "$scratch/cov" "$scratch/out"
# the checks read known findings etc. from their root and write evidence there: give them a copy
rsync -a --exclude .build --exclude .git --exclude seeded --exclude out "$ROOT/" "$scratch/out/"
# the cover tool reads source files from disk and knows nothing of the overlay: materialise /repo + overlay in scratch
rsync -a --exclude .git /repo/ "$scratch/repo/"
rsync -a --exclude go.sum "$ROOT/engine/" "$scratch/engine/"
cp /repo/go.sum "$scratch/engine/go.sum"
sed -i "s#=> /repo#=> $scratch/repo#" "$scratch/engine/go.mod"
for id in $ids; do
  n=$(echo "$id" | tr 'A-Z' 'a-z')
  if [ -d "engine/checks/$n/bridge" ]; then
    ov=$(VERIF_EXTRA_BRIDGE="$ROOT/engine/checks/$n/bridge" python3 engine/cmd/mkoverlay.py "cov-$n.json") || exit 3
  else
    ov=$(python3 engine/cmd/mkoverlay.py "cov.json") || exit 3
  fi
  # remove what the previous check's bridge added, then lay this check's overlay over the copy
  (cd "$scratch/repo" && ls | grep '^verif_c[0-9][0-9]' | xargs -r rm -f; ls mocks 2>/dev/null | grep '^verif_c[0-9][0-9]' | sed 's#^#mocks/#' | xargs -r rm -f)
  python3 tools/materialise_overlay.py "$ov" "$scratch/repo" || exit 3
  (cd "$scratch/engine" && $GO test -c -cover -covermode=set -coverpkg=github.com/Shopify/sarama,github.com/Shopify/sarama/mocks -tags verif -vet=off -o "$scratch/bin/$n.test.real" ./checks/$n) 2>&1 | grep -v '^warning: no packages being tested depend'
  [ -x "$scratch/bin/$n.test.real" ] || { echo "build failed for $id"; continue; }
  # children are started as os.Args[0] with their own flags: a wrapper under the binary's name gives every process its
  # own coverage directory; with VERIF_COVERDIR set the explorer lets its workers leave on end of input instead of
  # killing them (a killed process writes no counters)
  printf '#!/bin/bash\nd="%s/cov/$$"; mkdir -p "$d"; exec -a "$0" "$0.real" "$@" -test.gocoverdir="$d"\n' "$scratch" > "$scratch/bin/$n.test"
  chmod +x "$scratch/bin/$n.test"
  VERIF_COVERDIR="$scratch/cov" VERIF_ROOT="$scratch/out" VERIF_TIER=quick "$scratch/bin/$n.test" -test.run '^TestCheck$' -test.timeout 0 > "$scratch/out/$n.log" 2>&1
  echo "$id rc=$? $(grep -a '^RESULT' "$scratch/out/$n.log" | cut -c1-80)"
done
# hundreds of per-process directories: keep those that hold counters, merge them in chunks first
for d in "$scratch"/cov/*; do ls "$d" 2>/dev/null | grep -q covcounters && echo "$d"; done > "$scratch/dirs.txt"
echo "$(wc -l < "$scratch/dirs.txt") processes wrote coverage counters"
mkdir -p "$scratch/merged"
split -l 100 "$scratch/dirs.txt" "$scratch/chunk."
i=0
for c in "$scratch"/chunk.*; do
  i=$((i+1)); mkdir -p "$scratch/merged/$i"
  $GO tool covdata merge -i="$(paste -sd, "$c")" -o "$scratch/merged/$i" 2>>"$scratch/covdata.err" || { head "$scratch/covdata.err"; exit 3; }
done
dirs=$(ls -d "$scratch"/merged/* | paste -sd,)
$GO tool covdata textfmt -i="$dirs" -o "$scratch/profile.txt" 2>>"$scratch/covdata.err" || { head "$scratch/covdata.err"; exit 3; }
mkdir -p .build
cp "$scratch/profile.txt" .build/coverage-profile.txt
(cd "$scratch/engine" && $GO tool cover -func="$scratch/profile.txt") > .build/coverage-func.txt 2>"$scratch/cover.err" || head "$scratch/cover.err"
echo "per-function coverage: .build/coverage-func.txt ($(wc -l < .build/coverage-func.txt) functions)"
