#!/bin/bash
# tools/coverage.sh [ID ...]   (default: all 20)
# Which statements of package sarama do the QUICK checks execute at all? A statement no check ever runs cannot be
# noticed when it is changed. Builds every checker with coverage instrumentation of github.com/Shopify/sarama (through
# the same overlay), runs the quick tier, merges the counters of parent and worker processes and prints per-function
# coverage of the files the properties are anchored in. Diagnostic only: nothing here is registered in MANIFEST.json.
# The instrumented binaries live in a scratch directory outside /verif and are removed at the end.
set -u
cd "$(dirname "$0")/.."
ROOT=$(pwd)
export GOFLAGS=-mod=mod GOPROXY=off GOSUMDB=off GOTOOLCHAIN=local
GO=go1.26
ids=${*:-C01 C02 C03 C04 C05 C06 C07 C08 C09 C10 C11 C12 C13 C14 C15 C16 C17 C18 C19 C20}
scratch=$(mktemp -d /tmp/verifcov.XXXXXX)
trap 'rm -rf "$scratch"' EXIT
mkdir -p "$scratch/bin" "$scratch/cov" "$scratch/out"
# the checks read known findings etc. from their root and write evidence there: give them a copy
rsync -a --exclude .build --exclude .git --exclude seeded --exclude out "$ROOT/" "$scratch/out/"
for id in $ids; do
  n=$(echo "$id" | tr 'A-Z' 'a-z')
  ovname=cov.json
  if [ -d "engine/checks/$n/bridge" ]; then
    ov=$(VERIF_EXTRA_BRIDGE="$ROOT/engine/checks/$n/bridge" python3 engine/cmd/mkoverlay.py "cov-$n.json") || exit 3
  else
    ov=$(python3 engine/cmd/mkoverlay.py "$ovname") || exit 3
  fi
  (cd engine && $GO test -c -cover -covermode=set -coverpkg=github.com/Shopify/sarama,github.com/Shopify/sarama/mocks -tags verif -overlay "$ov" -vet=off -o "$scratch/bin/$n.test.real" ./checks/$n) || { echo "build failed for $id"; continue; }
  # children are started as os.Args[0] with their own flags: a wrapper under the binary's name adds the coverage directory
  cat > "$scratch/bin/$n.test" <<EOF
#!/bin/bash
exec -a "\$0" "\$0.real" "\$@" -test.gocoverdir="$scratch/cov"
EOF
  chmod +x "$scratch/bin/$n.test"
  VERIF_ROOT="$scratch/out" VERIF_TIER=quick "$scratch/bin/$n.test" -test.run '^TestCheck$' -test.timeout 0 > "$scratch/out/$n.log" 2>&1
  echo "$id rc=$? $(grep -a '^RESULT' "$scratch/out/$n.log" | cut -c1-80)"
done
$GO tool covdata textfmt -i="$scratch/cov" -o "$scratch/profile.txt" 2>"$scratch/covdata.err" || { cat "$scratch/covdata.err" | head; exit 3; }
mkdir -p .build
cp "$scratch/profile.txt" .build/coverage-profile.txt
(cd /repo && $GO tool cover -func="$scratch/profile.txt") > .build/coverage-func.txt 2>"$scratch/cover.err" || head "$scratch/cover.err"
echo "per-function coverage: .build/coverage-func.txt ($(wc -l < .build/coverage-func.txt) functions)"
