package gx

import (
	"fmt"
	"os"
	"testing"
	"time"

	"verif/engine/ev"
)

// ExitCode is what TestMain exits with (3 = engine error until a check finished).
var ExitCode = 3

func Main(m *testing.M) {
	m.Run()
	os.Exit(ExitCode)
}

// Sc names a scenario and the deviation bound explored in the quick / thorough tier.
type Sc struct {
	Name string
	Q, T int
}

func (s Sc) Bound() int {
	if ev.Tier() == "thorough" {
		return s.T
	}
	return s.Q
}

// Part is an additional, non-GX part of a check contributing to the same evidence.
type Part func(t *testing.T, c *ev.Check, e *Explorer) (exhaustive bool)

// RunCheck is the body of TestCheck for a GX check: explore every scenario to its tier bound
// (sharing the time budget), keep the violations of `prop`, write evidence, set ExitCode.
func RunCheck(t *testing.T, prop string, scs []Sc, quick, thorough time.Duration, assumptions []string, parts ...Part) {
	if os.Getenv("VERIF_WORKER") != "" {
		t.Skip()
	}
	if p := os.Getenv("VERIF_REPLAY"); p != "" {
		ExitCode = ReplayFile(t, p)
		return
	}
	c := ev.NewCheck(prop, "model_checking")
	c.Assumptions = assumptions
	e := NewExplorer(c)
	defer e.Close()
	e.Accept = func(v ev.Violation) bool { return v.Property == prop }
	budget := ev.Deadline(quick, thorough)
	end := time.Now().Add(budget)
	scEnd := end
	if len(parts) > 0 {
		scEnd = time.Now().Add(budget * 55 / 100) // the rest of the budget belongs to the parts
	}
	all := true
	var cutList []string
	for i, s := range scs {
		left := time.Until(scEnd)
		if left < 0 {
			left = 0
		}
		e.Deadline = time.Now().Add(left / time.Duration(len(scs)-i))
		done, ok := e.Explore(s.Name, s.Bound())
		if !ok {
			all = false
			cutList = append(cutList, fmt.Sprintf("%s: completed bound %d of %d", s.Name, done, s.Bound()))
		}
	}
	for _, p := range parts {
		e.Deadline = end
		if !p(t, c, e) {
			all = false
		}
	}
	e.Summarize(all)
	if len(cutList) > 0 {
		c.Set("cut_by_internal_deadline", cutList)
	}
	c.Set("bound_rule", "deviation = choosing a non-first enabled actor (sticky postponement of the skipped ones) and/or a non-default answer variant; all executions with <= B deviations from the scenario's default policy are run; B iterated 0..bound")
	ExitCode = c.Finish()
}

// BFSSc names a scenario searched by explicit-state BFS to a depth per tier.
type BFSSc struct {
	Name string
	Q, T int
}

// RunBFSCheck is the body of TestCheck for an explicit-state check: pruned BFS to the tier depth for
// every scenario, plus the unpruned search two levels shallower whose reachable key set must equal the
// pruned one's up to that depth (differential validation of the canonical state key).
func RunBFSCheck(t *testing.T, prop string, scs []BFSSc, quick, thorough time.Duration, assumptions []string, extra ...Sc) {
	if os.Getenv("VERIF_WORKER") != "" {
		t.Skip()
	}
	if p := os.Getenv("VERIF_REPLAY"); p != "" {
		ExitCode = ReplayFile(t, p)
		return
	}
	c := ev.NewCheck(prop, "model_checking")
	c.Assumptions = assumptions
	e := NewExplorer(c)
	defer e.Close()
	e.Accept = func(v ev.Violation) bool { return v.Property == prop }
	end := time.Now().Add(ev.Deadline(quick, thorough))
	all := true
	states, trans := 0, 0
	var diff []map[string]interface{}
	for i, s := range scs {
		left := time.Until(end)
		if left < 0 {
			left = 0
		}
		e.Deadline = time.Now().Add(left / time.Duration(len(scs)-i+len(extra)))
		depth := s.Q
		if ev.Tier() == "thorough" {
			depth = s.T
		}
		keys, tr, ok := e.BFS(s.Name, depth, true)
		states += len(keys)
		trans += tr
		if !ok {
			all = false
			continue
		}
		// differential: unpruned, two levels shallower
		d2 := depth - 2
		if d2 < 1 {
			continue
		}
		e.Deadline = time.Now().Add(time.Until(e.Deadline) + left/time.Duration(4*len(scs)))
		keys2, tr2, ok2 := e.BFS(s.Name, d2, false)
		trans += tr2
		if !ok2 {
			diff = append(diff, map[string]interface{}{"scenario": s.Name, "depth": d2, "completed": false})
			continue
		}
		missing, extraK := 0, 0
		for k := range keys2 {
			if _, ok := keys[k]; !ok {
				missing++
				if missing <= 2 {
					fmt.Printf("  key reached only without pruning:\n    %s\n    via %v\n", k, e.LastPaths[k])
				}
			}
		}
		for k, d := range keys {
			if _, ok := keys2[k]; !ok && d <= d2 {
				extraK++
			}
		}
		diff = append(diff, map[string]interface{}{"scenario": s.Name, "depth": d2, "completed": true, "unpruned_states": len(keys2), "unpruned_transitions": tr2, "keys_missing_in_pruned": missing, "keys_missing_in_unpruned": extraK})
		if missing > 0 || extraK > 0 {
			c.EngineError(fmt.Sprintf("canonical state key is unsound for %s: %d keys reached only by the unpruned search, %d only by the pruned one (depth <= %d)", s.Name, missing, extraK, d2))
		}
	}
	for i, s := range extra {
		left := time.Until(end)
		if left < 0 {
			left = 0
		}
		e.Deadline = time.Now().Add(left / time.Duration(len(extra)-i))
		if _, ok := e.Explore(s.Name, s.Bound()); !ok {
			all = false
		}
	}
	e.Summarize(all)
	c.Set("states", states)
	c.Set("transitions", trans)
	c.Set("state_rule", "a state is a canonical key of the complete component state (private fields via bridge dump, coordinator store, request in flight, parked gates, oracle-relevant history); successors by re-executing the history on a fresh real instance plus one enabled event; invariants evaluated in every state")
	c.Set("canonicalisation_differential", diff)
	ExitCode = c.Finish()
}
