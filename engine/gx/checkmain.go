package gx

import (
	"fmt"
	"os"
	"testing"
	"time"

	"verif/engine/ev"
)

// ExitCode is what TestMain exits with (3 = engine error until a check finished).
var ExitCode = 3

func Main(m *testing.M) {
	m.Run()
	os.Exit(ExitCode)
}

// Sc names a scenario and the deviation bound explored in the quick / thorough tier.
type Sc struct {
	Name string
	Q, T int
}

func (s Sc) Bound() int {
	if ev.Tier() == "thorough" {
		return s.T
	}
	return s.Q
}

// Part is an additional, non-GX part of a check contributing to the same evidence.
type Part func(t *testing.T, c *ev.Check, e *Explorer) (exhaustive bool)

// RunCheck is the body of TestCheck for a GX check: explore every scenario to its tier bound
// (sharing the time budget), keep the violations of `prop`, write evidence, set ExitCode.
func RunCheck(t *testing.T, prop string, scs []Sc, quick, thorough time.Duration, assumptions []string, parts ...Part) {
	if os.Getenv("VERIF_WORKER") != "" {
		t.Skip()
	}
	if p := os.Getenv("VERIF_REPLAY"); p != "" {
		ExitCode = ReplayFile(t, p)
		return
	}
	c := ev.NewCheck(prop, "model_checking")
	c.Assumptions = assumptions
	e := NewExplorer(c)
	defer e.Close()
	e.Accept = func(v ev.Violation) bool { return v.Property == prop }
	budget := ev.Deadline(quick, thorough)
	end := time.Now().Add(budget)
	scEnd := end
	if len(parts) > 0 {
		scEnd = time.Now().Add(budget * 55 / 100) // the rest of the budget belongs to the parts
	}
	all := true
	var cutList []string
	for i, s := range scs {
		left := time.Until(scEnd)
		if left < 0 {
			left = 0
		}
		e.Deadline = time.Now().Add(left / time.Duration(len(scs)-i))
		done, ok := e.Explore(s.Name, s.Bound())
		if !ok {
			all = false
			cutList = append(cutList, fmt.Sprintf("%s: completed bound %d of %d", s.Name, done, s.Bound()))
		}
	}
	for _, p := range parts {
		e.Deadline = end
		if !p(t, c, e) {
			all = false
		}
	}
	e.Summarize(all)
	if len(cutList) > 0 {
		c.Set("cut_by_internal_deadline", cutList)
	}
	c.Set("bound_rule", "deviation = choosing a non-first enabled actor (sticky postponement of the skipped ones) and/or a non-default answer variant; all executions with <= B deviations from the scenario's default policy are run; B iterated 0..bound")
	ExitCode = c.Finish()
}
