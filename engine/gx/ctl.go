// Package gx: controlled, deviation-bounded, exhaustive exploration of the real sarama
// implementation running inside testing/synctest bubbles (DESIGN.md §3).
package gx

import (
	"fmt"
	"hash/fnv"
	"os"
	"runtime"
	"sort"
	"strconv"
	"strings"
	"sync"
	"testing/synctest"
	"time"
)

// Variant is one way an actor can act (only broker answers have several).
type Variant struct {
	Name string
	Do   func()
}

// Actor is something the controller can let happen at a decision point.
type Actor struct {
	Label string // stable across runs
	Rank  int    // default priority class (lower first)
	// Urgent actors pre-empt everything else: while one is enabled only urgent actors are offered.
	// Used to make a window atomic in which a sarama goroutine that owns a multi-way select is
	// blocked mid-body (two senders queueing on that select would be resolved by Go's random
	// select order, which the controller cannot own).
	Urgent bool
	// Last actors come after everything else, postponed actors included: they are the default only when
	// nothing else can happen (an environment change that "happens once the system has settled").
	Last     bool
	Variants []Variant
}

// Choice is one decision: index into the flattened enabled list, plus its label so that a replay
// that diverges is detected instead of silently exploring something else.
type Choice struct {
	I int    `json:"i"`
	L string `json:"l"`
}

type parked struct {
	label string
	site  string
	ch    chan struct{}
}

// Ctl is the controller of one execution.
type Ctl struct {
	prefix []Choice

	Choices []Choice
	Points  [][]string // flattened labels of every decision point
	Costs   [][]int    // deviation cost of every entry

	postponed map[string]bool

	mu       sync.Mutex
	parked   []*parked
	goInc    map[string]map[uint64]int
	SiteHits map[string]int

	// AutoRelease decides which gate sites are not decision points in this scenario.
	AutoRelease func(site string) bool
	// OnPark is called (on the parking goroutine) when a gate that is a decision point is reached.
	OnPark func(site, label string)
	// OnHit is called (on the goroutine passing the gate) for every gate hit, parked or not.
	OnHit func(site, topic string, n int32)
	// GateRank gives the default priority class of a parked gate (default 0).
	GateRank func(site string) int
	// Providers return further enabled actors (answers, application operations, ticks, closes).
	Providers []func() []Actor
	// Digest returns a fingerprint string of the visible state (only measured, never used for pruning).
	Digest func() string

	Fps       []uint64
	EngineErr string
	Panics    []string
	Stuck     bool
	StepLimit bool
	// StepLimitOutcome: the rig judges an execution that reached the step limit itself (a system that keeps
	// itself busy for ever instead of ending is a verdict for rigs with a progress clause, not an engine error)
	StepLimitOutcome bool
	MaxSteps         int
	Horizon          time.Duration
	MaxEnabled       int
	dead             bool

	// HaltAfterPrefix (explicit-state search): stop at the first decision point after the prefix,
	// recording the enabled entries as Frontier instead of choosing one.
	HaltAfterPrefix bool
	Halted          bool
	Frontier        []string
}

func newCtl(prefix []Choice) *Ctl {
	return &Ctl{prefix: prefix, postponed: map[string]bool{}, goInc: map[string]map[uint64]int{}, SiteHits: map[string]int{},
		MaxSteps: envInt("VERIF_MAXSTEPS", 3000), Horizon: 10 * time.Minute}
}

func goid() uint64 {
	var b [64]byte
	s := string(b[:runtime.Stack(b[:], false)])
	f := strings.Fields(s)
	n, _ := strconv.ParseUint(f[1], 10, 64)
	return n
}

// Gate is installed as sarama.VerifGateFn for the duration of one execution.
func (c *Ctl) Gate(site, topic string, n int32) {
	if c.OnHit != nil {
		c.OnHit(site, topic, n)
	}
	c.mu.Lock()
	c.SiteHits[site]++
	if c.dead || (c.AutoRelease != nil && c.AutoRelease(site)) {
		c.mu.Unlock()
		return
	}
	label := fmt.Sprintf("%s(%s,%d)", site, topic, n)
	if site == "bridge.take" {
		// distinguish the bridge goroutines of successive broker workers for the same broker id
		m := c.goInc[label]
		if m == nil {
			m = map[uint64]int{}
			c.goInc[label] = m
		}
		g := goid()
		inc, ok := m[g]
		if !ok {
			inc = len(m)
			m[g] = inc
		}
		label = fmt.Sprintf("%s#%d", label, inc)
	}
	base, k := label, 1
	for dup := true; dup; {
		dup = false
		for _, p := range c.parked {
			if p.label == label {
				k++
				label = fmt.Sprintf("%s~%d", base, k)
				dup = true
				break
			}
		}
	}
	p := &parked{label: label, site: site, ch: make(chan struct{})}
	c.parked = append(c.parked, p)
	c.mu.Unlock()
	if c.OnPark != nil {
		c.OnPark(site, label)
	}
	<-p.ch
}

// ReleaseAll lets every parked goroutine go and turns all gates into no-ops (teardown).
func (c *Ctl) ReleaseAll() {
	c.mu.Lock()
	c.dead = true
	pk := c.parked
	c.parked = nil
	c.mu.Unlock()
	for _, p := range pk {
		close(p.ch)
	}
}

func (c *Ctl) Parked() []string {
	c.mu.Lock()
	defer c.mu.Unlock()
	var l []string
	for _, p := range c.parked {
		l = append(l, p.label)
	}
	sort.Strings(l)
	return l
}

func (c *Ctl) enabled() []Actor {
	c.mu.Lock()
	pk := append([]*parked(nil), c.parked...)
	c.mu.Unlock()
	sort.Slice(pk, func(i, j int) bool { return pk[i].label < pk[j].label })
	var acts []Actor
	for _, g := range pk {
		g := g
		rank := 0
		if c.GateRank != nil {
			rank = c.GateRank(g.site)
		}
		acts = append(acts, Actor{Label: "rel:" + g.label, Rank: rank, Variants: []Variant{{"", func() {
			c.mu.Lock()
			for i := range c.parked {
				if c.parked[i] == g {
					c.parked = append(c.parked[:i], c.parked[i+1:]...)
					break
				}
			}
			c.mu.Unlock()
			close(g.ch)
		}}}})
	}
	for _, p := range c.Providers {
		acts = append(acts, p()...)
	}
	urgent := false
	for _, a := range acts {
		urgent = urgent || a.Urgent
	}
	if urgent {
		var u []Actor
		for _, a := range acts {
			if a.Urgent {
				u = append(u, a)
			}
		}
		acts = u
	}
	sort.SliceStable(acts, func(i, j int) bool {
		if acts[i].Last != acts[j].Last {
			return !acts[i].Last
		}
		pi, pj := c.postponed[acts[i].Label], c.postponed[acts[j].Label]
		if pi != pj {
			return !pi
		}
		return acts[i].Rank < acts[j].Rank
	})
	return acts
}

func (c *Ctl) fail(format string, a ...interface{}) {
	if c.EngineErr == "" {
		c.EngineErr = fmt.Sprintf(format, a...)
	}
}

// Loop drives the execution: wait for quiescence, list the enabled actors, take the next choice
// (replayed prefix first, then default = entry 0), until nothing is enabled and done() holds.
func (c *Ctl) Loop(done func() bool) {
	idle, level := 0, 0
	idleSteps := []time.Duration{100 * time.Millisecond, time.Second, 30 * time.Second, 0}
	for steps := 0; ; steps++ {
		synctest.Wait()
		if c.EngineErr != "" {
			return
		}
		acts := c.enabled()
		if len(acts) == 0 {
			if done() {
				return
			}
			// nothing can happen now: let fake time run so that pending back-offs, deadlines and tickers
			// expire (costs no wall-clock time). Escalating: first just enough for a back-off (100 ms), then a
			// second, then the long horizon; the level resets when something became enabled, the total
			// number of idle sleeps per execution is capped.
			if idle < 12 && level < len(idleSteps) {
				d := idleSteps[level]
				if level == len(idleSteps)-1 {
					d = c.Horizon
				}
				idle++
				level++
				if os.Getenv("VERIF_LOG") != "" {
					fmt.Printf("[gx] nothing enabled after %d choices: idle sleep %v (#%d)\n", len(c.Choices), d, idle)
				}
				time.Sleep(d)
				continue
			}
			c.Stuck = true
			return
		}
		level = 0
		if steps >= c.MaxSteps {
			c.StepLimit = true
			return
		}
		var labels []string
		var costs []int
		type ent struct{ a, v int }
		var ents []ent
		for i, a := range acts {
			for j, v := range a.Variants {
				l := a.Label
				if v.Name != "" {
					l += "=" + v.Name
				}
				cost := 0
				if i > 0 {
					cost++
				}
				if j > 0 {
					cost++
				}
				labels = append(labels, l)
				costs = append(costs, cost)
				ents = append(ents, ent{i, j})
			}
		}
		if len(labels) > c.MaxEnabled {
			c.MaxEnabled = len(labels)
		}
		c.Points = append(c.Points, labels)
		c.Costs = append(c.Costs, costs)
		if c.Digest != nil {
			h := fnv.New64a()
			h.Write([]byte(strings.Join(labels, "|")))
			h.Write([]byte{0})
			h.Write([]byte(c.Digest()))
			c.Fps = append(c.Fps, h.Sum64())
		}
		if c.HaltAfterPrefix && len(c.Choices) >= len(c.prefix) && len(labels) > 1 {
			// forced moves (a single enabled entry) are followed without halting: they do not branch
			c.Halted = true
			c.Frontier = labels
			return
		}
		idx := 0
		pos := len(c.Choices)
		if pos < len(c.prefix) {
			idx = c.prefix[pos].I
			if idx >= len(labels) || labels[idx] != c.prefix[pos].L {
				c.fail("replay diverged at decision %d: want [%d]%q, enabled %v; trace so far %v", pos, idx, c.prefix[pos].L, labels, c.Trace())
				return
			}
		}
		if os.Getenv("VERIF_LOG") != "" {
			fmt.Printf("[gx] t=%s choose %q of %v\n", time.Now().Format("15:04:05.000"), labels[idx], labels)
		}
		c.Choices = append(c.Choices, Choice{idx, labels[idx]})
		e := ents[idx]
		for k := 0; k < e.a; k++ {
			c.postponed[acts[k].Label] = true
		}
		delete(c.postponed, acts[e.a].Label)
		acts[e.a].Variants[e.v].Do()
	}
}

func (c *Ctl) Trace() []string {
	var t []string
	for _, ch := range c.Choices {
		t = append(t, ch.L)
	}
	return t
}

// Deviations is the total deviation cost of the choices taken.
func (c *Ctl) Deviations() int {
	d := 0
	for i, ch := range c.Choices {
		d += c.Costs[i][ch.I]
	}
	return d
}

// Trailing counts how many of the most recent choices carry a label with the given prefix
// (used to stop offering "let time pass" when it demonstrably changes nothing any more).
func (c *Ctl) Trailing(prefix string) int {
	n := 0
	for i := len(c.Choices) - 1; i >= 0 && strings.HasPrefix(c.Choices[i].L, prefix); i-- {
		n++
	}
	return n
}

func envInt(k string, def int) int {
	if v := os.Getenv(k); v != "" {
		if n, err := strconv.Atoi(v); err == nil {
			return n
		}
	}
	return def
}

// TrailingAny counts the most recent consecutive choices whose label contains any of the given substrings.
func (c *Ctl) TrailingAny(subs ...string) int {
	n := 0
	for i := len(c.Choices) - 1; i >= 0; i-- {
		hit := false
		for _, s := range subs {
			if strings.Contains(c.Choices[i].L, s) {
				hit = true
			}
		}
		if !hit {
			break
		}
		n++
	}
	return n
}

// CountPrefix counts the choices taken so far whose label starts with prefix.
func (c *Ctl) CountPrefix(prefix string) int {
	n := 0
	for _, ch := range c.Choices {
		if strings.HasPrefix(ch.L, prefix) {
			n++
		}
	}
	return n
}
