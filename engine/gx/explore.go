package gx

import (
	"bufio"
	"encoding/json"
	"fmt"
	"io"
	"log"
	"net/url"
	"os"
	"os/exec"
	"runtime"
	"runtime/debug"
	"sort"
	"strings"
	"sync"
	"sync/atomic"
	"testing"
	"testing/synctest"
	"time"

	"github.com/Shopify/sarama"
	metrics "github.com/rcrowley/go-metrics"

	"verif/engine/ev"
)

// Outcome is what a scenario reports about one complete execution.
type Outcome struct {
	Violations []ev.Violation // Replay is filled in by the explorer
	Obs        string         // terminal observation (for counting distinct outcomes)
	Stats      map[string]int // exercised fault kinds etc.
	Detail     string         // free-form log printed by --replay
	Key        string         // canonical state key (explicit-state search only)
}

func (o *Outcome) Violate(property, signature, format string, a ...interface{}) {
	o.Violations = append(o.Violations, ev.Violation{Property: property, Signature: signature, Message: fmt.Sprintf(format, a...)})
}

func (o *Outcome) Stat(k string) {
	if o.Stats == nil {
		o.Stats = map[string]int{}
	}
	o.Stats[k]++
}

// Scenario: Run executes inside a fresh bubble; it builds the system under test, registers its
// providers on c, calls c.Loop, evaluates its oracles and tears the system down.
type Scenario struct {
	Name string
	Run  func(c *Ctl) *Outcome
}

type Factory func(p url.Values) (*Scenario, error)

var rigs = map[string]Factory{}

func RegisterRig(name string, f Factory) { rigs[name] = f }

// Lookup builds the scenario named "rig?k=v&k=v".
func Lookup(name string) (*Scenario, error) {
	rig, q, _ := strings.Cut(name, "?")
	f := rigs[rig]
	if f == nil {
		return nil, fmt.Errorf("unknown rig %q", rig)
	}
	v, err := url.ParseQuery(q)
	if err != nil {
		return nil, err
	}
	sc, err := f(v)
	if err != nil {
		return nil, err
	}
	sc.Name = name
	return sc, nil
}

type Result struct {
	Scenario   string
	Choices    []Choice
	Points     [][]string
	Costs      [][]int
	Outcome    *Outcome
	Leaked     bool
	EngineErr  string
	Fps        []uint64
	MaxEnabled int
	SiteHits   map[string]int
	Panics     []string
	Stuck      bool
	Halted     bool
	Frontier   []string
}

var execMu sync.Mutex
var warm sync.Once

// Execute runs one execution of sc following prefix, then defaults.
func Execute(t *testing.T, sc *Scenario, prefix []Choice) *Result {
	return execute(t, sc, prefix, false)
}

// ExecuteHalt runs the prefix and halts at the next decision point (explicit-state search).
func ExecuteHalt(t *testing.T, sc *Scenario, prefix []Choice) *Result {
	return execute(t, sc, prefix, true)
}

func execute(t *testing.T, sc *Scenario, prefix []Choice, halt bool) *Result {
	execMu.Lock()
	defer execMu.Unlock()
	metrics.UseNilMetrics = true
	warm.Do(sarama.VerifWarmup)
	if os.Getenv("VERIF_LOG") != "" {
		sarama.Logger = log.New(os.Stdout, "[sarama] ", 0)
	}
	res := &Result{Scenario: sc.Name}
	done := make(chan struct{})
	go func() {
		defer close(done)
		defer func() {
			sarama.VerifGateFn = nil
			sarama.VerifPickFn = nil
			if r := recover(); r != nil {
				if strings.Contains(fmt.Sprint(r), "blocked goroutines remain") {
					res.Leaked = true
				} else {
					res.EngineErr = fmt.Sprintf("panic in controller: %v\n%s", r, debug.Stack())
				}
			}
		}()
		synctest.Test(t, func(t *testing.T) {
			c := newCtl(prefix)
			c.HaltAfterPrefix = halt
			sarama.VerifGateFn = c.Gate
			// client.any() iterates a Go map when all seeds are gone: own that choice (lowest broker id);
			// a rig that wants to explore the alternatives installs its own picker
			sarama.VerifPickFn = func(brokers map[int32]*sarama.Broker) *sarama.Broker {
				var best *sarama.Broker
				for id, b := range brokers {
					if best == nil || id < best.ID() {
						best = b
					}
				}
				return best
			}
			sarama.PanicHandler = func(v interface{}) {
				c.mu.Lock()
				c.Panics = append(c.Panics, fmt.Sprintf("%v\n%s", v, debug.Stack()))
				c.mu.Unlock()
			}
			var out *Outcome
			func() {
				defer func() {
					if r := recover(); r != nil {
						// a panic on the controller's own goroutine is a harness bug, never a verdict
						c.fail("panic in scenario body: %v\n%s", r, debug.Stack())
					}
				}()
				out = sc.Run(c)
			}()
			c.ReleaseAll()
			res.Outcome = out
			res.Choices, res.Points, res.Costs = c.Choices, c.Points, c.Costs
			res.Fps, res.MaxEnabled, res.SiteHits = c.Fps, c.MaxEnabled, c.SiteHits
			res.Panics, res.Stuck = c.Panics, c.Stuck
			res.Halted, res.Frontier = c.Halted, c.Frontier
			if c.EngineErr != "" {
				res.EngineErr = c.EngineErr
			}
			if c.StepLimit && res.EngineErr == "" && !c.StepLimitOutcome {
				res.EngineErr = fmt.Sprintf("step limit %d reached; trace tail %v", c.MaxSteps, tail(c.Trace(), 12))
			}
		})
	}()
	<-done
	if res.Outcome == nil && res.EngineErr == "" {
		res.EngineErr = "execution ended without outcome"
	}
	return res
}

func tail(s []string, n int) []string {
	if len(s) > n {
		return s[len(s)-n:]
	}
	return s
}

// ---------------------------------------------------------------------------------------------
// worker protocol

type Task struct {
	ID       int      `json:"id"`
	Scenario string   `json:"scenario"`
	Prefix   []Choice `json:"prefix"`
	Bound    int      `json:"bound"`
	Split    int      `json:"split"`    // >0: execute the prefix run only and hand the children back as tasks
	Twice    int      `json:"twice"`    // re-execute the first n runs and require identical observations
	Deadline int64    `json:"deadline"` // unix seconds; 0 = none
	Mode     string   `json:"mode"`     // "" = deviation-bounded DFS, "bfs" = expand one state
}

type Replay struct {
	Scenario string   `json:"scenario"`
	Choices  []Choice `json:"choices"`
	Trace    []string `json:"trace,omitempty"`
}

type Reply struct {
	ID         int            `json:"id"`
	Execs      int            `json:"execs"`
	Points     int            `json:"points"`
	Fps        []uint64       `json:"fps"`
	Obs        map[string]int `json:"obs"`
	Stats      map[string]int `json:"stats"`
	Sites      map[string]int `json:"sites"`
	Violations []ev.Violation `json:"violations"`
	NewTasks   []Task         `json:"new_tasks"`
	Leaked     int            `json:"leaked"`
	Rechecked  int            `json:"rechecked"`
	EngineErr  string         `json:"engine_err"`
	Nondet     []string       `json:"nondet"` // executions that did not reproduce (pruned with their subtrees)
	Cut        bool           `json:"cut"`
	MaxEnabled int            `json:"max_enabled"`
	Sample     *Replay        `json:"sample"`
	Recycle    bool           `json:"recycle"`
	Key        string         `json:"key"`
	Frontier   []string       `json:"frontier"`
	Halted     bool           `json:"halted"`
	Path       []Choice       `json:"path"`
}

type workerState struct {
	t        *testing.T
	scratch  *os.File
	last     atomic.Int64
	leaked   int
	scenario map[string]*Scenario
}

func (w *workerState) lookup(name string) (*Scenario, error) {
	if sc := w.scenario[name]; sc != nil {
		return sc, nil
	}
	sc, err := Lookup(name)
	if err == nil {
		w.scenario[name] = sc
	}
	return sc, err
}

func (w *workerState) note(sc string, prefix []Choice) {
	w.last.Store(time.Now().UnixNano())
	if w.scratch != nil {
		b, _ := json.Marshal(Replay{Scenario: sc, Choices: prefix})
		w.scratch.Truncate(0)
		w.scratch.WriteAt(b, 0)
	}
}

func fold(rep *Reply, fps map[uint64]struct{}, r *Result) {
	rep.Execs++
	rep.Points += len(r.Points)
	for _, f := range r.Fps {
		fps[f] = struct{}{}
	}
	if r.MaxEnabled > rep.MaxEnabled {
		rep.MaxEnabled = r.MaxEnabled
	}
	if r.Leaked {
		rep.Leaked++
	}
	for k, v := range r.SiteHits {
		rep.Sites[k] += v
	}
	if r.Outcome != nil {
		rep.Obs[r.Outcome.Obs]++
		for k, v := range r.Outcome.Stats {
			rep.Stats[k] += v
		}
		for _, v := range r.Outcome.Violations {
			v.Check = r.Scenario
			tr := []string{}
			for _, c := range r.Choices {
				tr = append(tr, c.L)
			}
			v.Replay = Replay{Scenario: r.Scenario, Choices: r.Choices, Trace: tr}
			rep.Violations = append(rep.Violations, v)
		}
	}
	if rep.Sample == nil {
		tr := []string{}
		for _, c := range r.Choices {
			tr = append(tr, c.L)
		}
		rep.Sample = &Replay{Scenario: r.Scenario, Choices: nil, Trace: tr}
	}
}

func devOf(r *Result, upto int) int {
	d := 0
	for i := 0; i < upto && i < len(r.Choices); i++ {
		d += r.Costs[i][r.Choices[i].I]
	}
	return d
}

func (w *workerState) run(task Task) Reply {
	rep := Reply{ID: task.ID, Obs: map[string]int{}, Stats: map[string]int{}, Sites: map[string]int{}}
	sc, err := w.lookup(task.Scenario)
	if err != nil {
		rep.EngineErr = err.Error()
		return rep
	}
	if task.Mode == "bfs" {
		w.note(task.Scenario, task.Prefix)
		r := ExecuteHalt(w.t, sc, task.Prefix)
		if r.EngineErr != "" {
			rep.EngineErr = fmt.Sprintf("%s\n  scenario=%s prefix=%v", r.EngineErr, task.Scenario, task.Prefix)
			return rep
		}
		fold(&rep, map[uint64]struct{}{}, r)
		if r.Leaked {
			w.leaked++
		}
		rep.Halted, rep.Frontier, rep.Path = r.Halted, r.Frontier, r.Choices
		if r.Outcome != nil {
			rep.Key = r.Outcome.Key
		}
		if task.Twice > 0 {
			r2 := ExecuteHalt(w.t, sc, task.Prefix)
			rep.Rechecked++
			if r2.Leaked {
				w.leaked++
			}
			differs := func(x *Result) bool {
				return x.EngineErr != "" || fmt.Sprint(x.Frontier) != fmt.Sprint(r.Frontier) || x.Outcome == nil || x.Outcome.Key != rep.Key
			}
			if differs(r2) {
				// as in the depth-first mode: an execution that does not reproduce (a choice sarama makes by map order or by a
				// two-way select) is left out with everything behind it and reported; its siblings go on. Two more tries first.
				again := false
				for k := 0; k < 2 && !again; k++ {
					rk := ExecuteHalt(w.t, sc, task.Prefix)
					rep.Rechecked++
					if rk.Leaked {
						w.leaked++
					}
					again = !differs(rk)
				}
				if again {
					rep.Stats["bfs-state-reproduced-after-retry"]++
				} else {
					rep.Nondet = append(rep.Nondet, fmt.Sprintf("NONDETERMINISM (bfs): re-execution differs\n  scenario=%s prefix=%v\n  first=%v %s\n  second=%v %s", task.Scenario, task.Prefix, r.Frontier, rep.Key, r2.Frontier, r2.EngineErr))
					rep.Frontier = nil
				}
			}
		}
		if w.leaked > 400 {
			rep.Recycle = true
		}
		return rep
	}
	fps := map[uint64]struct{}{}
	twice := task.Twice
	var explore func(prefix []Choice)
	explore = func(prefix []Choice) {
		if rep.EngineErr != "" || rep.Cut {
			return
		}
		if task.Deadline > 0 && time.Now().Unix() > task.Deadline {
			rep.Cut = true
			return
		}
		w.note(task.Scenario, prefix)
		r := Execute(w.t, sc, prefix)
		if strings.HasPrefix(r.EngineErr, "replay diverged at decision") && len(rep.Nondet) < 16 {
			// the prefix was recorded from a real execution and does not replay: the implementation resolved
			// something at random on the way (unowned nondeterminism); this subtree is left out
			rep.Nondet = append(rep.Nondet, fmt.Sprintf("%s\n  scenario=%s prefix=%v", r.EngineErr, task.Scenario, prefix))
			return
		}
		if r.EngineErr != "" {
			rep.EngineErr = fmt.Sprintf("%s\n  scenario=%s prefix=%v", r.EngineErr, task.Scenario, prefix)
			return
		}
		fold(&rep, fps, r)
		if r.Leaked {
			w.leaked++
		}
		recheck := twice > 0 || (r.Outcome != nil && len(r.Outcome.Violations) > 0)
		if recheck {
			if twice > 0 {
				twice--
			}
			r2 := Execute(w.t, sc, r.Choices)
			rep.Rechecked++
			if r2.Leaked {
				w.leaked++
			}
			same := func(x *Result) bool {
				return x.EngineErr == "" && fmt.Sprint(x.Points) == fmt.Sprint(r.Points) && obsOf(x) == obsOf(r)
			}
			ok := same(r2)
			if !ok && r.Outcome != nil && len(r.Outcome.Violations) > 0 {
				// a violating execution that does not reproduce at the first attempt: the implementation itself
				// resolved something at random (a select with two ready cases that no gate separates). The
				// violation was observed on the real code; it is kept if the same schedule reproduces it in one
				// of four further attempts (the artefact then replays with that probability), dropped as an
				// engine error otherwise.
				for k := 0; k < 4 && !ok; k++ {
					rk := Execute(w.t, sc, r.Choices)
					rep.Rechecked++
					if rk.Leaked {
						w.leaked++
					}
					ok = same(rk)
				}
				if ok {
					rep.Stats["violations-reproduced-after-retry"]++
				}
			}
			if !ok {
				msg := fmt.Sprintf("NONDETERMINISM: re-execution differs\n  scenario=%s choices=%v\n  first=%s\n  second=%s %s", task.Scenario, r.Choices, obsOf(r), obsOf(r2), r2.EngineErr)
				if len(rep.Nondet) < 16 {
					rep.Nondet = append(rep.Nondet, msg) // this execution's subtree is left out; its siblings go on
				} else {
					rep.EngineErr = msg
				}
				return
			}
		}
		base := devOf(r, len(prefix))
		d := base
		for i := len(prefix); i < len(r.Choices); i++ {
			for alt := 0; alt < len(r.Points[i]); alt++ {
				if alt == r.Choices[i].I {
					continue
				}
				if d+r.Costs[i][alt] > task.Bound {
					continue
				}
				np := append(append([]Choice{}, r.Choices[:i]...), Choice{alt, r.Points[i][alt]})
				if task.Split > 0 {
					rep.NewTasks = append(rep.NewTasks, Task{Scenario: task.Scenario, Prefix: np, Bound: task.Bound, Split: task.Split - 1, Deadline: task.Deadline})
				} else {
					explore(np)
				}
			}
			d += r.Costs[i][r.Choices[i].I]
		}
	}
	explore(task.Prefix)
	for f := range fps {
		rep.Fps = append(rep.Fps, f)
	}
	if w.leaked > 400 {
		rep.Recycle = true
	}
	return rep
}

func obsOf(r *Result) string {
	if r.Outcome == nil {
		return "<none>"
	}
	s := r.Outcome.Obs
	for _, v := range r.Outcome.Violations {
		s += " !" + v.Signature
	}
	return s
}

// WorkerMain is the body of TestWorker in every GX check package: serve tasks from stdin, reply on fd 3.
func WorkerMain(t *testing.T) {
	if os.Getenv("VERIF_WORKER") == "" {
		t.Skip("worker entry point")
	}
	debug.SetGCPercent(400)
	out := os.NewFile(3, "reply")
	w := &workerState{t: t, scenario: map[string]*Scenario{}}
	if p := os.Getenv("VERIF_SCRATCH"); p != "" {
		w.scratch, _ = os.OpenFile(p, os.O_CREATE|os.O_RDWR|os.O_TRUNC, 0o644)
	}
	w.last.Store(time.Now().UnixNano())
	busy := atomic.Bool{}
	go func() { // watchdog: an execution that makes no progress for 120 s of wall time is an engine error
		for {
			time.Sleep(5 * time.Second)
			if busy.Load() && time.Since(time.Unix(0, w.last.Load())) > 120*time.Second {
				fmt.Fprintln(os.Stderr, "worker watchdog: execution hung")
				os.Exit(4)
			}
		}
	}()
	in := bufio.NewReaderSize(os.Stdin, 1<<20)
	enc := json.NewEncoder(out)
	for {
		line, err := in.ReadBytes('\n')
		if err != nil {
			return
		}
		var task Task
		if err := json.Unmarshal(line, &task); err != nil {
			fmt.Fprintln(os.Stderr, "bad task:", err)
			os.Exit(5)
		}
		busy.Store(true)
		rep := w.run(task)
		busy.Store(false)
		if err := enc.Encode(rep); err != nil {
			os.Exit(6)
		}
		if rep.Recycle {
			return
		}
	}
}

// ---------------------------------------------------------------------------------------------
// parent side

type worker struct {
	cmd     *exec.Cmd
	stdin   io.Closer
	in      *bufio.Writer
	out     *bufio.Reader
	scratch string
}

type Explorer struct {
	Check    *ev.Check
	Workers  int
	Deadline time.Time
	// Accept says whether a violation belongs to the property being checked.
	Accept func(v ev.Violation) bool

	fps        map[uint64]struct{}
	obs        map[string]int
	stats      map[string]int
	sites      map[string]int
	seenSig    map[string]bool
	Execs      int
	PointsN    int
	Leaked     int
	Rechecked  int
	MaxEnabled int
	Scenarios  []map[string]interface{}
	wseq       int
	pmu        sync.Mutex
	idle       []*worker
	// LastPaths: for the most recent BFS, one history reaching each key (diagnostics)
	LastPaths map[string][]Choice
}

func NewExplorer(c *ev.Check) *Explorer {
	n := runtime.NumCPU()
	if v := os.Getenv("VERIF_WORKERS"); v != "" {
		fmt.Sscan(v, &n)
	}
	if n < 1 {
		n = 1
	}
	return &Explorer{Check: c, Workers: n, fps: map[uint64]struct{}{}, obs: map[string]int{}, stats: map[string]int{}, sites: map[string]int{}, seenSig: map[string]bool{}}
}

func (e *Explorer) spawn() (*worker, error) {
	e.pmu.Lock()
	e.wseq++
	seq := e.wseq
	e.pmu.Unlock()
	dir := ev.Root() + "/.build/scratch"
	os.MkdirAll(dir, 0o755)
	scratch := fmt.Sprintf("%s/%d-%d.json", dir, os.Getpid(), seq)
	cmd := exec.Command(os.Args[0], "-test.run", "^TestWorker$", "-test.timeout", "0")
	cmd.Env = append(os.Environ(), "VERIF_WORKER=1", "VERIF_SCRATCH="+scratch, "GOMAXPROCS=2")
	stdin, err := cmd.StdinPipe()
	if err != nil {
		return nil, err
	}
	pr, pw, err := os.Pipe()
	if err != nil {
		return nil, err
	}
	cmd.ExtraFiles = []*os.File{pw}
	cmd.Stdout = nil
	cmd.Stderr = os.Stderr
	if err := cmd.Start(); err != nil {
		return nil, err
	}
	pw.Close()
	return &worker{cmd: cmd, stdin: stdin, in: bufio.NewWriter(stdin), out: bufio.NewReaderSize(pr, 1<<20), scratch: scratch}, nil
}

// Explore runs the scenario exhaustively for deviation bounds 0..maxBound (iterated). It returns
// the largest bound that was completed and whether maxBound was completed.
func (e *Explorer) Explore(scenario string, maxBound int) (completed int, exhaustive bool) {
	completed = -1
	info := map[string]interface{}{"scenario": scenario, "max_bound": maxBound}
	t0 := time.Now()
	execs0 := e.Execs
	for b := 0; b <= maxBound; b++ {
		if !e.Deadline.IsZero() && time.Now().After(e.Deadline) {
			break
		}
		n0 := e.Execs
		ok := e.runBound(scenario, b)
		if !ok {
			break
		}
		completed = b
		info[fmt.Sprintf("execs_B%d", b)] = e.Execs - n0
	}
	info["completed_bound"] = completed
	info["executions"] = e.Execs - execs0
	info["wall_s"] = time.Since(t0).Seconds()
	e.Scenarios = append(e.Scenarios, info)
	fmt.Printf("  scenario %s: completed bound %d/%d, %d executions, %.1fs\n", scenario, completed, maxBound, e.Execs-execs0, time.Since(t0).Seconds())
	return completed, completed == maxBound
}

func (e *Explorer) runBound(scenario string, bound int) bool {
	split := 0
	if bound == 2 {
		split = 1
	} else if bound >= 3 {
		split = 2
	}
	var dl int64
	if !e.Deadline.IsZero() {
		dl = e.Deadline.Unix()
	}
	twice := 0
	if bound <= 1 {
		twice = 25
	}
	nw := e.Workers
	if split == 0 {
		nw = 1
	}
	return e.runTasks([]Task{{Scenario: scenario, Bound: bound, Split: split, Twice: twice, Deadline: dl}}, nw)
}

// ExploreMany explores many (small) scenarios to one bound, each wholly inside one worker, all
// workers busy: used for bounded-exhaustive enumeration of inputs through the default schedule
// (bound 0) or with a few deviations.
func (e *Explorer) ExploreMany(scenarios []string, bound int, twice int) (done int, exhaustive bool) {
	var dl int64
	if !e.Deadline.IsZero() {
		dl = e.Deadline.Unix()
	}
	t0 := time.Now()
	n0 := e.Execs
	const chunk = 4096
	exhaustive = true
	for i := 0; i < len(scenarios); i += chunk {
		if !e.Deadline.IsZero() && time.Now().After(e.Deadline) {
			exhaustive = false
			break
		}
		j := i + chunk
		if j > len(scenarios) {
			j = len(scenarios)
		}
		tasks := make([]Task, 0, j-i)
		for k := j - 1; k >= i; k-- { // the queue is a stack: keep enumeration order
			tasks = append(tasks, Task{Scenario: scenarios[k], Bound: bound, Twice: twice, Deadline: dl})
		}
		if !e.runTasks(tasks, e.Workers) {
			exhaustive = false
			break
		}
		done = j
	}
	e.Scenarios = append(e.Scenarios, map[string]interface{}{"family_size": len(scenarios), "family_done": done, "bound": bound,
		"executions": e.Execs - n0, "wall_s": time.Since(t0).Seconds(), "first": scenarios[0], "last": scenarios[len(scenarios)-1]})
	fmt.Printf("  family of %d scenarios (first %s): %d completed at bound %d, %d executions, %.1fs\n", len(scenarios), scenarios[0], done, bound, e.Execs-n0, time.Since(t0).Seconds())
	return done, exhaustive
}

func (e *Explorer) getWorker() (*worker, error) {
	e.pmu.Lock()
	if n := len(e.idle); n > 0 {
		w := e.idle[n-1]
		e.idle = e.idle[:n-1]
		e.pmu.Unlock()
		return w, nil
	}
	e.pmu.Unlock()
	return e.spawn()
}

func (e *Explorer) putWorker(w *worker) {
	e.pmu.Lock()
	e.idle = append(e.idle, w)
	e.pmu.Unlock()
}

func (w *worker) kill() {
	w.in.Flush()
	if os.Getenv("VERIF_COVERDIR") != "" && w.stdin != nil {
		// diagnostic builds (tools/coverage.sh): a killed process writes no coverage counters; end of input makes the
		// worker leave on its own
		w.stdin.Close()
		done := make(chan struct{})
		go func() { w.cmd.Wait(); close(done) }()
		select {
		case <-done:
			os.Remove(w.scratch)
			return
		case <-time.After(5 * time.Second):
		}
	}
	w.cmd.Process.Kill()
	w.cmd.Wait()
	os.Remove(w.scratch)
}

// Close stops the worker processes.
func (e *Explorer) Close() {
	e.pmu.Lock()
	defer e.pmu.Unlock()
	for _, w := range e.idle {
		w.kill()
	}
	e.idle = nil
}

func (e *Explorer) runTasks(initial []Task, nw int) bool { return e.runTasksCB(initial, nw, nil) }

func (e *Explorer) runTasksCB(initial []Task, nw int, onReply func(t Task, r *Reply)) bool {
	var mu sync.Mutex
	cond := sync.NewCond(&mu)
	queue := initial
	inflight := 0
	nextID := 0
	cut := false
	failed := false
	var wg sync.WaitGroup
	if nw > len(initial) && len(initial) > 1 {
		nw = len(initial)
	}
	for i := 0; i < nw; i++ {
		wg.Add(1)
		go func() {
			defer wg.Done()
			var w *worker
			defer func() {
				if w != nil {
					e.putWorker(w)
				}
			}()
			for {
				mu.Lock()
				for len(queue) == 0 && inflight > 0 && !failed {
					cond.Wait()
				}
				if failed || (len(queue) == 0 && inflight == 0) {
					mu.Unlock()
					cond.Broadcast()
					return
				}
				task := queue[len(queue)-1]
				queue = queue[:len(queue)-1]
				nextID++
				task.ID = nextID
				inflight++
				mu.Unlock()

				var rep Reply
				var err error
				if w == nil {
					w, err = e.getWorker()
				}
				if err == nil {
					b, _ := json.Marshal(task)
					w.in.Write(append(b, '\n'))
					err = w.in.Flush()
				}
				var line []byte
				if err == nil {
					line, err = w.out.ReadBytes('\n')
				}
				if err == nil {
					err = json.Unmarshal(line, &rep)
				}
				mu.Lock()
				inflight--
				if err != nil {
					if w == nil {
						e.Check.EngineError(fmt.Sprintf("cannot start worker: %v", err))
						failed = true
					} else {
						// the worker died: the scratch file names the execution it was running
						culprit, _ := os.ReadFile(w.scratch)
						w.cmd.Process.Kill()
						werr := w.cmd.Wait()
						os.Remove(w.scratch)
						w = nil
						var rp Replay
						if ee, ok := werr.(*exec.ExitError); ok && ee.ExitCode() == 4 {
							// the worker's own watchdog: an execution made no progress for 120 s of wall time;
							// that is a harness problem until proven otherwise, never a verdict
							e.Check.EngineError(fmt.Sprintf("execution hung (worker watchdog): %s", culprit))
							failed = true
						} else if json.Unmarshal(culprit, &rp) == nil && rp.Scenario != "" {
							v := ev.Violation{Property: e.Check.Property, Signature: "worker-died", Check: task.Scenario, Replay: rp,
								Message: fmt.Sprintf("the process executing this schedule died (%v): unrecovered panic, fatal runtime error or watchdog", werr)}
							if e.Accept == nil || e.Accept(v) {
								e.Check.Report(v)
							}
						} else {
							e.Check.EngineError(fmt.Sprintf("worker died without culprit: %v / %v", err, werr))
							failed = true
						}
					}
				} else {
					e.merge(&rep)
					if onReply != nil {
						onReply(task, &rep)
					}
					for _, m := range rep.Nondet {
						e.Check.Nondeterminism(m)
					}
					if rep.EngineErr != "" {
						e.Check.EngineError(rep.EngineErr)
						failed = true
					}
					if rep.Cut {
						cut = true
					}
					queue = append(queue, rep.NewTasks...)
					if rep.Recycle {
						w.in.Flush()
						w.cmd.Wait()
						os.Remove(w.scratch)
						w = nil
					}
				}
				mu.Unlock()
				cond.Broadcast()
			}
		}()
	}
	wg.Wait()
	return !cut && !failed
}

func (e *Explorer) merge(rep *Reply) {
	e.Execs += rep.Execs
	e.PointsN += rep.Points
	e.Leaked += rep.Leaked
	e.Rechecked += rep.Rechecked
	if rep.MaxEnabled > e.MaxEnabled {
		e.MaxEnabled = rep.MaxEnabled
	}
	for _, f := range rep.Fps {
		e.fps[f] = struct{}{}
	}
	for k, v := range rep.Obs {
		e.obs[k] += v
	}
	for k, v := range rep.Stats {
		e.stats[k] += v
	}
	for k, v := range rep.Sites {
		e.sites[k] += v
	}
	if rep.Sample != nil && rep.Execs > 0 {
		e.Check.AddSample(map[string]interface{}{"scenario": rep.Sample.Scenario, "trace": rep.Sample.Trace})
	}
	for _, v := range rep.Violations {
		if e.Accept != nil && !e.Accept(v) {
			e.stats["other-property-violations:"+v.Property+":"+v.Signature]++
			continue
		}
		key := v.Property + "|" + v.Signature // one artefact per defect class; the others are counted
		e.stats["violating-executions:"+v.Property+":"+v.Signature]++
		if e.seenSig[key] {
			continue
		}
		e.seenSig[key] = true
		e.Check.Report(v)
	}
}

// Summarize writes the aggregate model-checking coverage keys into the check's evidence.
func (e *Explorer) Summarize(exhaustive bool) {
	c := e.Check
	c.Set("states", len(e.fps))
	c.Set("transitions", e.PointsN)
	c.Set("traces_validated_against_impl", e.Execs)
	c.Set("executions", e.Execs)
	c.Set("replayed_twice_for_determinism", e.Rechecked)
	c.Set("distinct_terminal_observations", len(e.obs))
	c.Set("leaked_runs_info", e.Leaked)
	c.Set("max_enabled", e.MaxEnabled)
	c.Set("exhaustive", exhaustive)
	c.Set("scenarios", e.Scenarios)
	st := map[string]int{}
	for k, v := range e.stats {
		st[k] = v
	}
	c.Set("exercised", st)
	c.Set("gate_site_hits", e.sites)
	keys := []string{}
	for k := range e.obs {
		keys = append(keys, k)
	}
	sort.Strings(keys)
	if len(keys) > 12 {
		keys = keys[:12]
	}
	c.Set("observation_samples", keys)
}

// ReplayFile re-executes the schedule stored in a violation artefact and prints what happens.
func ReplayFile(t *testing.T, path string) int {
	b, err := os.ReadFile(path)
	if err != nil {
		fmt.Println("ENGINE-ERROR", err)
		return 3
	}
	var v struct {
		Property string `json:"property"`
		Replay   Replay `json:"replay"`
	}
	if err := json.Unmarshal(b, &v); err != nil {
		fmt.Println("ENGINE-ERROR", err)
		return 3
	}
	sc, err := Lookup(v.Replay.Scenario)
	if err != nil {
		fmt.Println("ENGINE-ERROR", err)
		return 3
	}
	if n := os.Getenv("VERIF_REPLAY_N"); n != "" {
		// determinism probe: execute the same schedule many times and count distinct behaviours
		var cnt int
		fmt.Sscan(n, &cnt)
		seen := map[string]int{}
		for i := 0; i < cnt; i++ {
			r := Execute(t, sc, v.Replay.Choices)
			k := r.EngineErr
			if k == "" {
				k = fmt.Sprint(r.Points) + obsOf(r)
			}
			seen[k]++
		}
		for k, c := range seen {
			fmt.Printf("---- %d times:\n%s\n", c, k)
		}
		return 0
	}
	r := Execute(t, sc, v.Replay.Choices)
	if r.EngineErr != "" {
		fmt.Println("ENGINE-ERROR", r.EngineErr)
		for i, c := range r.Choices {
			if i < 60 {
				fmt.Printf("  %2d %s\n", i, c.L)
			}
		}
		if r.Outcome != nil {
			fmt.Printf("observation: %s\ndetail:\n%s\n", r.Outcome.Obs, r.Outcome.Detail)
		}
		return 3
	}
	fmt.Printf("scenario %s\n", sc.Name)
	for i, c := range r.Choices {
		fmt.Printf("  %2d %s\n", i, c.L)
	}
	fmt.Printf("observation: %s\n", r.Outcome.Obs)
	if r.Outcome.Detail != "" {
		fmt.Printf("detail:\n%s\n", r.Outcome.Detail)
	}
	code := 0
	for _, x := range r.Outcome.Violations {
		if v.Property != "" && x.Property != v.Property {
			fmt.Printf("(also violates %s: %s)\n", x.Property, x.Signature)
			continue
		}
		fmt.Printf("VIOLATION property=%s replay=%s\n  signature=%s\n  %s\n", x.Property, path, x.Signature, x.Message)
		code = 1
	}
	return code
}

// BFS is an explicit-state breadth-first search: a state is the history (choice list) reaching it,
// successors are obtained by re-executing the history on a fresh instance plus one enabled entry,
// the scenario's Outcome.Key is the canonical state key used for the visited set (prune=false keeps
// every history: the differential run that validates the canonicalisation). The scenario judges
// its invariants in every state. Returns the visited keys with the depth they were first seen at.
func (e *Explorer) BFS(scenario string, maxDepth int, prune bool) (keys map[string]int, transitions int, exhaustive bool) {
	keys = map[string]int{}
	e.LastPaths = map[string][]Choice{}
	var dl int64
	if !e.Deadline.IsZero() {
		dl = e.Deadline.Unix()
	}
	level := [][]Choice{nil}
	exhaustive = true
	t0 := time.Now()
	for depth := 0; depth <= maxDepth && len(level) > 0; depth++ {
		if !e.Deadline.IsZero() && time.Now().After(e.Deadline) {
			exhaustive = false
			break
		}
		tasks := make([]Task, 0, len(level))
		for i := len(level) - 1; i >= 0; i-- {
			tw := 0
			if i%50 == 0 {
				tw = 1
			}
			tasks = append(tasks, Task{Scenario: scenario, Prefix: level[i], Mode: "bfs", Twice: tw, Deadline: dl})
		}
		var mu sync.Mutex
		var next [][]Choice
		ok := e.runTasksCB(tasks, e.Workers, func(t Task, r *Reply) {
			mu.Lock()
			defer mu.Unlock()
			transitions++
			if r.EngineErr != "" || len(r.Nondet) > 0 {
				return
			}
			if _, seen := keys[r.Key]; seen && prune {
				return
			}
			if _, seen := keys[r.Key]; !seen {
				keys[r.Key] = depth
				e.LastPaths[r.Key] = r.Path
			}
			if depth == maxDepth {
				return
			}
			for i, l := range r.Frontier {
				next = append(next, append(append([]Choice{}, r.Path...), Choice{i, l}))
			}
		})
		if !ok {
			exhaustive = false
			break
		}
		// deterministic order of the next level regardless of reply arrival order
		sort.Slice(next, func(a, b int) bool { return fmt.Sprint(next[a]) < fmt.Sprint(next[b]) })
		level = next
	}
	e.Scenarios = append(e.Scenarios, map[string]interface{}{"scenario": scenario, "search": "bfs", "prune": prune, "max_depth": maxDepth,
		"states": len(keys), "transitions": transitions, "exhaustive": exhaustive, "wall_s": time.Since(t0).Seconds()})
	fmt.Printf("  bfs %s: depth<=%d prune=%v: %d states, %d transitions, exhaustive=%v, %.1fs\n", scenario, maxDepth, prune, len(keys), transitions, exhaustive, time.Since(t0).Seconds())
	return keys, transitions, exhaustive
}
