package bal

import (
	"fmt"
	"sort"
	"strings"
)

// Finding is one violated clause of C08 or C13 on one (case, outcome).
type Finding struct {
	Prop string `json:"prop"`
	Sig  string `json:"sig"`
	Msg  string `json:"msg"`
}

type tp struct {
	t string
	p int32
}

func (x tp) String() string { return fmt.Sprintf("%s/%d", x.t, x.p) }

func hasStr(l []string, s string) bool {
	for _, x := range l {
		if x == s {
			return true
		}
	}
	return false
}

// shape is the part of a signature that names the input shape: event class, number of members and of
// subscribed topics in the input, and whether all members have the same subscription.
func shape(in *Input, e Event) string {
	ident := "identical"
	for _, m := range in.Members[1:] {
		if !sameStrings(m.Subs, in.Members[0].Subs) {
			ident = "mixed"
		}
	}
	return fmt.Sprintf("event=%s members=%d topics=%d subs=%s", e.Class(), len(in.Members), len(in.Topics), ident)
}

func identicalSubs(ms []InMember) bool {
	for _, m := range ms[1:] {
		if !sameStrings(m.Subs, ms[0].Subs) {
			return false
		}
	}
	return true
}

// JudgeC08: validity. Written from the input only: subscriptions, partition counts, member ids.
//   - Plan returns (no panic; hangs are detected by the parent's watchdog) and returns no error;
//   - no unknown member, no nonexistent partition, only to a subscriber;
//   - every partition of every subscribed topic assigned exactly once.
func JudgeC08(in *Input, e Event, out *Outcome) []Finding {
	sh := shape(in, e)
	mk := func(class, msg string) Finding {
		return Finding{Prop: "C08", Sig: in.Strat + "-" + class + " " + sh, Msg: msg}
	}
	if out.Panic != "" {
		return []Finding{mk("plan-panic", "Plan panicked: "+out.Panic)}
	}
	if out.Err != "" {
		return []Finding{mk("plan-error", "Plan returned an error: "+out.Err)}
	}
	var fs []Finding
	subs := map[string][]string{}
	for _, m := range in.Members {
		subs[m.ID] = m.Subs
	}
	count := map[tp][]string{}
	var unknown, nonsub, nonexist []string
	ids := make([]string, 0, len(out.Plan))
	for id := range out.Plan {
		ids = append(ids, id)
	}
	sort.Strings(ids)
	for _, id := range ids {
		ss, known := subs[id]
		if !known {
			unknown = append(unknown, id)
		}
		ts := make([]string, 0)
		for t := range out.Plan[id] {
			ts = append(ts, t)
		}
		sort.Strings(ts)
		for _, t := range ts {
			for _, p := range out.Plan[id][t] {
				x := tp{t, p}
				n, exists := in.Topics[t] // subscribed by somebody and existing
				if !exists {
					// existing in the cluster but subscribed by nobody, or not existing at all
					nonexist = append(nonexist, id+":"+x.String())
					continue
				}
				if p < 0 || int(p) >= n {
					nonexist = append(nonexist, id+":"+x.String())
					continue
				}
				if known && !hasStr(ss, t) {
					nonsub = append(nonsub, id+":"+x.String())
				}
				count[x] = append(count[x], id)
			}
		}
	}
	if len(unknown) > 0 {
		fs = append(fs, mk("unknown-member", "plan names members that are not in the group: "+strings.Join(unknown, " ")))
	}
	if len(nonexist) > 0 {
		fs = append(fs, mk("nonexistent-partition", "plan assigns partitions that do not exist (or of topics outside the topics argument): "+strings.Join(nonexist, " ")))
	}
	if len(nonsub) > 0 {
		fs = append(fs, mk("assigned-to-non-subscriber", "plan assigns partitions to members not subscribed to the topic: "+strings.Join(nonsub, " ")))
	}
	var missing, twice []string
	tnames := make([]string, 0, len(in.Topics))
	for t := range in.Topics {
		tnames = append(tnames, t)
	}
	sort.Strings(tnames)
	for _, t := range tnames {
		for p := 0; p < in.Topics[t]; p++ {
			x := tp{t, int32(p)}
			switch owners := count[x]; {
			case len(owners) == 0:
				missing = append(missing, x.String())
			case len(owners) > 1:
				twice = append(twice, x.String()+"->"+strings.Join(owners, "+"))
			}
		}
	}
	if len(missing) > 0 {
		fs = append(fs, mk("partition-unassigned", "partitions of subscribed topics assigned to nobody: "+strings.Join(missing, " ")))
	}
	if len(twice) > 0 {
		fs = append(fs, mk("partition-assigned-twice", "partitions assigned more than once: "+strings.Join(twice, " ")))
	}
	return fs
}

func total(a map[string][]int32) int {
	n := 0
	for _, l := range a {
		n += len(l)
	}
	return n
}

func owners(plan map[string]map[string][]int32) map[tp]string {
	o := map[tp]string{}
	for id, a := range plan {
		for t, l := range a {
			for _, p := range l {
				o[tp{t, p}] = id
			}
		}
	}
	return o
}

// JudgeC13: balance and stickiness, clause by clause as the property states them.
// prev is the state the event happened in (its members' Own = the previous plan).
func JudgeC13(in *Input, prev *State, e Event, out *Outcome) []Finding {
	if out.Panic != "" || out.Err != "" || len(JudgeC08(in, e, out)) > 0 {
		// not a valid plan: that is C08's finding. Balance and stickiness are properties of valid
		// plans (a count that includes a partition the member must not hold says nothing).
		return nil
	}
	sh := shape(in, e)
	mk := func(class, msg string) Finding {
		return Finding{Prop: "C13", Sig: in.Strat + "-" + class + " " + sh, Msg: msg}
	}
	var fs []Finding
	plan := out.Plan
	switch in.Strat {
	case Range:
		// "Range gives each topic's subscribers contiguous partition ranges whose sizes differ by at
		// most one": per topic, every subscriber's partitions form one run p, p+1, ..; the run lengths
		// (0 for a subscriber that got nothing) differ by at most one. The statement does not fix which
		// subscriber gets which run, so the oracle does not either.
		for t := range in.Topics {
			min, max := 1<<30, -1
			for _, m := range in.Members {
				if !hasStr(m.Subs, t) {
					continue
				}
				l := append([]int32(nil), plan[m.ID][t]...)
				sort.Slice(l, func(i, j int) bool { return l[i] < l[j] })
				for i := 1; i < len(l); i++ {
					if l[i] != l[i-1]+1 {
						fs = append(fs, mk("not-contiguous", fmt.Sprintf("topic %s: member %s got %v", t, m.ID, l)))
						break
					}
				}
				if len(l) < min {
					min = len(l)
				}
				if len(l) > max {
					max = len(l)
				}
			}
			if max-min > 1 {
				fs = append(fs, mk("sizes-differ", fmt.Sprintf("topic %s: subscribers' range sizes span %d..%d", t, min, max)))
			}
		}
	case RoundRobin:
		// "members with identical subscriptions [get] totals that differ by at most one"
		for i, a := range in.Members {
			for _, b := range in.Members[i+1:] {
				if !sameStrings(a.Subs, b.Subs) {
					continue
				}
				d := total(plan[a.ID]) - total(plan[b.ID])
				if d > 1 || d < -1 {
					fs = append(fs, mk("unfair-identical-subs", fmt.Sprintf("%s and %s both subscribe to %v but hold %d and %d", a.ID, b.ID, a.Subs, total(plan[a.ID]), total(plan[b.ID]))))
				}
			}
		}
	case Sticky:
		// balanced in Kafka's sense (KIP-54): "a member holding two or more partitions more than
		// another holds none the other could take" - from the SUBSCRIPTIONS, not from assigned topics.
		for _, a := range in.Members {
			for _, b := range in.Members {
				if total(plan[a.ID]) < total(plan[b.ID])+2 {
					continue
				}
				var could []string
				for t, l := range plan[a.ID] {
					if _, exists := in.Topics[t]; exists && hasStr(b.Subs, t) {
						for _, p := range l {
							could = append(could, tp{t, p}.String())
						}
					}
				}
				if len(could) > 0 {
					sort.Strings(could)
					fs = append(fs, mk("not-balanced", fmt.Sprintf("%s holds %d, %s holds %d, yet %s (subscribed to %v) could take %s from %s",
						a.ID, total(plan[a.ID]), b.ID, total(plan[b.ID]), b.ID, b.Subs, strings.Join(could, " "), a.ID)))
				}
			}
		}
		if prev == nil || prev.fresh() {
			break // the first plan has no predecessor
		}
		// The stickiness clauses compare with "the previous plan". They are judged only where that is
		// well defined: (1) what the members carry IS a valid plan of the configuration they carried it
		// in (it is not after a C08 violation - a previous plan that gives a member a topic it does not
		// subscribe to cannot be "returned unchanged"; C08 reports that); (2) nobody claims, with the
		// SAME generation as the current members, partitions the current members own: then two members
		// "owned" a partition in one generation and there is no fact about who the old owner was. The
		// property quantifies over chains that feed each plan back with increasing generations; a
		// joiner with an OLDER (or legacy, generation-less) claim is within that and is judged.
		if !carriedPlanValid(prev) || (e.Kind == "join" && e.Stale == "same") {
			break
		}
		before := map[tp]string{}
		for _, m := range prev.Members {
			for t, l := range m.Own {
				for _, p := range l {
					before[tp{t, p}] = m.ID
				}
			}
		}
		after := owners(plan)
		oldMember := map[string]bool{}
		for _, m := range in.Members {
			if m.Old {
				oldMember[m.ID] = true
			}
		}
		// "re-planning with unchanged members, subscriptions and partitions returns the previous plan unchanged"
		if e.Kind == "plan" {
			var diff []string
			for x, o := range before {
				if after[x] != o {
					diff = append(diff, fmt.Sprintf("%s:%s->%s", x, o, after[x]))
				}
			}
			for x, o := range after {
				if _, had := before[x]; !had {
					diff = append(diff, fmt.Sprintf("%s:(none)->%s", x, o))
				}
			}
			if len(diff) > 0 {
				sort.Strings(diff)
				fs = append(fs, mk("not-fixed-point", "nothing changed, yet the plan did: "+strings.Join(diff, " ")))
			}
		}
		// "with identical subscriptions, when a member leaves the others keep everything they had"
		if e.Kind == "leave" && identicalSubs(in.Members) && allSameSubs(prev) {
			var lost []string
			for x, o := range before {
				if o != e.Member && after[x] != o {
					lost = append(lost, fmt.Sprintf("%s:%s->%s", x, o, after[x]))
				}
			}
			if len(lost) > 0 {
				sort.Strings(lost)
				fs = append(fs, mk("leave-not-kept", e.Member+" left, yet a remaining member lost: "+strings.Join(lost, " ")))
			}
		}
		// "... and when one joins no partition moves between old members"
		if e.Kind == "join" && identicalSubs(in.Members) {
			var moved []string
			for x, o := range before {
				if n := after[x]; n != o && n != "" && oldMember[o] && oldMember[n] {
					moved = append(moved, fmt.Sprintf("%s:%s->%s", x, o, n))
				}
			}
			if len(moved) > 0 {
				sort.Strings(moved)
				fs = append(fs, mk("join-moved-between-old", e.Member+" joined, yet partitions moved between old members: "+strings.Join(moved, " ")))
			}
		}
		// "partitions never swap owners pairwise within a topic": p of topic T goes a->b while q of the
		// same T goes b->a between two consecutive plans.
		var swaps []string
		for x, a := range before {
			b := after[x]
			if b == "" || b == a {
				continue
			}
			for y, c := range before {
				if y.t == x.t && y != x && c == b && after[y] == a && (x.p < y.p) {
					swaps = append(swaps, fmt.Sprintf("%s:%s->%s & %s:%s->%s", x, a, b, y, b, a))
				}
			}
		}
		if len(swaps) > 0 {
			sort.Strings(swaps)
			fs = append(fs, mk("pairwise-swap", "two members exchanged partitions of one topic: "+strings.Join(swaps, " ; ")))
		}
	}
	return fs
}

// carriedPlanValid: the assignment the members of s carry gives every partition to at most one member,
// only existing partitions, only to subscribers.
func carriedPlanValid(s *State) bool {
	seen := map[tp]bool{}
	for _, m := range s.Members {
		for t, l := range m.Own {
			n, ok := s.topicN(t)
			if !ok || !hasStr(m.Subs, t) {
				return false
			}
			for _, p := range l {
				if p < 0 || int(p) >= n || seen[tp{t, p}] {
					return false
				}
				seen[tp{t, p}] = true
			}
		}
	}
	return true
}

func allSameSubs(s *State) bool {
	for _, m := range s.Members[1:] {
		if !sameStrings(m.Subs, s.Members[0].Subs) {
			return false
		}
	}
	return true
}
