package bal

import (
	"fmt"
	"path/filepath"
	"sort"
	"strconv"
	"strings"
	"time"

	"verif/engine/ev"
)

// debugCase (VERIF_BAL_DEBUG="<state key>;;<event index>;;<raw 0|1>;;<N>[;;members,topics,parts]"): evaluate one case N
// times in a worker and print the distribution of plans. A development aid, not part of any verdict.
func debugCase(spec string) int {
	f := strings.Split(spec, ";;")
	if len(f) < 4 {
		fmt.Println("VERIF_BAL_DEBUG: key;;ev;;raw;;N")
		return 3
	}
	evi, _ := strconv.Atoi(f[1])
	n, _ := strconv.Atoi(f[3])
	b := Bounds{MaxMembers: 3, MaxTopics: 3, MaxParts: 4, R: 3}
	if len(f) > 4 {
		fmt.Sscanf(f[4], "%d,%d,%d", &b.MaxMembers, &b.MaxTopics, &b.MaxParts)
	}
	p := newPool(filepath.Join(ev.Root(), ".build", "baldebug"))
	p.n = 1
	var rp *response
	_, err := p.run([]*request{{Op: "resample", Key: f[0], Raw: f[2] == "1", Ev: evi, N: n, Count: true, B: b, Pool: IDPools()[Sticky][0]}}, time.Time{}, func(_ *request, x *response) { rp = x })
	if err != nil || rp == nil || rp.Sample == nil {
		fmt.Println("debug failed:", err)
		return 3
	}
	fmt.Println("state:", rp.Sample.State, " event:", rp.Sample.Event, " evaluations:", rp.Evals)
	ks := []string{}
	for k := range rp.Sample.Input {
		ks = append(ks, k)
	}
	sort.Strings(ks)
	for _, k := range ks {
		fmt.Printf("  input %-18s %s\n", k, rp.Sample.Input[k])
	}
	ks = ks[:0]
	for k := range rp.Sample.Outcomes {
		ks = append(ks, k)
	}
	sort.Slice(ks, func(i, j int) bool { return rp.Sample.Outcomes[ks[i]] > rp.Sample.Outcomes[ks[j]] })
	for _, k := range ks {
		fmt.Printf("  %6d  %s\n", rp.Sample.Outcomes[k], k)
	}
	for _, fd := range rp.Findings {
		fmt.Printf("  finding %s %s (%d hits)\n", fd.Prop, fd.Sig, fd.Hits)
	}
	return 0
}
