package bal

import (
	"encoding/json"
	"fmt"
	"os"
	"path/filepath"
	"sort"
	"strings"
	"time"

	"verif/engine/ev"
)

// Replay re-executes the case of a violation artefact (in a watched child process, like the search):
// 500 real Plan calls on exactly that (state, event); prints the plans seen and how many evaluations
// violate the recorded signature. Exit code 1 if any does, 0 if none, 3 on engine errors.
func Replay(property, path string) int {
	b, err := os.ReadFile(path)
	if err != nil {
		fmt.Println("ENGINE-ERROR cannot read", path, err)
		return 3
	}
	var v struct {
		Property  string `json:"property"`
		Signature string `json:"signature"`
		Replay    struct {
			Kind     string   `json:"kind"`
			State    string   `json:"state"`
			RawState string   `json:"raw_state"`
			Ev       int      `json:"ev"`
			Event    Event    `json:"event"`
			Bounds   Bounds   `json:"bounds"`
			Pool     []string `json:"pool"`
		} `json:"replay"`
	}
	if err := json.Unmarshal(b, &v); err != nil || v.Replay.Kind != "bal-case" {
		fmt.Println("ENGINE-ERROR not a bal-case artefact:", path, err)
		return 3
	}
	r := v.Replay
	key, raw := r.State, false
	if r.RawState != "" {
		key, raw = r.RawState, true
	}
	st, err := ParseKey(key)
	if err != nil {
		fmt.Println("ENGINE-ERROR", err)
		return 3
	}
	evs := Events(st, r.Bounds, r.Pool)
	if r.Ev >= len(evs) || evs[r.Ev].Label() != r.Event.Label() {
		fmt.Printf("ENGINE-ERROR event #%d of the state is not %s any more (bounds/pool changed?)\n", r.Ev, r.Event.Label())
		return 3
	}
	const n = 500
	fmt.Printf("replay %s: property=%s signature=%q\n  state: %s\n  event: %s\n  %d real Plan calls ...\n", filepath.Base(path), v.Property, v.Signature, key, r.Event.Label(), n)
	p := newPool(filepath.Join(ev.Root(), ".build", strings.ToLower(property)))
	p.n = 1
	p.noRetry = true
	died := false
	p.onDeath = func(rq *request, d death) {
		died = true
		what := "died"
		if d.Hang {
			what = fmt.Sprintf("burnt %s inside one Plan call (hang)", hangAfter)
		}
		fmt.Printf("  the worker %s in evaluation #%d of the case\n%s\n", what, d.Info.Eval, planStack(d.Stderr))
	}
	var rp *response
	t0 := time.Now()
	_, err = p.run([]*request{{Op: "resample", Key: key, Raw: raw, Ev: r.Ev, N: n, Count: true, WantSig: v.Signature, B: r.Bounds, Pool: r.Pool}}, time.Time{},
		func(_ *request, x *response) { rp = x })
	if died {
		cls := strings.SplitN(v.Signature, " ", 2)[0]
		if strings.HasSuffix(cls, "-plan-hang") || strings.HasSuffix(cls, "-plan-crash") {
			fmt.Println("RESULT still violates: Plan does not return")
			return 1
		}
		fmt.Println("RESULT the worker died, which is not the recorded signature - still a violation of C08 (Plan returns)")
		return 1
	}
	if err != nil || rp == nil {
		fmt.Println("ENGINE-ERROR replay failed:", err)
		return 3
	}
	if rp.Sample != nil {
		ids := []string{}
		for id := range rp.Sample.Input {
			ids = append(ids, id)
		}
		sort.Strings(ids)
		for _, id := range ids {
			fmt.Printf("  input %-20s %s\n", id, rp.Sample.Input[id])
		}
		ks := []string{}
		for k := range rp.Sample.Outcomes {
			ks = append(ks, k)
		}
		sort.Strings(ks)
		for _, k := range ks {
			fmt.Printf("  plan seen x%-4d %s\n", rp.Sample.Outcomes[k], k)
		}
	}
	seen := map[string]bool{}
	for _, f := range rp.Findings {
		if f.Prop == property && !seen[f.Sig+f.Outcome] {
			seen[f.Sig+f.Outcome] = true
			fmt.Printf("  VIOLATES [%s] in %d/%d evaluations, plan %s\n    %s\n", f.Sig, f.Hits, rp.Evals, f.Outcome, f.Msg)
		}
	}
	fmt.Printf("  %d of %d evaluations violate the recorded signature (%.1fs)\n", rp.Hits, rp.Evals, time.Since(t0).Seconds())
	if rp.Hits > 0 {
		fmt.Println("RESULT still violates")
		return 1
	}
	for _, f := range rp.Findings {
		if f.Prop == property {
			fmt.Println("RESULT the recorded signature no longer occurs, but the case violates the property in another way")
			return 1
		}
	}
	fmt.Println("RESULT does not violate any more")
	return 0
}
