package bal

import (
	"bufio"
	"bytes"
	"encoding/json"
	"fmt"
	"os"
	"os/exec"
	"path/filepath"
	"runtime"
	"sort"
	"strconv"
	"strings"
	"sync"
	"syscall"
	"time"

	"verif/engine/ev"
)

// ---------------------------------------------------------------------------------------------
// worker pool (child processes, watchdog)

const (
	hangCPU   = 12.0             // seconds of the child's CPU time without a heartbeat = hang (a loop inside one Plan call)
	stallWall = 10 * time.Minute // wall time without heartbeat and without CPU use: the machine, not Plan => engine error
)

var hangAfter = fmt.Sprintf("%.0f s of the worker's own CPU time", hangCPU)

// cpuSeconds: user+system CPU time consumed so far by process pid (all threads), from /proc.
func cpuSeconds(pid int) float64 {
	b, err := os.ReadFile(fmt.Sprintf("/proc/%d/stat", pid))
	if err != nil {
		return 0
	}
	s := string(b)
	i := strings.LastIndex(s, ")") // the command name may contain spaces
	f := strings.Fields(s[i+1:])
	if len(f) < 13 {
		return 0
	}
	ut, _ := strconv.ParseFloat(f[11], 64)
	st, _ := strconv.ParseFloat(f[12], 64)
	return (ut + st) / 100 // USER_HZ
}

type ringBuf struct {
	mu sync.Mutex
	b  []byte
}

func (r *ringBuf) Write(p []byte) (int, error) {
	r.mu.Lock()
	r.b = append(r.b, p...)
	if len(r.b) > 1<<16 {
		r.b = r.b[len(r.b)-1<<16:]
	}
	r.mu.Unlock()
	return len(p), nil
}

func (r *ringBuf) String() string { r.mu.Lock(); defer r.mu.Unlock(); return string(r.b) }

type proc struct {
	cmd     *exec.Cmd
	in      *bufio.Writer
	out     *bufio.Reader
	stderr  *ringBuf
	mem     []byte
	pfile   string
	hung    bool
	stalled bool
}

// death describes a worker that died or hung while evaluating a case.
type death struct {
	Hang   bool
	Stall  bool // no heartbeat, no CPU use: not attributable to Plan
	Info   progressInfo
	Stderr string
}

type pool struct {
	n       int
	dir     string
	seq     int
	mu      sync.Mutex
	onDeath func(rq *request, d death) // called (serialised) for every request lost to a dead worker
	noRetry bool                       // a death ends the request (replay of a single case)
}

func newPool(dir string) *pool {
	n := runtime.NumCPU()
	if v := os.Getenv("VERIF_WORKERS"); v != "" {
		fmt.Sscan(v, &n)
	}
	if n < 1 {
		n = 1
	}
	os.MkdirAll(dir, 0o755)
	return &pool{n: n, dir: dir}
}

func (p *pool) spawn() (*proc, error) {
	p.mu.Lock()
	p.seq++
	pfile := filepath.Join(p.dir, fmt.Sprintf("progress-%d-%d", os.Getpid(), p.seq))
	p.mu.Unlock()
	if err := os.WriteFile(pfile, make([]byte, progressSize), 0o644); err != nil {
		return nil, err
	}
	f, err := os.OpenFile(pfile, os.O_RDWR, 0o644)
	if err != nil {
		return nil, err
	}
	mem, err := syscall.Mmap(int(f.Fd()), 0, progressSize, syscall.PROT_READ|syscall.PROT_WRITE, syscall.MAP_SHARED)
	f.Close()
	if err != nil {
		return nil, err
	}
	cmd := exec.Command(os.Args[0], "-test.run", "^TestWorker$", "-test.timeout", "0")
	cmd.Env = append(os.Environ(), "VERIF_BAL_WORKER=1", "VERIF_BAL_PROGRESS="+pfile, "GOMAXPROCS=2", "GOTRACEBACK=all")
	stdin, err := cmd.StdinPipe()
	if err != nil {
		return nil, err
	}
	pr, pw, err := os.Pipe()
	if err != nil {
		return nil, err
	}
	cmd.ExtraFiles = []*os.File{pw}
	rb := &ringBuf{}
	cmd.Stdout = rb
	cmd.Stderr = rb
	if err := cmd.Start(); err != nil {
		return nil, err
	}
	pw.Close()
	return &proc{cmd: cmd, in: bufio.NewWriter(stdin), out: bufio.NewReaderSize(pr, 1<<20), stderr: rb, mem: mem, pfile: pfile}, nil
}

func (w *proc) close() {
	if w == nil {
		return
	}
	w.cmd.Process.Kill()
	w.cmd.Wait()
	syscall.Munmap(w.mem)
	os.Remove(w.pfile)
}

// call sends one request and waits for the reply; a watchdog kills the worker (SIGQUIT, so that the
// goroutine dump shows where it was) when the progress heartbeat stands still for hangAfter.
func (w *proc) call(rq *request) (*response, *death) {
	b, _ := json.Marshal(rq)
	w.in.Write(b)
	w.in.WriteByte('\n')
	if err := w.in.Flush(); err != nil {
		w.cmd.Process.Kill()
		w.cmd.Wait()
		return nil, &death{Info: readProgress(w.mem), Stderr: w.stderr.String()}
	}
	done := make(chan struct{})
	exited := make(chan struct{})
	go func() {
		// Hang detection is in the CHILD'S OWN CPU TIME, not in wall time: a machine that is busy with
		// other work cannot make a healthy worker look hung. A Plan call on <=12 partitions takes
		// microseconds; hangCPU of CPU without a single heartbeat is a loop that does not end.
		defer close(exited)
		last := readProgress(w.mem).Beat
		cpu0 := cpuSeconds(w.cmd.Process.Pid)
		since := time.Now()
		t := time.NewTicker(500 * time.Millisecond)
		defer t.Stop()
		for {
			select {
			case <-done:
				return
			case <-t.C:
				if b := readProgress(w.mem).Beat; b != last {
					last, since, cpu0 = b, time.Now(), cpuSeconds(w.cmd.Process.Pid)
					continue
				}
				burnt := cpuSeconds(w.cmd.Process.Pid) - cpu0
				if burnt > hangCPU || time.Since(since) > stallWall {
					w.hung = burnt > hangCPU
					w.stalled = !w.hung
					w.cmd.Process.Signal(syscall.SIGQUIT)
					time.Sleep(2 * time.Second)
					w.cmd.Process.Kill()
					return
				}
			}
		}
	}()
	line, err := w.out.ReadBytes('\n')
	close(done)
	<-exited // the watchdog reads the shared progress area: it must be gone before the area is unmapped
	if err != nil {
		w.cmd.Wait()
		return nil, &death{Hang: w.hung, Stall: w.stalled, Info: readProgress(w.mem), Stderr: w.stderr.String()}
	}
	rp := &response{}
	if err := json.Unmarshal(line, rp); err != nil {
		rp.Err = "bad reply: " + err.Error()
	}
	return rp, nil
}

// run executes all requests on the pool. handle is called serially for every reply. Requests lost to a
// dead worker are passed to onDeath (which may return a replacement request to run instead).
func (p *pool) run(reqs []*request, deadline time.Time, handle func(*request, *response)) (completed bool, engineErr error) {
	var mu sync.Mutex
	next := 0
	var retry []*request
	var firstErr error
	cut := false
	take := func() *request {
		mu.Lock()
		defer mu.Unlock()
		if firstErr != nil {
			return nil
		}
		if len(retry) > 0 {
			r := retry[len(retry)-1]
			retry = retry[:len(retry)-1]
			return r
		}
		if next >= len(reqs) {
			return nil
		}
		if !deadline.IsZero() && time.Now().After(deadline) {
			cut = true
			return nil
		}
		r := reqs[next]
		next++
		if !deadline.IsZero() {
			r.Until = deadline.UnixNano()
		}
		return r
	}
	var wg sync.WaitGroup
	n := p.n
	if n > len(reqs) {
		n = len(reqs)
	}
	for i := 0; i < n; i++ {
		wg.Add(1)
		go func() {
			defer wg.Done()
			var w *proc
			defer func() { w.close() }()
			for {
				rq := take()
				if rq == nil {
					return
				}
				if w == nil {
					var err error
					if w, err = p.spawn(); err != nil {
						mu.Lock()
						firstErr = err
						mu.Unlock()
						return
					}
				}
				rp, d := w.call(rq)
				if d != nil {
					w.close()
					w = nil
					mu.Lock()
					if p.onDeath != nil {
						if again := p.onDeathLocked(rq, *d); again != nil {
							retry = append(retry, again)
						}
					} else {
						firstErr = fmt.Errorf("worker died: %s", tail(d.Stderr, 400))
					}
					mu.Unlock()
					continue
				}
				mu.Lock()
				if rp.Err != "" && firstErr == nil {
					firstErr = fmt.Errorf("worker: %s (request %s %s)", rp.Err, rq.Op, rq.Key)
				}
				if rp.Err == "" {
					if rp.Cut {
						cut = true
					}
					handle(rq, rp)
				}
				mu.Unlock()
			}
		}()
	}
	wg.Wait()
	return !cut && firstErr == nil, firstErr
}

func (p *pool) onDeathLocked(rq *request, d death) *request {
	p.onDeath(rq, d)
	if p.noRetry {
		return nil
	}
	// evaluate the rest of the request without the case that killed the worker
	again := *rq
	again.Skip = append(append([]string(nil), rq.Skip...), d.Info.Key+"#"+strconv.Itoa(d.Info.Ev))
	if len(again.Skip) > 50 {
		return nil
	}
	return &again
}

// planStack extracts from a goroutine dump the goroutine that is inside sarama's balance code.
func planStack(dump string) string {
	for _, blk := range strings.Split(dump, "\n\n") {
		if strings.Contains(blk, "balance_strategy.go") || strings.Contains(blk, "sticky_assignor") {
			lines := strings.Split(blk, "\n")
			if len(lines) > 24 {
				lines = lines[:24]
			}
			return strings.Join(lines, "\n")
		}
	}
	return tail(dump, 1500)
}

func tail(s string, n int) string {
	if len(s) > n {
		return "..." + s[len(s)-n:]
	}
	return s
}

// ---------------------------------------------------------------------------------------------
// the search

// Family: one bounded state space of sticky chains, searched on its own (own visited set).
type Family struct {
	Name  string
	B     Bounds
	Share int      // share of the time budget
	Pool  []string // member ids of this family (default: the first sticky pool)
}

type Config struct {
	Property  string // "C08" or "C13": which oracle's findings this run reports
	Stateless Bounds // bounds of the range / round-robin enumeration (Plan has no memory there)
	Families  []Family
	// Wide: first-plan enumerations (all three strategies, no chains) over more members than the chains can afford:
	// size clauses such as "range sizes differ by at most one" need >= 4 subscribers of one topic to go wrong
	Wide     []Bounds
	WidePool []string
	Pools    map[string][][]string // strategy -> id pools
	Topics   []string
	Budget   time.Duration
}

type item struct {
	key  string
	path string
}

type sigInfo struct {
	rec   findRec
	b     Bounds
	count int
	path  string
	size  int
}

type Search struct {
	cfg   Config
	c     *ev.Check
	pool  *pool
	start time.Time

	prefix  string // family name: part of every visited-set key
	b       Bounds // bounds of the family being searched
	visited map[[16]byte]uint8
	nStates int
	cases   int
	evals   int
	edges   int
	byClass map[string]int
	outHist map[string]int
	byStrat map[string]map[string]int
	sigs    map[string]*sigInfo
	other   map[string]int // findings of the other property (not reported, counted)
	triples map[[16]byte]bool
	deaths  int
	samples map[string]int
}

func DefaultConfig(property string) Config {
	cfg := Config{Property: property, Pools: IDPools(), Topics: []string{"t0", "t1", "t2", "t3"}}
	cfg.Budget = ev.Deadline(52*time.Second, 9*time.Minute)
	cfg.WidePool = []string{"a", "b", "c", "d", "e", "f"}
	// the last entries: four members over three topics of DIFFERENT sizes (three load levels among members with subscriptions
	// of different sizes need that much room)
	cfg.Wide = []Bounds{{MaxMembers: 6, MaxTopics: 1, MaxParts: 14, R: 3}, {MaxMembers: 5, MaxTopics: 2, MaxParts: 4, R: 3},
		{MaxMembers: 4, MaxTopics: 3, MaxParts: 5, FixedParts: []int{2, 4, 5}, R: 3}}
	if ev.Tier() == "thorough" {
		cfg.Wide = []Bounds{{MaxMembers: 6, MaxTopics: 1, MaxParts: 20, R: 10}, {MaxMembers: 6, MaxTopics: 2, MaxParts: 5, R: 5},
			{MaxMembers: 4, MaxTopics: 3, MaxParts: 5, FixedParts: []int{2, 4, 5}, R: 5}, {MaxMembers: 4, MaxTopics: 3, MaxParts: 5, FixedParts: []int{1, 3, 5}, R: 5},
			{MaxMembers: 4, MaxTopics: 3, MaxParts: 6, FixedParts: []int{6, 2, 3}, R: 5}}
	}
	if ev.Tier() == "thorough" {
		cfg.Stateless = Bounds{MaxMembers: 3, MaxTopics: 3, MaxParts: 4, R: 10}
		cfg.Families = []Family{
			{"2topics-3parts", Bounds{MaxMembers: 3, MaxTopics: 2, MaxParts: 3, Depth: 6, DFSDepth: 2, R: 10}, 25, nil},
			{"2topics-4parts", Bounds{MaxMembers: 3, MaxTopics: 2, MaxParts: 4, Depth: 4, DFSDepth: 1, R: 10}, 20, nil},
			{"3topics-2parts", Bounds{MaxMembers: 3, MaxTopics: 3, MaxParts: 2, Depth: 3, DFSDepth: 1, R: 10}, 30, nil},
			{"3topics-3parts", Bounds{MaxMembers: 3, MaxTopics: 3, MaxParts: 3, Depth: 1, DFSDepth: 0, R: 10}, 25, nil},
			{"5members-5x10", Bounds{MaxMembers: 5, MaxTopics: 2, MaxParts: 10, FixedParts: []int{5, 10}, Light: true, MinMembers: 4, MaxEvals: 6, Depth: 1, DFSDepth: -1, R: 3}, 20, []string{"a", "b", "c", "d", "e"}},
			{"compound-4x8x4", Bounds{MaxMembers: 3, MaxTopics: 3, MaxParts: 8, FixedParts: []int{4, 8, 4}, Light: true, Compound: true, CompoundSub: true, MinMembers: 2, MaxEvals: 6, Depth: 2, DFSDepth: -1, R: 3}, 10, []string{"a", "b", "c"}},
			{"compound-4x8x4x4", Bounds{MaxMembers: 3, MaxTopics: 4, MaxParts: 8, FixedParts: []int{4, 8, 4, 4}, Light: true, Compound: true, CompoundSub: true, MinMembers: 2, MaxEvals: 6, Depth: 1, DFSDepth: -1, R: 3}, 20, []string{"a", "b", "c"}},
			{"stale-1x8", Bounds{MaxMembers: 3, MaxTopics: 1, MaxParts: 8, FixedParts: []int{8}, ClaimEach: true, MinMembers: 2, MaxEvals: 20, Depth: 2, DFSDepth: -1, R: 10}, 8, []string{"a", "b", "c"}},
			{"stale-2x5", Bounds{MaxMembers: 3, MaxTopics: 2, MaxParts: 5, FixedParts: []int{5, 5}, ClaimEach: true, MinMembers: 2, MaxEvals: 12, Depth: 1, DFSDepth: -1, R: 6}, 10, []string{"a", "b", "c"}},
		}
	} else {
		cfg.Stateless = Bounds{MaxMembers: 3, MaxTopics: 3, MaxParts: 3, R: 3}
		cfg.Families = []Family{
			{"2topics-3parts", Bounds{MaxMembers: 3, MaxTopics: 2, MaxParts: 3, Depth: 3, DFSDepth: 1, R: 3}, 45, nil},
			{"3topics-2parts", Bounds{MaxMembers: 3, MaxTopics: 3, MaxParts: 2, Depth: 2, DFSDepth: 0, R: 3}, 55, nil},
			{"5members-5x10", Bounds{MaxMembers: 5, MaxTopics: 2, MaxParts: 10, FixedParts: []int{5, 10}, Light: true, MinMembers: 4, MaxEvals: 6, Depth: 1, DFSDepth: -1, R: 3}, 40, []string{"a", "b", "c", "d", "e"}},
			{"compound-4x8x4", Bounds{MaxMembers: 3, MaxTopics: 3, MaxParts: 8, FixedParts: []int{4, 8, 4}, Light: true, Compound: true, CompoundSub: true, MinMembers: 2, MaxEvals: 6, Depth: 1, DFSDepth: -1, R: 3}, 20, []string{"a", "b", "c"}},
			{"stale-1x8", Bounds{MaxMembers: 3, MaxTopics: 1, MaxParts: 8, FixedParts: []int{8}, ClaimEach: true, MinMembers: 2, MaxEvals: 12, Depth: 1, DFSDepth: -1, R: 6}, 8, []string{"a", "b", "c"}},
		}
	}
	if property == "C08" {
		// a subscription that names a topic twice is a legal argument of Consume; validity (C08) is judged on it, the size
		// clauses of C13 are not (a member listed twice for a topic is not "a set of subscribers")
		cfg.Stateless.DupSubs = true
		for i := range cfg.Wide {
			cfg.Wide[i].DupSubs = true
		}
	}
	if v := os.Getenv("VERIF_BAL_BOUNDS"); v != "" { // members,topics,parts,depth,dfsdepth,R: ONE family (experiments only)
		var b Bounds
		fmt.Sscanf(v, "%d,%d,%d,%d,%d,%d", &b.MaxMembers, &b.MaxTopics, &b.MaxParts, &b.Depth, &b.DFSDepth, &b.R)
		cfg.Families = []Family{{"experiment", b, 100, nil}}
		if p := os.Getenv("VERIF_BAL_FIXED"); p != "" { // e.g. "5,10": fixed partition counts, five member ids
			for _, x := range strings.Split(p, ",") {
				n, _ := strconv.Atoi(x)
				cfg.Families[0].B.FixedParts = append(cfg.Families[0].B.FixedParts, n)
			}
			cfg.Families[0].Pool = []string{"a", "b", "c", "d", "e"}[:cfg.Families[0].B.MaxMembers]
			cfg.Families[0].B.Light = true
			cfg.Families[0].B.MinMembers, cfg.Families[0].B.MaxEvals = cfg.Families[0].B.MaxMembers-1, 6
			cfg.Families[0].B.Compound = os.Getenv("VERIF_BAL_COMPOUND") != ""
			cfg.Families[0].B.CompoundSub = os.Getenv("VERIF_BAL_COMPOUND") == "2"
		}
	}
	return cfg
}

func (s *Search) hash(key string) [16]byte { return keyHash(s.prefix + "\x00" + key) }

func (s *Search) see(key string, level int) bool {
	h := s.hash(key)
	if _, ok := s.visited[h]; ok {
		return false
	}
	s.visited[h] = uint8(level)
	s.nStates++
	return true
}

func (s *Search) finding(f findRec, path string, how string) {
	if f.Prop != s.cfg.Property {
		s.other[f.Sig]++
		return
	}
	s.triples[keyHash(f.Key+"#"+strconv.Itoa(f.Ev)+"#"+f.Sig)] = true
	si := s.sigs[f.Sig]
	if si == nil {
		si = &sigInfo{size: 1 << 30}
		s.sigs[f.Sig] = si
	}
	si.count++
	// keep the smallest case (found by the BFS, shortest path first, then shortest key) as the representative
	sz := strings.Count(path, ">")*10000 + len(f.Key)
	if how != "bfs" {
		sz += 1000000
	}
	if sz < si.size {
		si.size, si.rec, si.path, si.b = sz, f, path+" ["+how+"]", s.b
	}
}

func boundsMap(b Bounds, sticky bool) map[string]interface{} {
	m := map[string]interface{}{"max_members": b.MaxMembers, "max_topics": b.MaxTopics, "max_partitions_per_topic": b.MaxParts,
		"R_min_evaluations_per_case": b.R, "max_evaluations_per_case": capEvals(b)}
	if len(b.FixedParts) > 0 {
		m["fixed_partition_counts"] = b.FixedParts
	}
	if b.DupSubs {
		m["first_plan_variants"] = "plain; every member names its first topic twice; the first member does"
	}
	if sticky {
		m["chain_depth_events_after_first_plan"] = b.Depth
		m["differential_dfs_depth"] = b.DFSDepth
		if b.Light {
			m["events"] = "membership only (fresh join with any subscription, leave)"
		}
		if b.ClaimEach {
			m["stale_claims"] = "all, dirty, and every single partition of the joiner's first topic"
		}
		if b.Compound {
			m["compound_events"] = "two changes in one rebalance: (topic deleted | member leaves) + a fresh member joins with any subscription"
			if b.CompoundSub {
				m["compound_events"] = "two changes in one rebalance: (topic deleted | member leaves | member changes its subscription) + a fresh member joins with any subscription"
			}
		}
	}
	return m
}

// Run performs the whole check for one property and returns the exit code.
func Run(property string) int {
	if spec := os.Getenv("VERIF_BAL_DEBUG"); spec != "" {
		return debugCase(spec)
	}
	c := ev.NewCheck(property, "model_checking")
	cfg := DefaultConfig(property)
	s := &Search{cfg: cfg, c: c, start: time.Now(), visited: map[[16]byte]uint8{}, byClass: map[string]int{}, outHist: map[string]int{},
		byStrat: map[string]map[string]int{}, sigs: map[string]*sigInfo{}, other: map[string]int{}, triples: map[[16]byte]bool{}, samples: map[string]int{}}
	s.pool = newPool(filepath.Join(ev.Root(), ".build", strings.ToLower(property)))
	if err := checkIDPools(cfg.Pools, cfg.Topics); err != nil {
		c.EngineError(err.Error())
		return c.Finish()
	}
	s.pool.onDeath = s.onDeath
	end := s.start.Add(cfg.Budget)
	exhaustive := true

	// range and round-robin: Plan has no memory, the initial-state enumeration is the whole space
	s.prefix, s.b = "stateless", cfg.Stateless
	for _, strat := range []string{Range, RoundRobin} {
		var front []item
		for _, pool := range cfg.Pools[strat] {
			for _, st := range InitialStates(strat, s.b, pool, cfg.Topics) {
				if k := st.Key(true); s.see(k, 0) {
					front = append(front, item{key: k, path: "input"})
				}
			}
		}
		_, done, err := s.level(strat, front, 0, end, cfg.Pools[strat])
		if err != nil {
			c.EngineError(err.Error())
			return c.Finish()
		}
		exhaustive = exhaustive && done
	}
	// wide first plans (range, round-robin and sticky on fresh members)
	wideInfo := []interface{}{}
	for wi, wb := range cfg.Wide {
		s.prefix, s.b = fmt.Sprintf("wide%d", wi), wb
		for _, strat := range []string{Range, RoundRobin, Sticky} {
			var front []item
			pool := cfg.WidePool
			if len(pool) > wb.MaxMembers {
				pool = pool[:wb.MaxMembers]
			}
			for _, st := range InitialStates(strat, wb, pool, cfg.Topics) {
				if k := st.Key(true); s.see(strat+"/"+k, 0) {
					front = append(front, item{key: k, path: "input"})
				}
			}
			_, done, err := s.level(strat, front, 0, end, [][]string{pool})
			if err != nil {
				c.EngineError(err.Error())
				return c.Finish()
			}
			exhaustive = exhaustive && done
			wideInfo = append(wideInfo, map[string]interface{}{"family": s.prefix, "strategy": strat, "bounds": boundsMap(wb, false), "initial_states": len(front), "completed": done})
		}
	}
	s.visited = map[[16]byte]uint8{}
	statelessWall := time.Since(s.start).Seconds()

	// sticky: chains, one search per family
	spool0 := cfg.Pools[Sticky][0]
	famInfo := []interface{}{}
	summary := []string{}
	for fi, fam := range cfg.Families {
		shares := 0
		for _, f := range cfg.Families[fi:] {
			shares += f.Share
		}
		t0 := time.Now()
		famEnd := t0.Add(time.Until(end) * time.Duration(fam.Share) / time.Duration(shares))
		bfsEnd := t0.Add(famEnd.Sub(t0) * 65 / 100)
		diffEnd := t0.Add(famEnd.Sub(t0) * 90 / 100)
		s.prefix, s.b = fam.Name, fam.B
		spool := spool0
		if len(fam.Pool) > 0 {
			spool = fam.Pool
		}
		s.visited = map[[16]byte]uint8{} // the families are separate graphs (their events differ)
		info := map[string]interface{}{"family": fam.Name, "bounds": boundsMap(fam.B, true)}
		states0, cases0, evals0 := s.nStates, s.cases, s.evals
		var front []item
		for _, st := range InitialStates(Sticky, fam.B, spool, cfg.Topics) {
			if k := st.Key(true); s.see(k, 0) {
				front = append(front, item{key: k, path: "input"})
			}
		}
		completedDepth := -1
		fixpoint := false
		levelSizes := []int{}
		for lvl := 0; lvl <= fam.B.Depth; lvl++ {
			levelSizes = append(levelSizes, len(front))
			if len(front) == 0 {
				fixpoint = true
				completedDepth = fam.B.Depth
				break
			}
			next, done, err := s.level(Sticky, front, lvl, bfsEnd, [][]string{spool})
			if err != nil {
				c.EngineError(err.Error())
				return c.Finish()
			}
			if !done {
				exhaustive = false
				info["cut"] = fmt.Sprintf("the internal deadline stopped the search while expanding level %d (%d states in that level)", lvl, len(front))
				break
			}
			completedDepth = lvl
			front = next
		}
		if completedDepth == fam.B.Depth && !fixpoint {
			levelSizes = append(levelSizes, len(front))
		}
		info["wall_bfs_s"] = time.Since(t0).Seconds()
		info["depth_completed"] = completedDepth
		info["states_per_level"] = levelSizes
		info["fixpoint_reached"] = fixpoint
		front = nil

		// differential: unpruned DFS over raw states, shallower
		dd := fam.B.DFSDepth
		if dd > completedDepth {
			dd = completedDepth
		}
		if fam.B.DFSDepth < 0 {
			info["differential"] = "skipped for this family (the canonical key is validated by the other families; the unpruned search with its re-sampling costs minutes at this size)"
		} else if dd >= 0 {
			done, err := s.differential(spool, dd, diffEnd, famEnd, info)
			if err != nil {
				c.EngineError(err.Error())
				return c.Finish()
			}
			exhaustive = exhaustive && done && dd == fam.B.DFSDepth
		} else {
			exhaustive = false
		}
		info["states"] = s.nStates - states0
		info["cases"] = s.cases - cases0
		info["evaluations"] = s.evals - evals0
		info["wall_s"] = time.Since(t0).Seconds()
		famInfo = append(famInfo, info)
		summary = append(summary, fmt.Sprintf("%s: depth %d/%d levels %v fixpoint=%v", fam.Name, completedDepth, fam.B.Depth, levelSizes, fixpoint))
	}

	// report
	sigs := make([]string, 0, len(s.sigs))
	for k := range s.sigs {
		sigs = append(sigs, k)
	}
	sort.Strings(sigs)
	for _, k := range sigs {
		si := s.sigs[k]
		c.Report(ev.Violation{
			Property:  property,
			Signature: k,
			Check:     "bal/" + si.rec.Finding.Sig[:strings.Index(si.rec.Finding.Sig+" ", " ")],
			Message: fmt.Sprintf("%s\nstate: %s\nevent: %s\nplan:  %s\nreached by: %s",
				si.rec.Msg, si.rec.Key, si.rec.Event.Label(), si.rec.Outcome, si.path),
			Replay: map[string]interface{}{"kind": "bal-case", "state": si.rec.Key, "raw_state": si.rec.RawKey, "ev": si.rec.Ev, "event": si.rec.Event, "signature": k,
				"bounds": si.b, "pool": poolOf(cfg, si.rec.Key)},
		})
	}

	c.Set("states", s.nStates)
	c.Set("transitions", s.edges)
	c.Set("traces_validated_against_impl", s.evals)
	c.Set("evaluations", s.evals)
	c.Set("cases", s.cases)
	c.Set("exhaustive", exhaustive)
	c.Set("bounds", map[string]interface{}{
		"range_and_roundrobin": boundsMap(cfg.Stateless, false), "member_id_pools": cfg.Pools, "topics": cfg.Topics,
		"range_hash_orders": HashOrders(cfg.Pools[Range], cfg.Topics),
	})
	c.Set("sticky_families", famInfo)
	c.Set("wide_first_plan_families", wideInfo)
	c.Set("stateless_wall_s", statelessWall)
	c.Set("cases_by_event_class", s.byClass)
	c.Set("cases_by_strategy", s.byStrat)
	c.Set("distinct_plans_per_case_histogram", s.outHist)
	c.Set("worker_deaths", s.deaths)
	c.Set("other_property_finding_signatures", len(s.other))
	c.Set("finding_signatures", len(s.sigs))
	fc := map[string]int{}
	for k, si := range s.sigs {
		fc[k] = si.count
	}
	c.Set("cases_per_finding_signature", fc)
	c.Set("method", "explicit-state BFS with a visited set over canonical (cluster, group, carried assignment) states; successor = REAL BalanceStrategy.Plan on "+
		"user data produced by REAL AssignmentData and read back by Plan's own decode path; states = visited (family, canonical state) pairs incl. the initial inputs; "+
		"transitions = distinct (state, event, plan) edges; cases = (state, event) pairs. The sticky Plan iterates Go maps (small maps: insertion order from a random start), "+
		"so each case is evaluated at least R times and until R consecutive evaluations show no new plan (cap 20R), evaluation #i presenting members, subscription lists and "+
		"carried partition lists in the i-th pseudo-random order; every distinct plan becomes a successor, every evaluation is judged. Cases run in child processes "+
		"(RLIMIT_AS 4 GiB, heartbeat watchdog: "+hangAfter+" without a heartbeat), a dead or hung child is attributed to its case. An unpruned DFS over raw states (Plan's own list order, absolute "+
		"generations) 1-2 levels shallower cross-checks the canonicalisation (see sticky_families[].differential).")
	c.Assumptions = append(c.Assumptions,
		"the topics argument is built from the subscriptions as consumerGroup.balance does (every subscribed topic exists with >=1 partition, ids 0..n-1 ascending); subscriptions are non-empty and duplicate-free",
		"map-iteration orders inside the sticky assignor are sampled (>=R evaluations per case), not enumerated: a plan that needs a rare order may be missed; a reported violation is always a real Plan result",
		"stale joiners carry synthetic claims (all / dirty / one; generation older, equal, or legacy V0), not the data of a concrete earlier departure",
		"C13 is judged on plans that are valid in the sense of C08 (an invalid plan is C08's finding; balance over partitions a member must not hold is meaningless); the stickiness clauses "+
			"are judged where 'the previous plan' is well defined: the carried assignment is a valid plan and no joiner claims partitions with the SAME generation as the current owners")
	fmt.Printf("bal: property=%s states=%d cases=%d evaluations=%d edges=%d signatures=%d wall=%.1fs\n", property, s.nStates, s.cases, s.evals, s.edges, len(s.sigs), time.Since(s.start).Seconds())
	for _, l := range summary {
		fmt.Println("bal:   " + l)
	}
	return c.Finish()
}

func poolOf(cfg Config, key string) []string {
	st, err := ParseKey(key)
	if err != nil {
		return nil
	}
	for _, p := range cfg.Pools[st.Strat] {
		ok := true
		for _, m := range st.Members {
			ok = ok && hasStr(p, m.ID)
		}
		if ok {
			return p
		}
	}
	return cfg.WidePool
}

func (s *Search) poolFor(key string, pools [][]string) []string {
	if len(pools) == 1 {
		return pools[0]
	}
	return poolOf(s.cfg, key)
}

// level expands every state of one BFS level on the worker pool and returns the next frontier.
func (s *Search) level(strat string, front []item, lvl int, deadline time.Time, pools [][]string) (next []item, done bool, err error) {
	if s.b.Light && lvl > 0 {
		// families with membership events only: groups that can still take a joiner first (a full group has nothing but
		// departures left) - what the time share does not reach is then the less eventful part
		sort.SliceStable(front, func(i, j int) bool { return strings.Count(front[i].key, "|") < strings.Count(front[j].key, "|") })
	}
	// VERIF_SEED rotates the visiting order only
	if n := len(front); n > 0 && !(s.b.Light && lvl > 0) {
		off := (ev.Seed() * 7919) % n
		if off < 0 {
			off += n
		}
		front = append(append([]item(nil), front[off:]...), front[:off]...)
	}
	batch := len(front)/(s.pool.n*8) + 1
	if batch > 64 {
		batch = 64
	}
	var reqs []*request
	for i := 0; i < len(front); i += batch {
		j := i + batch
		if j > len(front) {
			j = len(front)
		}
		rq := &request{Op: "expand", ID: i, B: s.b, Pool: s.poolFor(front[i].key, pools), Level: lvl}
		for _, it := range front[i:j] {
			rq.Keys = append(rq.Keys, it.key)
		}
		reqs = append(reqs, rq)
	}
	for k := 0; k < 3 && len(reqs) > 0; k++ {
		reqs[k*(len(reqs)-1)/2].N = 1 + k*7 // ask for a sample
	}
	if s.byStrat[strat] == nil {
		s.byStrat[strat] = map[string]int{}
	}
	st := s.byStrat[strat]
	done, err = s.pool.run(reqs, deadline, func(rq *request, rp *response) {
		s.cases += rp.Cases
		s.evals += rp.Evals
		s.edges += rp.Edges
		st["states_expanded"] += rp.Done
		st["cases"] += rp.Cases
		st["evaluations"] += rp.Evals
		for k, v := range rp.ByClass {
			s.byClass[k] += v
		}
		for k, v := range rp.OutHist {
			s.outHist[k] += v
		}
		if strat == Sticky { // range and round-robin have no chains: their successors are not states to expand
			evs := map[int][]Event{}
			for _, sc := range rp.Succ {
				if s.see(sc.Key, lvl+1) {
					it := front[rq.ID+sc.P]
					if evs[sc.P] == nil {
						ps, _ := ParseKey(it.key)
						evs[sc.P] = Events(ps, s.b, rq.Pool)
					}
					next = append(next, item{key: sc.Key, path: it.path + " > " + evs[sc.P][sc.Ev].Label()})
				}
			}
		}
		paths := map[string]string{}
		for i, k := range rq.Keys {
			paths[k] = front[rq.ID+i].path
		}
		for _, f := range rp.Findings {
			s.finding(f, paths[f.Key], "bfs")
		}
		if rp.Sample != nil && s.samples[strat] < 2+lvl && lvl < 3 {
			s.samples[strat]++
			s.c.AddSample(map[string]interface{}{"strategy": strat, "family": s.prefix, "level": lvl, "path_to_state": front[rq.ID].path, "case": rp.Sample})
		}
	})
	return next, done, err
}

// onDeath: a worker died (crash, out of memory, fatal error) or hung inside a case. That is a C08
// violation ("Plan returns"), attributed to the case named in the progress area.
func (s *Search) onDeath(rq *request, d death) {
	s.deaths++
	if d.Stall {
		s.c.EngineError("a worker stood still for " + stallWall.String() + " without using CPU: " + tail(d.Stderr, 600))
		return
	}
	st, err := ParseKey(d.Info.Key)
	if err != nil {
		s.c.EngineError("worker died outside a case: " + tail(d.Stderr, 600))
		return
	}
	evs := Events(st, rq.B, rq.Pool)
	if d.Info.Ev >= len(evs) {
		s.c.EngineError("worker died, progress area unreadable: " + tail(d.Stderr, 600))
		return
	}
	e := evs[d.Info.Ev]
	in, ok := Apply(st, e)
	if !ok {
		s.c.EngineError("worker died on a disabled event: " + tail(d.Stderr, 600))
		return
	}
	inPlan := strings.Contains(d.Stderr, "balance_strategy.go") || strings.Contains(d.Stderr, "sticky_assignor")
	class := "plan-crash"
	msg := "the worker process died while evaluating this case"
	if d.Hang {
		class = "plan-hang"
		msg = fmt.Sprintf("one Plan call burnt %s without returning (evaluation #%d of the case)", hangAfter, d.Info.Eval)
		if !inPlan {
			s.c.EngineError("worker made no progress for " + hangAfter + " but its goroutine dump does not show Plan: " + tail(d.Stderr, 1500))
			return
		}
	}
	f := findRec{Finding: Finding{Prop: "C08", Sig: in.Strat + "-" + class + " " + shape(in, e), Msg: msg + "\n" + planStack(d.Stderr)},
		Key: st.Key(true), Ev: d.Info.Ev, Event: e, Outcome: "(none)", Hits: 1, Evals: d.Info.Eval + 1}
	if d.Info.Raw {
		f.RawKey = d.Info.Key
	}
	s.finding(f, "(worker death)", "watchdog")
}

// ---------------------------------------------------------------------------------------------
// differential: the unpruned search must not see anything the pruned one has not

func (s *Search) differential(spool []string, depth int, deadline, hardEnd time.Time, info map[string]interface{}) (bool, error) {
	t0 := time.Now()
	vfile := filepath.Join(s.pool.dir, fmt.Sprintf("visited-%d.bin", os.Getpid()))
	var buf bytes.Buffer
	bfsKeys := map[int]int{}
	for h, d := range s.visited {
		if int(d) <= depth+1 {
			buf.Write(h[:])
			buf.WriteByte(d)
		}
	}
	if err := os.WriteFile(vfile, buf.Bytes(), 0o644); err != nil {
		return false, err
	}
	defer os.Remove(vfile)
	roots := InitialStates(Sticky, s.b, spool, s.cfg.Topics)
	reqs := make([]*request, len(roots))
	for i, r := range roots {
		reqs[i] = &request{Op: "dfs", ID: i, Key: r.Key(true), B: s.b, Pool: spool, Depth: depth, Level: 0, Visited: vfile, Prefix: s.prefix}
	}
	// biggest subtrees first
	sort.SliceStable(reqs, func(i, j int) bool { return len(reqs[i].Key) > len(reqs[j].Key) })
	dfsKeys := map[string]bool{}
	var gaps []gapRec
	var finds []findRec
	raw, cases, evals, rootsDone := 0, 0, 0, 0
	done, err := s.pool.run(reqs, deadline, func(rq *request, rp *response) {
		if !rp.Cut {
			rootsDone++
		}
		raw += rp.RawStates
		cases += rp.Cases
		evals += rp.Evals
		for _, k := range rp.Keys {
			dfsKeys[k] = true
		}
		gaps = append(gaps, rp.Gaps...)
		for _, f := range rp.Findings {
			if f.Prop == s.cfg.Property {
				finds = append(finds, f)
			} else {
				s.other[f.Sig]++
			}
		}
	})
	if err != nil {
		return false, err
	}
	s.evals += evals
	// distinct canonical keys per level seen by the DFS vs. by the BFS
	perLevel := map[string]int{}
	distinct := map[string]bool{}
	for k := range dfsKeys {
		i := strings.Index(k, ":")
		perLevel["level_"+k[:i]]++
		distinct[k[i+1:]] = true
	}
	for _, d := range s.visited {
		if int(d) >= 1 && int(d) <= depth+1 {
			bfsKeys[int(d)]++
		}
	}
	bfsTotal := 0
	for _, n := range bfsKeys {
		bfsTotal += n
	}

	// Resolve every difference. Plan is not a function (map order), so a key or a verdict the DFS saw
	// and the BFS did not is first re-sampled on the CANONICAL parent: found => it was a sampling gap
	// (the state is added and expanded); never found while the RAW parent keeps producing it => the
	// canonicalisation is unsound => engine error.
	type want struct {
		g   *gapRec
		f   *findRec
		key string
	}
	var wants []want
	seenWant := map[string]bool{}
	for i := range gaps {
		g := &gaps[i]
		h := s.hash(g.Child)
		if d, ok := s.visited[h]; ok && int(d) <= g.Level {
			continue
		}
		id := g.Parent + "#" + strconv.Itoa(g.Ev) + "#" + g.Child
		if !seenWant[id] {
			seenWant[id] = true
			wants = append(wants, want{g: g, key: id})
		}
	}
	gapCount := len(wants)
	for i := range finds {
		f := &finds[i]
		if s.triples[keyHash(f.Key+"#"+strconv.Itoa(f.Ev)+"#"+f.Sig)] {
			continue
		}
		id := f.Key + "#" + strconv.Itoa(f.Ev) + "#" + f.Sig
		if !seenWant[id] {
			seenWant[id] = true
			wants = append(wants, want{f: f, key: id})
		}
	}
	verdictGaps := len(wants) - gapCount
	resolved, unresolved, notExamined := 0, 0, 0
	var late []item
	resampleEvals := 0
	pending := wants
	// rounds 1-2: the canonical parent, orders sampled. Round 3: the canonical parent PINNED to the list
	// order of the raw parent (generation still normalised) - an outcome may need a particular list
	// order, which the raw parent has by construction and the order sampling reaches only with
	// probability 1/(number of orders); what remains different from the raw parent is the generation.
	pinnedResolved := 0
	for round, n := range []int{60, 600, 6000} {
		if len(pending) == 0 {
			break
		}
		pinned := round == 2
		rs := make([]*request, len(pending))
		for i, w := range pending {
			rs[i] = &request{Op: "resample", ID: i, B: s.b, Pool: spool, N: n, Count: pinned}
			if w.g != nil {
				rs[i].Key, rs[i].Ev, rs[i].WantKey = w.g.Parent, w.g.Ev, w.g.Child
			} else {
				rs[i].Key, rs[i].Ev, rs[i].WantSig = w.f.Key, w.f.Ev, w.f.Sig
			}
			if pinned {
				rk := ""
				if w.g != nil {
					rk = w.g.RawParent
				} else {
					rk = w.f.RawKey
				}
				if ps, err := ParseKey(rk); err == nil {
					ps.Gen = 1
					rs[i].Key, rs[i].Raw = ps.Key(false), true
				}
			}
		}
		var still []want
		found := make([]bool, len(pending))
		examined := make([]bool, len(pending))
		_, err := s.pool.run(rs, hardEnd, func(rq *request, rp *response) {
			resampleEvals += rp.Evals
			found[rq.ID] = rp.Found
			examined[rq.ID] = true
			if rp.Found {
				for _, f := range rp.Findings {
					s.finding(f, "(differential re-sampling)", "bfs-resample")
				}
			}
		})
		if err != nil {
			return false, err
		}
		for i, w := range pending {
			if !examined[i] {
				notExamined++
				continue
			}
			if !found[i] {
				still = append(still, w)
				continue
			}
			resolved++
			if pinned {
				pinnedResolved++
			}
			if w.g != nil && s.see(w.g.Child, w.g.Level) {
				late = append(late, item{key: w.g.Child, path: "(found by differential re-sampling of " + w.g.Parent + ")"})
			}
		}
		pending = still
	}
	// Still missing after 660 canonical and 6000 pinned evaluations. Many cases have hundreds of distinct
	// plans of probability ~1e-4 each, and the unpruned search will have met SOME of them: asking for one
	// particular rare plan again proves nothing. The canonicalisation is contradicted only by a plan the
	// RAW parent produces at a solid rate (>= 20 of 6000 evaluations) while the pinned canonical parent -
	// which differs from it in nothing but the normalised generation - produced it 0 times in 6000
	// (under equal rates the chance of such a split is 2^-20).
	rare := 0
	var firstUnsound string
	if len(pending) > 0 {
		rs := make([]*request, len(pending))
		for i, w := range pending {
			rs[i] = &request{Op: "resample", ID: i, B: s.b, Pool: spool, N: 6000, Raw: true, Count: true}
			if w.g != nil {
				rs[i].Key, rs[i].Ev, rs[i].WantKey = w.g.RawParent, w.g.Ev, w.g.Child
			} else {
				rs[i].Key, rs[i].Ev, rs[i].WantSig = w.f.RawKey, w.f.Ev, w.f.Sig
			}
		}
		seenRaw := 0
		_, err := s.pool.run(rs, hardEnd, func(rq *request, rp *response) {
			resampleEvals += rp.Evals
			seenRaw++
			if rp.Hits >= 20 {
				unresolved++
				if firstUnsound == "" {
					firstUnsound = fmt.Sprintf("%s (raw parent %s: %d of %d)", pending[rq.ID].key, rq.Key, rp.Hits, rp.Evals)
				}
			} else {
				rare++
			}
		})
		if err != nil {
			return false, err
		}
		notExamined += len(pending) - seenRaw
	}
	s.evals += resampleEvals

	// expand the late states like any other (same depth bound)
	lateCount := len(late)
	for lvl := 1; len(late) > 0 && lvl <= s.b.Depth; lvl++ {
		var here, rest []item
		for _, it := range late {
			if int(s.visited[s.hash(it.key)]) == lvl {
				here = append(here, it)
			} else {
				rest = append(rest, it)
			}
		}
		if len(here) == 0 {
			late = rest
			continue
		}
		next, _, err := s.level(Sticky, here, lvl, hardEnd, [][]string{spool})
		if err != nil {
			return false, err
		}
		late = append(rest, next...)
	}
	for _, f := range finds { // every DFS finding is a real Plan result on a reachable input
		s.finding(f, "(unpruned dfs)", "dfs")
	}

	info["differential"] = map[string]interface{}{
		"depth":                              depth,
		"roots":                              len(roots),
		"roots_completed":                    rootsDone,
		"completed":                          done,
		"raw_states_visited_unpruned":        raw,
		"cases":                              cases,
		"evaluations":                        evals,
		"distinct_canonical_keys_dfs":        len(distinct),
		"distinct_canonical_keys_bfs":        bfsTotal,
		"dfs_keys_per_level":                 perLevel,
		"bfs_keys_per_level":                 bfsKeys,
		"keys_seen_by_dfs_not_by_bfs":        gapCount,
		"verdicts_seen_by_dfs_not_bfs":       verdictGaps,
		"resolved_by_resampling_bfs_side":    resolved,
		"of_which_needed_the_raw_list_order": pinnedResolved,
		"unresolved_raw_reproduces_canonical_does_not": unresolved,
		"rare_plans_inconclusive":                      rare,
		"late_states_added_and_expanded":               lateCount,
		"resampling_evaluations":                       resampleEvals,
		"wall_s":                                       time.Since(t0).Seconds(),
		"reading": "a key or verdict the unpruned raw search saw and the pruned canonical search did not is re-sampled on the canonical parent (60, 600 evaluations with sampled orders, then 6000 pinned to the raw parent's list order but with the normalised generation): " +
			"found = sampling gap of the nondeterministic Plan (state added and expanded); still missing after that while the RAW parent produces it in >= 20 of 6000 evaluations = canonicalisation unsound (engine error); fewer = a rare plan (many cases have hundreds of plans of probability ~1e-4), inconclusive, counted",
	}
	if unresolved > 0 {
		return false, fmt.Errorf("differential: %d keys/verdicts reached by the unpruned raw search are produced by the raw parent at a solid rate (>=20/6000) and never (0/6660) by the canonical one: canonicalisation unsound (first: %s)", unresolved, firstUnsound)
	}
	return done && notExamined == 0, nil
}
