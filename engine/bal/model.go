// Package bal: one explicit-state search over consumer-group rebalance chains that serves the checks
// C08 (plan validity) and C13 (balance / stickiness). Everything the search decides is decided by the
// REAL sarama BalanceStrategy.Plan / AssignmentData / user-data decode path; this file holds only the
// harness model: what a state is, its canonical key, the initial states and the events.
package bal

import (
	"fmt"
	"sort"
	"strconv"
	"strings"
)

const (
	Range      = "range"
	RoundRobin = "roundrobin"
	Sticky     = "sticky"
)

type Topic struct {
	Name string
	N    int // partitions 0..N-1 (sarama's client returns them sorted)
}

// Member of the group as the leader sees it in JoinGroup: id, subscription, and (sticky) the user data
// it carries = the assignment it received from the previous plan.
type Member struct {
	ID    string
	Subs  []string           // sorted, non-empty
	Fresh bool               // no user data at all (never received an assignment)
	Own   map[string][]int32 // assignment carried in user data (raw: in the order Plan returned it)
}

// State = the cluster (existing topics with partition counts) + the group. In every state of the graph
// all non-fresh members carry user data of the same generation (they all received the last plan); stale
// and conflicting user data exist only inside the input that an event builds.
type State struct {
	Strat   string
	Topics  []Topic  // sorted by name
	Members []Member // sorted by id
	Gen     int      // generation of the plan the members carry. Canonical states: always 1.
}

// Bounds of the search.
type Bounds struct {
	MaxMembers int
	MaxTopics  int
	MaxParts   int
	Depth      int // events after the initial plan (sticky chains)
	DFSDepth   int // depth of the unpruned differential search
	R          int // minimum evaluations of each case (map-order nondeterminism)
	// FixedParts: the initial cluster has exactly len(FixedParts) topics with these partition counts (instead of every
	// combination of 1..MaxParts): families with many members and partitions would not be enumerable otherwise
	FixedParts []int `json:",omitempty"`
	// Light: only the membership events (a fresh member joins with any subscription, a member leaves)
	Light bool `json:",omitempty"`
	// MaxEvals > 0 caps the evaluations of one case (default 20 R); MinMembers > 0: initial groups have at least that many members
	MaxEvals   int `json:",omitempty"`
	MinMembers int `json:",omitempty"`
	// Compound: besides the single events, two changes in ONE rebalance: (a topic is deleted | a member changes its
	// subscription | a member leaves) and a fresh member joins
	Compound bool `json:",omitempty"`
	// CompoundSub: also (a member changes its subscription) and a fresh member joins - by far the largest class
	CompoundSub bool `json:",omitempty"`
	// DupSubs: the first plan is also computed with subscriptions that name a topic twice (all members / the first one)
	DupSubs bool `json:",omitempty"`
	// ClaimEach: a joiner with stale user data may also claim any single partition of its first topic (not only partition 0)
	ClaimEach bool `json:",omitempty"`
}

// ---------------------------------------------------------------------------------------------
// keys

func partsString(l []int32, sorted bool) string {
	if sorted {
		l = append([]int32(nil), l...)
		sort.Slice(l, func(i, j int) bool { return l[i] < l[j] })
	}
	var b strings.Builder
	for i, p := range l {
		if i > 0 {
			b.WriteByte('.')
		}
		b.WriteString(strconv.Itoa(int(p)))
	}
	return b.String()
}

func ownString(own map[string][]int32, sorted bool) string {
	ts := make([]string, 0, len(own))
	for t, l := range own {
		if len(l) > 0 { // an empty list is no claim (AssignmentData never receives one: Plan.Add drops them)
			ts = append(ts, t)
		}
	}
	sort.Strings(ts)
	var b strings.Builder
	for i, t := range ts {
		if i > 0 {
			b.WriteByte(',')
		}
		b.WriteString(t)
		b.WriteByte('/')
		b.WriteString(partsString(own[t], sorted))
	}
	return b.String()
}

// Key serialises a state. canon=true is the canonical key of the visited set: assignment lists sorted
// and the generation dropped (all carried generations are equal, Plan only compares generations).
// canon=false keeps what a real chain would carry: Plan's list order and the absolute generation.
// Member order and topic order inside user data are no information (both are Go maps for Plan).
func (s *State) Key(canon bool) string {
	var b strings.Builder
	b.WriteString(s.Strat)
	b.WriteByte('|')
	for i, t := range s.Topics {
		if i > 0 {
			b.WriteByte(',')
		}
		fmt.Fprintf(&b, "%s=%d", t.Name, t.N)
	}
	for _, m := range s.Members {
		b.WriteByte('|')
		b.WriteString(m.ID)
		b.WriteByte(';')
		b.WriteString(strings.Join(m.Subs, ","))
		b.WriteByte(';')
		if m.Fresh {
			b.WriteByte('F')
		} else {
			b.WriteByte('D')
			b.WriteString(ownString(m.Own, canon))
		}
	}
	if !canon {
		fmt.Fprintf(&b, "|g=%d", s.Gen)
	}
	return b.String()
}

// ParseKey is the inverse of Key (either flavour).
func ParseKey(k string) (*State, error) {
	f := strings.Split(k, "|")
	if len(f) < 3 {
		return nil, fmt.Errorf("bad key %q", k)
	}
	s := &State{Strat: f[0], Gen: 1}
	if f[1] != "" {
		for _, ts := range strings.Split(f[1], ",") {
			nv := strings.SplitN(ts, "=", 2)
			if len(nv) != 2 {
				return nil, fmt.Errorf("bad topic %q in %q", ts, k)
			}
			n, err := strconv.Atoi(nv[1])
			if err != nil {
				return nil, err
			}
			s.Topics = append(s.Topics, Topic{nv[0], n})
		}
	}
	for _, ms := range f[2:] {
		if strings.HasPrefix(ms, "g=") {
			g, err := strconv.Atoi(ms[2:])
			if err != nil {
				return nil, err
			}
			s.Gen = g
			continue
		}
		mf := strings.SplitN(ms, ";", 3)
		if len(mf) != 3 || mf[2] == "" {
			return nil, fmt.Errorf("bad member %q in %q", ms, k)
		}
		m := Member{ID: mf[0], Own: map[string][]int32{}}
		if mf[1] != "" {
			m.Subs = strings.Split(mf[1], ",")
		}
		if mf[2] == "F" {
			m.Fresh = true
		} else if rest := mf[2][1:]; rest != "" {
			for _, os := range strings.Split(rest, ",") {
				tv := strings.SplitN(os, "/", 2)
				if len(tv) != 2 {
					return nil, fmt.Errorf("bad own %q in %q", os, k)
				}
				for _, ps := range strings.Split(tv[1], ".") {
					p, err := strconv.Atoi(ps)
					if err != nil {
						return nil, err
					}
					m.Own[tv[0]] = append(m.Own[tv[0]], int32(p))
				}
			}
		}
		s.Members = append(s.Members, m)
	}
	return s, nil
}

func (s *State) topicN(name string) (int, bool) {
	for _, t := range s.Topics {
		if t.Name == name {
			return t.N, true
		}
	}
	return 0, false
}

func (s *State) fresh() bool {
	for _, m := range s.Members {
		if !m.Fresh {
			return false
		}
	}
	return true
}

// ---------------------------------------------------------------------------------------------
// events

type Event struct {
	Kind    string   `json:"kind"`              // plan | join | join2 | leave | sub | gain | lose | delete
	Member2 string   `json:"member2,omitempty"` // join2: the second joiner (its user data is one generation older than the first's)
	Member  string   `json:"member,omitempty"`  // join, leave, sub
	Subs    []string `json:"subs,omitempty"`    // join, sub
	Stale   string   `json:"stale,omitempty"`   // join: "" (fresh, no user data) | old | same | v0
	Claim   string   `json:"claim,omitempty"`   // join with stale data: all | dirty | one
	Topic   string   `json:"topic,omitempty"`   // gain, lose, delete
	K       int      `json:"k,omitempty"`       // lose: number of trailing partitions that vanish
	Dup     string   `json:"dup,omitempty"`     // plan: "all" | "first": these members name their first topic twice in the subscription
	// Also: a second change that reaches the leader in the SAME rebalance (a rebalance collects everything that
	// happened since the last one): delete+join, sub+join, leave+join. Only in families with Bounds.Compound.
	Also *Event `json:"also,omitempty"`
}

func (e Event) Label() string {
	if e.Also != nil {
		one := e
		one.Also = nil
		return one.Label() + "+" + e.Also.Label()
	}
	switch e.Kind {
	case "plan":
		if e.Dup != "" {
			return "plan(duplicate topic name: " + e.Dup + ")"
		}
		return "plan"
	case "join":
		if e.Stale == "" {
			return fmt.Sprintf("join(%s;%s;fresh)", e.Member, strings.Join(e.Subs, ","))
		}
		return fmt.Sprintf("join(%s;%s;%s/%s)", e.Member, strings.Join(e.Subs, ","), e.Stale, e.Claim)
	case "join2":
		return fmt.Sprintf("join2(%s,%s;%s;old+older/%s)", e.Member, e.Member2, strings.Join(e.Subs, ","), e.Claim)
	case "leave":
		return "leave(" + e.Member + ")"
	case "sub":
		return fmt.Sprintf("sub(%s;%s)", e.Member, strings.Join(e.Subs, ","))
	case "lose":
		return fmt.Sprintf("lose(%s;%d)", e.Topic, e.K)
	}
	return e.Kind + "(" + e.Topic + ")"
}

// Class is the coarse event class used in signatures and per-class counters.
func (e Event) Class() string {
	if e.Also != nil {
		one := e
		one.Also = nil
		return one.Class() + "+" + e.Also.Class()
	}
	if e.Kind == "join" {
		if e.Stale == "" {
			return "join-fresh"
		}
		return "join-stale-" + e.Stale
	}
	if e.Kind == "join2" {
		return "join-two-stale"
	}
	if e.Kind == "plan" && e.Dup != "" {
		return "plan-duplicate-topic"
	}
	return e.Kind
}

// GhostTopic never exists in any cluster; the "dirty" stale claim mentions it (a deleted topic).
const GhostTopic = "tz"

func subsets(names []string) [][]string {
	var out [][]string
	for mask := 1; mask < 1<<len(names); mask++ {
		var s []string
		for i, n := range names {
			if mask&(1<<i) != 0 {
				s = append(s, n)
			}
		}
		out = append(out, s)
	}
	return out
}

func sameStrings(a, b []string) bool {
	if len(a) != len(b) {
		return false
	}
	for i := range a {
		if a[i] != b[i] {
			return false
		}
	}
	return true
}

// Events lists, in a fixed order, every event enabled in s under the bounds. A state whose members
// are all fresh is an initial input: the only thing that can happen to it is the first plan (any other
// event would merely produce another initial input, which is enumerated separately).
func Events(s *State, b Bounds, pool []string) []Event {
	evs := []Event{{Kind: "plan"}}
	if b.DupSubs && s.fresh() {
		evs = append(evs, Event{Kind: "plan", Dup: "all"})
		if len(s.Members) > 1 {
			evs = append(evs, Event{Kind: "plan", Dup: "first"})
		}
	}
	if s.Strat != Sticky || s.fresh() {
		return evs
	}
	names := make([]string, len(s.Topics))
	for i, t := range s.Topics {
		names[i] = t.Name
	}
	subs := subsets(names)
	if len(s.Members) < b.MaxMembers {
		for _, id := range pool {
			present := false
			for _, m := range s.Members {
				present = present || m.ID == id
			}
			if present {
				continue
			}
			for _, ss := range subs {
				evs = append(evs, Event{Kind: "join", Member: id, Subs: ss})
				if b.Light {
					continue
				}
				for _, st := range []string{"old", "same", "v0"} {
					for _, cl := range []string{"all", "dirty", "one"} {
						evs = append(evs, Event{Kind: "join", Member: id, Subs: ss, Stale: st, Claim: cl})
					}
					if b.ClaimEach {
						// ... or exactly one partition of its first topic, whichever ("one" is partition 0)
						n, _ := s.topicN(ss[0])
						for k := 1; k < n; k++ {
							evs = append(evs, Event{Kind: "join", Member: id, Subs: ss, Stale: st, Claim: "p" + strconv.Itoa(k)})
						}
					}
				}
			}
		}
	}
	if !b.Light && len(s.Members)+2 <= b.MaxMembers {
		// two members that missed one resp. two rebalances come back together: user data of three generations meet
		var absent []string
		for _, id := range pool {
			present := false
			for _, m := range s.Members {
				present = present || m.ID == id
			}
			if !present {
				absent = append(absent, id)
			}
		}
		if len(absent) >= 2 {
			for _, ss := range subs {
				for _, cl := range []string{"one", "all"} {
					evs = append(evs, Event{Kind: "join2", Member: absent[0], Member2: absent[1], Subs: ss, Claim: cl})
				}
			}
		}
	}
	if len(s.Members) >= 2 {
		for _, m := range s.Members {
			evs = append(evs, Event{Kind: "leave", Member: m.ID})
		}
	}
	if b.Compound && len(s.Members) < b.MaxMembers {
		joiner := ""
		for _, id := range pool {
			present := false
			for _, m := range s.Members {
				present = present || m.ID == id
			}
			if !present && joiner == "" {
				joiner = id
			}
		}
		if joiner != "" {
			for _, t := range s.Topics {
				var rest []string
				for _, n := range names {
					if n != t.Name {
						rest = append(rest, n)
					}
				}
				for _, ss := range subsets(rest) {
					evs = append(evs, Event{Kind: "delete", Topic: t.Name, Also: &Event{Kind: "join", Member: joiner, Subs: ss}})
				}
			}
			for _, m := range s.Members {
				if !b.CompoundSub {
					break
				}
				for _, ms := range subs {
					if sameStrings(ms, m.Subs) {
						continue
					}
					for _, ss := range subs {
						evs = append(evs, Event{Kind: "sub", Member: m.ID, Subs: ms, Also: &Event{Kind: "join", Member: joiner, Subs: ss}})
					}
				}
			}
			if len(s.Members) >= 2 {
				for _, m := range s.Members {
					for _, ss := range subs {
						evs = append(evs, Event{Kind: "leave", Member: m.ID, Also: &Event{Kind: "join", Member: joiner, Subs: ss}})
					}
				}
			}
		}
	}
	if b.Light {
		return evs
	}
	for _, m := range s.Members {
		for _, ss := range subs {
			if !sameStrings(ss, m.Subs) {
				evs = append(evs, Event{Kind: "sub", Member: m.ID, Subs: ss})
			}
		}
	}
	for _, t := range s.Topics {
		if t.N < b.MaxParts {
			evs = append(evs, Event{Kind: "gain", Topic: t.Name})
		}
		for k := 1; k < t.N; k++ {
			evs = append(evs, Event{Kind: "lose", Topic: t.Name, K: k})
		}
		evs = append(evs, Event{Kind: "delete", Topic: t.Name})
	}
	return evs
}

// ---------------------------------------------------------------------------------------------
// the input an event builds

type UserData struct {
	Topics map[string][]int32
	Gen    int
	V0     bool // legacy format without generation
}

type InMember struct {
	ID   string
	Subs []string
	Data *UserData // nil: no user data
	Old  bool      // member of the previous plan (as opposed to the joiner)
}

// Input is exactly what the leader has when it calls balance(): the members with their metadata and
// the partition lists of every topic at least one member subscribes to.
type Input struct {
	Strat   string
	Members []InMember
	Cluster []Topic        // cluster after the event
	Topics  map[string]int // subscribed topics -> partition count (what consumerGroup.balance passes)
	Gen     int            // generation of the plan being computed
	Dup     string         // "all" | "first": these members' subscriptions name their first topic twice
}

func copyOwn(o map[string][]int32) map[string][]int32 {
	c := make(map[string][]int32, len(o))
	for t, l := range o {
		if len(l) > 0 {
			c[t] = append([]int32(nil), l...)
		}
	}
	return c
}

// Apply builds the input of the rebalance that event e triggers in state s. ok=false: the event leaves
// no group to plan for (every member lost its last topic).
func Apply(s *State, e Event) (in *Input, ok bool) {
	in = &Input{Strat: s.Strat, Gen: s.Gen + 1}
	if s.fresh() {
		in.Gen = s.Gen // the first plan
	}
	in.Cluster = append([]Topic(nil), s.Topics...)
	for _, m := range s.Members {
		im := InMember{ID: m.ID, Subs: append([]string(nil), m.Subs...), Old: true}
		if !m.Fresh && s.Strat == Sticky {
			im.Data = &UserData{Topics: copyOwn(m.Own), Gen: s.Gen}
		}
		in.Members = append(in.Members, im)
	}
	if !mutate(in, s, e) {
		return nil, false
	}
	if e.Also != nil && !mutate(in, s, *e.Also) {
		return nil, false
	}
	if len(in.Members) == 0 {
		return nil, false
	}
	in.Topics = map[string]int{}
	for _, m := range in.Members {
		for _, t := range m.Subs {
			for _, c := range in.Cluster {
				if c.Name == t {
					in.Topics[t] = c.N
				}
			}
		}
	}
	return in, true
}

// mutate applies one change to the input being built (s: the state before the rebalance).
func mutate(in *Input, s *State, e Event) bool {
	switch e.Kind {
	case "plan":
		in.Dup = e.Dup
	case "join":
		im := InMember{ID: e.Member, Subs: append([]string(nil), e.Subs...)}
		if e.Stale != "" {
			d := &UserData{Topics: map[string][]int32{}, Gen: s.Gen - 1}
			switch e.Stale {
			case "same":
				d.Gen = s.Gen
			case "v0":
				d.V0 = true
			}
			if strings.HasPrefix(e.Claim, "p") {
				k, _ := strconv.Atoi(e.Claim[1:])
				d.Topics[e.Subs[0]] = []int32{int32(k)}
			}
			switch e.Claim {
			case "one":
				d.Topics[e.Subs[0]] = []int32{0}
			case "all", "dirty":
				for _, t := range e.Subs {
					n, _ := s.topicN(t)
					for p := 0; p < n; p++ {
						d.Topics[t] = append(d.Topics[t], int32(p))
					}
					if e.Claim == "dirty" {
						d.Topics[t] = append(d.Topics[t], int32(n)) // a partition that does not exist (any more)
					}
				}
				if e.Claim == "dirty" {
					for _, t := range s.Topics {
						if _, mine := d.Topics[t.Name]; !mine {
							d.Topics[t.Name] = []int32{0} // a topic it is not subscribed to
						}
					}
					d.Topics[GhostTopic] = []int32{0} // a topic that does not exist
				}
			}
			im.Data = d
		}
		in.Members = append(in.Members, im)
		sort.Slice(in.Members, func(i, j int) bool { return in.Members[i].ID < in.Members[j].ID })
	case "join2":
		for k, id := range []string{e.Member, e.Member2} {
			d := &UserData{Topics: map[string][]int32{}, Gen: s.Gen - 1 - k}
			for ti, t := range e.Subs {
				n, _ := s.topicN(t)
				if e.Claim == "one" {
					if ti == 0 {
						d.Topics[t] = []int32{0}
					}
					continue
				}
				for p := 0; p < n; p++ {
					d.Topics[t] = append(d.Topics[t], int32(p))
				}
			}
			in.Members = append(in.Members, InMember{ID: id, Subs: append([]string(nil), e.Subs...), Data: d})
		}
		sort.Slice(in.Members, func(i, j int) bool { return in.Members[i].ID < in.Members[j].ID })
	case "leave":
		for i, m := range in.Members {
			if m.ID == e.Member {
				in.Members = append(in.Members[:i], in.Members[i+1:]...)
				break
			}
		}
	case "sub":
		for i := range in.Members {
			if in.Members[i].ID == e.Member {
				in.Members[i].Subs = append([]string(nil), e.Subs...)
			}
		}
	case "gain":
		for i := range in.Cluster {
			if in.Cluster[i].Name == e.Topic {
				in.Cluster[i].N++
			}
		}
	case "lose":
		for i := range in.Cluster {
			if in.Cluster[i].Name == e.Topic {
				in.Cluster[i].N -= e.K
			}
		}
	case "delete":
		// the topic vanishes; a consumer cannot keep it in its subscription (consumerGroup.balance
		// fails with ErrUnknownTopicOrPartition before Plan is reached), and one without any topic
		// cannot call Consume: it is gone. The survivors' user data still name the deleted topic.
		for i := range in.Cluster {
			if in.Cluster[i].Name == e.Topic {
				in.Cluster = append(in.Cluster[:i], in.Cluster[i+1:]...)
				break
			}
		}
		var keep []InMember
		for _, m := range in.Members {
			var ss []string
			for _, t := range m.Subs {
				if t != e.Topic {
					ss = append(ss, t)
				}
			}
			m.Subs = ss
			if len(ss) > 0 {
				keep = append(keep, m)
			}
		}
		in.Members = keep
	default:
		return false
	}
	return true
}

// Successor is the state after the plan was distributed: every member of the input carries the
// assignment the plan gave it, with the plan's generation.
func Successor(in *Input, plan map[string]map[string][]int32, canon bool) *State {
	n := &State{Strat: in.Strat, Topics: append([]Topic(nil), in.Cluster...), Gen: in.Gen}
	if canon {
		n.Gen = 1
	}
	for _, m := range in.Members {
		nm := Member{ID: m.ID, Subs: m.Subs, Own: copyOwn(plan[m.ID])}
		if canon {
			for _, l := range nm.Own {
				sort.Slice(l, func(i, j int) bool { return l[i] < l[j] })
			}
		}
		n.Members = append(n.Members, nm)
	}
	return n
}

// ---------------------------------------------------------------------------------------------
// initial states

// InitialStates enumerates every group within the bounds: every non-empty subset of the id pool (at
// most MaxMembers), every cluster of 1..MaxTopics topics with 1..MaxParts partitions each, and every
// subscription pattern (each member any non-empty subset of the topics; this includes identical,
// overlapping and disjoint patterns, topics only one member has, and existing topics nobody has).
func InitialStates(strat string, b Bounds, pool []string, topicNames []string) []*State {
	var out []*State
	for nt := 1; nt <= b.MaxTopics && nt <= len(topicNames); nt++ {
		if len(b.FixedParts) > 0 && nt != len(b.FixedParts) {
			continue
		}
		names := topicNames[:nt]
		counts := make([]int, nt)
		for i := range counts {
			counts[i] = 1
			if len(b.FixedParts) > 0 {
				counts[i] = b.FixedParts[i]
			}
		}
		subs := subsets(names)
		for {
			topics := make([]Topic, nt)
			for i := range names {
				topics[i] = Topic{names[i], counts[i]}
			}
			for _, ids := range subsets(pool) {
				if len(ids) > b.MaxMembers || len(ids) < b.MinMembers {
					continue
				}
				ids = append([]string(nil), ids...)
				sort.Strings(ids)
				choice := make([]int, len(ids))
				for {
					s := &State{Strat: strat, Topics: topics, Gen: 1}
					for i, id := range ids {
						s.Members = append(s.Members, Member{ID: id, Subs: subs[choice[i]], Fresh: true, Own: map[string][]int32{}})
					}
					out = append(out, s)
					i := 0
					for ; i < len(choice); i++ {
						choice[i]++
						if choice[i] < len(subs) {
							break
						}
						choice[i] = 0
					}
					if i == len(choice) {
						break
					}
				}
			}
			if len(b.FixedParts) > 0 {
				break
			}
			i := 0
			for ; i < nt; i++ {
				counts[i]++
				if counts[i] <= b.MaxParts {
					break
				}
				counts[i] = 1
			}
			if i == nt {
				break
			}
		}
	}
	return out
}
