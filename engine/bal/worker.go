package bal

import (
	"bufio"
	"crypto/sha256"
	"encoding/binary"
	"encoding/json"
	"fmt"
	"math/rand"
	"os"
	"runtime/debug"
	"sort"
	"strconv"
	"strings"
	"sync/atomic"
	"syscall"
	"time"
	"unsafe"
)

// ---------------------------------------------------------------------------------------------
// evaluating one case = (state, event): R or more real Plan calls

type outcomeRec struct {
	Out      Outcome
	N        int
	Findings []Finding
	Succ     *State // nil when Plan failed
	RawKey   string // the state with its lists in the order that first produced this outcome
	SuccKey  string // canonical key of Succ
}

type caseResult struct {
	In       *Input
	Evals    int
	Outcomes []*outcomeRec // in order of first appearance
}

// evalCase calls the real Plan at least r times on the input that event e builds in state s, and goes
// on until r consecutive calls have produced no new distinct plan (at most maxEvals calls). Every
// result is judged by both oracles (identical results share the verdict: the oracles are functions of
// input and result). stop, if not nil, ends the evaluation early.
//
// Go iterates a small map in insertion order from a random start, so Plan's result depends on orders
// that carry no meaning: the order in which the members were put into the members map (the broker's
// JoinGroup order) and, through the maps Plan fills from them, the order of the partition lists inside
// the user data. The canonical state therefore holds SETS, and evaluation #i of a canonical case
// presents them in the i-th pseudo-random order (#0: sorted); a raw case keeps the list order that
// Plan produced. The order that led to an outcome is kept (RawKey) so that a replay can fix it.
func evalCase(s *State, e Event, canon bool, r, maxEvals int, stop func(*outcomeRec) bool) (*caseResult, error) {
	if _, ok := Apply(s, e); !ok {
		return nil, nil
	}
	res := &caseResult{}
	seen := map[string]*outcomeRec{}
	sinceNew := 0
	for res.Evals < maxEvals && (res.Evals < r || sinceNew < r) {
		progress.eval(res.Evals)
		ps := s
		if canon && res.Evals > 0 {
			ps = permuteLists(s, res.Evals)
		}
		in, _ := Apply(ps, e)
		if res.In == nil {
			res.In = in
		}
		out, err := RunPlan(in, res.Evals)
		if err != nil {
			return nil, err
		}
		res.Evals++
		k := out.key(canon)
		rec := seen[k]
		if rec == nil {
			rec = &outcomeRec{Out: out, RawKey: ps.Key(false)}
			rec.Findings = append(JudgeC08(in, e, &out), JudgeC13(in, s, e, &out)...)
			if out.Plan != nil {
				rec.Succ = Successor(in, out.Plan, canon)
				rec.SuccKey = rec.Succ.Key(true)
			}
			seen[k] = rec
			res.Outcomes = append(res.Outcomes, rec)
			sinceNew = 0
		} else {
			sinceNew++
		}
		rec.N++
		if stop != nil && stop(rec) {
			break
		}
	}
	return res, nil
}

// permuteLists returns a copy of s whose carried assignment lists are in the i-th pseudo-random order.
func permuteLists(s *State, i int) *State {
	rng := rand.New(rand.NewSource(int64(i)))
	c := *s
	c.Members = make([]Member, len(s.Members))
	for j, m := range s.Members {
		nm := m
		nm.Own = make(map[string][]int32, len(m.Own))
		ts := make([]string, 0, len(m.Own))
		for t := range m.Own {
			ts = append(ts, t)
		}
		sort.Strings(ts)
		for _, t := range ts {
			l := append([]int32(nil), m.Own[t]...)
			rng.Shuffle(len(l), func(a, b int) { l[a], l[b] = l[b], l[a] })
			nm.Own[t] = l
		}
		c.Members[j] = nm
	}
	return &c
}

// ---------------------------------------------------------------------------------------------
// progress area shared with the parent (mmap): which case is being evaluated right now

const progressSize = 4096

type progressArea struct {
	mem []byte
}

var progress progressArea

func (p *progressArea) open(path string) error {
	f, err := os.OpenFile(path, os.O_RDWR, 0o644)
	if err != nil {
		return err
	}
	defer f.Close()
	m, err := syscall.Mmap(int(f.Fd()), 0, progressSize, syscall.PROT_READ|syscall.PROT_WRITE, syscall.MAP_SHARED)
	if err != nil {
		return err
	}
	p.mem = m
	return nil
}

func (p *progressArea) beat() {
	if p.mem != nil {
		atomic.AddUint64((*uint64)(unsafe.Pointer(&p.mem[0])), 1)
	}
}

// begin records the case (state key, raw flag, event index) before its first Plan call.
func (p *progressArea) begin(key string, raw bool, ev int) {
	if p.mem == nil {
		return
	}
	if len(key) > progressSize-64 {
		key = key[:progressSize-64]
	}
	binary.LittleEndian.PutUint32(p.mem[8:], uint32(ev))
	r := uint32(0)
	if raw {
		r = 1
	}
	binary.LittleEndian.PutUint32(p.mem[12:], r)
	binary.LittleEndian.PutUint32(p.mem[20:], uint32(len(key)))
	copy(p.mem[64:], key)
	p.beat()
}

func (p *progressArea) eval(n int) {
	if p.mem == nil {
		return
	}
	binary.LittleEndian.PutUint32(p.mem[16:], uint32(n))
	p.beat()
}

type progressInfo struct {
	Beat uint64
	Key  string
	Raw  bool
	Ev   int
	Eval int
}

func readProgress(mem []byte) progressInfo {
	if len(mem) < progressSize {
		return progressInfo{}
	}
	n := int(binary.LittleEndian.Uint32(mem[20:]))
	if n > progressSize-64 {
		n = progressSize - 64
	}
	return progressInfo{
		Beat: atomic.LoadUint64((*uint64)(unsafe.Pointer(&mem[0]))),
		Ev:   int(binary.LittleEndian.Uint32(mem[8:])),
		Raw:  binary.LittleEndian.Uint32(mem[12:]) == 1,
		Eval: int(binary.LittleEndian.Uint32(mem[16:])),
		Key:  string(mem[64 : 64+n]),
	}
}

// ---------------------------------------------------------------------------------------------
// protocol

type request struct {
	Op      string   `json:"op"` // expand | dfs | resample
	ID      int      `json:"id"`
	Key     string   `json:"key"`
	Keys    []string `json:"keys,omitempty"` // expand: a batch of canonical states
	Raw     bool     `json:"raw,omitempty"`
	Ev      int      `json:"ev,omitempty"`
	N       int      `json:"n,omitempty"`
	WantKey string   `json:"want_key,omitempty"`
	WantSig string   `json:"want_sig,omitempty"`
	Count   bool     `json:"count,omitempty"` // resample: no early stop, count the hits in N evaluations
	Depth   int      `json:"depth,omitempty"`
	Level   int      `json:"level,omitempty"`
	Skip    []string `json:"skip,omitempty"` // cases ("<key>#<ev>") that killed a worker before: not evaluated again
	Visited string   `json:"visited,omitempty"`
	Until   int64    `json:"until,omitempty"`  // unix nanoseconds: stop cleanly (Cut) when the internal deadline has passed
	Prefix  string   `json:"prefix,omitempty"` // family name: the visited set is keyed by hash(prefix NUL key)
	B       Bounds   `json:"b"`
	Pool    []string `json:"pool"`
}

type succRec struct {
	Key string `json:"k"`
	Ev  int    `json:"e"`
	P   int    `json:"p"` // index of the parent in the batch
}

type findRec struct {
	Finding
	Key     string `json:"key"` // canonical key of the state the event happened in
	RawKey  string `json:"raw_key,omitempty"`
	Ev      int    `json:"ev"`
	Event   Event  `json:"event"`
	Outcome string `json:"outcome"`
	Hits    int    `json:"hits"`
	Evals   int    `json:"evals"`
}

type gapRec struct {
	Parent    string `json:"parent"` // canonical key
	RawParent string `json:"raw_parent"`
	Ev        int    `json:"ev"`
	Child     string `json:"child"` // canonical key
	Level     int    `json:"level"`
}

type sampleRec struct {
	State    string            `json:"state"`
	Event    string            `json:"event"`
	Evals    int               `json:"evaluations"`
	Outcomes map[string]int    `json:"plans_seen"`
	Input    map[string]string `json:"input,omitempty"`
}

type response struct {
	ID        int            `json:"id"`
	Err       string         `json:"err,omitempty"`
	Cases     int            `json:"cases"`
	Evals     int            `json:"evals"`
	Edges     int            `json:"edges"`
	Succ      []succRec      `json:"succ,omitempty"`
	Findings  []findRec      `json:"findings,omitempty"`
	ByClass   map[string]int `json:"by_class,omitempty"`
	OutHist   map[string]int `json:"out_hist,omitempty"` // distinct plans per case -> number of cases
	RawStates int            `json:"raw_states,omitempty"`
	Keys      []string       `json:"keys,omitempty"` // dfs: hashes (hex) of the canonical keys reached, with level: "<level>:<hash>"
	Gaps      []gapRec       `json:"gaps,omitempty"`
	Found     bool           `json:"found,omitempty"`
	Hits      int            `json:"hits,omitempty"`
	Sample    *sampleRec     `json:"sample,omitempty"`
	Done      int            `json:"done,omitempty"` // expand: number of states of the batch that were expanded completely
	Cut       bool           `json:"cut,omitempty"`  // the deadline passed before the request was finished
}

func (rq *request) late() bool { return rq.Until != 0 && time.Now().UnixNano() > rq.Until }

func keyHash(k string) [16]byte {
	h := sha256.Sum256([]byte(k))
	var o [16]byte
	copy(o[:], h[:16])
	return o
}

func maxEvals(r int) int { return 20 * r }

// capEvals: the evaluation cap of a case under bounds b.
func capEvals(b Bounds) int {
	if b.MaxEvals > 0 {
		return b.MaxEvals
	}
	return maxEvals(b.R)
}

type workerState struct {
	sampleBest  int
	visited     map[[16]byte]uint8
	visitedFile string
}

// WorkerMain is the body of TestWorker in the check packages. Requests on stdin, replies on fd 3.
func WorkerMain() {
	if os.Getenv("VERIF_BAL_WORKER") == "" {
		return
	}
	// a runaway Plan must die here, attributable, instead of taking the machine down
	lim := uint64(4 << 30)
	_ = syscall.Setrlimit(syscall.RLIMIT_AS, &syscall.Rlimit{Cur: lim, Max: lim})
	debug.SetMaxStack(64 << 20)
	debug.SetGCPercent(200)
	if p := os.Getenv("VERIF_BAL_PROGRESS"); p != "" {
		if err := progress.open(p); err != nil {
			fmt.Fprintln(os.Stderr, "bal worker: progress area:", err)
			os.Exit(5)
		}
	}
	out := os.NewFile(3, "reply")
	w := bufio.NewWriterSize(out, 1<<20)
	in := bufio.NewReaderSize(os.Stdin, 1<<20)
	ws := &workerState{}
	for {
		line, err := in.ReadBytes('\n')
		if err != nil {
			os.Exit(0)
		}
		var rq request
		if err := json.Unmarshal(line, &rq); err != nil {
			fmt.Fprintln(os.Stderr, "bal worker: bad request:", err)
			os.Exit(5)
		}
		rp := ws.serve(&rq)
		b, _ := json.Marshal(rp)
		w.Write(b)
		w.WriteByte('\n')
		if err := w.Flush(); err != nil {
			os.Exit(6)
		}
	}
}

func (ws *workerState) serve(rq *request) *response {
	rp := &response{ID: rq.ID}
	skip := map[string]bool{}
	for _, x := range rq.Skip {
		skip[x] = true
	}
	if rq.Op == "expand" {
		ws.sampleBest = 0
		rp.ByClass = map[string]int{}
		rp.OutHist = map[string]int{}
		for i, k := range rq.Keys {
			if rq.late() {
				rp.Cut = true
				break
			}
			s, err := ParseKey(k)
			if err != nil {
				rp.Err = err.Error()
				return rp
			}
			ws.expand(rq, rp, s, k, i, skip)
			if rp.Err != "" {
				return rp
			}
			rp.Done++
		}
		return rp
	}
	s, err := ParseKey(rq.Key)
	if err != nil {
		rp.Err = err.Error()
		return rp
	}
	switch rq.Op {
	case "dfs":
		if err := ws.loadVisited(rq.Visited); err != nil {
			rp.Err = err.Error()
			return rp
		}
		rp.ByClass = map[string]int{}
		keys := map[string]bool{}
		gaps := map[string]bool{}
		finds := map[string]bool{}
		s.Gen = 1
		ws.dfs(rq, rp, s, rq.Level, rq.Depth, skip, keys, gaps, finds)
		for k := range keys {
			rp.Keys = append(rp.Keys, k)
		}
		sort.Strings(rp.Keys)
	case "resample":
		evs := Events(s, rq.B, rq.Pool)
		if rq.Ev >= len(evs) {
			rp.Err = fmt.Sprintf("event index %d out of range for %s", rq.Ev, rq.Key)
			return rp
		}
		progress.begin(rq.Key, rq.Raw, rq.Ev)
		res, err := evalCase(s, evs[rq.Ev], !rq.Raw, rq.N, rq.N, func(o *outcomeRec) bool {
			if rq.Count {
				return false
			}
			if rq.WantKey != "" && o.SuccKey == rq.WantKey {
				return true
			}
			if rq.WantSig != "" {
				for _, f := range o.Findings {
					if f.Sig == rq.WantSig {
						return true
					}
				}
			}
			return false
		})
		if err != nil {
			rp.Err = err.Error()
			return rp
		}
		if res != nil {
			rp.Evals = res.Evals
			rp.Cases = 1
			for _, o := range res.Outcomes {
				hit := rq.WantKey != "" && o.SuccKey == rq.WantKey
				for _, f := range o.Findings {
					if rq.WantSig != "" && f.Sig == rq.WantSig {
						hit = true
					}
					rp.Findings = append(rp.Findings, findRec{Finding: f, Key: s.Key(true), RawKey: o.RawKey, Ev: rq.Ev, Event: evs[rq.Ev], Outcome: o.Out.key(true), Hits: o.N, Evals: res.Evals})
				}
				if hit {
					rp.Found = true
					rp.Hits += o.N
				}
			}
			rp.Sample = mkSample(s, evs[rq.Ev], res)
		}
	default:
		rp.Err = "unknown op " + rq.Op
	}
	return rp
}

func mkSample(s *State, e Event, res *caseResult) *sampleRec {
	sm := &sampleRec{State: s.Key(true), Event: e.Label(), Evals: res.Evals, Outcomes: map[string]int{}, Input: map[string]string{}}
	for _, o := range res.Outcomes {
		sm.Outcomes[o.Out.key(true)] = o.N
	}
	for _, m := range res.In.Members {
		d := "no user data"
		if m.Data != nil {
			d = fmt.Sprintf("user data gen=%d {%s}", m.Data.Gen, ownString(m.Data.Topics, true))
			if m.Data.V0 {
				d = fmt.Sprintf("user data V0 (no generation) {%s}", ownString(m.Data.Topics, true))
			}
		}
		sm.Input[m.ID] = "subscribes " + strings.Join(m.Subs, ",") + "; " + d
	}
	ts := []string{}
	for t, n := range res.In.Topics {
		ts = append(ts, t+"="+strconv.Itoa(n))
	}
	sort.Strings(ts)
	sm.Input["(topics argument)"] = strings.Join(ts, ",")
	return sm
}

func (ws *workerState) account(rp *response, s *State, rawKey string, evIdx int, e Event, res *caseResult) {
	rp.Cases++
	rp.Evals += res.Evals
	rp.ByClass[e.Class()]++
	if rp.OutHist != nil {
		rp.OutHist[strconv.Itoa(len(res.Outcomes))]++
	}
	for _, o := range res.Outcomes {
		for _, f := range o.Findings {
			rp.Findings = append(rp.Findings, findRec{Finding: f, Key: s.Key(true), RawKey: o.RawKey, Ev: evIdx, Event: e, Outcome: o.Out.key(true), Hits: o.N, Evals: res.Evals})
		}
	}
}

func (ws *workerState) expand(rq *request, rp *response, s *State, key string, idx int, skip map[string]bool) {
	seen := map[string]bool{}
	evs := Events(s, rq.B, rq.Pool)
	for i, e := range evs {
		if skip[key+"#"+strconv.Itoa(i)] {
			continue
		}
		progress.begin(key, false, i)
		res, err := evalCase(s, e, true, rq.B.R, capEvals(rq.B), nil)
		if err != nil {
			rp.Err = err.Error()
			return
		}
		if res == nil {
			continue
		}
		ws.account(rp, s, "", i, e, res)
		for _, o := range res.Outcomes {
			rp.Edges++
			if o.Succ != nil && !seen[o.SuccKey] {
				seen[o.SuccKey] = true
				rp.Succ = append(rp.Succ, succRec{o.SuccKey, i, idx})
			}
		}
		if rq.N > 0 && len(res.Outcomes) > ws.sampleBest { // the parent asked for a sample of this batch: the case with most distinct plans
			ws.sampleBest = len(res.Outcomes)
			rp.Sample = mkSample(s, e, res)
		}
	}
}

func (ws *workerState) loadVisited(path string) error {
	if path == ws.visitedFile {
		return nil
	}
	b, err := os.ReadFile(path)
	if err != nil {
		return err
	}
	ws.visited = make(map[[16]byte]uint8, len(b)/17)
	for i := 0; i+17 <= len(b); i += 17 {
		var h [16]byte
		copy(h[:], b[i:i+16])
		ws.visited[h] = b[i+16]
	}
	ws.visitedFile = path
	return nil
}

// dfs is the UNPRUNED search: no visited set, states kept raw (Plan's own list order, absolute
// generations), every successor expanded again down to the depth bound. level = number of plans
// that led to s. For each transition it checks that the canonical key of the successor is in the
// BFS's visited set at that level or earlier (gaps are returned), and returns all findings.
func (ws *workerState) dfs(rq *request, rp *response, s *State, level, depthLeft int, skip map[string]bool, keys, gaps, finds map[string]bool) {
	rp.RawStates++
	rawKey := s.Key(false)
	canonKey := s.Key(true)
	evs := Events(s, rq.B, rq.Pool)
	for i, e := range evs {
		if skip[rawKey+"#"+strconv.Itoa(i)] {
			continue
		}
		if rp.Cut || rq.late() {
			rp.Cut = true
			return
		}
		progress.begin(rawKey, true, i)
		res, err := evalCase(s, e, false, rq.B.R, capEvals(rq.B), nil)
		if err != nil {
			rp.Err = err.Error()
			return
		}
		if res == nil {
			continue
		}
		rp.Cases++
		rp.Evals += res.Evals
		rp.ByClass[e.Class()]++
		for _, o := range res.Outcomes {
			for _, f := range o.Findings {
				id := canonKey + "#" + strconv.Itoa(i) + "#" + f.Sig
				if !finds[id] {
					finds[id] = true
					rp.Findings = append(rp.Findings, findRec{Finding: f, Key: canonKey, RawKey: rawKey, Ev: i, Event: e, Outcome: o.Out.key(true), Hits: o.N, Evals: res.Evals})
				}
			}
			rp.Edges++
			if o.Succ == nil {
				continue
			}
			h := keyHash(rq.Prefix + "\x00" + o.SuccKey)
			keys[fmt.Sprintf("%d:%x", level+1, h[:8])] = true
			if d, ok := ws.visited[h]; !ok || int(d) > level+1 {
				id := canonKey + "#" + strconv.Itoa(i) + "#" + o.SuccKey
				if !gaps[id] {
					gaps[id] = true
					rp.Gaps = append(rp.Gaps, gapRec{Parent: canonKey, RawParent: rawKey, Ev: i, Child: o.SuccKey, Level: level + 1})
				}
			}
			if depthLeft > 0 {
				ws.dfs(rq, rp, o.Succ, level+1, depthLeft-1, skip, keys, gaps, finds)
				if rp.Err != "" {
					return
				}
			}
		}
	}
}
