package bal

import (
	"fmt"
	"sort"
)

// IDPools: the member ids of the search. Range sorts each topic's subscribers by an FNV-1a hash of
// topic+id, so the ids are chosen such that for the topics of the search the hash order differs from
// the lexical order for at least one pair and differs BETWEEN topics (checkIDPools verifies this at
// start-up against a re-implementation of the hash, so a changed pool cannot silently lose it).
// Range and round-robin are enumerated over two pools (short ids and sarama-style "<client>-<uuid>"
// ids); the sticky chains use the first pool.
func IDPools() map[string][][]string {
	short := []string{"a", "b", "c"}
	long := []string{
		"sarama-0b1f6c8e-4f0a-4a59-9e64-0c2d1f3a7b10",
		"sarama-5d2c9a77-1e3b-4c8d-b6f2-9a8e7d6c5b4a",
		"worker-7-e1a4c3d2-8b9f-4e6a-a1b2-c3d4e5f60718",
	}
	return map[string][][]string{
		Range:      {short, long},
		RoundRobin: {short, long},
		Sticky:     {short},
	}
}

func fnv(vv ...string) uint32 {
	h := uint32(2166136261)
	for _, s := range vv {
		for _, c := range s {
			h ^= uint32(c)
			h *= 16777619
		}
	}
	return h
}

func hashOrder(topic string, ids []string) []string {
	o := append([]string(nil), ids...)
	sort.Slice(o, func(i, j int) bool { return fnv(topic, o[i]) < fnv(topic, o[j]) })
	return o
}

func checkIDPools(pools map[string][][]string, topics []string) error {
	for _, p := range pools[Range] {
		differs := false
		lex := append([]string(nil), p...)
		sort.Strings(lex)
		for _, t := range topics {
			if !sameStrings(hashOrder(t, p), lex) {
				differs = true
			}
		}
		if !differs {
			return fmt.Errorf("id pool %v: range's hash order equals the lexical order for every topic", p)
		}
	}
	return nil
}

// HashOrders is reported in the evidence.
func HashOrders(pools [][]string, topics []string) map[string][]string {
	out := map[string][]string{}
	for _, p := range pools {
		for _, t := range topics {
			out[t+" over "+p[0]+".."] = hashOrder(t, p)
		}
	}
	return out
}
