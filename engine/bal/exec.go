package bal

import (
	"fmt"
	"math/rand"
	"runtime/debug"
	"sort"
	"strings"

	"github.com/Shopify/sarama"
)

func strategy(name string) sarama.BalanceStrategy {
	switch name {
	case Range:
		return sarama.BalanceStrategyRange
	case RoundRobin:
		return sarama.BalanceStrategyRoundRobin
	case Sticky:
		return sarama.BalanceStrategySticky
	}
	panic("unknown strategy " + name)
}

// Outcome of one real Plan call.
type Outcome struct {
	Err   string
	Panic string
	Plan  map[string]map[string][]int32
}

func (o *Outcome) key(sorted bool) string {
	if o.Panic != "" {
		return "PANIC " + o.Panic
	}
	if o.Err != "" {
		return "ERR " + o.Err
	}
	ids := make([]string, 0, len(o.Plan))
	for id := range o.Plan {
		ids = append(ids, id)
	}
	sort.Strings(ids)
	var b strings.Builder
	for _, id := range ids {
		b.WriteString(id)
		b.WriteByte('{')
		b.WriteString(ownString(o.Plan[id], sorted))
		b.WriteByte('}')
	}
	return b.String()
}

// realInput turns the harness input into the arguments of BalanceStrategy.Plan: the member metadata
// map (user data serialised by the REAL AssignmentData, as consumerGroup.syncGroupRequest does; the
// legacy V0 form through sarama's own encoder) and the partitions of the subscribed topics as the
// leader's client reports them (consumerGroup.balance itself is run on these, see RunPlan).
//
// order > 0 selects the pseudo-random order in which the members are inserted into the map and in which
// each subscription list is written (0: sorted): Go iterates small maps in insertion order from a
// random start, and the real insertion order is the broker's member order, which means nothing.
func realInput(in *Input, order int) (map[string]sarama.ConsumerGroupMemberMetadata, map[string][]int32, error) {
	st := strategy(in.Strat)
	members := make(map[string]sarama.ConsumerGroupMemberMetadata, len(in.Members))
	ms := in.Members
	var rng *rand.Rand
	if order > 0 {
		rng = rand.New(rand.NewSource(int64(order) * 7919))
		ms = append([]InMember(nil), ms...)
		rng.Shuffle(len(ms), func(a, b int) { ms[a], ms[b] = ms[b], ms[a] })
	}
	for _, m := range ms {
		meta := sarama.ConsumerGroupMemberMetadata{Version: 1, Topics: append([]string(nil), m.Subs...)}
		if in.Dup == "all" || in.Dup == "first" && m.ID == in.Members[0].ID {
			meta.Topics = append(meta.Topics, meta.Topics[0]) // Consume(ctx, []string{"t0", "t0"}, h): nothing removes the duplicate
		}
		if rng != nil {
			rng.Shuffle(len(meta.Topics), func(a, b int) { meta.Topics[a], meta.Topics[b] = meta.Topics[b], meta.Topics[a] })
		}
		if m.Data != nil {
			var err error
			if m.Data.V0 {
				meta.UserData, err = sarama.VerifEncode(&sarama.StickyAssignorUserDataV0{Topics: copyOwn(m.Data.Topics)})
			} else {
				meta.UserData, err = st.AssignmentData(m.ID, copyOwn(m.Data.Topics), int32(m.Data.Gen))
			}
			if err != nil {
				return nil, nil, fmt.Errorf("AssignmentData(%s): %v", m.ID, err)
			}
		}
		members[m.ID] = meta
	}
	// consumerGroup.balance: topics := union of meta.Topics; topics[t] = client.Partitions(t)
	topics := make(map[string][]int32)
	for _, meta := range members {
		for _, t := range meta.Topics {
			topics[t] = nil
		}
	}
	for t := range topics {
		n, ok := in.Topics[t]
		if !ok || n == 0 {
			return nil, nil, fmt.Errorf("harness: subscribed topic %s has no partitions (balance() would have failed before Plan)", t)
		}
		l := make([]int32, n)
		for i := range l {
			l[i] = int32(i)
		}
		topics[t] = l
	}
	return members, topics, nil
}

// RunPlan performs ONE real Plan call on the input.
func RunPlan(in *Input, order int) (out Outcome, engineErr error) {
	members, topics, err := realInput(in, order)
	if err != nil {
		return Outcome{}, err
	}
	st := strategy(in.Strat)
	func() {
		defer func() {
			if r := recover(); r != nil {
				stack := string(debug.Stack())
				where := ""
				for _, l := range strings.Split(stack, "\n") {
					if strings.Contains(l, "/repo/") || strings.Contains(l, "sarama/") && strings.Contains(l, ".go:") {
						where = strings.TrimSpace(l)
						break
					}
				}
				out.Panic = fmt.Sprintf("%v @ %s", r, where)
			}
		}()
		// the leader's whole planning step (consumerGroup.balance), on a cluster where partition 0 of every topic with more
		// than one partition is going through a leader election: it exists, so it is planned like the others
		writable := make(map[string][]int32, len(topics))
		for t, l := range topics {
			writable[t] = l
			if len(l) > 1 {
				writable[t] = l[1:]
			}
		}
		plan, err := sarama.VerifGroupBalance(st, members, topics, writable)
		if err != nil {
			out.Err = err.Error()
			return
		}
		out.Plan = map[string]map[string][]int32(plan)
	}()
	return out, nil
}
