#!/usr/bin/env python3
"""Build the go -overlay file for the verification harness from the CURRENT /repo tree.

 * every non-test .go file of package sarama (the /repo root) that imports "sync" is copied to
   /verif/.build/ov/ with that one import line rewritten to the channel-based shim
   (internal/verifsync), so that a goroutine waiting for a lock is durably blocked and
   synctest.Wait() can detect quiescence;
 * the shim itself becomes the virtual package /repo/internal/verifsync;
 * every file of /verif/engine/overlay/sarama/ is added to package sarama (bridge: exports of
   unexported things the harness needs).  /repo is never written to.

Optional: VERIF_MUTANT=<dir> — every *.go file in that directory replaces the /repo file of the
same name (used for detection demos; the replacement is still passed through the sync rewrite).
"""
import json, os, re, sys, glob, hashlib, tempfile


def atomic_write(path, text):
    """write-then-rename so that a concurrent build never sees a truncated file"""
    d = os.path.dirname(path)
    fd, tmp = tempfile.mkstemp(dir=d, prefix=".tmp-")
    with os.fdopen(fd, "w") as f:
        f.write(text)
    os.replace(tmp, path)


REPO = os.environ.get("VERIF_REPO", "/repo")
VERIF = os.path.dirname(os.path.dirname(os.path.dirname(os.path.abspath(__file__))))
name = "overlay.json"
if len(sys.argv) > 1:
    name = sys.argv[1]
OUT = os.path.join(VERIF, ".build", "ov-" + name.replace(".json", ""))
os.makedirs(OUT, exist_ok=True)
REALSYNC = os.environ.get("VERIF_REALSYNC", "") != ""

mutant = os.environ.get("VERIF_MUTANT", "")
replace = {}
files = sorted(f for f in glob.glob(os.path.join(REPO, "*.go")) if not f.endswith("_test.go"))
src = {}
for f in files:
    src[f] = f
mutant_mocks = {}
if mutant:
    for f in glob.glob(os.path.join(mutant, "*.go")):
        src[os.path.join(REPO, os.path.basename(f))] = f
    # mutated files of package mocks live in <mutant>/mocks/
    for f in glob.glob(os.path.join(mutant, "mocks", "*.go")):
        mutant_mocks[os.path.join(REPO, "mocks", os.path.basename(f))] = f

pat = re.compile(r'^(\s*|import\s+)"sync"\s*$', re.M)
want = set()
for dst, f in sorted(src.items()):
    s = open(f).read()
    rewritten = s
    if not REALSYNC and pat.search(s) and not os.path.basename(dst).startswith("verif_"):
        rewritten = pat.sub(r'\1sync "github.com/Shopify/sarama/internal/verifsync"', s, count=1)
    if rewritten != s or f != dst:
        o = os.path.join(OUT, os.path.basename(dst))
        want.add(o)
        old = open(o).read() if os.path.exists(o) else None
        if old != rewritten:
            atomic_write(o, rewritten)
        replace[dst] = o

for f in sorted(glob.glob(os.path.join(VERIF, "engine", "overlay", "sarama", "*.go"))):
    replace[os.path.join(REPO, os.path.basename(f))] = f
extra = os.environ.get("VERIF_EXTRA_BRIDGE", "")
if extra:
    for f in sorted(glob.glob(os.path.join(extra, "*.go"))):
        replace[os.path.join(REPO, os.path.basename(f))] = f
    for f in sorted(glob.glob(os.path.join(extra, "mocks", "*.go"))):
        replace[os.path.join(REPO, "mocks", os.path.basename(f))] = f
replace[os.path.join(REPO, "internal", "verifsync", "sync.go")] = os.path.join(VERIF, "engine", "overlay", "verifsync", "sync.go")
for f in sorted(glob.glob(os.path.join(VERIF, "engine", "overlay", "mocks", "*.go"))):
    replace[os.path.join(REPO, "mocks", os.path.basename(f))] = f

replace.update(mutant_mocks)
for o in glob.glob(os.path.join(OUT, "*.go")):
    if o not in want:
        os.remove(o)

p = os.path.join(VERIF, ".build", name)
new = json.dumps({"Replace": replace}, indent=1, sort_keys=True)
if not os.path.exists(p) or open(p).read() != new:
    atomic_write(p, new)
print(p)
