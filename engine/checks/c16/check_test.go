// Check C16: produce requests respect the configured size and count limits, and flush on time.
// Schedule layer (GX, deviation-bounded) + bounded-exhaustive size/configuration family, both on the
// rig engine/rigs/limrig.
package c16

import (
	"encoding/json"
	"fmt"
	"os"
	"testing"
	"time"

	"verif/engine/ev"
	"verif/engine/gx"
	"verif/engine/rigs/limrig"
)

func TestMain(m *testing.M)   { gx.Main(m) }
func TestWorker(t *testing.T) { gx.WorkerMain(t) }

func TestCheck(t *testing.T) {
	if p := os.Getenv("VERIF_REPLAY"); p != "" && os.Getenv("VERIF_WORKER") == "" {
		gx.ExitCode = replay(t, p)
		return
	}
	gx.RunCheck(t, "C16", limrig.Scenarios(), 50*time.Second, 9*time.Minute+30*time.Second, limrig.Assumptions,
		func(t *testing.T, c *ev.Check, e *gx.Explorer) bool {
			thorough := ev.Tier() == "thorough"
			small := limrig.SmallFamily(thorough)
			sb := 1
			if thorough {
				sb = 2
			}
			c.Set("small_family_size", len(small))
			c.Set("small_family_bound", sb)
			sdone, sok := e.ExploreMany(small, sb, 0)
			c.Set("small_family_done", sdone)
			fam := limrig.Family(thorough)
			c.Set("family_size", len(fam))
			done, ok := e.ExploreMany(fam, 0, 0)
			c.Set("family_done", done)
			c.Set("family_rule", limrig.FamilyRule)
			c.Set("family_exhaustive", ok && sok)
			ok = ok && sok
			return ok
		})
}

// replay re-executes a violation artefact: exactly the recorded choice list when it still applies to the
// tree under test (the engine's ReplayFile); when it does not (the tree changed and the scenario's
// executions have a different shape) the scenario is re-explored with at most as many deviations as the
// recorded schedule had, and the verdict is whether any of those executions still violates C16.
func replay(t *testing.T, path string) int {
	b, err := os.ReadFile(path)
	if err != nil {
		fmt.Println("ENGINE-ERROR", err)
		return 3
	}
	var v struct {
		Property string    `json:"property"`
		Replay   gx.Replay `json:"replay"`
	}
	if err := json.Unmarshal(b, &v); err != nil {
		fmt.Println("ENGINE-ERROR", err)
		return 3
	}
	deviations := 0
	for _, c := range v.Replay.Choices {
		if c.I != 0 {
			deviations++
		}
	}
	if os.Getenv("VERIF_REPLAY_N") != "" {
		return gx.ReplayFile(t, path)
	}
	sc, err := gx.Lookup(v.Replay.Scenario)
	if err != nil {
		fmt.Println("ENGINE-ERROR", err)
		return 3
	}
	// does the recorded schedule still apply to this tree?
	if r := gx.Execute(t, sc, v.Replay.Choices); r.EngineErr == "" || len(v.Replay.Choices) == 0 {
		return gx.ReplayFile(t, path)
	}
	// The recorded choice list no longer fits (the code under test changed and the executions of this
	// scenario have a different shape, e.g. one more produce request). The case is then the scenario with
	// every schedule of at most as many deviations as the recorded one had: re-explore exactly that.
	fmt.Printf("the recorded schedule does not apply to this tree any more; re-exploring scenario %s with <= %d deviations\n", v.Replay.Scenario, deviations)
	n := 0
	var bad *gx.Result
	var explore func(prefix []gx.Choice) bool
	explore = func(prefix []gx.Choice) bool {
		r := gx.Execute(t, sc, prefix)
		n++
		if r.EngineErr != "" {
			fmt.Println("ENGINE-ERROR", r.EngineErr)
			bad = r
			return false
		}
		for _, x := range r.Outcome.Violations {
			if x.Property == "C16" {
				bad = r
				return false
			}
		}
		d := 0
		for i := 0; i < len(prefix); i++ {
			d += r.Costs[i][r.Choices[i].I]
		}
		for i := len(prefix); i < len(r.Choices); i++ {
			for alt := range r.Points[i] {
				if alt == r.Choices[i].I || d+r.Costs[i][alt] > deviations {
					continue
				}
				np := append(append([]gx.Choice{}, r.Choices[:i]...), gx.Choice{I: alt, L: r.Points[i][alt]})
				if !explore(np) {
					return false
				}
			}
			d += r.Costs[i][r.Choices[i].I]
		}
		return true
	}
	explore(nil)
	fmt.Printf("%d executions\n", n)
	if bad == nil {
		fmt.Println("no execution violates C16")
		return 0
	}
	if bad.EngineErr != "" {
		return 3
	}
	for i, c := range bad.Choices {
		fmt.Printf("  %2d %s\n", i, c.L)
	}
	fmt.Printf("observation: %s\n%s", bad.Outcome.Obs, bad.Outcome.Detail)
	for _, x := range bad.Outcome.Violations {
		if x.Property == "C16" {
			fmt.Printf("VIOLATION property=C16 replay=%s\n  signature=%s\n  %s\n", path, x.Signature, x.Message)
		}
	}
	return 1
}
