// Check C16: produce requests respect the configured size and count limits, and flush on time.
// Schedule layer (GX, deviation-bounded) + bounded-exhaustive size/configuration family, both on the
// rig engine/rigs/limrig.
package c16

import (
	"encoding/json"
	"fmt"
	"os"
	"path/filepath"
	"testing"
	"time"

	"verif/engine/ev"
	"verif/engine/gx"
	"verif/engine/rigs/limrig"
)

func TestMain(m *testing.M)   { gx.Main(m) }
func TestWorker(t *testing.T) { gx.WorkerMain(t) }

func TestCheck(t *testing.T) {
	if p := os.Getenv("VERIF_REPLAY"); p != "" && os.Getenv("VERIF_WORKER") == "" {
		gx.ExitCode = replay(t, p)
		return
	}
	gx.RunCheck(t, "C16", limrig.Scenarios(), 50*time.Second, 9*time.Minute+30*time.Second, limrig.Assumptions,
		func(t *testing.T, c *ev.Check, e *gx.Explorer) bool {
			thorough := ev.Tier() == "thorough"
			small := limrig.SmallFamily(thorough)
			sb := 1
			if thorough {
				sb = 2
			}
			c.Set("small_family_size", len(small))
			c.Set("small_family_bound", sb)
			sdone, sok := e.ExploreMany(small, sb, 0)
			c.Set("small_family_done", sdone)
			fam := limrig.Family(thorough)
			c.Set("family_size", len(fam))
			done, ok := e.ExploreMany(fam, 0, 0)
			c.Set("family_done", done)
			c.Set("family_rule", limrig.FamilyRule)
			c.Set("family_exhaustive", ok && sok)
			ok = ok && sok
			return ok
		})
}

// replay re-executes a violation artefact. A case of the size/configuration family is the scenario with
// its default schedule (every recorded choice is entry 0): it is re-executed from the scenario name
// alone, so that the replay still works when the code under test has changed and the default schedule
// has a different shape (e.g. one more produce request). A case with deviations is replayed choice by
// choice by the engine (a divergence there is an engine error, exit 3, as for every GX check).
func replay(t *testing.T, path string) int {
	b, err := os.ReadFile(path)
	if err != nil {
		fmt.Println("ENGINE-ERROR", err)
		return 3
	}
	var v struct {
		Property string    `json:"property"`
		Replay   gx.Replay `json:"replay"`
	}
	if err := json.Unmarshal(b, &v); err != nil {
		fmt.Println("ENGINE-ERROR", err)
		return 3
	}
	deviations := 0
	for _, c := range v.Replay.Choices {
		if c.I != 0 {
			deviations++
		}
	}
	if deviations > 0 || len(v.Replay.Choices) == 0 || os.Getenv("VERIF_REPLAY_N") != "" {
		return gx.ReplayFile(t, path)
	}
	fmt.Printf("default-schedule case: re-executing scenario %s from its name\n", v.Replay.Scenario)
	dir := filepath.Join(ev.Root(), ".build", "C16")
	_ = os.MkdirAll(dir, 0o755)
	tmp := filepath.Join(dir, fmt.Sprintf("replay-%d.json", os.Getpid()))
	nb, _ := json.Marshal(map[string]interface{}{"property": v.Property, "replay": gx.Replay{Scenario: v.Replay.Scenario}})
	if err := os.WriteFile(tmp, nb, 0o644); err != nil {
		fmt.Println("ENGINE-ERROR", err)
		return 3
	}
	defer os.Remove(tmp)
	return gx.ReplayFile(t, tmp)
}
