package c16

import (
	"testing"
	"time"

	"verif/engine/ev"
	"verif/engine/gx"
	"verif/engine/rigs/limrig"
)

func TestMain(m *testing.M)   { gx.Main(m) }
func TestWorker(t *testing.T) { gx.WorkerMain(t) }
func TestCheck(t *testing.T) {
	gx.RunCheck(t, "C16", limrig.Scenarios(), 55*time.Second, 9*time.Minute+30*time.Second, limrig.Assumptions,
		func(t *testing.T, c *ev.Check, e *gx.Explorer) bool {
			fam := limrig.Family(ev.Tier() == "thorough")
			c.Set("family_size", len(fam))
			done, ok := e.ExploreMany(fam, 0, 0)
			c.Set("family_done", done)
			return ok
		})
}
