package c20

// Case descriptors and their exhaustive enumeration (DESIGN.md §6 "C20 – mocks").
//
// A case is a small JSON-able value; it is the replay artefact and (hashed) the unit of the
// distinct_nontrivial count.  Enumeration order is deterministic for a given (tier, seed).

import (
	"encoding/json"
	"hash/fnv"
)

// expectation kinds of the producer mocks
const (
	KSucc    = iota // ExpectInputAndSucceed / ExpectSendMessageAndSucceed
	KFail           // ...AndFail(e)
	KOkSucc         // checker passes, then succeed
	KBadSucc        // checker fails, scripted result would have been success
	KOkFail         // checker passes, then fail(e)
	KBadFail        // checker fails, scripted result would have been fail(e)
	numKinds
)

var kindName = []string{"succeed", "fail", "chk-ok>succeed", "chk-FAIL>succeed", "chk-ok>fail", "chk-FAIL>fail"}

func hasChk(k int) bool   { return k >= KOkSucc }
func chkFails(k int) bool { return k == KBadSucc || k == KBadFail }
func succeeds(k int) bool { return k == KSucc || k == KOkSucc || k == KBadSucc }

// partitioner choices
const (
	PHash       = iota // sarama.NewHashPartitioner, every message has a key
	PManualIn          // sarama.NewManualPartitioner, msg.Partition inside [0,n)
	PManualOut         // sarama.NewManualPartitioner, msg.Partition outside [0,n)
	PRoundRobin        // sarama.NewRoundRobinPartitioner
	PFailing           // harness partitioner: error for topic "b" (pinned by mocks' TestProducerWithBrokenPartitioner)
	numPartitioners
)

var partName = []string{"hash", "manual-in-range", "manual-out-of-range", "round-robin", "failing-on-topic-b"}

// topic partition configurations (TopicConfig of the mocks); messages alternate topics "a","b"
const (
	TCDefault    = iota // untouched: 32 partitions everywhere
	TCDefault3          // SetDefaultPartitions(3)
	TCOverA2            // SetPartitions{a:2}; b keeps the default 32
	TCDef5OverB1        // SetDefaultPartitions(5); SetPartitions{b:1}
	TCChange            // SetDefaultPartitions(2); SetPartitions{b:4}; before message index n/2: SetPartitions{a:5}; SetDefaultPartitions(3)
	numTC
)

var tcName = []string{"default32", "default3", "a=2,b=default32", "default5,b=1", "default2,b=4 then (a=5,default3) before msg n/2"}

type Case struct {
	Fam string `json:"fam"` // async | sync | conc | ovl | cons

	// producer families
	Script []int `json:"script,omitempty"` // expectation kinds, in order
	N      int   `json:"n,omitempty"`      // number of submitted messages
	Part   int   `json:"part,omitempty"`
	TC     int   `json:"tc,omitempty"`
	RS     bool  `json:"ret_successes,omitempty"`
	RE     bool  `json:"ret_errors,omitempty"`
	ValChk bool  `json:"value_checker_api,omitempty"` // use the ValueChecker flavour of the Expect…WithCheckerFunction… calls
	AC     bool  `json:"async_close,omitempty"`       // AsyncClose()+wait for channel close instead of Close()
	Unbuf  bool  `json:"unbuffered,omitempty"`        // ChannelBufferSize = 0
	Plan   []int `json:"plan,omitempty"`              // sync: one entry per call; 0 = SendMessage, k>0 = SendMessages(k messages)
	Inter  []int `json:"inter,omitempty"`             // conc: which of the two sender goroutines submits the i-th message

	Cons *ConsCase `json:"cons,omitempty"`
}

// consumer family
const (
	OffAny           = iota // ExpectConsumePartition(…, AnyOffset)
	OffMatch                // literal, ConsumePartition called with the same literal
	OffMismatch             // literal, ConsumePartition called with a higher offset
	OffMismatchBelow        // literal, ConsumePartition called with a lower offset
)
const (
	ClNone       = iota // partition consumer only closed through Consumer.Close
	ClClose             // pc.Close() as its own operation
	ClAsync             // pc.AsyncClose() as its own operation
	ClAsyncDrain        // pc.AsyncClose(), then range over Messages() and Errors() until closed
)

var closeName = []string{"none", "Close", "AsyncClose", "AsyncClose+drain"}

type PartSpec struct {
	Topic      string `json:"topic"`
	Partition  int32  `json:"partition"`
	Off        int    `json:"off"`
	Script     string `json:"yields"` // 'M' = YieldMessage, 'E' = YieldError, in order
	DM         bool   `json:"expect_msgs_drained,omitempty"`
	DE         bool   `json:"expect_errs_drained,omitempty"`
	Consume    bool   `json:"consume"`
	YieldAfter bool   `json:"yield_after_consume,omitempty"`
	RM         int    `json:"read_msgs,omitempty"` // messages read before any close operation
	RErr       int    `json:"read_errs,omitempty"`
	Close      int    `json:"close,omitempty"`
}

type ConsCase struct {
	Parts []PartSpec `json:"parts"`
	Order []int      `json:"order"`           // close operations in order: i = close op of Parts[i], -1 = Consumer.Close
	Ghost bool       `json:"ghost,omitempty"` // also ConsumePartition on a topic/partition that was never registered
}

func (c *Case) Key() []byte {
	b, _ := json.Marshal(c)
	return b
}

func (c *Case) Hash() uint64 {
	h := fnv.New64a()
	h.Write(c.Key())
	return h.Sum64()
}

// ---------------------------------------------------------------------------------------------

type bounds struct {
	MaxScript   int // producer expectation scripts up to this length
	ConcScript  int
	Cons1Yields int // single-partition consumer: yield scripts up to this length
	Cons2Yields int // two-partition consumer: yield scripts up to this length per partition
}

func tierBounds(tier string) bounds {
	if tier == "thorough" {
		return bounds{MaxScript: 4, ConcScript: 4, Cons1Yields: 4, Cons2Yields: 2}
	}
	return bounds{MaxScript: 3, ConcScript: 3, Cons1Yields: 3, Cons2Yields: 1}
}

var families = []string{"async", "sync", "conc", "ovl", "cons1", "cons2"}

// enumerate visits every case of the tier; visit returns false to stop. Returns false if stopped.
func enumerate(b bounds, seed int, visit func(fam string, c *Case) bool) bool {
	n := len(families)
	for i := 0; i < n; i++ {
		fam := families[((i+seed)%n+n)%n]
		v := func(c *Case) bool { return visit(fam, c) }
		ok := true
		switch fam {
		case "async":
			ok = enumAsync(b, v)
		case "sync":
			ok = enumSync(b, v)
		case "conc":
			ok = enumConc(b, v)
		case "ovl":
			ok = enumOvl(b, v)
		case "cons1":
			ok = enumCons1(b, v)
		case "cons2":
			ok = enumCons2(b, v)
		}
		if !ok {
			return false
		}
	}
	return true
}

// scripts calls f with every kind sequence of length exactly l.
func scripts(l int, f func([]int) bool) bool {
	s := make([]int, l)
	var rec func(i int) bool
	rec = func(i int) bool {
		if i == l {
			return f(append([]int(nil), s...))
		}
		for k := 0; k < numKinds; k++ {
			s[i] = k
			if !rec(i + 1) {
				return false
			}
		}
		return true
	}
	return rec(0)
}

func anyChk(s []int) bool {
	for _, k := range s {
		if hasChk(k) {
			return true
		}
	}
	return false
}

var bools = []bool{false, true}

func enumAsync(b bounds, visit func(*Case) bool) bool {
	for l := 0; l <= b.MaxScript; l++ {
		ok := scripts(l, func(s []int) bool {
			for n := 0; n <= l+1; n++ {
				for p := 0; p < numPartitioners; p++ {
					for tc := 0; tc < numTC; tc++ {
						for _, rs := range bools {
							for _, re := range bools {
								for _, vc := range bools {
									if vc && !anyChk(s) {
										continue
									}
									for _, ac := range bools {
										if !visit(&Case{Fam: "async", Script: s, N: n, Part: p, TC: tc, RS: rs, RE: re, ValChk: vc, AC: ac}) {
											return false
										}
									}
								}
							}
						}
					}
				}
			}
			return true
		})
		if !ok {
			return false
		}
	}
	return true
}

// plans: every way to submit n messages as a sequence of SendMessage (0) and SendMessages(k≥1) calls.
func plans(n int) [][]int {
	if n == 0 {
		return [][]int{{}, {-1}} // nothing at all, or one SendMessages with an empty slice (encoded -1)
	}
	var out [][]int
	var rec func(left int, cur []int)
	rec = func(left int, cur []int) {
		if left == 0 {
			out = append(out, append([]int(nil), cur...))
			return
		}
		rec(left-1, append(cur, 0))
		for k := 1; k <= left; k++ {
			rec(left-k, append(cur, k))
		}
	}
	rec(n, nil)
	return out
}

var syncTCs = []int{TCDefault, TCDef5OverB1, TCChange}

func enumSync(b bounds, visit func(*Case) bool) bool {
	planCache := map[int][][]int{}
	for n := 0; n <= b.MaxScript+1; n++ {
		planCache[n] = plans(n)
	}
	for l := 0; l <= b.MaxScript; l++ {
		ok := scripts(l, func(s []int) bool {
			for n := 0; n <= l+1; n++ {
				for _, pl := range planCache[n] {
					for p := 0; p < numPartitioners; p++ {
						for _, tc := range syncTCs {
							for _, vc := range bools {
								if vc && !anyChk(s) {
									continue
								}
								if !visit(&Case{Fam: "sync", Script: s, N: n, Part: p, TC: tc, ValChk: vc, Plan: pl}) {
									return false
								}
							}
						}
					}
				}
			}
			return true
		})
		if !ok {
			return false
		}
	}
	return true
}

// enumOvl: two SendMessage calls on a SyncProducer that OVERLAP: the first is held inside its checker function while the
// second is issued (family "ovl": scripts of 2..3 expectations whose first has a checker, every partitioner, both checker APIs).
func enumOvl(b bounds, visit func(*Case) bool) bool {
	for l := 2; l <= 3; l++ {
		ok := scripts(l, func(s []int) bool {
			if !hasChk(s[0]) {
				return true
			}
			for p := 0; p < numPartitioners; p++ {
				for _, vc := range bools {
					if !visit(&Case{Fam: "ovl", Script: s, N: 2, Part: p, TC: syncTCs[0], ValChk: vc, Plan: []int{0, 0}}) {
						return false
					}
				}
			}
			return true
		})
		if !ok {
			return false
		}
	}
	return true
}

func enumConc(b bounds, visit func(*Case) bool) bool {
	for l := 0; l <= b.ConcScript; l++ {
		ok := scripts(l, func(s []int) bool {
			for n := 0; n <= l+1; n++ {
				for bits := 0; bits < 1<<uint(n); bits++ {
					inter := make([]int, n)
					for i := range inter {
						inter[i] = (bits >> uint(i)) & 1
					}
					for _, p := range []int{PHash, PRoundRobin} {
						for _, ub := range bools {
							if !visit(&Case{Fam: "conc", Script: s, N: n, Part: p, TC: TCDefault3, RS: true, RE: true, Unbuf: ub, Inter: inter}) {
								return false
							}
						}
					}
				}
			}
			return true
		})
		if !ok {
			return false
		}
	}
	return true
}

// yieldScripts: every string over {M,E} of length ≤ max
func yieldScripts(max int) []string {
	out := []string{""}
	prev := []string{""}
	for l := 1; l <= max; l++ {
		var cur []string
		for _, p := range prev {
			cur = append(cur, p+"M", p+"E")
		}
		out = append(out, cur...)
		prev = cur
	}
	return out
}

func count(s string, ch byte) int {
	n := 0
	for i := 0; i < len(s); i++ {
		if s[i] == ch {
			n++
		}
	}
	return n
}

// partSpecs: every behaviour of the test towards one registered partition.
func partSpecs(topic string, partition int32, maxYield int, yieldAfter bool, maxOff int) []PartSpec {
	var out []PartSpec
	for _, ys := range yieldScripts(maxYield) {
		for _, dm := range bools {
			for _, de := range bools {
				// never consumed (offset expectation irrelevant, no reads, no own close operation)
				out = append(out, PartSpec{Topic: topic, Partition: partition, Off: OffAny, Script: ys, DM: dm, DE: de})
				for off := OffAny; off <= maxOff; off++ {
					for rm := 0; rm <= count(ys, 'M'); rm++ {
						for re := 0; re <= count(ys, 'E'); re++ {
							for cl := ClNone; cl <= ClAsyncDrain; cl++ {
								for _, ya := range bools {
									if ya && (!yieldAfter || ys == "") {
										continue
									}
									out = append(out, PartSpec{Topic: topic, Partition: partition, Off: off, Script: ys, DM: dm, DE: de,
										Consume: true, YieldAfter: ya, RM: rm, RErr: re, Close: cl})
								}
							}
						}
					}
				}
			}
		}
	}
	return out
}

func permutations(xs []int) [][]int {
	if len(xs) <= 1 {
		return [][]int{append([]int(nil), xs...)}
	}
	var out [][]int
	for i := range xs {
		rest := append(append([]int(nil), xs[:i]...), xs[i+1:]...)
		for _, p := range permutations(rest) {
			out = append(out, append([]int{xs[i]}, p...))
		}
	}
	return out
}

// closeOrders: every order of the own close operations of the partitions and Consumer.Close (-1).
func closeOrders(parts []PartSpec) [][]int {
	ops := []int{-1}
	for i, p := range parts {
		if p.Consume && p.Close != ClNone {
			ops = append(ops, i)
		}
	}
	return permutations(ops)
}

func enumCons1(b bounds, visit func(*Case) bool) bool {
	for _, ps := range partSpecs("t", 0, b.Cons1Yields, true, OffMismatchBelow) {
		parts := []PartSpec{ps}
		for _, ord := range closeOrders(parts) {
			for _, gh := range bools {
				if !visit(&Case{Fam: "cons", Cons: &ConsCase{Parts: parts, Order: ord, Ghost: gh}}) {
					return false
				}
			}
		}
	}
	return true
}

func enumCons2(b bounds, visit func(*Case) bool) bool {
	first := partSpecs("t", 0, b.Cons2Yields, false, OffMismatch)
	for _, second := range [][]PartSpec{partSpecs("t", 1, b.Cons2Yields, false, OffMismatch), partSpecs("u", 0, b.Cons2Yields, false, OffMismatch)} {
		for _, p0 := range first {
			for _, p1 := range second {
				parts := []PartSpec{p0, p1}
				for _, ord := range closeOrders(parts) {
					if !visit(&Case{Fam: "cons", Cons: &ConsCase{Parts: parts, Order: ord}}) {
						return false
					}
				}
			}
		}
	}
	return true
}
