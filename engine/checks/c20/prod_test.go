package c20

// Execution of producer cases against the real mocks and comparison with the reference model.

import (
	"fmt"
	"runtime/debug"
	"sort"
	"strconv"
	"strings"
	"sync"
	"testing"
	"testing/synctest"
	"time"

	"github.com/Shopify/sarama"
	"github.com/Shopify/sarama/mocks"
	metrics "github.com/rcrowley/go-metrics"
)

func init() { metrics.UseNilMetrics = true }

type viol struct{ Sig, Msg string }

// recorder is the ErrorReporter handed to the mocks.
type recorder struct {
	mu    sync.Mutex
	calls []string
}

func (r *recorder) Errorf(f string, a ...interface{}) {
	r.mu.Lock()
	r.calls = append(r.calls, fmt.Sprintf(f, a...))
	r.mu.Unlock()
}

func (r *recorder) snapshot() []string {
	r.mu.Lock()
	defer r.mu.Unlock()
	return append([]string(nil), r.calls...)
}

// categorize maps a reporter message to a deviation category (loose comparison: no wording).
func categorize(s string) string {
	l := strings.ToLower(s)
	switch {
	case strings.Contains(l, "no more expectation"), strings.Contains(l, "insufficient expectation"):
		return "no-expectation"
	case strings.Contains(l, "exhaust"):
		return "leftover"
	case strings.Contains(l, "check function"):
		return "checker"
	case strings.Contains(l, "partitioner"):
		return "partitioner"
	case strings.Contains(l, "no expectations set for"):
		return "unexpected-partition"
	case strings.Contains(l, "unexpected offset"):
		return "unexpected-offset"
	case strings.Contains(l, "no partition consumer was started"):
		return "not-consumed"
	case strings.Contains(l, "drained") && strings.Contains(l, "errors channel"):
		return "errors-not-drained"
	case strings.Contains(l, "drained") && strings.Contains(l, "messages channel"):
		return "messages-not-drained"
	}
	return "other"
}

func categories(calls []string) map[string]int {
	m := map[string]int{}
	for _, c := range calls {
		m[categorize(c)]++
	}
	return m
}

func fmtCounts(m map[string]int) string {
	var ks []string
	for k, v := range m {
		if v != 0 {
			ks = append(ks, fmt.Sprintf("%s×%d", k, v))
		}
	}
	sort.Strings(ks)
	return "{" + strings.Join(ks, ", ") + "}"
}

// compareReports: the exact multiset of reporter calls, by category.
func compareReports(where string, got []string, req, opt map[string]int) []viol {
	var vs []viol
	g := categories(got)
	keys := map[string]bool{}
	for k := range g {
		keys[k] = true
	}
	for k := range req {
		keys[k] = true
	}
	var ks []string
	for k := range keys {
		ks = append(ks, k)
	}
	sort.Strings(ks)
	for _, k := range ks {
		switch {
		case g[k] < req[k]:
			vs = append(vs, viol{where + "-report-missing:" + k, fmt.Sprintf("ErrorReporter calls %s, required %s (+ tolerated %s); raw calls: %q", fmtCounts(g), fmtCounts(req), fmtCounts(opt), got)})
		case g[k] > req[k]+opt[k]:
			vs = append(vs, viol{where + "-report-extra:" + k, fmt.Sprintf("ErrorReporter calls %s, required %s (+ tolerated %s); raw calls: %q", fmtCounts(g), fmtCounts(req), fmtCounts(opt), got)})
		}
	}
	return vs
}

// bubble runs f inside a synctest bubble. A bubble that cannot finish (everything durably blocked)
// surfaces as hang; a panic of f itself as pan.
func bubble(t *testing.T, f func()) (hang, pan string) {
	done := make(chan struct{})
	go func() {
		defer close(done)
		defer func() {
			if r := recover(); r != nil {
				hang = fmt.Sprint(r)
			}
		}()
		synctest.Test(t, func(*testing.T) {
			defer func() {
				if r := recover(); r != nil {
					pan = fmt.Sprintf("%v\n%s", r, debug.Stack())
				}
			}()
			f()
		})
	}()
	<-done
	return
}

// ---------------------------------------------------------------------------------------------

type outc struct {
	Succ bool
	Msg  int
	Part int32
	Off  int64
	Err  error
}

type chkObs struct {
	Exp, Msg int
	Part     int32
}

type callObs struct {
	Part int32
	Off  int64
	Err  error
}

type prodObs struct {
	mu      sync.Mutex
	Out     []outc    // async: outcomes in arrival order
	Calls   []callObs // sync: return values per call
	MsgPart []int32   // msg.Partition / msg.Offset after the run (sync)
	MsgOff  []int64
	Chk     []chkObs
	Reports []string
	Hang    string
	Panic   string
	trace   []string
	onChk   func(exp int) // called at the start of every checker (overlap family: the first one is held there)
}

func (o *prodObs) logf(f string, a ...interface{}) {
	o.mu.Lock()
	o.trace = append(o.trace, fmt.Sprintf(f, a...))
	o.mu.Unlock()
}

type topicSetter interface {
	SetDefaultPartitions(int32)
	SetPartitions(map[string]int32)
}

func applyTC(ts topicSetter, tc int) {
	switch tc {
	case TCDefault3:
		ts.SetDefaultPartitions(3)
	case TCOverA2:
		ts.SetPartitions(map[string]int32{"a": 2})
	case TCDef5OverB1:
		ts.SetDefaultPartitions(5)
		ts.SetPartitions(map[string]int32{"b": 1})
	case TCChange:
		ts.SetDefaultPartitions(2)
		ts.SetPartitions(map[string]int32{"b": 4})
	}
}

func applyTCChange(ts topicSetter, tc int) {
	if tc == TCChange {
		ts.SetPartitions(map[string]int32{"a": 5})
		ts.SetDefaultPartitions(3)
	}
}

var topicNames = []string{"a", "b"}

// mkMsgs builds the n messages of a case. calls tells at which call each message is submitted
// (partition counts for manual partitions are those at call time).
func mkMsgs(c *Case, calls []refCall) []*sarama.ProducerMessage {
	msgs := make([]*sarama.ProducerMessage, c.N)
	for _, cl := range calls {
		for i := cl.start; i < cl.start+cl.size; i++ {
			m := &sarama.ProducerMessage{Topic: topicNames[i%2], Value: sarama.StringEncoder("v" + strconv.Itoa(i)), Metadata: i}
			np := refPartitions(c.TC, m.Topic, cl.start, c.N)
			switch c.Part {
			case PHash, PRoundRobin, PFailing:
				m.Key = sarama.StringEncoder("key-" + strconv.Itoa(i*7))
			case PManualIn:
				m.Partition = int32(i*3+1) % np
			case PManualOut:
				if i%2 == 0 {
					m.Partition = np + int32(i)
				} else {
					m.Partition = -int32(i)
				}
			}
			msgs[i] = m
		}
	}
	return msgs
}

func cloneMsgs(msgs []*sarama.ProducerMessage) []*sarama.ProducerMessage {
	out := make([]*sarama.ProducerMessage, len(msgs))
	for i, m := range msgs {
		cp := *m
		out[i] = &cp
	}
	return out
}

func callsOf(c *Case) []refCall {
	var calls []refCall
	switch c.Fam {
	case "sync":
		at := 0
		for _, k := range c.Plan {
			switch {
			case k == 0:
				calls = append(calls, refCall{start: at, size: 1})
				at++
			case k < 0:
				calls = append(calls, refCall{batch: true, start: at, size: 0})
			default:
				calls = append(calls, refCall{batch: true, start: at, size: k})
				at += k
			}
		}
	default:
		for i := 0; i < c.N; i++ {
			calls = append(calls, refCall{start: i, size: 1})
		}
	}
	return calls
}

func validProducerCase(c *Case) error {
	for _, k := range c.Script {
		if k < 0 || k >= numKinds {
			return fmt.Errorf("bad kind %d", k)
		}
	}
	if c.Part < 0 || c.Part >= numPartitioners || c.TC < 0 || c.TC >= numTC || c.N < 0 || c.N > 16 {
		return fmt.Errorf("bad partitioner/topic config/n")
	}
	switch c.Fam {
	case "sync":
		t := 0
		for _, k := range c.Plan {
			if k == 0 {
				t++
			} else if k > 0 {
				t += k
			}
		}
		if t != c.N {
			return fmt.Errorf("plan %v does not submit n=%d messages", c.Plan, c.N)
		}
	case "conc":
		if len(c.Inter) != c.N {
			return fmt.Errorf("inter %v does not submit n=%d messages", c.Inter, c.N)
		}
		for _, s := range c.Inter {
			if s != 0 && s != 1 {
				return fmt.Errorf("bad sender %d", s)
			}
		}
	}
	return nil
}

type expecter interface { // the expectation API shared (modulo names) by both producer mocks
	succeed()
	fail(error)
	msgChkSucceed(mocks.MessageChecker)
	msgChkFail(mocks.MessageChecker, error)
	valChkSucceed(mocks.ValueChecker)
	valChkFail(mocks.ValueChecker, error)
}

type asyncExp struct{ p *mocks.AsyncProducer }

func (a asyncExp) succeed()     { a.p.ExpectInputAndSucceed() }
func (a asyncExp) fail(e error) { a.p.ExpectInputAndFail(e) }
func (a asyncExp) msgChkSucceed(f mocks.MessageChecker) {
	a.p.ExpectInputWithMessageCheckerFunctionAndSucceed(f)
}
func (a asyncExp) msgChkFail(f mocks.MessageChecker, e error) {
	a.p.ExpectInputWithMessageCheckerFunctionAndFail(f, e)
}
func (a asyncExp) valChkSucceed(f mocks.ValueChecker) {
	a.p.ExpectInputWithCheckerFunctionAndSucceed(f)
}
func (a asyncExp) valChkFail(f mocks.ValueChecker, e error) {
	a.p.ExpectInputWithCheckerFunctionAndFail(f, e)
}

type syncExp struct{ p *mocks.SyncProducer }

func (a syncExp) succeed()     { a.p.ExpectSendMessageAndSucceed() }
func (a syncExp) fail(e error) { a.p.ExpectSendMessageAndFail(e) }
func (a syncExp) msgChkSucceed(f mocks.MessageChecker) {
	a.p.ExpectSendMessageWithMessageCheckerFunctionAndSucceed(f)
}
func (a syncExp) msgChkFail(f mocks.MessageChecker, e error) {
	a.p.ExpectSendMessageWithMessageCheckerFunctionAndFail(f, e)
}
func (a syncExp) valChkSucceed(f mocks.ValueChecker) {
	a.p.ExpectSendMessageWithCheckerFunctionAndSucceed(f)
}
func (a syncExp) valChkFail(f mocks.ValueChecker, e error) {
	a.p.ExpectSendMessageWithCheckerFunctionAndFail(f, e)
}

func indexOf(msgs []*sarama.ProducerMessage, m *sarama.ProducerMessage) int {
	for i, x := range msgs {
		if x == m {
			return i
		}
	}
	return -1
}

// script installs the expectations of the case; checkers record their invocations.
func installScript(c *Case, x expecter, errs *errSet, msgs []*sarama.ProducerMessage, o *prodObs) {
	for j, k := range c.Script {
		j, k := j, k
		var verdict error
		if chkFails(k) {
			verdict = errs.chk[j]
		}
		mc := func(m *sarama.ProducerMessage) error {
			if o.onChk != nil {
				o.onChk(j)
			}
			o.mu.Lock()
			o.Chk = append(o.Chk, chkObs{Exp: j, Msg: indexOf(msgs, m), Part: m.Partition})
			o.mu.Unlock()
			o.logf("checker of expectation %d called with message %d (partition %d) -> %v", j, indexOf(msgs, m), m.Partition, verdict)
			return verdict
		}
		vc := func(val []byte) error {
			if o.onChk != nil {
				o.onChk(j)
			}
			i, err := strconv.Atoi(strings.TrimPrefix(string(val), "v"))
			if err != nil {
				i = -1
			}
			o.mu.Lock()
			o.Chk = append(o.Chk, chkObs{Exp: j, Msg: i, Part: wild})
			o.mu.Unlock()
			o.logf("value checker of expectation %d called with value %q -> %v", j, val, verdict)
			return verdict
		}
		switch {
		case k == KSucc:
			x.succeed()
		case k == KFail:
			x.fail(errs.script[j])
		case succeeds(k) && c.ValChk:
			x.valChkSucceed(vc)
		case succeeds(k):
			x.msgChkSucceed(mc)
		case c.ValChk:
			x.valChkFail(vc, errs.script[j])
		default:
			x.msgChkFail(mc, errs.script[j])
		}
	}
}

func newConfig(c *Case) *sarama.Config {
	cfg := sarama.NewConfig()
	cfg.Producer.Return.Successes = c.RS
	cfg.Producer.Return.Errors = c.RE
	cfg.Producer.Partitioner = partitionerCtor(c.Part)
	if c.Unbuf {
		cfg.ChannelBufferSize = 0
	}
	return cfg
}

// execAsync drives mocks.AsyncProducer (families async and conc) inside a bubble.
func execAsync(t *testing.T, c *Case, errs *errSet, msgs []*sarama.ProducerMessage) *prodObs {
	o := &prodObs{}
	rec := &recorder{}
	o.Hang, o.Panic = bubble(t, func() {
		mp := mocks.NewAsyncProducer(rec, newConfig(c))
		applyTC(mp, c.TC)
		installScript(c, asyncExp{mp}, errs, msgs, o)

		var readers sync.WaitGroup
		readers.Add(2)
		go func() {
			defer readers.Done()
			for s := range mp.Successes() {
				o.mu.Lock()
				o.Out = append(o.Out, outc{Succ: true, Msg: indexOf(msgs, s), Part: s.Partition, Off: s.Offset})
				o.mu.Unlock()
				o.logf("Successes() <- message %d partition %d offset %d", indexOf(msgs, s), s.Partition, s.Offset)
			}
		}()
		go func() {
			defer readers.Done()
			for e := range mp.Errors() {
				o.mu.Lock()
				o.Out = append(o.Out, outc{Msg: indexOf(msgs, e.Msg), Part: e.Msg.Partition, Err: e.Err})
				o.mu.Unlock()
				o.logf("Errors() <- message %d: %v", indexOf(msgs, e.Msg), e.Err)
			}
		}()

		if c.Fam == "conc" {
			var tok [2]chan *sarama.ProducerMessage
			var senders sync.WaitGroup
			for s := range tok {
				tok[s] = make(chan *sarama.ProducerMessage)
				senders.Add(1)
				go func(ch chan *sarama.ProducerMessage) {
					defer senders.Done()
					for m := range ch {
						mp.Input() <- m
					}
				}(tok[s])
			}
			for i, s := range c.Inter {
				o.logf("sender %d: Input() <- message %d (topic %s)", s, i, msgs[i].Topic)
				tok[s] <- msgs[i]
				synctest.Wait()
			}
			close(tok[0])
			close(tok[1])
			senders.Wait()
		} else {
			for i, m := range msgs {
				if i == c.N/2 {
					applyTCChange(mp, c.TC)
				}
				o.logf("Input() <- message %d (topic %s, partition field %d)", i, m.Topic, m.Partition)
				mp.Input() <- m
				synctest.Wait()
			}
		}
		if c.AC {
			o.logf("AsyncClose()")
			mp.AsyncClose()
		} else {
			o.logf("Close()")
			if err := mp.Close(); err != nil {
				o.logf("Close returned %v", err)
			}
		}
		readers.Wait()
		synctest.Wait()
	})
	o.Reports = rec.snapshot()
	return o
}

// execSync drives mocks.SyncProducer (no goroutines involved).
func execSync(c *Case, errs *errSet, msgs []*sarama.ProducerMessage, calls []refCall) (o *prodObs) {
	o = &prodObs{}
	rec := &recorder{}
	defer func() {
		if r := recover(); r != nil {
			o.Panic = fmt.Sprintf("%v\n%s", r, debug.Stack())
		}
		o.Reports = rec.snapshot()
	}()
	sp := mocks.NewSyncProducer(rec, newConfig(c))
	applyTC(sp, c.TC)
	installScript(c, syncExp{sp}, errs, msgs, o)
	changed := false
	for _, cl := range calls {
		if !changed && cl.start >= c.N/2 && (cl.size > 0 || c.N == 0) {
			applyTCChange(sp, c.TC)
			changed = true
		}
		if cl.batch {
			err := sp.SendMessages(msgs[cl.start : cl.start+cl.size])
			o.logf("SendMessages(messages %d..%d) = %v", cl.start, cl.start+cl.size-1, err)
			o.Calls = append(o.Calls, callObs{Err: err})
		} else {
			p, off, err := sp.SendMessage(msgs[cl.start])
			o.logf("SendMessage(message %d, topic %s) = partition %d, offset %d, err %v   (msg.Partition=%d msg.Offset=%d)", cl.start, msgs[cl.start].Topic, p, off, err, msgs[cl.start].Partition, msgs[cl.start].Offset)
			o.Calls = append(o.Calls, callObs{Part: p, Off: off, Err: err})
		}
	}
	if err := sp.Close(); err != nil {
		o.logf("Close returned %v", err)
	}
	for _, m := range msgs {
		o.MsgPart = append(o.MsgPart, m.Partition)
		o.MsgOff = append(o.MsgOff, m.Offset)
	}
	return o
}

// execSyncOverlap: SendMessage(m0) is held inside the checker of the first expectation while SendMessage(m1) is issued
// from a second goroutine; then the first is let go. The observations are recorded per message, as execSync does.
func execSyncOverlap(t *testing.T, c *Case, errs *errSet, msgs []*sarama.ProducerMessage) (o *prodObs) {
	// (no synctest bubble: the mocks use the real sync.Mutex, and a goroutine waiting for a mutex is not "durably
	// blocked" for synctest.Wait. Real time is used one-sidedly: with the mock's lock held during the checker the second
	// call waits however long the pause is, so the unchanged code gives the same observations at any speed.)
	o = &prodObs{}
	rec := &recorder{}
	o.Calls = make([]callObs, 2)
	finished := make(chan struct{})
	go func() {
		defer close(finished)
		defer func() {
			if r := recover(); r != nil {
				o.Panic = fmt.Sprintf("%v\n%s", r, debug.Stack())
			}
		}()
		sp := mocks.NewSyncProducer(rec, newConfig(c))
		applyTC(sp, c.TC)
		inChk := make(chan struct{})
		release := make(chan struct{})
		first := true
		o.onChk = func(exp int) {
			o.mu.Lock()
			hold := first && exp == 0
			first = false
			o.mu.Unlock()
			if hold {
				close(inChk)
				<-release
			}
		}
		installScript(c, syncExp{sp}, errs, msgs, o)
		done := make(chan int, 2)
		send := func(i int) {
			p, off, err := sp.SendMessage(msgs[i])
			o.mu.Lock()
			o.Calls[i] = callObs{Part: p, Off: off, Err: err}
			o.mu.Unlock()
			o.logf("SendMessage(message %d) = partition %d, offset %d, err %v", i, p, off, err)
			done <- i
		}
		go send(0)
		<-inChk
		o.logf("call 0 is inside the checker of expectation 0; issuing call 1")
		go send(1)
		time.Sleep(30 * time.Millisecond) // call 1 is now waiting for the mock's lock (or, wrongly, went ahead)
		close(release)
		<-done
		<-done
		if err := sp.Close(); err != nil {
			o.logf("Close returned %v", err)
		}
	}()
	select {
	case <-finished:
	case <-time.After(10 * time.Second):
		o.Hang = "the two overlapping SendMessage calls and Close did not finish within 10 s"
	}
	o.mu.Lock()
	o.onChk = nil
	o.mu.Unlock()
	o.Reports = rec.snapshot()
	for _, m := range msgs {
		o.MsgPart = append(o.MsgPart, m.Partition)
		o.MsgOff = append(o.MsgOff, m.Offset)
	}
	return o
}

// ---------------------------------------------------------------------------------------------
// judges

func describe(c *Case) string {
	var ks []string
	for _, k := range c.Script {
		ks = append(ks, kindName[k])
	}
	s := fmt.Sprintf("%s producer mock: expectations [%s], %d message(s), partitioner %s, topics %s", c.Fam, strings.Join(ks, ", "), c.N, partName[c.Part], tcName[c.TC])
	switch c.Fam {
	case "sync":
		s += fmt.Sprintf(", call plan %v (0=SendMessage, k=SendMessages of k)", c.Plan)
	case "conc":
		s += fmt.Sprintf(", two senders, submission order %v, unbuffered=%v", c.Inter, c.Unbuf)
	}
	if c.Fam != "sync" {
		s += fmt.Sprintf(", Return.Successes=%v Return.Errors=%v, asyncClose=%v", c.RS, c.RE, c.AC)
	}
	if c.ValChk {
		s += ", ValueChecker API"
	}
	return s
}

func judgeCheckers(fam string, c *Case, o *prodObs, ref *refOut) []viol {
	var vs []viol
	seen := map[int]int{}
	for _, k := range o.Chk {
		seen[k.Exp]++
		if k.Msg != k.Exp {
			vs = append(vs, viol{fam + "-checker-got-wrong-message", fmt.Sprintf("checker of expectation %d was called with message %d", k.Exp, k.Msg)})
			continue
		}
		if k.Exp < len(ref.wants) {
			if w := ref.wants[k.Exp]; w.chk && k.Part != wild && w.part != wild && k.Part != w.part {
				vs = append(vs, viol{fam + "-checker-saw-wrong-partition:" + partName[c.Part], fmt.Sprintf("checker of expectation %d saw msg.Partition=%d, the configured partitioner chooses %d", k.Exp, k.Part, w.part)})
			}
		}
	}
	for i, w := range ref.wants {
		n := seen[i]
		delete(seen, i)
		if w.chk && n != 1 {
			vs = append(vs, viol{fam + "-checker-call-count", fmt.Sprintf("checker of expectation %d called %d times for message %d, expected exactly once", i, n, i)})
		}
		if !w.chk && n != 0 {
			vs = append(vs, viol{fam + "-checker-call-count", fmt.Sprintf("checker of expectation %d called %d times although message %d must not reach it", i, n, i)})
		}
	}
	for e, n := range seen {
		vs = append(vs, viol{fam + "-checker-call-count", fmt.Sprintf("checker of expectation %d called %d times without a message for it", e, n)})
	}
	return vs
}

func judgeAsync(c *Case, errs *errSet, o *prodObs, ref *refOut) (vs []viol, class string) {
	fam := "async"
	succ := make([][]outc, c.N)
	fail := make([][]outc, c.N)
	for _, x := range o.Out {
		if x.Msg < 0 || x.Msg >= c.N {
			vs = append(vs, viol{"async-outcome-for-unknown-message", fmt.Sprintf("an outcome (success=%v err=%v) refers to a message that was never submitted", x.Succ, x.Err)})
			continue
		}
		if x.Succ {
			succ[x.Msg] = append(succ[x.Msg], x)
		} else {
			fail[x.Msg] = append(fail[x.Msg], x)
		}
	}
	var cls []byte
	lastOff, lastOffMsg := int64(0), -1
	for i, w := range ref.wants {
		ns, ne := len(succ[i]), len(fail[i])
		switch {
		case ns == 0 && ne == 0:
			cls = append(cls, '-')
		case ns == 1 && ne == 0:
			cls = append(cls, 's')
		case ns == 0 && ne == 1:
			cls = append(cls, 'e')
		case ns == 1 && ne == 1:
			cls = append(cls, 'B')
		default:
			cls = append(cls, 'M')
		}
		what := fmt.Sprintf("message %d (expectation: %s) got %d success(es) and %d error(s)", i, expName(c, i), ns, ne)
		switch w.kind {
		case 'S':
			switch {
			case ne > 0:
				vs = append(vs, viol{"async-error-for-success-expectation", what})
			case c.RS && ns == 0:
				vs = append(vs, viol{"async-success-outcome-missing", what + "; Return.Successes is true"})
			case ns > 1:
				vs = append(vs, viol{"async-duplicate-success", what})
			case !c.RS && ns > 0:
				vs = append(vs, viol{"async-success-delivered-with-return-successes-false", what})
			}
			if ns >= 1 {
				x := succ[i][0]
				if w.part != wild && x.Part != w.part {
					vs = append(vs, viol{"async-wrong-partition:" + partName[c.Part], fmt.Sprintf("message %d (topic %s) succeeded on partition %d, the configured partitioner over the configured partition count chooses %d", i, topicNames[i%2], x.Part, w.part)})
				}
				if lastOffMsg >= 0 && x.Off <= lastOff {
					vs = append(vs, viol{"async-offsets-not-increasing", fmt.Sprintf("message %d succeeded with offset %d after message %d got offset %d", i, x.Off, lastOffMsg, lastOff)})
				}
				lastOff, lastOffMsg = x.Off, i
			}
		case 'E':
			k := -1
			if i < len(c.Script) {
				k = c.Script[i]
			}
			switch {
			case ns == 1 && ne == 1 && k == KBadSucc && fail[i][0].Err == errs.chk[i]:
				vs = append(vs, viol{"async-checker-fail-on-success-two-outcomes", what + ": the checker's error on Errors() AND the message on Successes()"})
				continue
			case ns == 0 && ne == 2 && k == KBadFail && fail[i][0].Err == errs.chk[i] && fail[i][1].Err == errs.script[i]:
				vs = append(vs, viol{"async-checker-fail-on-fail-two-outcomes", what + ": the checker's error AND the scripted error, both on Errors()"})
				continue
			case ns > 0:
				vs = append(vs, viol{"async-success-for-error-expectation", what})
			case ne > 1:
				vs = append(vs, viol{"async-duplicate-error", what})
			case ne == 0 && c.RE:
				vs = append(vs, viol{"async-error-outcome-missing", what + "; Return.Errors is true"})
			}
			if ne >= 1 && fail[i][0].Err != w.err {
				vs = append(vs, viol{"async-wrong-error", fmt.Sprintf("message %d (expectation: %s) failed with %q, expected %q", i, expName(c, i), fail[i][0].Err, w.err)})
			}
		case 'X':
			switch {
			case ns > 0:
				vs = append(vs, viol{"async-success-without-expectation", what})
			case ne > 1:
				vs = append(vs, viol{"async-duplicate-error", what})
			}
		}
	}
	vs = append(vs, judgeCheckers(fam, c, o, ref)...)
	vs = append(vs, compareReports(fam, o.Reports, ref.reports, ref.opt)...)
	return vs, string(cls) + "|" + fmtCounts(categories(o.Reports))
}

func expName(c *Case, i int) string {
	if i < len(c.Script) {
		return kindName[c.Script[i]]
	}
	return "none left"
}

func judgeSync(c *Case, errs *errSet, o *prodObs, ref *refOut) (vs []viol, class string) {
	var cls []byte
	// every offset handed to a message whose expectation was a success (return value of SendMessage,
	// msg.Offset for the accepted messages of a SendMessages call, also the ones in front of the
	// first failure of a batch) must exceed every offset handed out before, across all calls
	maxOff, maxOffMsg := int64(0), -1
	offset := func(i int, off int64) {
		if maxOffMsg >= 0 && off <= maxOff {
			vs = append(vs, viol{"sync-offsets-not-increasing", fmt.Sprintf("message %d succeeded with offset %d although message %d had already been given offset %d", i, off, maxOffMsg, maxOff)})
		}
		if maxOffMsg < 0 || off > maxOff {
			maxOff, maxOffMsg = off, i
		}
	}
	if len(o.Calls) != len(ref.calls) {
		return []viol{{"sync-run-incomplete", fmt.Sprintf("%d of %d calls returned", len(o.Calls), len(ref.calls))}}, "incomplete"
	}
	for ci, cl := range ref.calls {
		got := o.Calls[ci]
		if !cl.batch {
			i := cl.start
			w := ref.wants[i]
			what := fmt.Sprintf("SendMessage(message %d, topic %s; expectation: %s) returned partition %d, offset %d, err %v", i, topicNames[i%2], expName(c, i), got.Part, got.Off, got.Err)
			switch w.kind {
			case 'S':
				if got.Err != nil {
					cls = append(cls, 'e')
					vs = append(vs, viol{"sync-error-for-success-expectation", what})
					break
				}
				cls = append(cls, 's')
				if w.part != wild && got.Part != w.part {
					if got.Part == 0 && o.MsgPart[i] == w.part {
						vs = append(vs, viol{"sync-sendmessage-returns-partition-0", what + fmt.Sprintf("; the configured partitioner (%s) chooses %d and msg.Partition was set to %d, but 0 is returned", partName[c.Part], w.part, o.MsgPart[i])})
					} else {
						vs = append(vs, viol{"sync-sendmessage-wrong-partition:" + partName[c.Part], what + fmt.Sprintf("; the configured partitioner chooses %d (msg.Partition=%d)", w.part, o.MsgPart[i])})
					}
				}
				if got.Off != o.MsgOff[i] {
					vs = append(vs, viol{"sync-returned-offset-differs-from-msg-offset", what + fmt.Sprintf("; msg.Offset=%d", o.MsgOff[i])})
				}
				offset(i, got.Off)
			case 'E':
				switch {
				case got.Err == nil:
					cls = append(cls, 's')
					vs = append(vs, viol{"sync-success-for-error-expectation", what})
				case got.Err != w.err:
					cls = append(cls, 'e')
					vs = append(vs, viol{"sync-wrong-error", what + fmt.Sprintf("; expected %q", w.err)})
				default:
					cls = append(cls, 'e')
				}
			case 'X':
				cls = append(cls, 'x')
				if got.Err == nil {
					vs = append(vs, viol{"sync-success-without-expectation", what})
				}
			}
			continue
		}
		what := fmt.Sprintf("SendMessages(messages %d..%d) returned %v", cl.start, cl.start+cl.size-1, got.Err)
		switch {
		case cl.insufficient:
			cls = append(cls, 'X')
			if got.Err == nil {
				vs = append(vs, viol{"sync-sendmessages-success-without-expectations", what + fmt.Sprintf("; only %d expectation(s) were left", len(c.Script)-cl.start)})
			}
		case cl.err == nil:
			cls = append(cls, 'S')
			if got.Err != nil {
				vs = append(vs, viol{"sync-sendmessages-error-for-success-expectations", what})
			}
		default:
			cls = append(cls, 'E')
			if got.Err == nil {
				vs = append(vs, viol{"sync-sendmessages-success-for-error-expectation", what + fmt.Sprintf("; expected %q", cl.err)})
			} else if got.Err != cl.err {
				vs = append(vs, viol{"sync-sendmessages-wrong-error", what + fmt.Sprintf("; expected %q (first failing expectation of the batch)", cl.err)})
			}
		}
		if cl.insufficient || (got.Err == nil) != (cl.err == nil) {
			continue
		}
		for i := cl.start; i < cl.start+cl.size; i++ {
			w := ref.wants[i]
			if w.kind != 'S' {
				break
			}
			if w.part != wild && o.MsgPart[i] != w.part {
				vs = append(vs, viol{"sync-sendmessages-wrong-partition:" + partName[c.Part], fmt.Sprintf("message %d (topic %s) of a SendMessages call was accepted with msg.Partition=%d, the configured partitioner chooses %d", i, topicNames[i%2], o.MsgPart[i], w.part)})
			}
			offset(i, o.MsgOff[i])
		}
	}
	vs = append(vs, judgeCheckers("sync", c, o, ref)...)
	vs = append(vs, compareReports("sync", o.Reports, ref.reports, ref.opt)...)
	return vs, string(cls) + "|" + fmtCounts(categories(o.Reports))
}

// syncFeatures names structural patterns of a sync case (coverage accounting: the enumeration must
// contain them).
func syncFeatures(ref *refOut) []string {
	var fs []string
	pending := false // a batch failed at position >= 1 after at least one accepted message
	hit := false
	for _, cl := range ref.calls {
		if pending && !cl.insufficient && cl.size > 0 && ref.wants[cl.start].kind == 'S' {
			hit = true
		}
		if cl.batch && !cl.insufficient && cl.err != nil && cl.size > 1 && ref.wants[cl.start].kind == 'S' {
			pending = true
		}
	}
	if pending {
		fs = append(fs, "sendmessages-fails-after-accepted-prefix")
	}
	if hit {
		fs = append(fs, "sendmessages-fails-after-accepted-prefix-then-later-successful-send")
	}
	return fs
}
