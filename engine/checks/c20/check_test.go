package c20

// C20 – mocks replay scripted expectations faithfully and report deviations.
//
// Parent process: splits the exhaustive enumeration (cases_test.go) over worker child processes
// (re-exec of this test binary), watches their progress files (a case that neither finishes nor
// deadlocks inside its synctest bubble within hangLimit, or kills the child, is attributed to that
// case and the enumeration carries on behind it), merges counts and violations, writes evidence.
// Worker: executes every case whose ordinal ≡ w (mod W) against the real mocks and judges it
// against the reference model (model_test.go).

import (
	"bufio"
	"encoding/binary"
	"encoding/json"
	"fmt"
	"os"
	"os/exec"
	"path/filepath"
	"runtime"
	"sort"
	"strconv"
	"strings"
	"testing"
	"time"

	"verif/engine/ev"
)

var exitCode = 3

func TestMain(m *testing.M) {
	m.Run()
	os.Exit(exitCode)
}

func TestCheck(t *testing.T) {
	switch {
	case os.Getenv("VERIF_C20_WORKER") != "":
		exitCode = workerMain(t)
	case os.Getenv("VERIF_REPLAY") != "":
		exitCode = replayMain(t, os.Getenv("VERIF_REPLAY"))
	default:
		exitCode = parentMain(t)
	}
}

const (
	hangLimit     = 20 * time.Second
	maxStuck      = 200 // per worker and family: in-bubble hangs / panics tolerated before the rest of the family is skipped
	maxCasualties = 12  // killed or dead worker processes tolerated before the parent stops respawning
)

// ---------------------------------------------------------------------------------------------

type verdict struct {
	Viol       []viol
	Class      string // observed behaviour class (non-vacuity statistics)
	Nontrivial bool
	Features   []string
	Desc       string
	Trace      []string
}

// evalCase runs one case against the real mocks and judges it.
func evalCase(t *testing.T, c *Case) verdict {
	switch c.Fam {
	case "async", "conc", "sync":
		if err := validProducerCase(c); err != nil {
			return verdict{Viol: []viol{{"invalid-case", err.Error()}}}
		}
		calls := callsOf(c)
		msgs := mkMsgs(c, calls)
		errs := newErrSet(len(c.Script))
		ref := refProduce(c, errs, cloneMsgs(msgs), calls)
		v := verdict{Desc: describe(c), Nontrivial: c.N > 0 || len(c.Script) > 0}
		var o *prodObs
		if c.Fam == "sync" {
			o = execSync(c, errs, msgs, calls)
		} else {
			o = execAsync(t, c, errs, msgs)
		}
		v.Trace = append(o.trace, fmt.Sprintf("ErrorReporter calls: %q", o.Reports))
		switch {
		case o.Panic != "":
			v.Viol, v.Class = []viol{{c.Fam + "-panic", "panic while driving the mock: " + o.Panic}}, "panic"
		case o.Hang != "":
			v.Viol, v.Class = []viol{{c.Fam + "-hang", "the mock never finished (all goroutines of the bubble blocked): " + o.Hang}}, "hang"
		case c.Fam == "sync":
			v.Viol, v.Class = judgeSync(c, errs, o, ref)
			v.Features = syncFeatures(ref)
		default:
			v.Viol, v.Class = judgeAsync(c, errs, o, ref)
		}
		return v
	case "ovl":
		// two overlapping SendMessage calls on a SyncProducer: judged like the sync case "two SendMessage calls in a row" -
		// the mock serialises its callers, so the second call must see the state the first one leaves
		cs := *c
		cs.Fam = "sync"
		if err := validProducerCase(&cs); err != nil || len(c.Script) < 2 || !hasChk(c.Script[0]) {
			return verdict{Viol: []viol{{"invalid-case", fmt.Sprint("overlap case needs a checker on the first expectation: ", err)}}}
		}
		calls := callsOf(&cs)
		msgs := mkMsgs(&cs, calls)
		errs := newErrSet(len(c.Script))
		ref := refProduce(&cs, errs, cloneMsgs(msgs), calls)
		v := verdict{Desc: describe(&cs) + "; the two calls OVERLAP: the second is issued while the first is inside its checker", Nontrivial: true}
		o := execSyncOverlap(t, &cs, errs, msgs)
		v.Trace = append(o.trace, fmt.Sprintf("ErrorReporter calls: %q", o.Reports))
		switch {
		case o.Panic != "":
			v.Viol, v.Class = []viol{{"ovl-panic", "panic while driving the mock: " + o.Panic}}, "panic"
		case o.Hang != "":
			v.Viol, v.Class = []viol{{"ovl-hang", "the overlapping calls never finished: " + o.Hang}}, "hang"
		default:
			v.Viol, v.Class = judgeSync(&cs, errs, o, ref)
			for i := range v.Viol {
				// same signatures as the sequential family (the recorded findings of the mock apply here too); the message says that the calls overlapped
				v.Viol[i].Msg = "(two overlapping SendMessage calls) " + v.Viol[i].Msg
			}
			v.Features = syncFeatures(ref)
		}
		return v
	case "cons":
		if err := validConsCase(c.Cons); err != nil {
			return verdict{Viol: []viol{{"invalid-case", err.Error()}}}
		}
		v := verdict{Desc: describeCons(c.Cons), Nontrivial: true}
		o := execCons(t, c.Cons)
		v.Trace = append(o.trace, fmt.Sprintf("ErrorReporter calls: %q", o.Reports))
		v.Class = fmtCounts(categories(o.Reports))
		switch {
		case o.Panic != "":
			v.Viol, v.Class = []viol{{"cons-panic", "panic while driving the mock: " + o.Panic}}, "panic"
		case o.Hang != "":
			v.Viol, v.Class = []viol{{"cons-hang", "a read or Close never finished (all goroutines of the bubble blocked): " + o.Hang}}, "hang"
		default:
			v.Viol = append(o.Viol, compareReports("cons", o.Reports, refConsume(c.Cons), nil)...)
		}
		return v
	}
	return verdict{Viol: []viol{{"invalid-case", "unknown family " + c.Fam}}}
}

func (v verdict) violation(c *Case, sig viol) ev.Violation {
	return ev.Violation{Property: "C20", Signature: sig.Sig, Check: c.Fam, Replay: c,
		Message: v.Desc + "\n" + sig.Msg + "\ntrace:\n  " + strings.Join(v.Trace, "\n  ")}
}

// ---------------------------------------------------------------------------------------------
// worker

type sigInfo struct {
	Count    int            `json:"count"`
	Examples []ev.Violation `json:"examples"`
}

type famStat struct {
	Evaluations int            `json:"evaluations"`
	Nontrivial  int            `json:"nontrivial"`
	Classes     map[string]int `json:"classes"`
	Features    map[string]int `json:"features"`
}

type workerResult struct {
	Fam      map[string]*famStat `json:"fam"`
	Viol     map[string]*sigInfo `json:"viol"`
	Cut      bool                `json:"cut"`
	Aborted  string              `json:"aborted"`
	Complete bool                `json:"complete"` // false: a checkpoint written while the worker was still running
	Twice    int                 `json:"twice"`
	Unstable []string            `json:"unstable"`
	Samples  []interface{}       `json:"samples"`
}

func workerMain(t *testing.T) int {
	var w, W int
	if _, err := fmt.Sscanf(os.Getenv("VERIF_C20_WORKER"), "%d/%d", &w, &W); err != nil || W <= 0 {
		fmt.Println("bad VERIF_C20_WORKER")
		return 3
	}
	dir := os.Getenv("VERIF_C20_DIR")
	resume, _ := strconv.ParseInt(os.Getenv("VERIF_C20_RESUME"), 10, 64)
	attempt := os.Getenv("VERIF_C20_ATTEMPT")
	deadlineMs, _ := strconv.ParseInt(os.Getenv("VERIF_C20_DEADLINE"), 10, 64)
	deadline := time.UnixMilli(deadlineMs)

	prog, err := os.OpenFile(filepath.Join(dir, fmt.Sprintf("progress-%d", w)), os.O_CREATE|os.O_WRONLY, 0o644)
	if err != nil {
		fmt.Println(err)
		return 3
	}
	hf, err := os.OpenFile(filepath.Join(dir, fmt.Sprintf("hashes-%d.bin", w)), os.O_CREATE|os.O_WRONLY|os.O_APPEND, 0o644)
	if err != nil {
		fmt.Println(err)
		return 3
	}
	hw := bufio.NewWriterSize(hf, 1<<16)

	res := &workerResult{Fam: map[string]*famStat{}, Viol: map[string]*sigInfo{}}
	var ord int64 = -1
	executed := 0
	var buf [8]byte
	sampled := map[string]int{}
	stuck := map[string]int{}
	dump := func() error { // result file (checkpoints survive the death of the worker)
		hw.Flush()
		b, _ := json.Marshal(res)
		tmp := filepath.Join(dir, fmt.Sprintf("result-%d-%s.json.tmp", w, attempt))
		if err := os.WriteFile(tmp, b, 0o644); err != nil {
			return err
		}
		return os.Rename(tmp, strings.TrimSuffix(tmp, ".tmp"))
	}
	lastDump := time.Now()
	done := enumerate(tierBounds(ev.Tier()), ev.Seed(), func(fam string, c *Case) bool {
		ord++
		if ord%int64(W) != int64(w) || ord < resume {
			return true
		}
		if stuck[fam] >= maxStuck {
			return true
		}
		if executed%64 == 0 {
			now := time.Now()
			if deadlineMs > 0 && now.After(deadline) {
				return false
			}
			if now.Sub(lastDump) > 2*time.Second {
				lastDump = now
				dump()
			}
		}
		executed++
		binary.LittleEndian.PutUint64(buf[:], uint64(ord))
		prog.WriteAt(buf[:], 0)
		if executed == 2 {
			dump() // earliest checkpoint: a worker that dies right away still leaves its first case on record
		}

		v := evalCase(t, c)
		if v.Class == "hang" || v.Class == "panic" {
			// every hung bubble leaks its goroutines for good: a tree on which the mocks hang
			// wholesale is not enumerated to the end (the violations are on record)
			if stuck[fam]++; stuck[fam] == maxStuck {
				res.Aborted += fmt.Sprintf("family %s skipped after %d hung/panicking cases; ", fam, maxStuck)
			}
		}
		fs := res.Fam[fam]
		if fs == nil {
			fs = &famStat{Classes: map[string]int{}}
			res.Fam[fam] = fs
		}
		fs.Evaluations++
		fs.Classes[v.Class]++
		for _, f := range v.Features {
			if fs.Features == nil {
				fs.Features = map[string]int{}
			}
			fs.Features[f]++
		}
		if v.Nontrivial {
			fs.Nontrivial++
			binary.LittleEndian.PutUint64(buf[:], c.Hash())
			hw.Write(buf[:])
		}
		for _, s := range v.Viol {
			si := res.Viol[s.Sig]
			if si == nil {
				si = &sigInfo{}
				res.Viol[s.Sig] = si
			}
			si.Count++
			if len(si.Examples) < 2 {
				si.Examples = append(si.Examples, v.violation(c, s))
			}
		}
		if executed%997 == 0 { // determinism of the execution: same case, same verdict and observations
			v2 := evalCase(t, c)
			res.Twice++
			if v2.Class != v.Class || fmt.Sprint(v2.Viol) != fmt.Sprint(v.Viol) {
				res.Unstable = append(res.Unstable, string(c.Key()))
			}
		}
		if w == 0 && v.Nontrivial && sampled[fam] < 2 && (executed%53 == 7) {
			sampled[fam]++
			res.Samples = append(res.Samples, map[string]interface{}{"case": c, "description": v.Desc, "observed": v.Class, "trace": v.Trace})
		}
		return true
	})
	res.Cut = !done || res.Aborted != ""
	res.Complete = true
	if err := dump(); err != nil {
		fmt.Println(err)
		return 3
	}
	hf.Close()
	return 0
}

// ---------------------------------------------------------------------------------------------
// parent

type child struct {
	w        int
	attempt  int
	cmd      *exec.Cmd
	exited   chan error
	lastOrd  int64
	lastMove time.Time
	stderr   string
	done     bool
}

func caseAt(b bounds, seed int, want int64) *Case {
	var found *Case
	var ord int64 = -1
	enumerate(b, seed, func(_ string, c *Case) bool {
		ord++
		if ord == want {
			found = c
			return false
		}
		return true
	})
	return found
}

func parentMain(t *testing.T) int {
	c := ev.NewCheck("C20", "exploration")
	c.Assumptions = []string{
		"the configured partitioner itself is trusted here (C17 decides it): the model asks a fresh instance of the same sarama partitioner, per topic, for the partition of a private copy of each message",
		"ErrorReporter messages are compared by category (keyword) and count, never by wording",
		"left open by the documentation and therefore not demanded: first offset value, offsets after error expectations (only strictly increasing), whether an error outcome appears on Errors() when Return.Errors is false (0 or 1 accepted), what a message without expectation gets on the async mock besides the report (never a success), whether a SendMessages call refused for insufficient expectations uses them up, round-robin state after a SendMessages call that failed midway, PartitionConsumer.Close return value, the high-water mark before any message was yielded",
		"two concurrent senders are sequenced explicitly inside a synctest bubble (every order of their sends); overlap inside one send is not explored",
	}
	b := tierBounds(ev.Tier())
	seed := ev.Seed()
	dir := filepath.Join(ev.Root(), ".build", "c20", fmt.Sprintf("run-%d", os.Getpid()))
	os.RemoveAll(dir)
	if err := os.MkdirAll(dir, 0o755); err != nil {
		c.EngineError(err.Error())
		return c.Finish()
	}
	defer os.RemoveAll(dir)

	W := runtime.NumCPU() - 2
	if W > 14 {
		W = 14
	}
	if W < 1 {
		W = 1
	}
	deadline := time.Now().Add(ev.Deadline(45*time.Second, 8*time.Minute))

	spawn := func(w, attempt int, resume int64) *child {
		ch := &child{w: w, attempt: attempt, exited: make(chan error, 1), lastOrd: -1, lastMove: time.Now()}
		cmd := exec.Command(os.Args[0], "-test.run", "^TestCheck$", "-test.timeout", "0")
		cmd.Env = append(os.Environ(),
			fmt.Sprintf("VERIF_C20_WORKER=%d/%d", w, W), "VERIF_C20_DIR="+dir,
			fmt.Sprintf("VERIF_C20_RESUME=%d", resume), fmt.Sprintf("VERIF_C20_ATTEMPT=%d", attempt),
			fmt.Sprintf("VERIF_C20_DEADLINE=%d", deadline.UnixMilli()))
		errFile, _ := os.Create(filepath.Join(dir, fmt.Sprintf("stderr-%d-%d", w, attempt)))
		cmd.Stdout, cmd.Stderr = errFile, errFile
		if err := cmd.Start(); err != nil {
			c.EngineError("cannot start worker: " + err.Error())
			ch.done = true
			return ch
		}
		ch.cmd = cmd
		go func() { ch.exited <- cmd.Wait(); errFile.Close() }()
		return ch
	}
	readOrd := func(w int) int64 {
		bs, err := os.ReadFile(filepath.Join(dir, fmt.Sprintf("progress-%d", w)))
		if err != nil || len(bs) < 8 {
			return -1
		}
		return int64(binary.LittleEndian.Uint64(bs))
	}

	children := make([]*child, W)
	for w := range children {
		children[w] = spawn(w, 0, 0)
	}
	var results []string
	completed := 0
	cut := false
	casualties := 0
	var aborted []string
	for {
		running := 0
		for w, ch := range children {
			if ch.done {
				continue
			}
			running++
			if o := readOrd(w); o != ch.lastOrd {
				ch.lastOrd, ch.lastMove = o, time.Now()
			}
			died, why := false, ""
			select {
			case err := <-ch.exited:
				if err == nil {
					results = append(results, filepath.Join(dir, fmt.Sprintf("result-%d-%d.json", w, ch.attempt)))
					completed++
					ch.done = true
					continue
				}
				died, why = true, fmt.Sprintf("the worker process died (%v)", err)
			default:
				if time.Since(ch.lastMove) > hangLimit {
					ch.cmd.Process.Kill()
					<-ch.exited
					died, why = true, fmt.Sprintf("no progress for %v (not even a detectable bubble deadlock): the worker was killed", hangLimit)
				}
			}
			if !died {
				continue
			}
			casualties++
			if cp := filepath.Join(dir, fmt.Sprintf("result-%d-%d.json", w, ch.attempt)); fileExists(cp) {
				results = append(results, cp) // last checkpoint of the dead worker
			}
			ord := readOrd(w)
			tail, _ := os.ReadFile(filepath.Join(dir, fmt.Sprintf("stderr-%d-%d", w, ch.attempt)))
			if len(tail) > 3000 {
				tail = tail[len(tail)-3000:]
			}
			bad := caseAt(b, seed, ord)
			if bad == nil {
				c.EngineError(fmt.Sprintf("worker %d: %s at ordinal %d, which is not a case of the enumeration\n%s", w, why, ord, tail))
				ch.done = true
				continue
			}
			sig := bad.Fam + "-kills-or-hangs-process"
			c.Report(ev.Violation{Signature: sig, Check: bad.Fam, Replay: bad,
				Message: fmt.Sprintf("%s\n%s while executing this case\noutput tail:\n%s", descOf(bad), why, tail)})
			if casualties > maxCasualties || time.Now().After(deadline) {
				aborted = append(aborted, fmt.Sprintf("worker %d not restarted after ordinal %d (%d casualties)", w, ord, casualties))
				ch.done = true
				continue
			}
			children[w] = spawn(w, ch.attempt+1, ord+1)
		}
		if running == 0 {
			break
		}
		time.Sleep(100 * time.Millisecond)
	}

	// merge
	total := &workerResult{Fam: map[string]*famStat{}, Viol: map[string]*sigInfo{}}
	for _, p := range results {
		bs, err := os.ReadFile(p)
		var r workerResult
		if err == nil {
			err = json.Unmarshal(bs, &r)
		}
		if err != nil {
			c.EngineError("bad worker result " + p + ": " + err.Error())
			continue
		}
		cut = cut || r.Cut || !r.Complete
		if r.Aborted != "" {
			aborted = append(aborted, r.Aborted)
		}
		total.Twice += r.Twice
		total.Unstable = append(total.Unstable, r.Unstable...)
		total.Samples = append(total.Samples, r.Samples...)
		for f, s := range r.Fam {
			ts := total.Fam[f]
			if ts == nil {
				ts = &famStat{Classes: map[string]int{}}
				total.Fam[f] = ts
			}
			ts.Evaluations += s.Evaluations
			ts.Nontrivial += s.Nontrivial
			for k, n := range s.Classes {
				ts.Classes[k] += n
			}
			for k, n := range s.Features {
				if ts.Features == nil {
					ts.Features = map[string]int{}
				}
				ts.Features[k] += n
			}
		}
		for sgn, si := range r.Viol {
			ts := total.Viol[sgn]
			if ts == nil {
				ts = &sigInfo{}
				total.Viol[sgn] = ts
			}
			ts.Count += si.Count
			if len(ts.Examples) < 3 {
				ts.Examples = append(ts.Examples, si.Examples...)
			}
		}
	}
	for _, k := range total.Unstable {
		c.EngineError("nondeterministic verdict for case " + k)
	}
	var sigs []string
	for s := range total.Viol {
		sigs = append(sigs, s)
	}
	sort.Strings(sigs)
	sigCounts := map[string]int{}
	for _, s := range sigs {
		sigCounts[s] = total.Viol[s].Count
		for _, e := range total.Viol[s].Examples {
			c.Report(e)
		}
	}

	// distinct non-trivial cases, measured: canonical hashes written by the workers
	var hashes []uint64
	files, _ := filepath.Glob(filepath.Join(dir, "hashes-*.bin"))
	for _, f := range files {
		bs, _ := os.ReadFile(f)
		for i := 0; i+8 <= len(bs); i += 8 {
			hashes = append(hashes, binary.LittleEndian.Uint64(bs[i:]))
		}
	}
	sort.Slice(hashes, func(i, j int) bool { return hashes[i] < hashes[j] })
	distinct := 0
	for i, h := range hashes {
		if i == 0 || h != hashes[i-1] {
			distinct++
		}
	}

	nontrivial := 0
	for _, s := range total.Fam {
		nontrivial += s.Nontrivial
	}
	if distinct > nontrivial { // only after a worker death: hashes flushed past its last checkpoint
		distinct = nontrivial
	}
	evals := 0
	perFam := map[string]interface{}{}
	classesTotal := 0
	for f, s := range total.Fam {
		evals += s.Evaluations
		classesTotal += len(s.Classes)
		top := topClasses(s.Classes, 12)
		perFam[f] = map[string]interface{}{"evaluations": s.Evaluations, "nontrivial": s.Nontrivial, "distinct_observed_behaviours": len(s.Classes), "most_frequent_behaviours": top}
	}
	c.Set("evaluations", evals)
	c.Set("distinct_nontrivial", distinct)
	c.Set("rule", "cases are enumerated exhaustively (cases_test.go): async = every expectation script over 6 kinds up to the bound × 0..len+1 messages × 5 partitioners × 5 topic configurations × Return.Successes × Return.Errors × checker API × Close/AsyncClose; sync = scripts × messages × every split of the messages into SendMessage/SendMessages calls × partitioners × 3 topic configurations × checker API; conc = scripts × every interleaving of two sender goroutines (explicitly sequenced in a synctest bubble) × {hash, round-robin} × buffered/unbuffered channels; cons = every per-partition behaviour (yield script over {message,error}, offset expectation any/met/not met, drained expectations, consumed or not, reads before close, own close operation, yields before/after ConsumePartition) for 1 and 2 partitions × every order of the close operations × unregistered partition. A case is non-trivial when at least one message outcome, ErrorReporter call, yield or partition registration is compared with the reference model (only the empty script with 0 messages is trivial); distinct = distinct FNV-64 hashes of the canonical JSON of non-trivial cases, counted over the hash files the workers wrote")
	c.Set("bounds", map[string]interface{}{"producer_script_len": b.MaxScript, "concurrent_script_len": b.ConcScript, "consumer_yields_single_partition": b.Cons1Yields, "consumer_yields_two_partitions_each": b.Cons2Yields, "messages": "0..len+1", "senders": 2, "partitions_consumer": "1..2"})
	c.Set("families", perFam)
	if s := total.Fam["sync"]; s != nil {
		c.Set("sync_pattern_counts", s.Features)
		if !cut && s.Features["sendmessages-fails-after-accepted-prefix-then-later-successful-send"] == 0 {
			c.EngineError("the sync enumeration contains no SendMessages batch failing after an accepted prefix that is followed by a successful send")
		}
	}
	c.Set("distinct_observed_behaviours", classesTotal)
	c.Set("violation_signature_counts", sigCounts)
	c.Set("executed_twice_for_determinism", total.Twice)
	c.Set("workers", W)
	c.Set("worker_casualties", casualties)
	c.Set("exhaustive", !cut && casualties == 0 && len(aborted) == 0 && completed == W)
	if len(aborted) > 0 {
		c.Set("aborted", aborted)
	}
	if cut && len(aborted) == 0 {
		c.Set("cut_by_internal_deadline", "the enumeration stopped at the internal deadline; the per-family counts say what was completed")
	}
	for i, s := range total.Samples {
		if i < 8 {
			c.AddSample(s)
		}
	}
	fmt.Printf("C20: %d cases (%d distinct non-trivial), %d distinct observed behaviours, workers=%d, exhaustive=%v\n", evals, distinct, classesTotal, W, !cut && casualties == 0 && len(aborted) == 0 && completed == W)
	for _, f := range families {
		if s := total.Fam[f]; s != nil {
			fmt.Printf("  %-6s evaluations=%d behaviours=%d\n", f, s.Evaluations, len(s.Classes))
		}
	}
	for _, s := range sigs {
		fmt.Printf("  signature %s ×%d\n", s, sigCounts[s])
	}
	return c.Finish()
}

func fileExists(p string) bool {
	_, err := os.Stat(p)
	return err == nil
}

func topClasses(m map[string]int, n int) []string {
	type kv struct {
		k string
		v int
	}
	var l []kv
	for k, v := range m {
		l = append(l, kv{k, v})
	}
	sort.Slice(l, func(i, j int) bool { return l[i].v > l[j].v || (l[i].v == l[j].v && l[i].k < l[j].k) })
	var out []string
	for i, e := range l {
		if i >= n {
			break
		}
		out = append(out, fmt.Sprintf("%s ×%d", e.k, e.v))
	}
	return out
}

func descOf(c *Case) string {
	if c.Fam == "cons" && c.Cons != nil {
		return describeCons(c.Cons)
	}
	if validProducerCase(c) == nil && c.Fam != "cons" {
		return describe(c)
	}
	return string(c.Key())
}

// ---------------------------------------------------------------------------------------------
// replay

func replayMain(t *testing.T, path string) int {
	bs, err := os.ReadFile(path)
	if err != nil {
		fmt.Println("ENGINE-ERROR", err)
		return 3
	}
	var art struct {
		Signature string `json:"signature"`
		Replay    *Case  `json:"replay"`
	}
	if err := json.Unmarshal(bs, &art); err != nil || art.Replay == nil {
		fmt.Println("ENGINE-ERROR cannot parse replay artefact:", err)
		return 3
	}
	fmt.Printf("REPLAY property=C20 recorded signature=%s\ncase: %s\n", art.Signature, art.Replay.Key())
	resc := make(chan verdict, 1)
	go func() { resc <- evalCase(t, art.Replay) }()
	select {
	case v := <-resc:
		fmt.Println(v.Desc)
		for _, l := range v.Trace {
			fmt.Println("  ", l)
		}
		fmt.Println("observed behaviour class:", v.Class)
		if len(v.Viol) == 0 {
			fmt.Println("REPLAY-RESULT: no violation")
			return 0
		}
		for _, s := range v.Viol {
			fmt.Printf("REPLAY-VIOLATION signature=%s\n  %s\n", s.Sig, s.Msg)
		}
		return 1
	case <-time.After(hangLimit):
		fmt.Printf("REPLAY-VIOLATION signature=%s-kills-or-hangs-process\n  no result within %v\n", art.Replay.Fam, hangLimit)
		return 1
	}
}
