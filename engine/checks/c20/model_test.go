package c20

// Reference model of the mock producers and the mock consumer, written from the property
// statement (properties.jsonl C20), the doc comments of package mocks and the behaviour pinned by
// mocks/*_test.go — not from the mocks' code.  It says, for a case, what every submitted message
// must get and which ErrorReporter calls (by category) must happen.

import (
	"errors"
	"fmt"

	"github.com/Shopify/sarama"
)

const wild int32 = -1 << 30 // partition not determined by the documentation: not compared

// want: what one submitted message must get.
//   'S' success (partition part, offsets increasing)   'E' exactly the error err
//   'X' no expectation was left for it (never a success; how the error surfaces is not specified)
//   '-' not processed (it follows the first failure inside one SendMessages call)
type want struct {
	kind byte
	part int32
	err  error
	chk  bool // the expectation's checker must have been called exactly once, with this message
}

type refCall struct { // sync producer: one API call
	batch        bool
	start, size  int
	insufficient bool  // SendMessages with fewer expectations left than messages: reported, non-nil error
	err          error // expected return value for a batch (nil = all succeeded)
}

type refOut struct {
	wants   []want
	calls   []refCall
	reports map[string]int // required ErrorReporter calls by category
	opt     map[string]int // additionally tolerated (behaviour the documentation leaves open)
}

// per-case error values, identified by pointer
type errSet struct{ script, chk []error }

func newErrSet(n int) *errSet {
	e := &errSet{}
	for i := 0; i < n; i++ {
		e.script = append(e.script, fmt.Errorf("scripted-error-%d", i))
		e.chk = append(e.chk, fmt.Errorf("checker-error-%d", i))
	}
	return e
}

var errPartitionerB = errors.New("verif partitioner: topic b cannot be partitioned")

type failingPartitioner struct{}

func (failingPartitioner) Partition(m *sarama.ProducerMessage, n int32) (int32, error) {
	if m.Topic == "b" {
		return 0, errPartitionerB
	}
	return n - 1, nil
}
func (failingPartitioner) RequiresConsistency() bool { return false }

func partitionerCtor(p int) sarama.PartitionerConstructor {
	switch p {
	case PHash:
		return sarama.NewHashPartitioner
	case PManualIn, PManualOut:
		return sarama.NewManualPartitioner
	case PRoundRobin:
		return sarama.NewRoundRobinPartitioner
	}
	return func(string) sarama.Partitioner { return failingPartitioner{} }
}

// refPartitions: the number of partitions TopicConfig must present for topic when the call that
// starts at message index `at` (of n) is made.
func refPartitions(tc int, topic string, at, n int) int32 {
	switch tc {
	case TCDefault3:
		return 3
	case TCOverA2:
		if topic == "a" {
			return 2
		}
	case TCDef5OverB1:
		if topic == "b" {
			return 1
		}
		return 5
	case TCChange:
		// a second SetPartitions call adds to the first (b stays 4), it does not replace it
		if topic == "b" {
			return 4
		}
		if at < n/2 {
			return 2
		}
		return 5
	}
	return 32
}

type refProducer struct {
	c       *Case
	errs    *errSet
	ptn     map[string]sarama.Partitioner // one instance of the configured partitioner per topic
	unknown map[string]bool               // partitioner state no longer determined for the topic
	out     *refOut
}

// one: the i-th expectation handles message m (a private copy) at a call starting at index `at`.
func (r *refProducer) one(i int, m *sarama.ProducerMessage, at int) want {
	k := r.c.Script[i]
	if r.ptn[m.Topic] == nil {
		r.ptn[m.Topic] = partitionerCtor(r.c.Part)(m.Topic)
	}
	p, perr := r.ptn[m.Topic].Partition(m, refPartitions(r.c.TC, m.Topic, at, r.c.N))
	if perr != nil {
		r.out.reports["partitioner"]++
		return want{kind: 'E', err: perr, part: wild}
	}
	if r.unknown[m.Topic] && r.c.Part == PRoundRobin {
		p = wild
	}
	w := want{part: p, chk: hasChk(k)}
	switch {
	case chkFails(k):
		r.out.reports["checker"]++
		w.kind, w.err = 'E', r.errs.chk[i]
	case succeeds(k):
		w.kind = 'S'
	default:
		w.kind, w.err = 'E', r.errs.script[i]
	}
	return w
}

// refProduce: msgs are private copies of the messages in submission order; calls describe how they
// are submitted (async: one call per message).
func refProduce(c *Case, errs *errSet, msgs []*sarama.ProducerMessage, calls []refCall) *refOut {
	r := &refProducer{c: c, errs: errs, ptn: map[string]sarama.Partitioner{}, unknown: map[string]bool{},
		out: &refOut{wants: make([]want, len(msgs)), reports: map[string]int{}, opt: map[string]int{}}}
	next := 0 // expectations consumed so far: the i-th message meets the i-th expectation
	for _, cl := range calls {
		switch {
		case !cl.batch:
			if next >= len(c.Script) {
				r.out.reports["no-expectation"]++
				r.out.wants[cl.start] = want{kind: 'X', part: wild}
			} else {
				r.out.wants[cl.start] = r.one(next, msgs[cl.start], cl.start)
				next++
			}
		case next+cl.size > len(c.Script):
			cl.insufficient = true
			r.out.reports["no-expectation"]++
			for j := 0; j < cl.size; j++ {
				r.out.wants[cl.start+j] = want{kind: 'X', part: wild}
			}
			if len(c.Script)-next > 0 { // whether a refused batch uses up expectations is not documented
				r.out.opt["leftover"] = 1
				next = len(c.Script)
			}
		default:
			failed := false
			for j := 0; j < cl.size; j++ {
				m := msgs[cl.start+j]
				if failed {
					r.out.wants[cl.start+j] = want{kind: '-', part: wild}
					r.unknown[m.Topic] = true
					continue
				}
				w := r.one(next+j, m, cl.start)
				r.out.wants[cl.start+j] = w
				if w.kind != 'S' {
					failed, cl.err = true, w.err
				}
			}
			next += cl.size
		}
		r.out.calls = append(r.out.calls, cl)
	}
	if len(c.Script)-next > 0 { // Close with expectations left over
		r.out.reports["leftover"]++
	}
	return r.out
}

// ---------------------------------------------------------------------------------------------
// consumer

// refConsume: the required ErrorReporter calls of a consumer case.
func refConsume(cc *ConsCase) map[string]int {
	rep := map[string]int{}
	if cc.Ghost {
		rep["unexpected-partition"]++
	}
	remM, remE := make([]int, len(cc.Parts)), make([]int, len(cc.Parts))
	for i, p := range cc.Parts {
		remM[i], remE[i] = count(p.Script, 'M')-p.RM, count(p.Script, 'E')-p.RErr
		if p.Consume && (p.Off == OffMismatch || p.Off == OffMismatchBelow) {
			rep["unexpected-offset"]++
		}
	}
	closePC := func(i int) { // PartitionConsumer.Close: drained expectations are verified, then the rest is discarded
		p := cc.Parts[i]
		if p.DM && remM[i] > 0 {
			rep["messages-not-drained"]++
		}
		if p.DE && remE[i] > 0 {
			rep["errors-not-drained"]++
		}
		remM[i], remE[i] = 0, 0
	}
	for _, op := range cc.Order {
		if op >= 0 {
			switch cc.Parts[op].Close {
			case ClClose:
				closePC(op)
			case ClAsyncDrain: // the test itself reads everything that is left
				remM[op], remE[op] = 0, 0
			}
			continue
		}
		for i, p := range cc.Parts { // Consumer.Close closes every registered partition consumer
			if !p.Consume {
				rep["not-consumed"]++
			} else {
				closePC(i)
			}
		}
	}
	return rep
}
