package c20

// Execution of consumer cases against the real mocks.Consumer and comparison with the model.

import (
	"fmt"
	"strings"
	"testing"
	"testing/synctest"

	"github.com/Shopify/sarama"
	"github.com/Shopify/sarama/mocks"
)

type consObs struct {
	Reports []string
	Viol    []viol
	Hang    string
	Panic   string
	trace   []string
	class   []string
}

func (o *consObs) logf(f string, a ...interface{}) { o.trace = append(o.trace, fmt.Sprintf(f, a...)) }
func (o *consObs) bad(sig, f string, a ...interface{}) {
	o.Viol = append(o.Viol, viol{sig, fmt.Sprintf(f, a...)})
}

func validConsCase(cc *ConsCase) error {
	if cc == nil || len(cc.Parts) == 0 || len(cc.Parts) > 4 {
		return fmt.Errorf("consumer case needs 1..4 partitions")
	}
	seen := map[string]bool{}
	ops := map[int]int{}
	for _, op := range cc.Order {
		ops[op]++
	}
	if ops[-1] != 1 {
		return fmt.Errorf("order must contain Consumer.Close (-1) exactly once")
	}
	for i, p := range cc.Parts {
		k := fmt.Sprintf("%s/%d", p.Topic, p.Partition)
		if seen[k] || p.Topic == "ghost" {
			return fmt.Errorf("duplicate or reserved topic/partition %s", k)
		}
		seen[k] = true
		if strings.Trim(p.Script, "ME") != "" || len(p.Script) > 16 {
			return fmt.Errorf("bad yield script %q", p.Script)
		}
		if p.RM < 0 || p.RM > count(p.Script, 'M') || p.RErr < 0 || p.RErr > count(p.Script, 'E') {
			return fmt.Errorf("reads exceed yields")
		}
		if p.Off < OffAny || p.Off > OffMismatchBelow || p.Close < ClNone || p.Close > ClAsyncDrain {
			return fmt.Errorf("bad off/close")
		}
		want := 0
		if p.Consume && p.Close != ClNone {
			want = 1
		}
		if ops[i] != want {
			return fmt.Errorf("partition %d: close operation must appear %d time(s) in order", i, want)
		}
		if !p.Consume && (p.RM > 0 || p.RErr > 0 || p.YieldAfter) {
			return fmt.Errorf("partition %d is not consumed but read", i)
		}
		delete(ops, i)
	}
	delete(ops, -1)
	if len(ops) != 0 {
		return fmt.Errorf("order refers to unknown partitions")
	}
	return nil
}

type yielded struct {
	msgs []*sarama.ConsumerMessage
	errs []error
}

func execCons(t *testing.T, cc *ConsCase) *consObs {
	o := &consObs{}
	rec := &recorder{}
	o.Hang, o.Panic = bubble(t, func() {
		cons := mocks.NewConsumer(rec, nil)
		n := len(cc.Parts)
		pcm := make([]*mocks.PartitionConsumer, n)
		pcs := make([]sarama.PartitionConsumer, n)
		ys := make([]*yielded, n)
		nextM, nextE := make([]int, n), make([]int, n) // how many of the yields the test has read
		prevOff := make([]int64, n)
		discarded := make([]bool, n) // a Close() has already thrown away whatever was unread

		yield := func(i int) {
			p := cc.Parts[i]
			again := cons.ExpectConsumePartition(p.Topic, p.Partition, expOffset(p, i))
			if again != pcm[i] {
				o.bad("cons-expectconsumepartition-not-idempotent", "second ExpectConsumePartition(%s,%d) returned another partition consumer", p.Topic, p.Partition)
			}
			for k := 0; k < len(p.Script); k++ {
				if p.Script[k] == 'M' {
					m := &sarama.ConsumerMessage{Value: []byte(fmt.Sprintf("%s/%d#%d", p.Topic, p.Partition, len(ys[i].msgs)))}
					ys[i].msgs = append(ys[i].msgs, m)
					pcm[i].YieldMessage(m)
				} else {
					e := fmt.Errorf("yielded-error-%s/%d#%d", p.Topic, p.Partition, len(ys[i].errs))
					ys[i].errs = append(ys[i].errs, e)
					pcm[i].YieldError(e)
				}
			}
			o.logf("%s/%d: yields %q", p.Topic, p.Partition, p.Script)
		}
		readMsg := func(i int, m *sarama.ConsumerMessage, how string) {
			p := cc.Parts[i]
			k := nextM[i]
			nextM[i]++
			o.logf("%s/%d: %s message #%d offset %d", p.Topic, p.Partition, how, k, m.Offset)
			if k >= len(ys[i].msgs) {
				o.bad("cons-extra-message", "%s/%d delivered more messages than were yielded", p.Topic, p.Partition)
				return
			}
			if m != ys[i].msgs[k] {
				o.bad("cons-messages-out-of-order", "%s/%d: message #%d read is %q, yielded #%d was %q", p.Topic, p.Partition, k, m.Value, k, ys[i].msgs[k].Value)
			}
			if m.Topic != p.Topic || m.Partition != p.Partition {
				o.bad("cons-message-wrong-topic-partition", "%s/%d: message carries %s/%d", p.Topic, p.Partition, m.Topic, m.Partition)
			}
			if k > 0 && m.Offset != prevOff[i]+1 {
				o.bad("cons-offsets-not-consecutive", "%s/%d: message #%d has offset %d after offset %d", p.Topic, p.Partition, k, m.Offset, prevOff[i])
			}
			prevOff[i] = m.Offset
		}
		readErr := func(i int, e *sarama.ConsumerError, how string) {
			p := cc.Parts[i]
			k := nextE[i]
			nextE[i]++
			o.logf("%s/%d: %s error #%d: %v", p.Topic, p.Partition, how, k, e.Err)
			if k >= len(ys[i].errs) {
				o.bad("cons-extra-error", "%s/%d delivered more errors than were yielded", p.Topic, p.Partition)
				return
			}
			if e.Err != ys[i].errs[k] {
				o.bad("cons-errors-out-of-order", "%s/%d: error #%d read is %q, yielded #%d was %q", p.Topic, p.Partition, k, e.Err, k, ys[i].errs[k])
			}
			if e.Topic != p.Topic || e.Partition != p.Partition {
				o.bad("cons-error-wrong-topic-partition", "%s/%d: error carries %s/%d", p.Topic, p.Partition, e.Topic, e.Partition)
			}
		}

		// 1. register, set drained expectations, yield (unless the case yields after consuming)
		for i, p := range cc.Parts {
			pcm[i] = cons.ExpectConsumePartition(p.Topic, p.Partition, expOffset(p, i))
			ys[i] = &yielded{}
			if pcm[i] == nil {
				o.bad("cons-expectconsumepartition-nil", "ExpectConsumePartition(%s,%d) returned nil", p.Topic, p.Partition)
				return
			}
			if p.DM {
				pcm[i].ExpectMessagesDrainedOnClose()
			}
			if p.DE {
				pcm[i].ExpectErrorsDrainedOnClose()
			}
			if !p.YieldAfter {
				yield(i)
			}
		}
		// 2. consume
		if cc.Ghost {
			pc, err := cons.ConsumePartition("ghost", 7, 0)
			o.logf("ConsumePartition(ghost,7,0) = %v, %v", pc, err)
			if err == nil {
				o.bad("cons-unregistered-partition-consumable", "ConsumePartition on a topic/partition without expectations returned no error")
			}
		}
		for i, p := range cc.Parts {
			if !p.Consume {
				continue
			}
			call := int64(42)
			if p.Off == OffMatch {
				call = expOffset(p, i)
			} else if p.Off == OffMismatch {
				call = expOffset(p, i) + 1
			} else if p.Off == OffMismatchBelow {
				call = expOffset(p, i) - 1
			}
			pc, err := cons.ConsumePartition(p.Topic, p.Partition, call)
			o.logf("ConsumePartition(%s,%d,%d) [expected offset %d] err=%v", p.Topic, p.Partition, call, expOffset(p, i), err)
			if err != nil || pc == nil {
				o.bad("cons-registered-partition-not-consumable", "ConsumePartition(%s,%d,%d) = %v, %v", p.Topic, p.Partition, call, pc, err)
				return
			}
			pcs[i] = pc
		}
		for i, p := range cc.Parts {
			if p.YieldAfter {
				yield(i)
			}
		}
		synctest.Wait()
		// 3. high-water marks
		hw := cons.HighWaterMarks()
		for i, p := range cc.Parts {
			if len(ys[i].msgs) == 0 {
				continue
			}
			last := ys[i].msgs[len(ys[i].msgs)-1].Offset
			got := pcm[i].HighWaterMarkOffset()
			o.logf("%s/%d: HighWaterMarkOffset()=%d, offset of last yielded message=%d", p.Topic, p.Partition, got, last)
			if got != last+1 {
				o.bad("cons-high-water-mark", "%s/%d: HighWaterMarkOffset()=%d but the last of %d yielded messages has offset %d", p.Topic, p.Partition, got, len(ys[i].msgs), last)
			}
			if hw[p.Topic] == nil || hw[p.Topic][p.Partition] != got {
				o.bad("cons-high-water-marks-map", "%s/%d: Consumer.HighWaterMarks() has %v, the partition consumer says %d", p.Topic, p.Partition, hw[p.Topic], got)
			}
		}
		// 4. reads before any close
		for i, p := range cc.Parts {
			for k := 0; k < p.RM; k++ {
				readMsg(i, <-pcs[i].Messages(), "read")
			}
			for k := 0; k < p.RErr; k++ {
				readErr(i, <-pcs[i].Errors(), "read")
			}
		}
		// 5. close operations in the order of the case
		for _, op := range cc.Order {
			if op < 0 {
				err := cons.Close()
				o.logf("Consumer.Close() = %v", err)
				if err != nil {
					o.bad("cons-close-error", "Consumer.Close returned %v", err)
				}
				for i := range discarded {
					discarded[i] = true
				}
				continue
			}
			p := cc.Parts[op]
			switch p.Close {
			case ClClose:
				err := pcs[op].Close()
				o.logf("%s/%d: Close() = %v", p.Topic, p.Partition, err)
				discarded[op] = true
			case ClAsync:
				pcs[op].AsyncClose()
				o.logf("%s/%d: AsyncClose()", p.Topic, p.Partition)
			case ClAsyncDrain:
				pcs[op].AsyncClose()
				o.logf("%s/%d: AsyncClose(), then drain", p.Topic, p.Partition)
				for m := range pcs[op].Messages() {
					readMsg(op, m, "drained")
				}
				for e := range pcs[op].Errors() {
					readErr(op, e, "drained")
				}
				if !discarded[op] && (nextM[op] != len(ys[op].msgs) || nextE[op] != len(ys[op].errs)) {
					o.bad("cons-yield-lost", "%s/%d: after AsyncClose and reading until the channels closed the test has seen %d/%d messages and %d/%d errors", p.Topic, p.Partition, nextM[op], len(ys[op].msgs), nextE[op], len(ys[op].errs))
				}
			}
		}
		// 6. everything that was consumed is closed now: ranging over the channels terminates
		for i, p := range cc.Parts {
			if !p.Consume {
				continue
			}
			for m := range pcs[i].Messages() {
				readMsg(i, m, "after-close")
			}
			for e := range pcs[i].Errors() {
				readErr(i, e, "after-close")
			}
			o.logf("%s/%d: channels closed", p.Topic, p.Partition)
		}
		synctest.Wait()
	})
	o.Reports = rec.snapshot()
	return o
}

func expOffset(p PartSpec, i int) int64 {
	if p.Off == OffAny {
		return mocks.AnyOffset
	}
	return int64(100 + 10*i)
}

func describeCons(cc *ConsCase) string {
	var s []string
	for _, p := range cc.Parts {
		d := fmt.Sprintf("%s/%d yields %q", p.Topic, p.Partition, p.Script)
		if p.DM {
			d += " +ExpectMessagesDrainedOnClose"
		}
		if p.DE {
			d += " +ExpectErrorsDrainedOnClose"
		}
		if !p.Consume {
			d += ", never consumed"
		} else {
			d += fmt.Sprintf(", consumed (offset expectation %s), reads %d msgs %d errs, own close op: %s", []string{"any", "literal met", "literal NOT met (called higher)", "literal NOT met (called lower)"}[p.Off], p.RM, p.RErr, closeName[p.Close])
			if p.YieldAfter {
				d += ", yields after ConsumePartition"
			}
		}
		s = append(s, d)
	}
	g := ""
	if cc.Ghost {
		g = "; also consumes an unregistered partition"
	}
	return fmt.Sprintf("consumer mock: %s; close order %v (-1 = Consumer.Close)%s", strings.Join(s, " | "), cc.Order, g)
}
