package c15

// REACHABILITY layer: enumeration of the case families and aggregation.

import (
	"fmt"
	"sort"
	"strings"
	"time"

	"verif/engine/ev"
	"verif/engine/rigs/clirig"
)

var reachExecs int
var reachSamples []interface{}

func perms(n int) [][]int {
	if n == 0 {
		return [][]int{{}}
	}
	var out [][]int
	var rec func(cur []int, used []bool)
	rec = func(cur []int, used []bool) {
		if len(cur) == n {
			out = append(out, append([]int(nil), cur...))
			return
		}
		for i := 1; i <= n; i++ {
			if !used[i] {
				used[i] = true
				rec(append(cur, i), used)
				used[i] = false
			}
		}
	}
	rec(nil, make([]bool, n+1))
	return out
}

func words(alpha string, n int) []string {
	if n == 0 {
		return []string{""}
	}
	var out []string
	for _, w := range words(alpha, n-1) {
		for _, ch := range alpha {
			out = append(out, w+string(ch))
		}
	}
	return out
}

func picks(known int) [][]int32 {
	switch known {
	case 0:
		return [][]int32{nil}
	case 1:
		return [][]int32{{1}}
	}
	return [][]int32{{1, 2}, {2, 1}}
}

func reachCases(thorough bool) (cases []clirig.ReachCase, fam map[string]int, bounds map[string]interface{}) {
	fam = map[string]int{}
	alpha := "URDA"
	alpha2 := "RA"
	maxSeeds2 := 2
	if thorough {
		alpha = "URDAH"
		alpha2 = "RDA"
		maxSeeds2 = 3
	}
	bounds = map[string]interface{}{"seeds": "1..3, every order of the list", "known_brokers": "0..2, every client.any() pick order", "retry_max": []int{0, 1}, "retry_backoff": "250ms (fake time)",
		"behaviours": alpha + " (A answers, R dial refused, U dial unanswered until Net.DialTimeout, D connection dropped after the request was read, H request read and never answered until Net.ReadTimeout)",
		"alias":      "broker 1 at its own address / at the address of seed 1", "two_refresh_family": fmt.Sprintf("seeds 1..%d, behaviours %s (3 seeds: RA) in each of two successive RefreshMetadata calls", maxSeeds2, alpha2)}
	for _, rm := range []int{0, 1} {
		// F1: NewClient
		for n := 1; n <= 3; n++ {
			for _, p := range perms(n) {
				for _, w := range words(alpha, n) {
					cases = append(cases, clirig.ReachCase{Seeds: p, Known: 1, RM: rm, New: w})
					fam["new"]++
				}
			}
		}
		// F2: one RefreshMetadata after a healthy NewClient
		for n := 1; n <= 3; n++ {
			for known := 0; known <= 2; known++ {
				for _, alias := range []bool{false, true} {
					if alias && known == 0 {
						continue
					}
					for _, p := range perms(n) {
						for _, pk := range picks(known) {
							for _, w := range words(alpha, n+known) {
								if alias && w[n] != alpha[0] {
									continue // broker 1 shares seed 1's address: its own entry is unused, enumerate it once
								}
								cases = append(cases, clirig.ReachCase{Seeds: p, Known: known, Alias: alias, RM: rm, New: strings.Repeat("A", n), Refresh: []string{w}, Pick: pk})
								fam["refresh"]++
							}
						}
					}
				}
			}
		}
		// F4: two CONCURRENT RefreshMetadata calls after a healthy NewClient (both pick the same first candidate; its
		// failure is handled twice), followed by a single call under the same behaviours (what did the concurrent phase
		// leave behind?) and a last one after the cluster has healed (every address answers: it must succeed)
		for n := 2; n <= 3; n++ {
			for known := 0; known <= 1; known++ {
				for _, p := range perms(n) {
					for _, w := range words(alpha, n+known) {
						cases = append(cases, clirig.ReachCase{Seeds: p, Known: known, RM: rm, New: strings.Repeat("A", n), Refresh: []string{w, w, strings.Repeat("A", n+known)}, Pick: picks(known)[0], Conc: 2})
						fam["refresh-concurrent"]++
					}
				}
			}
		}
		// F3: two successive RefreshMetadata calls with independent behaviours (dead-seed bookkeeping carries over)
		for n := 1; n <= maxSeeds2; n++ {
			al := alpha2
			if n == 3 {
				al = "RA" // 3 seeds: refuse/answer only (the product with a third behaviour exceeds the budget)
			}
			for known := 0; known <= 2; known++ {
				for _, p := range perms(n) {
					for _, pk := range picks(known) {
						for _, w1 := range words(al, n+known) {
							for _, w2 := range words(al, n+known) {
								cases = append(cases, clirig.ReachCase{Seeds: p, Known: known, RM: rm, New: strings.Repeat("A", n), Refresh: []string{w1, w2}, Pick: pk})
								fam["refresh-twice"]++
							}
						}
					}
				}
			}
		}
	}
	return
}

func reachLayer(c *ev.Check, r *runner, a *agg, thorough bool, end time.Time) bool {
	t0 := time.Now()
	cases, fam, bounds := reachCases(thorough)
	tasks := make([]Task, len(cases))
	for i := range cases {
		tasks[i] = Task{ID: i, Reach: &cases[i]}
	}
	res, ok, died := r.run(tasks, end)
	reportDied(a, "reachability", tasks, died)
	outcomes := map[string]int{}
	orders := map[string]bool{}
	stats := map[string]int{}
	n := 0
	var sample []interface{}
	for i, x := range res {
		if x == nil || x.Reach == nil {
			continue
		}
		n++
		rr := x.Reach
		if rr.EngineErr != "" {
			c.EngineError(fmt.Sprintf("reach case %s: %s", cases[i], rr.EngineErr))
			continue
		}
		outcomes[rr.Outcome]++
		if len(cases[i].Refresh) == 0 && strings.Count(rr.SeedOrder, ",") == len(cases[i].Seeds)-1 {
			// every seed was dialled (none answered before): the complete order the client tried
			orders[fmt.Sprintf("%d:%s", len(cases[i].Seeds), rr.SeedOrder)] = true
		}
		for k, v := range rr.Stats {
			stats[k] += v
		}
		for _, v := range rr.Viol {
			a.add("reachability", "reach/"+v.Sig, fmt.Sprintf("case %s: %s", cases[i], v.Msg), &tasks[i], len(cases[i].Seeds)*10+cases[i].Known*3+len(cases[i].Refresh)*40+cases[i].RM)
		}
		if len(sample) < 3 && i%1013 == 7 {
			sample = append(sample, map[string]interface{}{"reach_case": cases[i], "outcome": rr.Outcome, "seed_order_tried": rr.SeedOrder})
		}
	}
	reachExecs = n
	var ol []string
	for o := range orders {
		ol = append(ol, o)
	}
	sort.Strings(ol)
	info := map[string]interface{}{"cases": len(cases), "executed": n, "per_family": fam, "bounds": bounds, "outcomes": outcomes, "distinct_outcomes": len(outcomes),
		"complete_seed_orders_actually_tried": ol, "open_points_hit": stats, "wall_s": time.Since(t0).Seconds()}
	if ok && n == len(cases) && len(ol) != 9 {
		// 1! + 2! + 3! orders must have been tried by the client (the shuffle is fixed inside a bubble, the input list is permuted)
		info["seed_order_coverage"] = fmt.Sprintf("INCOMPLETE: %d of 9 orders observed", len(ol))
		ok = false
	}
	if !ok || n < len(cases) {
		info["cut_by_internal_deadline"] = fmt.Sprintf("%d of %d cases executed", n, len(cases))
		ok = false
	}
	c.Set("reachability", info)
	reachSamples = sample
	fmt.Printf("  reachability: %d/%d cases (%v), %d distinct outcomes, %d seed orders seen, %.1fs\n", n, len(cases), fam, len(outcomes), len(ol), time.Since(t0).Seconds())
	return ok
}
