package c15

// ATOMICITY layer: the GX scenarios (rig "cli") and their exploration.

import (
	"fmt"
	"testing"
	"time"

	"verif/engine/ev"
	"verif/engine/gx"
)

type atomStats struct{ states, transitions, execs int }

func atomicScenarios(thorough bool) []string {
	// (from → to, what the refresher refreshes); the change always touches topic t
	changes := []struct {
		from, to int
		ref      string
	}{
		{1, 2, "all"}, // t: 3 partitions → 1, leader moved
		{1, 2, "t"},
		{0, 7, "all"},  // broker 2 removed, leaders move to broker 1
		{0, 10, "all"}, // broker 1 re-addressed
		{0, 4, "t"},    // t/0 becomes leaderless
		{0, 12, "all"}, // t vanishes
	}
	if thorough {
		changes = append(changes, []struct {
			from, to int
			ref      string
		}{{0, 6, "t"}, {0, 9, "all"}, {0, 15, "all"}, {12, 0, "all"}, {5, 0, "t"}, {0, 8, "all"}}...)
	}
	readers := []string{
		"burst:t",
		"Partitions:t~Leader:t:0",
		"Leader:t:0~Partitions:t",
		"WritablePartitions:t/Leader:t:2",
		"burst:t/burst:t",
		"Partitions:t~WritablePartitions:t~Leader:t:1/Brokers~Controller",
	}
	var l []string
	for _, ch := range changes {
		for _, rd := range readers {
			l = append(l, fmt.Sprintf("cli?from=%d&to=%d&ref=%s&readers=%s", ch.from, ch.to, ch.ref, rd))
		}
	}
	return l
}

type atomSc struct {
	name  string
	bound int
}

func lockScenarios(thorough bool) []atomSc {
	// lock granularity: every acquisition of client.lock by a reader or the refresher is a gate;
	// default = run each call to completion, a deviation = a preemption at a lock acquisition
	changes := []struct {
		from, to int
		ref      string
	}{{1, 2, "t"}, {1, 2, "all"}, {0, 7, "all"}}
	if thorough {
		changes = append(changes, []struct {
			from, to int
			ref      string
		}{{0, 10, "all"}, {0, 4, "t"}, {0, 12, "all"}, {0, 6, "t"}}...)
	}
	readers := []string{
		"Leader:t:0~Partitions:t",
		"Partitions:t~Leader:t:0",
		"WritablePartitions:t~Leader:t:0~Partitions:t",
		"Leader:t:0~WritablePartitions:t/Partitions:t",
		"Brokers~Leader:t:1~Brokers",
		"Leader:t:1~Leader:t:0", // t/1 is the partition whose leader is the broker that goes away / moves
	}
	b := 2
	if thorough {
		b = 3
		readers = append(readers, "burst:t")
	}
	var l []atomSc
	for _, ch := range changes {
		for _, rd := range readers {
			l = append(l, atomSc{fmt.Sprintf("cli?locks=1&from=%d&to=%d&ref=%s&readers=%s", ch.from, ch.to, ch.ref, rd), b})
		}
	}
	// two (thorough: also three) RefreshMetadata calls at the same time while every address fails, interleaved at lock
	// acquisitions; then the seed heals and a last call must succeed (rig cli2, clirig/dead2.go)
	for _, bh := range []string{"D", "R", "DD", "DA", "AD", "RA", "DR"} {
		l = append(l, atomSc{"cli2?locks=1&beh=" + bh + "&n=2", b + 1})
		if len(bh) == 2 {
			l = append(l, atomSc{"cli2?locks=1&seeds=21&beh=" + bh + "&n=2", b + 1})
		}
	}
	if thorough {
		l = append(l, atomSc{"cli2?locks=1&beh=D&n=3", b}, atomSc{"cli2?locks=1&beh=DA&n=3", b}, atomSc{"cli2?locks=1&beh=DDA&n=2", b})
	}
	return l
}

func atomicLayer(t *testing.T, c *ev.Check, thorough bool, end time.Time) (atomStats, bool) {
	t0 := time.Now()
	e := gx.NewExplorer(c)
	defer e.Close()
	e.Accept = func(v ev.Violation) bool { return v.Property == "C15" }
	bound := 4
	if thorough {
		bound = 6
	}
	var scs []atomSc
	for _, s := range atomicScenarios(thorough) {
		scs = append(scs, atomSc{s, bound})
	}
	lsc := lockScenarios(thorough)
	scs = append(scs, lsc...)
	all := true
	var cut []string
	e.Deadline = end
	var keep []interface{}
	for i, s := range scs {
		if i == len(scs)-len(lsc) || i == 1 {
			// the evidence keeps a few samples only: make room for one of the next group
			if l, ok := c.Coverage["samples"].([]interface{}); ok && len(l) > 0 {
				keep = append(keep, l[len(l)-1])
			}
			delete(c.Coverage, "samples")
		}
		done, ok := e.Explore(s.name, s.bound)
		if !ok {
			all = false
			cut = append(cut, fmt.Sprintf("%s: completed bound %d of %d", s.name, done, s.bound))
		}
	}
	if l, ok := c.Coverage["samples"].([]interface{}); ok && len(l) > 0 {
		keep = append(keep, l[len(l)-1])
	}
	c.Coverage["samples"] = keep
	e.Summarize(all)
	st := atomStats{execs: e.Execs, transitions: e.PointsN}
	if v, ok := c.Coverage["states"].(int); ok {
		st.states = v
	}
	// move the explorer's generic keys under "atomicity" (the top-level keys describe the whole check)
	info := map[string]interface{}{"scenarios_at_quiescent_points": len(scs) - len(lsc), "deviation_bound": bound, "scenarios_at_lock_granularity": len(lsc), "preemption_bound_lock_granularity": lsc[0].bound, "wall_s": time.Since(t0).Seconds(),
		"bound_rule": "deviation = choosing a non-first enabled actor (sticky postponement); quiescent-point scenarios: default order switch, refresh, reader steps, answers; lock-granularity scenarios (locks=1): every acquisition of client.lock by a reader or the refresher is a gate, default = the running call continues (run to completion), a deviation = a preemption at a lock acquisition or another reordering; all executions with ≤ B deviations"}
	for _, k := range []string{"states", "transitions", "executions", "replayed_twice_for_determinism", "distinct_terminal_observations", "leaked_runs_info", "max_enabled", "exhaustive", "scenarios", "exercised", "observation_samples", "gate_site_hits", "traces_validated_against_impl"} {
		if v, ok := c.Coverage[k]; ok {
			if k == "scenarios" {
				info["per_scenario"] = v
			} else {
				info[k] = v
			}
			delete(c.Coverage, k)
		}
	}
	if len(cut) > 0 {
		info["cut_by_internal_deadline"] = cut
	}
	c.Set("atomicity", info)
	fmt.Printf("  atomicity: %d scenarios (%d at lock granularity), %d executions, exhaustive=%v, %.1fs\n", len(scs), len(lsc), e.Execs, all, time.Since(t0).Seconds())
	return st, all
}
