package c15

// Sharded case runner: the parent writes task files, re-executes the test binary as worker
// processes (one bubble at a time per process – sarama.VerifPickFn and PanicHandler are globals),
// reads their result files. A worker that dies or hangs is attributed to the case it was running.

import (
	"bufio"
	"crypto/sha1"
	"encoding/hex"
	"encoding/json"
	"fmt"
	"os"
	"os/exec"
	"path/filepath"
	"runtime"
	"strconv"
	"sync"
	"sync/atomic"
	"testing"
	"time"

	"verif/engine/ev"
	"verif/engine/rigs/clirig"
)

type Task struct {
	ID      int               `json:"id"`
	Hist    *clirig.HistCase  `json:"hist,omitempty"`
	Reach   *clirig.ReachCase `json:"reach,omitempty"`
	WantKey bool              `json:"want_key,omitempty"`
}

type Result struct {
	ID      int                 `json:"id"`
	KeyHash string              `json:"kh,omitempty"`
	Hist    *clirig.HistResult  `json:"hist,omitempty"`
	Reach   *clirig.ReachResult `json:"reach,omitempty"`
	Hang    bool                `json:"hang,omitempty"`
	Cut     bool                `json:"cut,omitempty"`
}

func keyHash(k string) string {
	h := sha1.Sum([]byte(k))
	return hex.EncodeToString(h[:12])
}

func runTask(t *testing.T, tk *Task, keepTrace bool) *Result {
	r := &Result{ID: tk.ID}
	switch {
	case tk.Hist != nil:
		hr := clirig.RunHistory(t, tk.Hist)
		r.KeyHash = keyHash(hr.Key)
		if !tk.WantKey {
			hr.Key = ""
		}
		if !keepTrace && len(hr.Viol) == 0 {
			hr.Trace = nil
		}
		r.Hist = hr
	case tk.Reach != nil:
		rr := clirig.RunReach(t, tk.Reach)
		if !keepTrace && len(rr.Viol) == 0 {
			rr.Trace = nil
		}
		r.Reach = rr
	}
	return r
}

// workerMain: VERIF_C15_TASKS names the task file (JSON lines), VERIF_C15_OUT the result file.
func workerMain(t *testing.T) {
	in, err := os.Open(os.Getenv("VERIF_C15_TASKS"))
	if err != nil {
		fmt.Println("worker:", err)
		exitCode = 3
		return
	}
	defer in.Close()
	out, err := os.Create(os.Getenv("VERIF_C15_OUT"))
	if err != nil {
		fmt.Println("worker:", err)
		exitCode = 3
		return
	}
	w := bufio.NewWriterSize(out, 1<<16)
	dl, _ := strconv.ParseInt(os.Getenv("VERIF_C15_DEADLINE"), 10, 64)
	var cur atomic.Int64
	var curStart atomic.Int64
	cur.Store(-1)
	var wmu sync.Mutex
	go func() { // real-time watchdog outside every bubble: a case that needs 60 s of wall time hangs
		for {
			time.Sleep(2 * time.Second)
			id, st := cur.Load(), curStart.Load()
			if id >= 0 && st > 0 && time.Now().UnixNano()-st > int64(60*time.Second) {
				wmu.Lock()
				b, _ := json.Marshal(Result{ID: int(id), Hang: true})
				w.Write(append(b, '\n'))
				w.Flush()
				os.Exit(7)
			}
		}
	}()
	sc := bufio.NewScanner(in)
	sc.Buffer(make([]byte, 1<<20), 1<<24)
	n := 0
	for sc.Scan() {
		var tk Task
		if err := json.Unmarshal(sc.Bytes(), &tk); err != nil {
			fmt.Println("worker: bad task:", err)
			exitCode = 3
			return
		}
		if dl > 0 && n%16 == 0 && time.Now().UnixMilli() > dl {
			wmu.Lock()
			b, _ := json.Marshal(Result{ID: -1, Cut: true})
			w.Write(append(b, '\n'))
			wmu.Unlock()
			break
		}
		n++
		curStart.Store(time.Now().UnixNano())
		cur.Store(int64(tk.ID))
		r := runTask(t, &tk, false)
		cur.Store(-1)
		b, _ := json.Marshal(r)
		wmu.Lock()
		w.Write(append(b, '\n'))
		if n%64 == 0 {
			w.Flush()
		}
		wmu.Unlock()
	}
	wmu.Lock()
	w.Flush()
	wmu.Unlock()
	out.Close()
	exitCode = 0
}

type runner struct {
	c      *ev.Check
	dir    string
	nproc  int
	seq    int
	mu     sync.Mutex
	Execs  int
	Leaked int
}

func newRunner(c *ev.Check) *runner {
	n := runtime.NumCPU()
	if n > 16 {
		n = 16
	}
	if v, err := strconv.Atoi(os.Getenv("VERIF_C15_PROCS")); err == nil && v > 0 {
		n = v
	}
	dir := filepath.Join(ev.Root(), ".build", "c15", fmt.Sprintf("run-%d", os.Getpid()))
	_ = os.MkdirAll(dir, 0o755)
	return &runner{c: c, dir: dir, nproc: n}
}

func (r *runner) cleanup() { _ = os.RemoveAll(r.dir) }

// run executes the tasks (IDs must be their indexes) and returns the results by index; nil entries
// were not executed (deadline). died lists tasks that killed or hung their worker.
func (r *runner) run(tasks []Task, deadline time.Time) (res []*Result, complete bool, died []int) {
	res = make([]*Result, len(tasks))
	if len(tasks) == 0 {
		return res, true, nil
	}
	nsh := r.nproc
	if len(tasks) < 8*nsh {
		nsh = (len(tasks) + 7) / 8
	}
	shards := make([][]int, nsh)
	// visiting order rotated by VERIF_SEED (never selects a subset)
	rot := 0
	if s := ev.Seed(); s != 0 {
		rot = ((s*7919)%len(tasks) + len(tasks)) % len(tasks)
	}
	for k := range tasks {
		i := (k + rot) % len(tasks)
		shards[k%nsh] = append(shards[k%nsh], i)
	}
	complete = true
	var wg sync.WaitGroup
	var mu sync.Mutex
	for _, sh := range shards {
		sh := sh
		wg.Add(1)
		go func() {
			defer wg.Done()
			todo := sh
			for len(todo) > 0 {
				if time.Now().After(deadline) {
					mu.Lock()
					complete = false
					mu.Unlock()
					return
				}
				r.mu.Lock()
				r.seq++
				base := filepath.Join(r.dir, fmt.Sprintf("w%d", r.seq))
				r.mu.Unlock()
				f, err := os.Create(base + ".tasks")
				if err != nil {
					r.c.EngineError(err.Error())
					return
				}
				bw := bufio.NewWriter(f)
				for _, i := range todo {
					b, _ := json.Marshal(tasks[i])
					bw.Write(append(b, '\n'))
				}
				bw.Flush()
				f.Close()
				cmd := exec.Command(os.Args[0], "-test.run", "^TestCheck$", "-test.timeout", "0")
				cmd.Env = append(os.Environ(), "VERIF_C15_TASKS="+base+".tasks", "VERIF_C15_OUT="+base+".out",
					fmt.Sprintf("VERIF_C15_DEADLINE=%d", deadline.UnixMilli()), "GOMAXPROCS=2")
				outb, werr := cmd.CombinedOutput()
				got := map[int]bool{}
				hang := -1
				cut := false
				if rf, err := os.Open(base + ".out"); err == nil {
					sc := bufio.NewScanner(rf)
					sc.Buffer(make([]byte, 1<<20), 1<<26)
					for sc.Scan() {
						var x Result
						if json.Unmarshal(sc.Bytes(), &x) != nil {
							continue
						}
						switch {
						case x.Cut:
							cut = true
						case x.Hang:
							hang = x.ID
						default:
							xx := x
							mu.Lock()
							res[x.ID] = &xx
							mu.Unlock()
							got[x.ID] = true
						}
					}
					rf.Close()
				}
				os.Remove(base + ".tasks")
				os.Remove(base + ".out")
				var rest []int
				for _, i := range todo {
					if !got[i] {
						rest = append(rest, i)
					}
				}
				if cut {
					mu.Lock()
					complete = false
					mu.Unlock()
					return
				}
				if len(rest) == 0 {
					return
				}
				if werr == nil && hang < 0 {
					r.c.EngineError(fmt.Sprintf("worker ended without results for %d tasks: %s", len(rest), tailStr(string(outb), 800)))
					return
				}
				// the worker died: the first task without result is the culprit (tasks run in order)
				culprit := rest[0]
				if hang >= 0 {
					culprit = hang
				}
				mu.Lock()
				died = append(died, culprit)
				mu.Unlock()
				fmt.Printf("  worker died (%v) on task %d: %s\n", werr, culprit, tailStr(string(outb), 1500))
				var next []int
				for _, i := range rest {
					if i != culprit {
						next = append(next, i)
					}
				}
				todo = next
			}
		}()
	}
	wg.Wait()
	n := 0
	for _, x := range res {
		if x != nil {
			n++
			if (x.Hist != nil && x.Hist.Leaked) || (x.Reach != nil && x.Reach.Leaked) {
				r.Leaked++
			}
		}
	}
	r.Execs += n
	return res, complete, died
}

func tailStr(s string, n int) string {
	if len(s) > n {
		return "…" + s[len(s)-n:]
	}
	return s
}
