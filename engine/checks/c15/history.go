package c15

// HISTORY layer: explicit-state BFS. A state is represented by the shortest event history that
// reaches it (real objects do not clone); its canonical key is the bridge dump of the client's
// caches; successors are computed by re-executing history+event in a fresh bubble. Every execution
// ends with the comparison of ALL read APIs against the reference fold, so every transition of the
// graph is judged. The unpruned search (all histories up to a smaller depth) must reach exactly the
// same keys at those depths.

import (
	"fmt"
	"sort"
	"time"

	"verif/engine/ev"
	"verif/engine/rigs/clirig"
)

type histStats struct {
	states, transitions          int
	bfsExecs, dfsExecs, varExecs int
}

func alphabet(snaps []int) []clirig.Event {
	var l []clirig.Event
	ops := append(append([]string{}, clirig.RefreshOps...), clirig.ReadOps...)
	for _, s := range snaps {
		for _, op := range ops {
			l = append(l, clirig.Event{Op: op, Snap: s})
		}
	}
	return l
}

func allSnaps() []int {
	l := make([]int, len(clirig.Snaps))
	for i := range l {
		l[i] = i
	}
	return l
}

type bfsState struct {
	hist  []clirig.Event
	depth int
}

type bfsOut struct {
	keys        map[string]int // key hash → depth first reached
	transitions int
	execs       int
	completed   int // deepest level whose transitions were all executed
	sigs        map[string]bool
	obsHashes   map[uint64]bool
	misses      int
	calls       int
	served      int
	perLevel    []int
	samples     []interface{}
	missByOp    map[string]int
}

func extend(h []clirig.Event, e clirig.Event) []clirig.Event {
	return append(append(make([]clirig.Event, 0, len(h)+1), h...), e)
}

// consume folds the results of one batch into out and the aggregator.
func (o *bfsOut) consume(a *agg, layer string, tasks []Task, res []*Result, c *ev.Check) {
	for i, x := range res {
		if x == nil || x.Hist == nil {
			continue
		}
		o.execs++
		hr := x.Hist
		if hr.EngineErr != "" {
			c.EngineError(fmt.Sprintf("history %s: %s", tasks[i].Hist, hr.EngineErr))
			continue
		}
		o.calls += hr.Calls
		o.misses += hr.Misses
		o.served += hr.Served
		o.obsHashes[hr.ObsHash] = true
		for k, n := range hr.Stats {
			o.missByOp[k] += n
		}
		for _, v := range hr.Viol {
			o.sigs[v.Sig] = true
			a.add(layer, "hist/"+v.Sig, fmt.Sprintf("history %s: %s", tasks[i].Hist, v.Msg), &tasks[i], len(tasks[i].Hist.Events))
		}
	}
}

func newBfsOut() *bfsOut {
	return &bfsOut{keys: map[string]int{}, sigs: map[string]bool{}, obsHashes: map[uint64]bool{}, missByOp: map[string]int{}}
}

// bfs explores to the given depth with a visited set on the canonical key.
func bfs(c *ev.Check, r *runner, a *agg, layer string, events []clirig.Event, depth, rm int, part bool, end time.Time) *bfsOut {
	out := newBfsOut()
	mk := func(h []clirig.Event) *clirig.HistCase { return &clirig.HistCase{Events: h, RM: rm, Part: part} }
	// depth 0: the state after NewClient
	t0 := []Task{{ID: 0, Hist: mk(nil), WantKey: true}}
	res, ok, died := r.run(t0, end)
	reportDied(a, layer, t0, died)
	if !ok || res[0] == nil {
		out.completed = -1
		return out
	}
	out.consume(a, layer, t0, res, c)
	out.keys[res[0].KeyHash] = 0
	out.samples = append(out.samples, map[string]interface{}{"history": []string{}, "state_key": res[0].Hist.Key})
	out.perLevel = []int{1}
	frontier := []bfsState{{nil, 0}}
	for d := 1; d <= depth; d++ {
		var tasks []Task
		for _, st := range frontier {
			for _, e := range events {
				tasks = append(tasks, Task{ID: len(tasks), Hist: mk(extend(st.hist, e)), WantKey: len(out.samples) < 4 && len(tasks)%97 == 5})
			}
		}
		res, ok, died := r.run(tasks, end)
		reportDied(a, layer, tasks, died)
		out.consume(a, layer, tasks, res, c)
		var next []bfsState
		for i, x := range res {
			if x == nil || x.Hist == nil {
				continue
			}
			out.transitions++
			if x.Hist.Key != "" && len(out.samples) < 4 {
				out.samples = append(out.samples, map[string]interface{}{"history": fmt.Sprint(tasks[i].Hist.Events), "state_key": x.Hist.Key})
			}
			if _, seen := out.keys[x.KeyHash]; !seen {
				out.keys[x.KeyHash] = d
				next = append(next, bfsState{tasks[i].Hist.Events, d})
			}
		}
		if !ok {
			return out
		}
		out.completed = d
		out.perLevel = append(out.perLevel, len(next))
		frontier = next
		if len(frontier) == 0 {
			break
		}
	}
	return out
}

// unpruned executes ALL histories of length ≤ depth (no visited set).
func unpruned(c *ev.Check, r *runner, a *agg, layer string, events []clirig.Event, depth, rm int, part bool, end time.Time) (*bfsOut, bool) {
	out := newBfsOut()
	var tasks []Task
	var gen func(h []clirig.Event)
	gen = func(h []clirig.Event) {
		tasks = append(tasks, Task{ID: len(tasks), Hist: &clirig.HistCase{Events: h, RM: rm, Part: part}})
		if len(h) == depth {
			return
		}
		for _, e := range events {
			gen(extend(h, e))
		}
	}
	gen(nil)
	res, ok, died := r.run(tasks, end)
	reportDied(a, layer, tasks, died)
	out.consume(a, layer, tasks, res, c)
	for i, x := range res {
		if x == nil || x.Hist == nil {
			continue
		}
		d := len(tasks[i].Hist.Events)
		if old, seen := out.keys[x.KeyHash]; !seen || d < old {
			out.keys[x.KeyHash] = d
		}
	}
	return out, ok
}

func reportDied(a *agg, layer string, tasks []Task, died []int) {
	for _, i := range died {
		tk := tasks[i]
		what := ""
		if tk.Hist != nil {
			what = tk.Hist.String()
		} else if tk.Reach != nil {
			what = tk.Reach.String()
		}
		a.add(layer, layer+"/worker-died-or-hung", "the process executing this case died or made no progress for 60 s of wall time: "+what, &tk, 0)
	}
}

// diff compares the key sets (restricted to depth ≤ d) of the pruned and the unpruned search.
func diffKeys(b, u *bfsOut, d int) (onlyB, onlyU int) {
	for k, kd := range b.keys {
		if kd <= d {
			if _, ok := u.keys[k]; !ok {
				onlyB++
			}
		}
	}
	for k := range u.keys {
		if kd, ok := b.keys[k]; !ok || kd > d {
			onlyU++
		}
	}
	return
}

func sortedKeys(m map[string]bool) []string {
	var l []string
	for k := range m {
		l = append(l, k)
	}
	sort.Strings(l)
	return l
}

func historyLayer(c *ev.Check, r *runner, a *agg, thorough bool, end time.Time) (histStats, bool) {
	var hs histStats
	ok := true
	depth, udepth := 3, 2
	if thorough {
		depth = 4
	}
	t0 := time.Now()
	events := alphabet(allSnaps())
	info := map[string]interface{}{"events": len(events), "event_ops": append(append([]string{}, clirig.RefreshOps...), clirig.ReadOps...), "snapshots": len(clirig.Snaps), "depth_bound": depth}
	var names []string
	for _, s := range clirig.Snaps {
		names = append(names, s.Name)
	}
	info["snapshot_names"] = names

	// the differential pass first (it is the smaller one and validates the canonicalisation the BFS relies on)
	budget := time.Until(end)
	u, uok := unpruned(c, r, a, "history-unpruned", events, udepth, 0, false, time.Now().Add(budget*30/100))
	hs.dfsExecs += u.execs
	info["unpruned_depth"] = udepth
	info["unpruned_executions"] = u.execs
	info["unpruned_distinct_keys"] = len(u.keys)
	info["unpruned_wall_s"] = time.Since(t0).Seconds()
	t1 := time.Now()

	// variants (shallower): Retry.Max=1 and Metadata.Full=false
	vdepth := depth - 1
	if !thorough {
		vdepth = 2
	}
	vEnd := time.Now().Add(time.Until(end) * 25 / 100)
	var variants []map[string]interface{}
	for _, v := range []struct {
		rm   int
		part bool
	}{{1, false}, {0, true}} {
		tv := time.Now()
		b := bfs(c, r, a, "history", events, vdepth, v.rm, v.part, vEnd)
		hs.varExecs += b.execs
		hs.states += len(b.keys)
		hs.transitions += b.transitions
		if b.completed < vdepth {
			ok = false
		}
		variants = append(variants, map[string]interface{}{"retry_max": v.rm, "metadata_full": !v.part, "depth_bound": vdepth, "completed_depth": b.completed, "states": len(b.keys),
			"transitions": b.transitions, "new_states_per_level": b.perLevel, "read_calls_judged": b.calls, "reads_that_refreshed": b.misses, "responses_served": b.served, "wall_s": time.Since(tv).Seconds()})
	}
	info["variants"] = variants
	t2 := time.Now()

	b := bfs(c, r, a, "history", events, depth, 0, false, end)
	hs.bfsExecs = b.execs
	hs.states += len(b.keys)
	hs.transitions += b.transitions
	if b.completed < depth {
		ok = false
		info["cut_by_internal_deadline"] = fmt.Sprintf("BFS completed depth %d of %d (%d transitions executed)", b.completed, depth, b.transitions)
	}
	info["bfs_completed_depth"] = b.completed
	info["bfs_states"] = len(b.keys)
	info["bfs_transitions"] = b.transitions
	info["bfs_new_states_per_level"] = b.perLevel
	info["bfs_wall_s"] = time.Since(t2).Seconds()
	info["read_calls_judged"] = b.calls + u.calls
	info["reads_that_refreshed_on_a_miss"] = b.misses + u.misses
	info["reads_that_refreshed_by_api"] = b.missByOp
	info["responses_served_and_folded"] = b.served + u.served
	info["distinct_observation_vectors"] = len(b.obsHashes)

	// differential check of the canonicalisation
	if uok && b.completed >= udepth {
		onlyB, onlyU := diffKeys(b, u, udepth)
		info["differential"] = fmt.Sprintf("keys reachable within depth %d: pruned BFS %d, unpruned search %d, only-pruned %d, only-unpruned %d; verdict signatures pruned %v unpruned %v",
			udepth, len(u.keys)-onlyU+onlyB, len(u.keys), onlyB, onlyU, sortedKeys(b.sigs), sortedKeys(u.sigs))
		if onlyB != 0 || onlyU != 0 {
			c.EngineError(fmt.Sprintf("canonicalisation differential failed: %d keys only in the pruned BFS, %d only in the unpruned search (depth ≤ %d)", onlyB, onlyU, udepth))
		}
		for s := range u.sigs {
			if !b.sigs[s] {
				c.EngineError("canonicalisation differential failed: verdict " + s + " seen only by the unpruned search")
			}
		}
	} else {
		ok = false
		info["differential"] = "not completed (internal deadline)"
	}
	for _, s := range b.samples {
		c.AddSample(s)
	}
	c.Set("history", info)
	fmt.Printf("  history: unpruned depth %d: %d execs, %d keys (%.1fs); variants %.1fs; BFS depth %d/%d: %d states, %d transitions, levels %v (%.1fs)\n",
		udepth, u.execs, len(u.keys), t1.Sub(t0).Seconds(), t2.Sub(t1).Seconds(), b.completed, depth, len(b.keys), b.transitions, b.perLevel, time.Since(t2).Seconds())
	return hs, ok
}
