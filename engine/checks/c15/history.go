package c15

// HISTORY layer: explicit-state BFS. A state is represented by the shortest event history that
// reaches it (real objects do not clone); its canonical key is the bridge dump of the client's
// caches; successors are computed by re-executing history+event in a fresh bubble. Every execution
// ends with the comparison of ALL read APIs against the reference fold, so every transition of the
// graph is judged. The unpruned search (all histories up to a smaller depth) must reach exactly the
// same keys at those depths.

import (
	"fmt"
	"os"
	"sort"
	"strconv"
	"strings"
	"time"

	"verif/engine/ev"
	"verif/engine/rigs/clirig"
)

var histSamples []interface{}

type histStats struct {
	states, transitions          int
	bfsExecs, dfsExecs, varExecs int
}

func opsOf(thorough bool) []string {
	ops := append(append(append([]string{}, clirig.RefreshOps...), clirig.ReadOps...), clirig.OtherOps...)
	if thorough {
		ops = append(ops, clirig.MoreReadOps...)
	}
	return ops
}

func alphabet(ops []string, snaps []int) []clirig.Event {
	var l []clirig.Event
	for _, s := range snaps {
		for _, op := range ops {
			if strings.HasPrefix(op, "Use:") && s != snaps[0] {
				continue // using a broker is not a conversation with the cluster: once, in the first snapshot of the list
			}
			l = append(l, clirig.Event{Op: op, Snap: s})
		}
	}
	return l
}

func allSnaps(thorough bool) []int {
	n := clirig.QuickSnaps
	if thorough {
		n = len(clirig.Snaps)
	}
	l := make([]int, n)
	for i := range l {
		l[i] = i
	}
	return l
}

type bfsState struct {
	hist  []clirig.Event
	depth int
}

type bfsOut struct {
	keys        map[string]int // key hash → depth first reached
	transitions int
	execs       int
	completed   int // deepest level whose transitions were all executed
	sigs        map[string]bool
	obsHashes   map[uint64]bool
	misses      int
	calls       int
	served      int
	perLevel    []int
	samples     []interface{}
	missByOp    map[string]int
	fixpoint    int // >0: level at which no new state appeared
}

func extend(h []clirig.Event, e clirig.Event) []clirig.Event {
	return append(append(make([]clirig.Event, 0, len(h)+1), h...), e)
}

// consume folds the results of one batch into out and the aggregator.
func (o *bfsOut) consume(a *agg, layer string, tasks []Task, res []*Result, c *ev.Check) {
	for i, x := range res {
		if x == nil || x.Hist == nil {
			continue
		}
		o.execs++
		hr := x.Hist
		if hr.EngineErr != "" {
			c.EngineError(fmt.Sprintf("history %s: %s", tasks[i].Hist, hr.EngineErr))
			continue
		}
		o.calls += hr.Calls
		o.misses += hr.Misses
		o.served += hr.Served
		o.obsHashes[hr.ObsHash] = true
		for k, n := range hr.Stats {
			o.missByOp[k] += n
		}
		for _, v := range hr.Viol {
			o.sigs[v.Sig] = true
			a.add(layer, "hist/"+v.Sig, fmt.Sprintf("history %s: %s", tasks[i].Hist, v.Msg), &tasks[i], len(tasks[i].Hist.Events))
		}
	}
}

func newBfsOut() *bfsOut {
	return &bfsOut{keys: map[string]int{}, sigs: map[string]bool{}, obsHashes: map[uint64]bool{}, missByOp: map[string]int{}}
}

// bfs explores to the given depth with a visited set on the canonical key.
func bfs(c *ev.Check, r *runner, a *agg, layer string, events []clirig.Event, depth, rm int, part bool, end time.Time) *bfsOut {
	out := newBfsOut()
	mk := func(h []clirig.Event) *clirig.HistCase { return &clirig.HistCase{Events: h, RM: rm, Part: part} }
	// depth 0: the state after NewClient
	t0 := []Task{{ID: 0, Hist: mk(nil), WantKey: true}}
	res, ok, died := r.run(t0, end)
	reportDied(a, layer, t0, died)
	if !ok || res[0] == nil {
		out.completed = -1
		return out
	}
	out.consume(a, layer, t0, res, c)
	out.keys[res[0].KeyHash] = 0
	out.samples = append(out.samples, map[string]interface{}{"history": []string{}, "state_key": res[0].Hist.Key})
	out.perLevel = []int{1}
	frontier := []bfsState{{nil, 0}}
	for d := 1; d <= depth; d++ {
		var tasks []Task
		for _, st := range frontier {
			for _, e := range events {
				tasks = append(tasks, Task{ID: len(tasks), Hist: mk(extend(st.hist, e)), WantKey: len(tasks)%97 == 5 && len(tasks) < 2000})
			}
		}
		res, ok, died := r.run(tasks, end)
		reportDied(a, layer, tasks, died)
		out.consume(a, layer, tasks, res, c)
		var next []bfsState
		for i, x := range res {
			if x == nil || x.Hist == nil {
				continue
			}
			out.transitions++
			if x.Hist.Key != "" && len(out.samples) <= d && d <= 3 { // one sample per level
				out.samples = append(out.samples, map[string]interface{}{"history": fmt.Sprint(tasks[i].Hist.Events), "state_key_after_last_event": x.Hist.Key, "read_calls_judged": x.Hist.Calls, "reads_that_refreshed": x.Hist.Misses, "responses_served": x.Hist.Served})
			}
			if _, seen := out.keys[x.KeyHash]; !seen {
				out.keys[x.KeyHash] = d
				next = append(next, bfsState{tasks[i].Hist.Events, d})
			}
		}
		if !ok {
			return out
		}
		out.completed = d
		out.perLevel = append(out.perLevel, len(next))
		frontier = next
		if len(frontier) == 0 {
			// no new state: the reachable graph over this alphabet is closed; deeper levels add nothing
			out.fixpoint = d
			out.completed = depth
			break
		}
	}
	return out
}

// unpruned executes ALL histories of length ≤ depth (no visited set).
func unpruned(c *ev.Check, r *runner, a *agg, layer string, events []clirig.Event, depth, rm int, part bool, end time.Time) (*bfsOut, bool) {
	out := newBfsOut()
	var tasks []Task
	var gen func(h []clirig.Event)
	gen = func(h []clirig.Event) {
		tasks = append(tasks, Task{ID: len(tasks), Hist: &clirig.HistCase{Events: h, RM: rm, Part: part}})
		if len(h) == depth {
			return
		}
		for _, e := range events {
			gen(extend(h, e))
		}
	}
	gen(nil)
	res, ok, died := r.run(tasks, end)
	reportDied(a, layer, tasks, died)
	out.consume(a, layer, tasks, res, c)
	for i, x := range res {
		if x == nil || x.Hist == nil {
			continue
		}
		d := len(tasks[i].Hist.Events)
		if old, seen := out.keys[x.KeyHash]; !seen || d < old {
			out.keys[x.KeyHash] = d
		}
	}
	return out, ok
}

func reportDied(a *agg, layer string, tasks []Task, died []int) {
	for _, i := range died {
		tk := tasks[i]
		what := ""
		if tk.Hist != nil {
			what = tk.Hist.String()
		} else if tk.Reach != nil {
			what = tk.Reach.String()
		}
		a.add(layer, layer+"/worker-died-or-hung", "the process executing this case died or made no progress for 60 s of wall time: "+what, &tk, 0)
	}
}

// diff compares the key sets (restricted to depth ≤ d) of the pruned and the unpruned search.
func diffKeys(b, u *bfsOut, d int) (onlyB, onlyU int) {
	for k, kd := range b.keys {
		if kd <= d {
			if _, ok := u.keys[k]; !ok {
				onlyB++
			}
		}
	}
	for k := range u.keys {
		if kd, ok := b.keys[k]; !ok || kd > d {
			onlyU++
		}
	}
	return
}

func sortedKeys(m map[string]bool) []string {
	var l []string
	for k := range m {
		l = append(l, k)
	}
	sort.Strings(l)
	return l
}

// differential runs the unpruned search to udepth and compares its key set and verdicts with a pruned BFS.
func differential(c *ev.Check, r *runner, a *agg, name string, events []clirig.Event, b *bfsOut, udepth int, end time.Time) (map[string]interface{}, *bfsOut, bool) {
	t0 := time.Now()
	u, uok := unpruned(c, r, a, "history-unpruned", events, udepth, 0, false, end)
	info := map[string]interface{}{"alphabet": name, "events": len(events), "unpruned_depth": udepth, "unpruned_executions": u.execs, "unpruned_distinct_keys": len(u.keys), "wall_s": time.Since(t0).Seconds()}
	if !uok || (b.completed < udepth) {
		info["result"] = "not completed (internal deadline)"
		return info, u, false
	}
	onlyB, onlyU := diffKeys(b, u, udepth)
	nb := 0
	for _, d := range b.keys {
		if d <= udepth {
			nb++
		}
	}
	info["pruned_keys_within_depth"] = nb
	info["only_pruned"] = onlyB
	info["only_unpruned"] = onlyU
	info["verdict_signatures_pruned"] = sortedKeys(b.sigs)
	info["verdict_signatures_unpruned"] = sortedKeys(u.sigs)
	info["result"] = "same reachable key set, same verdicts"
	if onlyB != 0 || onlyU != 0 {
		info["result"] = "MISMATCH"
		c.EngineError(fmt.Sprintf("canonicalisation differential failed (%s): %d keys only in the pruned BFS, %d only in the unpruned search (depth ≤ %d)", name, onlyB, onlyU, udepth))
	}
	for s := range u.sigs {
		if !b.sigs[s] {
			// the pruned search merges states, so it may attribute a defect to fewer signatures only if
			// the key hides something: report it
			info["result"] = "VERDICT MISMATCH"
			c.EngineError("canonicalisation differential failed: verdict " + s + " seen only by the unpruned search")
		}
	}
	return info, u, true
}

func bfsInfo(b *bfsOut, depth int, wall time.Duration) map[string]interface{} {
	miss, open := map[string]int{}, map[string]int{}
	for k, n := range b.missByOp {
		if strings.HasPrefix(k, "open:") {
			open[k] = n
		} else {
			miss[k] = n
		}
	}
	m := map[string]interface{}{"depth_bound": depth, "open_points_hit": open, "completed_depth": b.completed, "states": len(b.keys), "transitions": b.transitions, "new_states_per_level": b.perLevel,
		"read_calls_judged": b.calls, "reads_that_refreshed_on_a_miss": b.misses, "reads_that_refreshed_by_api": miss, "responses_served_and_folded": b.served,
		"distinct_observation_vectors": len(b.obsHashes), "wall_s": wall.Seconds()}
	if b.fixpoint > 0 {
		m["fixpoint"] = fmt.Sprintf("level %d produced no new state: the reachable state graph over this alphabet is closed, histories of any length stay inside the visited set", b.fixpoint)
	}
	return m
}

func historyLayer(c *ev.Check, r *runner, a *agg, thorough bool, end time.Time) (histStats, bool) {
	var hs histStats
	ok := true
	depth := 4
	if thorough {
		depth = 8
	}
	if v, err := strconv.Atoi(os.Getenv("VERIF_C15_DEPTH")); err == nil && v > 0 {
		depth = v
	}
	ops := opsOf(thorough)
	events := alphabet(ops, allSnaps(thorough))
	info := map[string]interface{}{"events": len(events), "event_ops": ops, "snapshots": len(allSnaps(thorough)), "depth_bound": depth,
		"event_rule": "event = (operation, snapshot): the cluster switches to the snapshot, then the operation runs (R = RefreshMetadata(), R:x = RefreshMetadata(x), the others are read API calls that refresh by themselves on a miss); after the last event of an execution ALL read APIs for topics t,u × partitions 0..2 are compared with the reference fold"}
	var names []string
	for _, i := range allSnaps(thorough) {
		names = append(names, clirig.Snaps[i].Name)
	}
	info["snapshot_names"] = names
	total := time.Until(end)

	// main BFS (Retry.Max=0, Metadata.Full=true)
	t0 := time.Now()
	b := bfs(c, r, a, "history", events, depth, 0, false, time.Now().Add(total*45/100))
	hs.bfsExecs = b.execs
	hs.states += len(b.keys)
	hs.transitions += b.transitions
	info["bfs"] = bfsInfo(b, depth, time.Since(t0))
	if b.completed < depth {
		ok = false
		info["cut_by_internal_deadline"] = fmt.Sprintf("BFS completed depth %d of %d (%d transitions executed)", b.completed, depth, b.transitions)
	}
	fmt.Printf("  history: BFS depth %d/%d fixpoint@%d: %d states, %d transitions, levels %v (%.1fs)\n", b.completed, depth, b.fixpoint, len(b.keys), b.transitions, b.perLevel, time.Since(t0).Seconds())

	// differential check of the canonicalisation: unpruned search, all histories of length ≤ 2 over the full alphabet
	var diffs []map[string]interface{}
	d1, u, dok := differential(c, r, a, "full", events, b, 2, time.Now().Add(time.Until(end)*50/100))
	hs.dfsExecs += u.execs
	diffs = append(diffs, d1)
	ok = ok && dok
	fmt.Printf("  history: unpruned depth 2: %d execs, %d keys: %v (%.1fs)\n", u.execs, len(u.keys), d1["result"], d1["wall_s"])
	if thorough {
		// … and of length ≤ 3 over a sub-alphabet (all operations × 8 snapshots), against a BFS over the same sub-alphabet
		sub := alphabet(opsOf(false), []int{0, 2, 4, 6, 7, 10, 12, 14})
		tb := time.Now()
		sb := bfs(c, r, a, "history", sub, 3, 0, false, time.Now().Add(time.Until(end)*20/100))
		hs.varExecs += sb.execs
		d2, u2, dok2 := differential(c, r, a, "quick-tier operations × snapshots {0,2,4,6,7,10,12,14}", sub, sb, 3, time.Now().Add(time.Until(end)*60/100))
		d2["pruned_bfs"] = bfsInfo(sb, 3, time.Since(tb))
		hs.dfsExecs += u2.execs
		diffs = append(diffs, d2)
		ok = ok && dok2
		fmt.Printf("  history: unpruned depth 3 (sub-alphabet %d events): %d execs, %d keys: %v (%.1fs)\n", len(sub), u2.execs, len(u2.keys), d2["result"], d2["wall_s"])
	}
	info["differential_of_canonicalisation"] = diffs

	// variants: Retry.Max=1 (retries after LEADER_NOT_AVAILABLE / UNKNOWN_TOPIC are further folded responses) and Metadata.Full=false
	vdepth := depth
	if !thorough {
		vdepth = 2
	}
	var variants []map[string]interface{}
	useEvents := alphabet(append(append([]string{}, ops...), clirig.UseOps...), allSnaps(thorough))
	for i, v := range []struct {
		rm   int
		part bool
		use  bool
	}{{1, false, false}, {0, true, false}, {0, false, true}} {
		tv := time.Now()
		evs := events
		if v.use {
			evs = useEvents // ... plus "the application uses the broker it was handed" (connections opened by the application)
		}
		vb := bfs(c, r, a, "history", evs, vdepth, v.rm, v.part, time.Now().Add(time.Until(end)/time.Duration(3-i)))
		hs.varExecs += vb.execs
		hs.states += len(vb.keys)
		hs.transitions += vb.transitions
		if vb.completed < vdepth {
			ok = false
		}
		m := bfsInfo(vb, vdepth, time.Since(tv))
		m["retry_max"], m["metadata_full"], m["application_uses_brokers"] = v.rm, !v.part, v.use
		variants = append(variants, m)
		fmt.Printf("  history: variant rm=%d full=%v use=%v: depth %d/%d fixpoint@%d, %d states, %d transitions (%.1fs)\n", v.rm, !v.part, v.use, vb.completed, vdepth, vb.fixpoint, len(vb.keys), vb.transitions, time.Since(tv).Seconds())
	}
	info["variants"] = variants
	histSamples = b.samples
	c.Set("history", info)
	return hs, ok
}
