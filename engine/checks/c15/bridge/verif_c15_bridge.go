//go:build verif

package sarama

// Bridge of check C15 (added to package sarama through the overlay of this check only; /repo is
// never modified): a canonical, sorted dump of the client's metadata caches = the state key of the
// history BFS, plus accessors of a Broker's identity.

import (
	"fmt"
	"sort"
	"strings"
	"sync/atomic"
)

// VerifBrokerIdent returns (id, address) of a broker object without opening it.
func VerifBrokerIdent(b *Broker) (int32, string) {
	if b == nil {
		return -2, ""
	}
	return b.id, b.addr
}

func verifInt32s(l []int32) string {
	s := make([]string, len(l))
	for i, x := range l {
		s[i] = fmt.Sprint(x)
	}
	return "[" + strings.Join(s, " ") + "]"
}

// VerifClientDump renders every field of the client that a later metadata read or refresh can
// depend on: metadata (topic → partition → leader/replicas/isr/offline/err),
// cachedPartitionsResults (both derived lists, in stored order), brokers id→addr, controllerID,
// metadataTopics, seedBrokers and deadSeeds (addresses, in list order – the order is behaviour).
// Maps are rendered sorted, so two clients with equal dumps are indistinguishable to the read APIs.
// It takes the read lock like any reader.
func VerifClientDump(c Client) string {
	cl, ok := c.(*client)
	if !ok {
		return fmt.Sprintf("<%T>", c)
	}
	cl.lock.RLock()
	defer cl.lock.RUnlock()
	var sb strings.Builder
	if cl.brokers == nil {
		return "closed"
	}
	// metadata
	topics := make([]string, 0, len(cl.metadata))
	for t := range cl.metadata {
		topics = append(topics, t)
	}
	sort.Strings(topics)
	sb.WriteString("M{")
	for _, t := range topics {
		ps := cl.metadata[t]
		ids := make([]int32, 0, len(ps))
		for id := range ps {
			ids = append(ids, id)
		}
		sort.Slice(ids, func(i, j int) bool { return ids[i] < ids[j] })
		fmt.Fprintf(&sb, "%s:", t)
		for _, id := range ids {
			p := ps[id]
			if p == nil {
				fmt.Fprintf(&sb, "(%d nil)", id)
				continue
			}
			fmt.Fprintf(&sb, "(%d/%d L%d R%s I%s O%s E%d)", id, p.ID, p.Leader, verifInt32s(p.Replicas), verifInt32s(p.Isr), verifInt32s(p.OfflineReplicas), int16(p.Err))
		}
		sb.WriteString(";")
	}
	sb.WriteString("} C{")
	ctopics := make([]string, 0, len(cl.cachedPartitionsResults))
	for t := range cl.cachedPartitionsResults {
		ctopics = append(ctopics, t)
	}
	sort.Strings(ctopics)
	for _, t := range ctopics {
		r := cl.cachedPartitionsResults[t]
		fmt.Fprintf(&sb, "%s:a%s%v w%s%v;", t, verifInt32s(r[allPartitions]), r[allPartitions] == nil, verifInt32s(r[writablePartitions]), r[writablePartitions] == nil)
	}
	sb.WriteString("} B{")
	bids := make([]int32, 0, len(cl.brokers))
	for id := range cl.brokers {
		bids = append(bids, id)
	}
	sort.Slice(bids, func(i, j int) bool { return bids[i] < bids[j] })
	for _, id := range bids {
		b := cl.brokers[id]
		if b == nil {
			fmt.Fprintf(&sb, "%d=nil,", id)
			continue
		}
		open := ""
		if atomic.LoadInt32(&b.opened) == 1 {
			open = "+" // somebody opened it (a refresh that had to fall back on it, or the application)
		}
		fmt.Fprintf(&sb, "%d=%d@%s%s,", id, b.id, b.addr, open)
	}
	sb.WriteString("} G{")
	groups := make([]string, 0, len(cl.coordinators))
	for g := range cl.coordinators {
		groups = append(groups, g)
	}
	sort.Strings(groups)
	for _, g := range groups {
		fmt.Fprintf(&sb, "%s=%d,", g, cl.coordinators[g])
	}
	fmt.Fprintf(&sb, "} K%d T{", cl.controllerID)
	mt := make([]string, 0, len(cl.metadataTopics))
	for t := range cl.metadataTopics {
		mt = append(mt, t)
	}
	sort.Strings(mt)
	sb.WriteString(strings.Join(mt, ","))
	sb.WriteString("} S[")
	for _, b := range cl.seedBrokers {
		sb.WriteString(b.addr + ",")
	}
	sb.WriteString("] D[")
	for _, b := range cl.deadSeeds {
		sb.WriteString(b.addr + ",")
	}
	sb.WriteString("]")
	return sb.String()
}
