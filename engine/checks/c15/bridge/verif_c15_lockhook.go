//go:build verif

package sarama

import (
	verifsync "github.com/Shopify/sarama/internal/verifsync"
)

// VerifSetOnLock installs (or, with nil, removes) the lock-acquisition hook of the sync shim: f is
// called before every RWMutex.Lock ("W") / RLock ("R") inside package sarama. Process-global.
func VerifSetOnLock(f func(kind string)) { verifsync.OnLock = f }
