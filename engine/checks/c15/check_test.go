// Check C15 – "client metadata answers reflect the latest cluster metadata" (DESIGN.md §6).
//
//	(1) HISTORY     explicit-state BFS over metadata-response sequences (hist.go, this file)
//	(2) ATOMICITY   GX exploration of reader/refresher orders (rig "cli", clirig/atomic.go)
//	(3) REACHABILITY bounded-exhaustive seed/known-broker behaviour subsets (clirig/reach.go, reach.go)
package c15

import (
	"encoding/json"
	"fmt"
	"os"
	"path/filepath"
	"sort"
	"strings"
	"testing"
	"time"

	"verif/engine/ev"
	"verif/engine/gx"
	"verif/engine/rigs/clirig"
)

var exitCode = 3

func TestMain(m *testing.M) {
	m.Run()
	os.Exit(exitCode)
}

// TestWorker is the entry point of the GX worker processes (atomicity layer).
func TestWorker(t *testing.T) {
	if os.Getenv("VERIF_WORKER") == "" {
		t.Skip("worker entry point")
	}
	gx.WorkerMain(t)
	exitCode = 0
}

var assumptions = []string{
	"HISTORY: Kafka version 2.0 (metadata v5), one seed broker that always answers, Metadata.Full=true (plus a shallower pass with Full=false), Retry.Max=0 (plus a shallower pass with Retry.Max=1, back-off 250 ms of fake time); a broker answers a named request with exactly the named topics (a topic it does not have: UNKNOWN_TOPIC_OR_PARTITION) and every request with its full broker list and controller id",
	"HISTORY: background refreshes are the events RefreshMetadata() (Metadata.Full) and RefreshMetadata(t,u) (known topics): backgroundMetadataUpdater calls exactly these, so RefreshFrequency is 0 and the ticker is not run",
	"HISTORY state key = bridge dump of metadata, cachedPartitionsResults, brokers id→addr, controllerID, metadataTopics, seedBrokers, deadSeeds (sorted); connection state of Broker objects is not part of the key (no read API depends on it); the key set is cross-checked against the unpruned search one level shallower",
	"OPEN (not demanded either way): WritablePartitions for a partition whose leader id is in no broker list and carries no error; what the read APIs say for a topic whose newest answer is topic-level LEADER_NOT_AVAILABLE (its partial partition list or 'unknown topic' are both accepted, older data is not); whether a per-topic response drops brokers it does not list (the brokers it lists must be present at the listed address; a FULL response must leave exactly its broker list); error values (only 'an error, no data' is demanded for unknown topics/partitions; ErrLeaderNotAvailable is demanded for leaderless partitions and unlisted leader ids); Controller() is judged only against staleness",
	"DEMANDED although the statement names only refreshes 'that include a topic': a topic missing from the newest FULL response has vanished and is forgotten",
	"topics with zero partitions are not in the alphabet (Partitions would return ErrUnknownTopicOrPartition for a known topic; the statement says 'lists exactly', the interface doc is silent)",
	"ATOMICITY: two granularities. (a) quiescent points: a reader call / the refresher's call / the cluster change / each broker answer are separate actors, all orders within the deviation bound; (b) lock granularity (scenarios locks=1): every acquisition of client.lock by a reader or the refresher is a gate (sync-shim hook verifsync.OnLock, parked through gx.Ctl.Gate), default = run the call to completion, deviations = preemptions at lock acquisitions, all schedules within the preemption bound; interleaving INSIDE a critical section (between two memory accesses under the lock) is not explored – the lock excludes it unless the lock itself is broken, which is outside the scheduler's reach",
	"ATOMICITY oracle: a read must be explained by the reference state after j applied responses for some j between 'responses certainly applied when the call began' and 'responses whose application had begun when it returned' (application begins at the first write-lock acquisition of the goroutine that received the response, is certainly complete when that goroutine's API call returns), and successive reads of one reader need non-decreasing j; responses are folded in application order",
	"REACHABILITY: behaviours are static per phase (NewClient, 1st refresh, 2nd refresh); 'known broker' = listed by client.Brokers() when the call starts; if the only answering address is a broker the client itself deregistered after a failed request (still listed by the newest metadata) either result is accepted and counted (open:only-a-broker-the-client-itself-forgot-answers); dial time-outs are emulated by the dialer (Net.DialTimeout of fake time), Metadata.Timeout=0",
	"data races are outside this check (channel-based lock shim, one bubble = one deterministic schedule)",
}

type sigAgg struct {
	count int
	layer string
	msg   string
	task  *Task
	size  int
}

type agg struct {
	sigs map[string]*sigAgg
}

func (a *agg) add(layer, sig, msg string, tk *Task, size int) {
	if a.sigs == nil {
		a.sigs = map[string]*sigAgg{}
	}
	s := a.sigs[sig]
	if s == nil {
		s = &sigAgg{layer: layer, size: 1 << 30}
		a.sigs[sig] = s
	}
	s.count++
	if size < s.size {
		t := *tk
		s.size, s.msg, s.task = size, msg, &t
	}
}

func (a *agg) report(c *ev.Check) {
	var sigs []string
	for s := range a.sigs {
		sigs = append(sigs, s)
	}
	sort.Strings(sigs)
	byv := map[string]int{}
	for _, s := range sigs {
		x := a.sigs[s]
		byv[s] = x.count
		x.task.ID = 0
		// one replayable example per signature is always written (known findings get no artefact from ev.Report)
		if eb, err := json.MarshalIndent(ev.Violation{Property: "C15", Signature: s, Check: "c15/" + x.layer, Message: x.msg, Replay: x.task}, "", " "); err == nil {
			d := filepath.Join(ev.Root(), "out", "C15")
			_ = os.MkdirAll(d, 0o755)
			_ = os.WriteFile(filepath.Join(d, fmt.Sprintf("example-%s.json", keyHash(s)[:12])), eb, 0o644)
		}
		c.Report(ev.Violation{Signature: s, Check: "c15/" + x.layer, Message: fmt.Sprintf("%s   [%d violating executions with this signature; shortest shown]", x.msg, x.count), Replay: x.task})
	}
	if len(byv) > 0 {
		c.Set("violating_executions_by_signature", byv)
	}
}

func replay(t *testing.T, path string) int {
	b, err := os.ReadFile(path)
	if err != nil {
		fmt.Println("ENGINE-ERROR", err)
		return 3
	}
	var v struct {
		Signature string          `json:"signature"`
		Replay    json.RawMessage `json:"replay"`
	}
	if err := json.Unmarshal(b, &v); err != nil {
		fmt.Println("ENGINE-ERROR", err)
		return 3
	}
	var probe struct {
		Scenario string `json:"scenario"`
	}
	_ = json.Unmarshal(v.Replay, &probe)
	if probe.Scenario != "" {
		return gx.ReplayFile(t, path)
	}
	var tk Task
	if err := json.Unmarshal(v.Replay, &tk); err != nil || (tk.Hist == nil && tk.Reach == nil) {
		fmt.Println("ENGINE-ERROR not a C15 artefact:", err)
		return 3
	}
	tk.WantKey = true
	r := runTask(t, &tk, true)
	var viol []clirig.Violation
	switch {
	case r.Hist != nil:
		fmt.Printf("REPLAY property=C15 layer=history case=%s\n", tk.Hist)
		for _, l := range r.Hist.Trace {
			fmt.Println("   ", l)
		}
		fmt.Println("  state key after the last event:", r.Hist.Key)
		if r.Hist.EngineErr != "" {
			fmt.Println("ENGINE-ERROR", r.Hist.EngineErr)
			return 3
		}
		viol = r.Hist.Viol
	case r.Reach != nil:
		fmt.Printf("REPLAY property=C15 layer=reachability case=%s\n", tk.Reach)
		for _, l := range r.Reach.Trace {
			fmt.Println("   ", l)
		}
		fmt.Println("  outcome:", r.Reach.Outcome, " seed order tried:", r.Reach.SeedOrder)
		if r.Reach.EngineErr != "" {
			fmt.Println("ENGINE-ERROR", r.Reach.EngineErr)
			return 3
		}
		viol = r.Reach.Viol
	}
	if len(viol) == 0 {
		fmt.Println("  no violation: the property holds on this case now")
		return 0
	}
	for _, x := range viol {
		fmt.Printf("VIOLATION property=C15 replay=%s\n  signature=%s\n  %s\n", path, x.Sig, x.Msg)
	}
	return 1
}

func TestCheck(t *testing.T) {
	if os.Getenv("VERIF_WORKER") != "" {
		t.Skip()
	}
	if os.Getenv("VERIF_C15_TASKS") != "" {
		workerMain(t)
		return
	}
	if p := os.Getenv("VERIF_REPLAY"); p != "" {
		exitCode = replay(t, p)
		return
	}
	c := ev.NewCheck("C15", "model_checking")
	c.Assumptions = assumptions
	thorough := ev.Tier() == "thorough"
	budget := ev.Deadline(52*time.Second, 9*time.Minute+20*time.Second)
	start := time.Now()
	end := start.Add(budget)
	r := newRunner(c)
	defer r.cleanup()
	a := &agg{}
	exhaustive := true

	// ---- (3) reachability first (small, fixed size), then (2) atomicity, then (1) history takes the rest
	reachEnd := start.Add(budget * 20 / 100)
	if !reachLayer(c, r, a, thorough, reachEnd) {
		exhaustive = false
	}
	atomEnd := time.Now().Add(budget * 30 / 100)
	ax, aok := atomicLayer(t, c, thorough, atomEnd)
	if !aok {
		exhaustive = false
	}
	hs, hok := historyLayer(c, r, a, thorough, end)
	if !hok {
		exhaustive = false
	}
	a.report(c)

	// samples: a few actual cases of every layer
	var samples []interface{}
	if len(histSamples) > 4 {
		histSamples = histSamples[1:4]
	}
	samples = append(samples, histSamples...)
	if len(reachSamples) > 2 {
		reachSamples = reachSamples[:2]
	}
	samples = append(samples, reachSamples...)
	if gs, ok := c.Coverage["samples"].([]interface{}); ok {
		var first, lock interface{}
		for _, x := range gs {
			m, _ := x.(map[string]interface{})
			sc, _ := m["scenario"].(string)
			if strings.Contains(sc, "locks=1") {
				if lock == nil {
					lock = x
				}
			} else if first == nil {
				first = x
			}
		}
		for _, x := range []interface{}{first, lock} {
			if x != nil {
				samples = append(samples, x)
			}
		}
	}
	if len(samples) > 0 {
		c.Set("samples", samples)
	}
	c.Set("states_rule", "history: visited canonical keys of the three BFS runs (Retry.Max 0/1, Metadata.Full true/false); atomicity: distinct decision-point fingerprints (enabled labels + client dump), measured, not used for pruning")
	c.Set("states", hs.states+ax.states)
	c.Set("transitions", hs.transitions+ax.transitions)
	c.Set("traces_validated_against_impl", r.Execs+ax.execs)
	c.Set("executions_by_layer", map[string]int{"history_bfs": hs.bfsExecs, "history_unpruned": hs.dfsExecs, "history_variants": hs.varExecs, "reachability": reachExecs, "atomicity_gx": ax.execs})
	c.Set("exhaustive", exhaustive)
	c.Set("leaked_bubbles_info", r.Leaked)
	fmt.Printf("C15: executions=%d (history bfs %d, unpruned %d, variants %d; atomicity %d) states=%d transitions=%d exhaustive=%v\n",
		r.Execs+ax.execs, hs.bfsExecs, hs.dfsExecs, hs.varExecs, ax.execs, hs.states+ax.states, hs.transitions+ax.transitions, exhaustive)
	exitCode = c.Finish()
}
