// Check C08: see verif/engine/bal (one shared explicit-state search, two oracles).
package c08

import (
	"os"
	"testing"

	"verif/engine/bal"
)

var exitCode = 3

func TestMain(m *testing.M) {
	m.Run()
	os.Exit(exitCode)
}

// TestWorker is the entry point of the child processes that perform the real Plan calls.
func TestWorker(t *testing.T) {
	if os.Getenv("VERIF_BAL_WORKER") == "" {
		t.Skip("worker entry point")
	}
	bal.WorkerMain()
}

func TestCheck(t *testing.T) {
	if os.Getenv("VERIF_BAL_WORKER") != "" {
		t.Skip()
	}
	if p := os.Getenv("VERIF_REPLAY"); p != "" {
		exitCode = bal.Replay("C08", p)
		return
	}
	exitCode = bal.Run("C08")
}
