package c19

// A minimal scripted Kafka cluster for the admin client: every dial gets a net.Pipe whose server
// end is served by one goroutine that decodes requests with sarama's own request decoder and
// answers from the case's script. It is at the same time the reference state (who is controller,
// who leads / coordinates what) against which routing is judged.

import (
	"errors"
	"fmt"
	"net"
	"sort"
	"sync"
	"time"

	"github.com/Shopify/sarama"
)

const topicName = "t"

// Sym is one scripted answer to a controller-bound request.
type Sym struct {
	Kind string `json:"k"`           // ok | ncm | ncn | err | inc | drop
	Code int16  `json:"c,omitempty"` // error code for "err"
	Pos  string `json:"p,omitempty"` // AlterPartitionReassignments only: "top" (default for nc*) or "item"
}

func (s Sym) String() string {
	switch s.Kind {
	case "err":
		if s.Pos != "" {
			return fmt.Sprintf("err(%d@%s)", s.Code, s.Pos)
		}
		return fmt.Sprintf("err(%d)", s.Code)
	case "ncm", "ncn":
		if s.Pos != "" {
			return s.Kind + "@" + s.Pos
		}
	}
	return s.Kind
}

// ReqRec is one logged request of the operation under test (metadata / coordinator lookups are
// counted separately).
type ReqRec struct {
	Seq        int      `json:"seq"`
	Broker     int32    `json:"broker"`
	Kind       string   `json:"kind"`
	Version    int16    `json:"version"`
	Items      []string `json:"items"`                // canonical item list of the request
	Controller int32    `json:"controller,omitempty"` // controller named by the newest metadata when the request arrived
	Answer     string   `json:"answer"`
	Detail     string   `json:"detail,omitempty"`
}

type cluster struct {
	mu         sync.Mutex
	nb         int
	controller int32
	off        int32            // broker ids on the wire = simulation ids + off (Case.IDBase0: -1)
	leaders    []int32          // partition → leader of topicName
	coord      map[string]int32 // group → coordinator
	script     []Sym
	pos        int
	cs         *Case
	log        []ReqRec
	nMeta      int
	nCoord     int
	conns      []net.Conn
	seq        int
	engineErr  string
	gates      map[int32]chan struct{} // Case.Order: the answer of broker id waits here until it is released
	parked     map[int32]bool
}

func addrOf(id int32) string { return fmt.Sprintf("b%d:9092", id) }

func (cl *cluster) Dial(network, addr string) (net.Conn, error) {
	cl.mu.Lock()
	defer cl.mu.Unlock()
	for id := int32(1); id <= int32(cl.nb); id++ {
		if addrOf(id) == addr {
			c, s := net.Pipe()
			cl.conns = append(cl.conns, s)
			go cl.serve(id, s)
			return c, nil
		}
	}
	return nil, errors.New("c19 sim: connection refused: " + addr)
}

func (cl *cluster) closeAll() {
	cl.mu.Lock()
	cs := append([]net.Conn(nil), cl.conns...)
	cl.mu.Unlock()
	for _, c := range cs {
		c.Close()
	}
}

func (cl *cluster) fail(msg string) {
	if cl.engineErr == "" {
		cl.engineErr = msg
	}
}

func (cl *cluster) serve(id int32, sv net.Conn) {
	defer sv.Close()
	for {
		r, err := sarama.VerifDecodeRequest(sv)
		if err != nil {
			return
		}
		cl.mu.Lock()
		body, frame, drop := cl.answer(id, r)
		var gate chan struct{}
		switch r.Body.(type) {
		case *sarama.DescribeLogDirsRequest, *sarama.ListGroupsRequest:
			if gate = cl.gates[id]; gate != nil {
				cl.parked[id] = true
			}
		}
		cl.mu.Unlock()
		if gate != nil {
			<-gate // the answer (or the connection failure) of this broker is released in the case's order
		}
		if drop {
			return
		}
		if frame == nil {
			frame, err = sarama.VerifEncodeResponse(r.CorrelationID, body)
			if err != nil {
				cl.mu.Lock()
				cl.fail(fmt.Sprintf("cannot encode %T: %v", body, err))
				cl.mu.Unlock()
				return
			}
		}
		if _, err := sv.Write(frame); err != nil {
			return
		}
	}
}

func (cl *cluster) metadata(req *sarama.MetadataRequest) *sarama.MetadataResponse {
	// (cl.off: the cluster's broker ids as the client sees them are the simulation's ids + off; with off = -1 the brokers
	// are 0 and 1 - a broker id 0 is legal and common)
	m := &sarama.MetadataResponse{Version: req.Version, ControllerID: cl.controller + cl.off}
	for id := int32(1); id <= int32(cl.nb); id++ {
		m.AddBroker(addrOf(id), id+cl.off)
	}
	want := req.Topics
	if len(want) == 0 {
		want = []string{topicName}
	}
	for _, t := range want {
		if t != topicName {
			m.AddTopic(t, sarama.ErrUnknownTopicOrPartition)
			continue
		}
		m.AddTopic(t, sarama.ErrNoError)
		for p, l := range cl.leaders {
			m.AddTopicPartition(t, int32(p), l+cl.off, []int32{l + cl.off}, []int32{l + cl.off}, nil, sarama.ErrNoError)
		}
	}
	return m
}

// findCoordinatorFrame hand-encodes a FindCoordinator response (v0/v1) – independent of sarama's encoder.
func findCoordinatorFrame(corr int32, version int16, kerr sarama.KError, id int32) []byte {
	var b []byte
	i16 := func(v int16) { b = append(b, byte(uint16(v)>>8), byte(v)) }
	i32 := func(v int32) { b = append(b, byte(uint32(v)>>24), byte(uint32(v)>>16), byte(uint32(v)>>8), byte(v)) }
	if version >= 1 {
		i32(0)
	}
	i16(int16(kerr))
	if version >= 1 {
		i16(-1) // null error message
	}
	i32(id)
	host := fmt.Sprintf("b%d", id)
	i16(int16(len(host)))
	b = append(b, host...)
	i32(9092)
	return sarama.VerifFrameResponse(corr, 0, b)
}

func sortedInt32(m map[int32]int64) []int32 {
	var ks []int32
	for k := range m {
		ks = append(ks, k)
	}
	sort.Slice(ks, func(i, j int) bool { return ks[i] < ks[j] })
	return ks
}

// answer must be called with cl.mu held. Returns either a body to encode, a ready frame, or drop.
func (cl *cluster) answer(id int32, r *sarama.VerifRequest) (body interface{}, frame []byte, drop bool) {
	switch b := r.Body.(type) {
	case *sarama.MetadataRequest:
		cl.nMeta++
		return cl.metadata(b), nil, false
	case *sarama.FindCoordinatorRequest:
		cl.nCoord++
		c, ok := cl.coord[b.CoordinatorKey]
		if !ok {
			return nil, findCoordinatorFrame(r.CorrelationID, b.Version, sarama.ErrConsumerCoordinatorNotAvailable, -1), false
		}
		return nil, findCoordinatorFrame(r.CorrelationID, b.Version, sarama.ErrNoError, c), false
	}
	cl.seq++
	rec := ReqRec{Seq: cl.seq, Broker: id, Version: r.Version, Controller: cl.controller}
	defer func() { cl.log = append(cl.log, rec) }()
	msg := "scripted"
	switch b := r.Body.(type) {
	// ---------------------------------------------------------------- controller-bound
	case *sarama.CreateTopicsRequest:
		rec.Kind = "CreateTopics"
		for t, d := range b.TopicDetails {
			rec.Items = append(rec.Items, fmt.Sprintf("%s:np=%d,rf=%d", t, d.NumPartitions, d.ReplicationFactor))
		}
		rec.Detail = fmt.Sprintf("validateOnly=%v timeout=%v", b.ValidateOnly, b.Timeout)
		sort.Strings(rec.Items)
		s := cl.next(id, &rec)
		resp := &sarama.CreateTopicsResponse{Version: b.Version, TopicErrors: map[string]*sarama.TopicError{}}
		switch s.Kind {
		case "drop":
			return nil, nil, true
		case "inc":
		case "ok":
			resp.TopicErrors[topicName] = &sarama.TopicError{Err: sarama.ErrNoError}
		default:
			resp.TopicErrors[topicName] = &sarama.TopicError{Err: symCode(s), ErrMsg: &msg}
		}
		return resp, nil, false
	case *sarama.DeleteTopicsRequest:
		rec.Kind = "DeleteTopics"
		rec.Items = append([]string(nil), b.Topics...)
		sort.Strings(rec.Items)
		s := cl.next(id, &rec)
		resp := &sarama.DeleteTopicsResponse{Version: b.Version, TopicErrorCodes: map[string]sarama.KError{}}
		switch s.Kind {
		case "drop":
			return nil, nil, true
		case "inc":
		case "ok":
			resp.TopicErrorCodes[topicName] = sarama.ErrNoError
		default:
			resp.TopicErrorCodes[topicName] = symCode(s)
		}
		return resp, nil, false
	case *sarama.CreatePartitionsRequest:
		rec.Kind = "CreatePartitions"
		for t, d := range b.TopicPartitions {
			rec.Items = append(rec.Items, fmt.Sprintf("%s:count=%d", t, d.Count))
		}
		rec.Detail = fmt.Sprintf("validateOnly=%v timeout=%v", b.ValidateOnly, b.Timeout)
		sort.Strings(rec.Items)
		s := cl.next(id, &rec)
		resp := &sarama.CreatePartitionsResponse{TopicPartitionErrors: map[string]*sarama.TopicPartitionError{}}
		switch s.Kind {
		case "drop":
			return nil, nil, true
		case "inc":
		case "ok":
			resp.TopicPartitionErrors[topicName] = &sarama.TopicPartitionError{Err: sarama.ErrNoError}
		default:
			resp.TopicPartitionErrors[topicName] = &sarama.TopicPartitionError{Err: symCode(s), ErrMsg: &msg}
		}
		return resp, nil, false
	case *sarama.AlterPartitionReassignmentsRequest:
		rec.Kind = "AlterPartitionReassignments"
		var parts []int32
		for t, ps := range sarama.VerifAlterReassignBlocks(b) {
			for p, reps := range ps {
				rec.Items = append(rec.Items, fmt.Sprintf("%s-%d:%v", t, p, reps))
				if t == topicName {
					parts = append(parts, p)
				}
			}
		}
		sort.Strings(rec.Items)
		sort.Slice(parts, func(i, j int) bool { return parts[i] < parts[j] })
		s := cl.next(id, &rec)
		resp := &sarama.AlterPartitionReassignmentsResponse{Version: b.Version}
		switch s.Kind {
		case "drop":
			return nil, nil, true
		case "inc":
			// top-level ok, no per-partition results at all
		case "ok":
			for _, p := range parts {
				resp.AddError(topicName, p, sarama.ErrNoError, nil)
			}
		default:
			if s.Pos == "item" {
				// the last requested partition carries the error, the others succeed
				for i, p := range parts {
					if i == len(parts)-1 {
						resp.AddError(topicName, p, symCode(s), &msg)
					} else {
						resp.AddError(topicName, p, sarama.ErrNoError, nil)
					}
				}
			} else {
				// as Kafka does: a top-level error and no per-partition results
				resp.ErrorCode = symCode(s)
				resp.ErrorMessage = &msg
			}
		}
		return resp, nil, false

	// ---------------------------------------------------------------- leader / coordinator / broker-bound
	case *sarama.DeleteRecordsRequest:
		rec.Kind = "DeleteRecords"
		resp := &sarama.DeleteRecordsResponse{Topics: map[string]*sarama.DeleteRecordsResponseTopic{}}
		f := cl.cs.Fault
		hit := false
		for t, tp := range b.Topics {
			rt := &sarama.DeleteRecordsResponseTopic{Partitions: map[int32]*sarama.DeleteRecordsResponsePartition{}}
			for _, p := range sortedInt32(tp.PartitionOffsets) {
				rec.Items = append(rec.Items, fmt.Sprintf("%s-%d@%d", t, p, tp.PartitionOffsets[p]))
				e := sarama.ErrNoError
				if t == topicName && int(p) < len(cl.leaders) && cl.leaders[p] != id {
					e = sarama.ErrNotLeaderForPartition // faithful answer of a non-leader
				}
				if f.Kind == "item" && int32(f.Item) == p && t == topicName {
					e = sarama.KError(f.Code)
					hit = true
				}
				rt.Partitions[p] = &sarama.DeleteRecordsResponsePartition{LowWatermark: tp.PartitionOffsets[p], Err: e}
			}
			if !(f.Kind == "inc" && f.Broker == id) {
				resp.Topics[t] = rt
			}
		}
		sort.Strings(rec.Items)
		rec.Answer = cl.faultAt(id, hit)
		if f.Kind == "drop" && f.Broker == id {
			return nil, nil, true
		}
		return resp, nil, false
	case *sarama.OffsetFetchRequest:
		rec.Kind = "OffsetFetch"
		rec.Items = append(rec.Items, "group="+b.ConsumerGroup)
		resp := &sarama.OffsetFetchResponse{Version: b.Version}
		f := cl.cs.Fault
		hit := f.Kind == "top"
		tps := sarama.VerifOffsetFetchPartitions(b)
		i := 0
		var ts []string
		for t := range tps {
			ts = append(ts, t)
		}
		sort.Strings(ts)
		for _, t := range ts {
			ps := append([]int32(nil), tps[t]...)
			sort.Slice(ps, func(i, j int) bool { return ps[i] < ps[j] })
			for _, p := range ps {
				rec.Items = append(rec.Items, fmt.Sprintf("%s-%d", t, p))
				e := sarama.ErrNoError
				if f.Kind == "item" && f.Item == i {
					e = sarama.KError(f.Code)
					hit = true
				}
				resp.AddBlock(t, p, &sarama.OffsetFetchResponseBlock{Offset: 100 + int64(p), Err: e})
				i++
			}
		}
		if cl.coord[b.ConsumerGroup] != id {
			resp.Err = sarama.ErrNotCoordinatorForConsumer
		}
		if f.Kind == "top" {
			resp.Err = sarama.KError(f.Code)
		}
		rec.Answer = cl.faultAt(id, hit)
		if f.Kind == "drop" && f.Broker == id {
			return nil, nil, true
		}
		return resp, nil, false
	case *sarama.DescribeGroupsRequest:
		rec.Kind = "DescribeGroups"
		resp := &sarama.DescribeGroupsResponse{}
		f := cl.cs.Fault
		hit := false
		for _, g := range b.Groups {
			rec.Items = append(rec.Items, g)
			d := &sarama.GroupDescription{GroupId: g, State: "Stable", ProtocolType: "consumer", Protocol: "range"}
			if c, ok := cl.coord[g]; !ok || c != id {
				d.Err = sarama.ErrNotCoordinatorForConsumer
			}
			if f.Kind == "item" && groupName(f.Item) == g {
				d.Err = sarama.KError(f.Code)
				d.State = ""
				hit = true
			}
			resp.Groups = append(resp.Groups, d)
		}
		sort.Strings(rec.Items)
		rec.Answer = cl.faultAt(id, hit)
		if f.Kind == "drop" && f.Broker == id {
			return nil, nil, true
		}
		return resp, nil, false
	case *sarama.DeleteGroupsRequest:
		rec.Kind = "DeleteGroups"
		resp := &sarama.DeleteGroupsResponse{GroupErrorCodes: map[string]sarama.KError{}}
		f := cl.cs.Fault
		hit := false
		for _, g := range b.Groups {
			rec.Items = append(rec.Items, g)
			e := sarama.ErrNoError
			if c, ok := cl.coord[g]; !ok || c != id {
				e = sarama.ErrNotCoordinatorForConsumer
			}
			if f.Kind == "item" && groupName(f.Item) == g {
				e = sarama.KError(f.Code)
				hit = true
			}
			if !(f.Kind == "inc" && f.Broker == id) {
				resp.GroupErrorCodes[g] = e
			}
		}
		sort.Strings(rec.Items)
		rec.Answer = cl.faultAt(id, hit)
		if f.Kind == "drop" && f.Broker == id {
			return nil, nil, true
		}
		return resp, nil, false
	case *sarama.ListGroupsRequest:
		rec.Kind = "ListGroups"
		rec.Items = []string{"all-groups"}
		f := cl.cs.Fault
		resp := &sarama.ListGroupsResponse{Groups: map[string]string{fmt.Sprintf("grp-b%d", id): "consumer"}}
		rec.Answer = cl.faultAt(id, false)
		if f.Kind == "drop" && f.Broker == id {
			return nil, nil, true
		}
		return resp, nil, false
	case *sarama.DescribeLogDirsRequest:
		rec.Kind = "DescribeLogDirs"
		rec.Items = []string{fmt.Sprintf("broker=%d", id)}
		f := cl.cs.Fault
		d := sarama.DescribeLogDirsResponseDirMetadata{Path: fmt.Sprintf("/kafka/b%d", id)}
		hit := false
		if f.Kind == "item" && f.Broker == id {
			d.ErrorCode = sarama.KError(f.Code)
			hit = true
		}
		resp := &sarama.DescribeLogDirsResponse{Version: b.Version, LogDirs: []sarama.DescribeLogDirsResponseDirMetadata{d}}
		rec.Answer = cl.faultAt(id, hit)
		if f.Kind == "drop" && f.Broker == id {
			return nil, nil, true
		}
		return resp, nil, false
	}
	rec.Kind = fmt.Sprintf("%T", r.Body)
	cl.fail("c19 sim: no handler for " + rec.Kind)
	return nil, nil, true
}

// faultAt names what the answer to this request contained (hit: the faulty item was in it).
func (cl *cluster) faultAt(id int32, hit bool) string {
	f := cl.cs.Fault
	switch f.Kind {
	case "", "none":
		return "ok"
	case "item", "top":
		if hit {
			return fmt.Sprintf("%s(%d)", f.Kind, f.Code)
		}
		return "ok"
	}
	if f.Broker == id {
		return f.Kind
	}
	return "ok"
}

func symCode(s Sym) sarama.KError {
	if s.Kind == "ncm" || s.Kind == "ncn" {
		return sarama.ErrNotController
	}
	return sarama.KError(s.Code)
}

// next picks the scripted answer for the next controller-bound request. A request that reaches a
// broker which the newest metadata does not name as controller is answered NOT_CONTROLLER (what a
// real non-controller does) and does not consume a script entry.
func (cl *cluster) next(id int32, rec *ReqRec) Sym {
	if id != cl.controller {
		rec.Answer = "misrouted:ncn"
		return Sym{Kind: "ncn"}
	}
	s := Sym{Kind: "ok"}
	if cl.pos < len(cl.script) {
		s = cl.script[cl.pos]
	}
	cl.pos++
	rec.Answer = s.String()
	if s.Kind == "ncm" {
		// the controller has moved: from now on metadata names the other broker
		cl.controller = 3 - cl.controller
	}
	return s
}

func groupName(i int) string { return fmt.Sprintf("g%d", i) }

var _ = time.Second
