package c19

// One execution = the real ClusterAdmin inside one synctest bubble against the scripted cluster,
// followed by the oracle (reference model of the property) on its return value and the request log.

import (
	"errors"
	"fmt"
	"runtime/debug"
	"sort"
	"strings"
	"testing"
	"testing/synctest"
	"time"

	"github.com/Shopify/sarama"
	metrics "github.com/rcrowley/go-metrics"
)

func init() { metrics.UseNilMetrics = true }

type Obs struct {
	Case      *Case
	NewErr    error // NewClusterAdmin failed (engine problem: the cluster is healthy)
	Err       error
	Log       []ReqRec
	NMeta     int
	NCoord    int
	ItemErrs  map[string]int16 // leader-bound: error codes visible in the returned value, by item
	ItemsBack []string         // leader-bound: items present in the returned value
	Panic     string
	Leaked    bool
	EngineErr string
}

type Finding struct {
	Signature string
	Message   string
	Info      bool
}

func errString(e error) string {
	if e == nil {
		return "<nil>"
	}
	return fmt.Sprintf("%T: %s", e, strings.ReplaceAll(e.Error(), "\n", " | "))
}

func newCluster(cs *Case) *cluster {
	cl := &cluster{cs: cs, nb: 2, controller: 1, leaders: []int32{1}, coord: map[string]int32{}, script: cs.Script}
	if cs.Ctrl0 == 2 {
		cl.controller = 2
	}
	if cs.IDBase0 {
		cl.off = -1
	}
	if cs.NB > 0 {
		cl.nb = cs.NB
		switch cs.Op {
		case "DeleteRecords":
			cl.leaders = []int32{int32(cs.NB), int32(cs.NB), int32(cs.NB)}
			copy(cl.leaders, cs.Spread)
		case "DescribeConsumerGroups":
			for i, b := range cs.Spread {
				cl.coord[groupName(i)] = b
			}
		case "ListConsumerGroupOffsets", "DeleteConsumerGroup":
			cl.coord[groupName(0)] = cs.Spread[0]
			cl.leaders = []int32{1, 1, 1}
		}
	}
	return cl
}

// runCase executes the case once and returns what was observed.
func runCase(t *testing.T, cs *Case) *Obs {
	o := &Obs{Case: cs, ItemErrs: map[string]int16{}}
	done := make(chan struct{})
	go func() {
		defer close(done)
		defer func() {
			if r := recover(); r != nil {
				if strings.Contains(fmt.Sprint(r), "blocked goroutines remain") {
					o.Leaked = true
				} else {
					o.Panic = fmt.Sprintf("%v\n%s", r, debug.Stack())
				}
			}
		}()
		synctest.Test(t, func(t *testing.T) {
			cl := newCluster(cs)
			vs := cs.Version
			if !strings.HasPrefix(vs, "0.") { // sarama spells releases ≥ 1.0 with three numbers
				vs = strings.TrimSuffix(vs, ".0")
			}
			v, err := sarama.ParseKafkaVersion(vs)
			if err != nil {
				o.EngineErr = err.Error()
				return
			}
			conf := sarama.NewConfig()
			conf.Version = v
			conf.Net.Proxy.Enable = true
			conf.Net.Proxy.Dialer = cl
			conf.Metadata.RefreshFrequency = 0
			conf.Metadata.Retry.Max = 0
			// Metadata.Retry.Backoff and Admin.Retry.Backoff keep their defaults (250 ms / 100 ms of fake time): what happens between two
			// attempts may depend on the time that passed
			conf.Admin.Retry.Max = cs.RetryMax
			if err := conf.Validate(); err != nil {
				o.EngineErr = "config rejected: " + err.Error()
				return
			}
			admin, err := sarama.NewClusterAdmin([]string{addrOf(1)}, conf)
			if err != nil {
				o.NewErr = err
				cl.closeAll()
				return
			}
			var released chan struct{}
			if len(cs.Order) > 0 {
				released = make(chan struct{})
				cl.mu.Lock()
				cl.gates, cl.parked = map[int32]chan struct{}{}, map[int32]bool{}
				for _, id := range cs.Order {
					cl.gates[id] = make(chan struct{})
				}
				cl.mu.Unlock()
				go func() {
					defer close(released)
					for _, id := range cs.Order {
						// wait until this broker holds its answer (or, if the operation never asks it, for two seconds of fake time)
						for i := 0; i < 2000; i++ {
							synctest.Wait()
							cl.mu.Lock()
							p := cl.parked[id]
							cl.mu.Unlock()
							if p {
								break
							}
							time.Sleep(time.Millisecond)
						}
						close(cl.gates[id])
						synctest.Wait() // whoever waited for this answer has run as far as it can before the next one is released
					}
				}()
			}
			o.Err = invoke(admin, cs, o)
			if released != nil {
				<-released
			}
			_ = admin.Close()
			cl.closeAll()
			synctest.Wait()
			cl.mu.Lock()
			o.Log = append([]ReqRec(nil), cl.log...)
			o.NMeta, o.NCoord = cl.nMeta, cl.nCoord
			if cl.engineErr != "" {
				o.EngineErr = cl.engineErr
			}
			cl.mu.Unlock()
		})
	}()
	<-done
	return o
}

func invoke(admin sarama.ClusterAdmin, cs *Case, o *Obs) error {
	switch cs.Op {
	case "CreateTopic":
		return admin.CreateTopic(topicName, &sarama.TopicDetail{NumPartitions: 1, ReplicationFactor: 1}, cs.ValidateOnly)
	case "DeleteTopic":
		return admin.DeleteTopic(topicName)
	case "CreatePartitions":
		return admin.CreatePartitions(topicName, 4, nil, cs.ValidateOnly)
	case "AlterPartitionReassignments":
		as := [][]int32{{1, 2}, {2, 1}}
		return admin.AlterPartitionReassignments(topicName, as[:cs.NParts])
	case "DeleteRecords":
		m := map[int32]int64{}
		for i := range cs.Spread {
			m[int32(i)] = 10 + int64(i)
		}
		return admin.DeleteRecords(topicName, m)
	case "ListConsumerGroupOffsets":
		var ps []int32
		for i := range cs.Spread {
			ps = append(ps, int32(i))
		}
		r, err := admin.ListConsumerGroupOffsets(groupName(0), map[string][]int32{topicName: ps})
		if r != nil {
			if r.Err != sarama.ErrNoError {
				o.ItemErrs["top"] = int16(r.Err)
			}
			for t, bs := range r.Blocks {
				for p, b := range bs {
					k := fmt.Sprintf("%s-%d", t, p)
					o.ItemsBack = append(o.ItemsBack, k)
					if b.Err != sarama.ErrNoError {
						o.ItemErrs[k] = int16(b.Err)
					}
				}
			}
		}
		return err
	case "DescribeConsumerGroups":
		var gs []string
		for i := range cs.Spread {
			gs = append(gs, groupName(i))
		}
		r, err := admin.DescribeConsumerGroups(gs)
		for _, d := range r {
			o.ItemsBack = append(o.ItemsBack, d.GroupId)
			if d.Err != sarama.ErrNoError {
				o.ItemErrs[d.GroupId] = int16(d.Err)
			}
		}
		return err
	case "DeleteConsumerGroup":
		return admin.DeleteConsumerGroup(groupName(0))
	case "ListConsumerGroups":
		r, err := admin.ListConsumerGroups()
		for g := range r {
			o.ItemsBack = append(o.ItemsBack, g)
		}
		return err
	case "DescribeLogDirs":
		r, err := admin.DescribeLogDirs(cs.Spread)
		for id, dirs := range r {
			k := fmt.Sprintf("broker=%d", id)
			o.ItemsBack = append(o.ItemsBack, k)
			for _, d := range dirs {
				if d.ErrorCode != sarama.ErrNoError {
					o.ItemErrs[k] = int16(d.ErrorCode)
				}
			}
		}
		return err
	}
	o.EngineErr = "unknown op " + cs.Op
	return nil
}

// carries: does err report the broker's error code – as the KError itself, inside one of the
// wrappers the operations use (*TopicError, *TopicPartitionError, MultiError of ErrReassignPartitions /
// ErrDeleteRecords), through errors.Is, or at least by the code's text (AlterPartitionReassignments
// and DeleteRecords flatten the codes into strings).
func carries(err error, code sarama.KError) bool {
	if err == nil {
		return false
	}
	if errors.Is(err, code) {
		return true
	}
	switch e := err.(type) {
	case sarama.KError:
		return e == code
	case *sarama.TopicError:
		return e.Err == code
	case *sarama.TopicPartitionError:
		return e.Err == code
	case sarama.ErrReassignPartitions:
		return multiCarries(e.MultiError, code)
	case sarama.ErrDeleteRecords:
		return multiCarries(e.MultiError, code)
	case sarama.MultiError:
		return multiCarries(e, code)
	}
	return strings.Contains(err.Error(), code.Error())
}

func multiCarries(m sarama.MultiError, code sarama.KError) bool {
	if m.Errors == nil {
		return false
	}
	for _, e := range *m.Errors {
		if carries(e, code) {
			return true
		}
	}
	return false
}

// ------------------------------------------------------------------------------------------------
// reference model of the controller-bound part of the property

type refOut struct {
	Brokers []int32
	Outcome string // ok | kerr | inc | conn
	Code    int16
}

func (r refOut) String() string {
	s := fmt.Sprintf("requests→%v, result=%s", r.Brokers, r.Outcome)
	if r.Outcome == "kerr" {
		s += fmt.Sprintf("(%d)", r.Code)
	}
	return s
}

// refCtl: what an admin with `attempts` tries must do against the script (entries past the end = ok).
func refCtl(script []Sym, attempts int, ctrl0 int32) refOut {
	ctrl := int32(1)
	if ctrl0 == 2 {
		ctrl = 2
	}
	out := refOut{Outcome: "none"}
	for i := 0; i < attempts; i++ {
		s := Sym{Kind: "ok"}
		if i < len(script) {
			s = script[i]
		}
		out.Brokers = append(out.Brokers, ctrl)
		switch s.Kind {
		case "ok":
			out.Outcome = "ok"
			return out
		case "ncm":
			ctrl = 3 - ctrl
			out.Outcome, out.Code = "kerr", int16(sarama.ErrNotController)
		case "ncn":
			out.Outcome, out.Code = "kerr", int16(sarama.ErrNotController)
		case "err":
			out.Outcome, out.Code = "kerr", s.Code
			return out
		case "inc":
			out.Outcome = "inc"
			return out
		case "drop":
			out.Outcome = "conn"
			return out
		}
	}
	return out
}

func sameBrokers(log []ReqRec, want []int32) bool {
	if len(log) != len(want) {
		return false
	}
	for i := range log {
		if log[i].Broker != want[i] || strings.HasPrefix(log[i].Answer, "misrouted") {
			return false
		}
	}
	return true
}

func outcomeMatches(r refOut, err error) bool {
	switch r.Outcome {
	case "ok":
		return err == nil
	case "kerr":
		return err != nil && carries(err, sarama.KError(r.Code))
	case "inc", "conn":
		return err != nil
	}
	return false
}

// budgets: "within Admin.Retry.Max" – the field is documented as the number of *retries* (Max+1
// tries), the pinned implementation makes Max tries; the property text does not decide between the
// two, so either is accepted – but at least one try is always within the budget (Validate accepts 0).
func budgets(retryMax int) []int {
	if retryMax <= 0 {
		return []int{1}
	}
	return []int{retryMax, retryMax + 1}
}

func logString(log []ReqRec) string {
	var s []string
	for _, r := range log {
		s = append(s, fmt.Sprintf("#%d b%d %s v%d %v → %s", r.Seq, r.Broker, r.Kind, r.Version, r.Items, r.Answer))
	}
	if len(s) == 0 {
		return "(no request of the operation reached any broker)"
	}
	return strings.Join(s, "; ")
}

func symOfAnswer(a string) string {
	a = strings.TrimPrefix(a, "misrouted:")
	if i := strings.IndexAny(a, "(@"); i >= 0 {
		a = a[:i]
	}
	return a
}

func judgeCtl(cs *Case, o *Obs) (fs []Finding, matchedBudget []int) {
	op := cs.Op
	n := len(o.Log)
	desc := fmt.Sprintf("op=%s version=%s Retry.Max=%d initial-controller=b%d script=%v: returned %s; request log: %s", op, cs.Version, cs.RetryMax, max(cs.Ctrl0, 1), cs.Script, errString(o.Err), logString(o.Log))
	for _, r := range o.Log {
		if r.Kind != reqKind[op] {
			fs = append(fs, Finding{Signature: "wrong-request-kind op=" + op, Message: desc})
			return
		}
	}
	if !supported(op, cs.Version) {
		switch {
		case n > 0:
			fs = append(fs, Finding{Signature: fmt.Sprintf("request-sent-for-unsupported-version op=%s version=%s", op, cs.Version), Message: desc})
		case o.Err == nil && cs.RetryMax == 0:
			fs = append(fs, Finding{Signature: "retrymax0-success-without-request op=" + op, Message: "brokers of this version do not know the operation, yet: " + desc})
		case o.Err == nil:
			fs = append(fs, Finding{Signature: fmt.Sprintf("success-for-unsupported-version op=%s version=%s", op, cs.Version), Message: desc})
		}
		return
	}
	for _, r := range o.Log {
		if max, ok := apiMaxVersion[op][cs.Version]; ok && (r.Version > max || r.Version < 0) {
			fs = append(fs, Finding{Signature: fmt.Sprintf("request-version-too-new op=%s version=%s", op, cs.Version), Message: fmt.Sprintf("request v%d, a %s broker knows ≤ v%d; %s", r.Version, cs.Version, max, desc)})
			return
		}
	}
	var refs []string
	for _, a := range budgets(cs.RetryMax) {
		r := refCtl(cs.Script, a, cs.Ctrl0)
		refs = append(refs, fmt.Sprintf("with %d tries: %s", a, r))
		if sameBrokers(o.Log, r.Brokers) && outcomeMatches(r, o.Err) {
			matchedBudget = append(matchedBudget, a)
		}
	}
	if len(matchedBudget) > 0 {
		return
	}
	// ---- classify the deviation
	msg := desc + "; the property demands " + strings.Join(refs, " or ")
	sig := ""
	last := ""
	if n > 0 {
		last = symOfAnswer(o.Log[n-1].Answer)
	}
	lastSym := Sym{}
	if n > 0 && n-1 < len(cs.Script) {
		lastSym = cs.Script[n-1]
	}
	misrouted := false
	retriedAfter := ""
	for i, r := range o.Log {
		if strings.HasPrefix(r.Answer, "misrouted") {
			misrouted = true
		}
		if k := symOfAnswer(r.Answer); i < n-1 && k != "ncm" && k != "ncn" && retriedAfter == "" {
			retriedAfter = k
		}
	}
	switch {
	case n == 0 && o.Err == nil && cs.RetryMax == 0:
		sig = "retrymax0-success-without-request op=" + op
	case n == 0 && o.Err == nil:
		sig = "success-without-request op=" + op
	case n == 0:
		sig = "failure-without-request op=" + op
	case misrouted:
		sig = "retry-misrouted-after-not-controller op=" + op
	case retriedAfter != "":
		sig = fmt.Sprintf("retried-after-%s op=%s", retriedAfter, op)
	case n > cs.RetryMax+1:
		sig = "retry-budget-exceeded op=" + op
	case o.Err == nil && last == "inc":
		sig = "incomplete-response-reported-as-success op=" + op
	case o.Err == nil && last == "err":
		sig = fmt.Sprintf("broker-error-reported-as-success op=%s code=%d", op, lastSym.Code)
		if lastSym.Pos != "" {
			sig += " pos=" + lastSym.Pos
		}
	case o.Err == nil && (last == "ncm" || last == "ncn"):
		sig = "not-controller-reported-as-success op=" + op
	case o.Err == nil && last == "drop":
		sig = "connection-loss-reported-as-success op=" + op
	case o.Err != nil && last == "ok":
		sig = "failure-despite-acknowledgement op=" + op
	case (last == "ncm" || last == "ncn") && n < budgets(cs.RetryMax)[0]:
		sig = "not-controller-not-retried op=" + op
	case o.Err != nil && last == "err" && !carries(o.Err, sarama.KError(lastSym.Code)):
		sig = "broker-error-not-propagated op=" + op
	case o.Err != nil && (last == "ncm" || last == "ncn") && !carries(o.Err, sarama.ErrNotController):
		sig = "broker-error-not-propagated op=" + op
	default:
		sig = "other-deviation op=" + op
	}
	fs = append(fs, Finding{Signature: sig, Message: msg})
	return
}

// ------------------------------------------------------------------------------------------------
// leader / coordinator / broker-bound operations

// expectedPerBroker: which items each broker must be asked for – computed from the simulated
// leadership, not from anything sarama says.
func expectedPerBroker(cs *Case) map[int32][]string {
	m := map[int32][]string{}
	switch cs.Op {
	case "DeleteRecords":
		for i, b := range cs.Spread {
			m[b] = append(m[b], fmt.Sprintf("%s-%d@%d", topicName, i, 10+i))
		}
	case "DescribeConsumerGroups":
		for i, b := range cs.Spread {
			m[b] = append(m[b], groupName(i))
		}
	case "DeleteConsumerGroup":
		m[cs.Spread[0]] = []string{groupName(0)}
	case "ListConsumerGroupOffsets":
		it := []string{"group=" + groupName(0)}
		for i := range cs.Spread {
			it = append(it, fmt.Sprintf("%s-%d", topicName, i))
		}
		m[cs.Spread[0]] = it
	case "DescribeLogDirs":
		for _, b := range cs.Spread {
			m[b] = []string{fmt.Sprintf("broker=%d", b)}
		}
	case "ListConsumerGroups":
		for b := 1; b <= cs.NB; b++ {
			m[int32(b)] = []string{"all-groups"}
		}
	}
	for _, v := range m {
		sort.Strings(v)
	}
	return m
}

func faultItemKey(cs *Case) string {
	f := cs.Fault
	switch cs.Op {
	case "DescribeConsumerGroups":
		return groupName(f.Item)
	case "ListConsumerGroupOffsets":
		if f.Kind == "top" {
			return "top"
		}
		return fmt.Sprintf("%s-%d", topicName, f.Item)
	case "DescribeLogDirs":
		return fmt.Sprintf("broker=%d", f.Broker)
	}
	return ""
}

func judgeLead(cs *Case, o *Obs) (fs []Finding) {
	op := cs.Op
	desc := fmt.Sprintf("op=%s version=%s brokers=%d spread=%v fault=%+v: returned %s, errors visible in the result %v, items in the result %v; request log: %s",
		op, cs.Version, cs.NB, cs.Spread, cs.Fault, errString(o.Err), o.ItemErrs, o.ItemsBack, logString(o.Log))
	add := func(sig string) { fs = append(fs, Finding{Signature: sig, Message: desc}) }
	if !supported(op, cs.Version) {
		if len(o.Log) > 0 {
			add(fmt.Sprintf("request-sent-for-unsupported-version op=%s version=%s", op, cs.Version))
		} else if o.Err == nil {
			add(fmt.Sprintf("success-for-unsupported-version op=%s version=%s", op, cs.Version))
		}
		return
	}
	want := expectedPerBroker(cs)
	seen := map[int32]bool{}
	for _, r := range o.Log {
		if r.Kind != reqKind[op] {
			add("wrong-request-kind op=" + op)
			return
		}
		if max, ok := apiMaxVersion[op][cs.Version]; ok && r.Version > max {
			add(fmt.Sprintf("request-version-too-new op=%s version=%s", op, cs.Version))
			return
		}
		w, ok := want[r.Broker]
		switch {
		case !ok:
			add("request-to-broker-that-leads-nothing op=" + op)
			return
		case seen[r.Broker]:
			add("broker-asked-twice op=" + op)
			return
		case strings.Join(w, ",") != strings.Join(r.Items, ","):
			add("request-items-differ-from-leadership op=" + op)
			return
		}
		seen[r.Broker] = true
	}
	f := cs.Fault
	visible := o.Err != nil
	switch f.Kind {
	case "", "none":
		if o.Err != nil {
			add("failure-without-fault op=" + op)
			return
		}
		if len(o.ItemErrs) > 0 {
			add("error-in-result-without-fault op=" + op)
			return
		}
	case "item", "top":
		if k := faultItemKey(cs); k != "" && !visible {
			if c, ok := o.ItemErrs[k]; ok && c == f.Code {
				visible = true
			}
		}
		if !visible {
			add(fmt.Sprintf("item-error-not-reported op=%s code=%d", op, f.Code))
			return
		}
	case "drop":
		if !visible {
			add("broker-failure-not-reported op=" + op)
			return
		}
	case "inc":
		if !visible {
			add("incomplete-response-reported-as-success op=" + op)
			return
		}
	}
	if o.Err == nil {
		// success claimed (possibly with item errors inside the result): every leader must have been asked
		for b := range want {
			if !seen[b] {
				add("leader-never-asked op=" + op)
				return
			}
		}
		// and the value handed back must cover every item asked for
		var wantBack []string
		switch op {
		case "DescribeConsumerGroups":
			for i := range cs.Spread {
				wantBack = append(wantBack, groupName(i))
			}
		case "ListConsumerGroupOffsets":
			for i := range cs.Spread {
				wantBack = append(wantBack, fmt.Sprintf("%s-%d", topicName, i))
			}
		case "DescribeLogDirs":
			for _, b := range cs.Spread {
				wantBack = append(wantBack, fmt.Sprintf("broker=%d", b))
			}
		case "ListConsumerGroups":
			for b := 1; b <= cs.NB; b++ {
				wantBack = append(wantBack, fmt.Sprintf("grp-b%d", b))
			}
		}
		got := append([]string(nil), o.ItemsBack...)
		sort.Strings(got)
		sort.Strings(wantBack)
		if wantBack != nil && strings.Join(got, ",") != strings.Join(wantBack, ",") {
			add("result-items-differ-from-request op=" + op)
		}
	}
	return
}

// judgeContent: INFO only (outside the property): does the request carry the caller's validateOnly.
func judgeContent(cs *Case, o *Obs) (fs []Finding) {
	for _, r := range o.Log {
		if cs.ValidateOnly && strings.Contains(r.Detail, "validateOnly=false") {
			fs = append(fs, Finding{Info: true, Signature: fmt.Sprintf("INFO validateOnly-dropped op=%s version=%s request=v%d", cs.Op, cs.Version, r.Version),
				Message: "caller asked validateOnly=true, the request on the wire says false: " + r.Detail})
		}
	}
	return
}

type Verdict struct {
	Findings   []Finding
	Nontrivial bool  // at least one request of the operation reached a simulated broker
	Budgets    []int // controller-bound: which try budgets explain the observation
	Outcome    string
}

func judge(cs *Case, o *Obs) Verdict {
	v := Verdict{Nontrivial: len(o.Log) > 0}
	switch {
	case o.EngineErr != "":
		v.Findings = append(v.Findings, Finding{Signature: "ENGINE", Message: o.EngineErr})
		return v
	case o.Panic != "":
		v.Findings = append(v.Findings, Finding{Signature: "panic-or-deadlock op=" + cs.Op, Message: fmt.Sprintf("%s\ncase %s", o.Panic, cs.Key())})
		return v
	case o.NewErr != nil:
		v.Findings = append(v.Findings, Finding{Signature: "ENGINE", Message: "NewClusterAdmin failed against a healthy cluster: " + o.NewErr.Error()})
		return v
	}
	if cs.NB == 0 {
		v.Findings, v.Budgets = judgeCtl(cs, o)
		if cs.Fam == "content" {
			v.Findings = append(v.Findings, judgeContent(cs, o)...)
		}
	} else {
		v.Findings = judgeLead(cs, o)
	}
	// abstract outcome (for the count of distinct observed behaviours)
	var bs []string
	for _, r := range o.Log {
		bs = append(bs, fmt.Sprintf("b%d:%s", r.Broker, symOfAnswer(r.Answer)))
	}
	res := "nil"
	if o.Err != nil {
		res = fmt.Sprintf("%T", o.Err)
		var k sarama.KError
		if errors.As(o.Err, &k) {
			res += fmt.Sprintf("(%d)", int16(k))
		}
	}
	v.Outcome = fmt.Sprintf("%s|%s|%s|%d", cs.Op, strings.Join(bs, ","), res, len(o.ItemErrs))
	return v
}
