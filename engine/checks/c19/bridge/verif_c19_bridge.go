//go:build verif

package sarama

// Bridge of check C19 (added to package sarama through the overlay of this check only).

// VerifAlterReassignBlocks exposes the unexported per-partition blocks of an
// AlterPartitionReassignmentsRequest: topic → partition → replicas.
func VerifAlterReassignBlocks(r *AlterPartitionReassignmentsRequest) map[string]map[int32][]int32 {
	out := map[string]map[int32][]int32{}
	for t, ps := range r.blocks {
		out[t] = map[int32][]int32{}
		for p, b := range ps {
			out[t][p] = append([]int32(nil), b.replicas...)
		}
	}
	return out
}
