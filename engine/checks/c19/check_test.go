package c19

import (
	"encoding/binary"
	"encoding/json"
	"fmt"
	"hash/fnv"
	"os"
	"os/exec"
	"path/filepath"
	"runtime"
	"sort"
	"strconv"
	"strings"
	"sync"
	"sync/atomic"
	"testing"
	"time"

	"verif/engine/ev"
)

var exitCode = 3

func TestMain(m *testing.M) {
	m.Run()
	os.Exit(exitCode)
}

type Example struct {
	Case    Case   `json:"case"`
	Message string `json:"message"`
}

type SigAgg struct {
	Count    int       `json:"count"`
	Info     bool      `json:"info,omitempty"`
	Examples []Example `json:"examples"`
}

type ShardResult struct {
	Shard       int `json:"shard"`
	Assigned    int `json:"assigned"`
	Evaluations int `json:"evaluations"`
	Nontrivial  int `json:"nontrivial"`
	sampled     map[string]int
	hashes      []uint64                 // canonical hashes of the non-trivial cases (written to a binary side file)
	PerFam      map[string]int           `json:"per_fam"`
	PerOp       map[string]int           `json:"per_op"`
	Outcomes    map[string]int           `json:"outcomes"`
	Budget      map[string]int           `json:"budget"`
	ReqVersions map[string]bool          `json:"req_versions"`
	Sigs        map[string]*SigAgg       `json:"sigs"`
	Leaked      int                      `json:"leaked"`
	Samples     []map[string]interface{} `json:"samples"`
	Cut         bool                     `json:"cut"`
	Hang        string                   `json:"hang,omitempty"`
	Engine      []string                 `json:"engine,omitempty"`
}

func newShardResult(shard int) *ShardResult {
	return &ShardResult{Shard: shard, PerFam: map[string]int{}, PerOp: map[string]int{}, Outcomes: map[string]int{}, Budget: map[string]int{},
		ReqVersions: map[string]bool{}, Sigs: map[string]*SigAgg{}}
}

func hash64(s string) uint64 { h := fnv.New64a(); h.Write([]byte(s)); return h.Sum64() }

func (r *ShardResult) record(cs *Case, o *Obs, v Verdict) {
	r.Evaluations++
	r.PerFam[cs.Fam]++
	r.PerOp[cs.Op]++
	if v.Nontrivial {
		r.Nontrivial++
		r.hashes = append(r.hashes, hash64(cs.Key()))
	}
	r.Outcomes[v.Outcome]++
	if o.Leaked {
		r.Leaked++
	}
	if cs.NB == 0 && cs.RetryMax > 0 && len(v.Budgets) > 0 {
		k := "tries=Max+1 only"
		switch {
		case len(v.Budgets) == 2:
			k = "indifferent"
		case v.Budgets[0] == cs.RetryMax:
			k = "tries=Max only"
		}
		r.Budget[cs.Op+": "+k]++
	}
	for _, q := range o.Log {
		r.ReqVersions[fmt.Sprintf("%s@%s→%s.v%d", cs.Op, cs.Version, q.Kind, q.Version)] = true
	}
	for _, f := range v.Findings {
		if f.Signature == "ENGINE" {
			if len(r.Engine) < 5 {
				r.Engine = append(r.Engine, f.Message+" case="+cs.Key())
			}
			continue
		}
		a := r.Sigs[f.Signature]
		if a == nil {
			a = &SigAgg{Info: f.Info}
			r.Sigs[f.Signature] = a
		}
		a.Count++
		// keep the two shortest cases of each signature
		a.Examples = append(a.Examples, Example{Case: *cs, Message: f.Message})
		sort.SliceStable(a.Examples, func(i, j int) bool { return exampleRank(&a.Examples[i].Case) < exampleRank(&a.Examples[j].Case) })
		if len(a.Examples) > 2 {
			a.Examples = a.Examples[:2]
		}
	}
	if v.Nontrivial && len(o.Log) > r.sampled[cs.Op] { // per operation keep the case with the longest request log
		if r.sampled == nil {
			r.sampled = map[string]int{}
		}
		r.sampled[cs.Op] = len(o.Log)
		smp := map[string]interface{}{"op": cs.Op, "n": len(o.Log), "case": cs, "returned": errString(o.Err), "requests": logString(o.Log)}
		if len(o.ItemErrs) > 0 {
			smp["item_errors_in_result"] = o.ItemErrs
		}
		kept := r.Samples[:0]
		for _, x := range r.Samples {
			if x["op"] != cs.Op {
				kept = append(kept, x)
			}
		}
		r.Samples = append(kept, smp)
	}
}

func rotate(idx []int, seed int) []int {
	if len(idx) > 0 && seed != 0 {
		k := (seed * 7919) % len(idx)
		if k < 0 {
			k += len(idx)
		}
		idx = append(append([]int(nil), idx[k:]...), idx[:k]...)
	}
	return idx
}

// runShard: a worker process evaluates the cases whose index ≡ shard (mod nshards).
func runShard(t *testing.T, spec string) {
	var shard, nshards int
	fmt.Sscanf(spec, "%d/%d", &shard, &nshards)
	out := os.Getenv("VERIF_C19_OUT")
	dl, _ := strconv.ParseInt(os.Getenv("VERIF_C19_DEADLINE"), 10, 64)
	cases, _, _ := enumerate(ev.Tier(), func(i int) bool { return i%nshards == shard })
	// visiting order: a stride permutation (so that a run cut by the deadline has seen every family),
	// rotated by VERIF_SEED; order never selects a subset
	n := len(cases)
	stride := 1
	for _, p := range []int{7919, 7927, 7933, 7937, 7949} {
		if n > 0 && n%p != 0 {
			stride = p
			break
		}
	}
	order := make([]int, n)
	for i := range order {
		order[i] = (i * stride) % n
	}
	order = rotate(order, ev.Seed())
	res := newShardResult(shard)
	res.Assigned = len(cases)
	var mu sync.Mutex
	write := func() {
		hb := make([]byte, 8*len(res.hashes))
		for i, h := range res.hashes {
			binary.LittleEndian.PutUint64(hb[8*i:], h)
		}
		_ = os.WriteFile(out+".hashes", hb, 0o644)
		b, _ := json.Marshal(res)
		_ = os.WriteFile(out+".tmp", b, 0o644)
		_ = os.Rename(out+".tmp", out)
	}
	// watchdog (real time, outside every bubble): a case that does not finish in 60 s is a hang
	var curStart atomic.Int64
	var curIdx atomic.Int64
	curIdx.Store(-1)
	go func() {
		for {
			time.Sleep(2 * time.Second)
			s, i := curStart.Load(), curIdx.Load()
			if i >= 0 && s > 0 && time.Now().UnixNano()-s > int64(60*time.Second) {
				mu.Lock()
				res.Hang = cases[i].Key()
				res.Cut = true
				write()
				os.Exit(0)
			}
		}
	}()
	for _, i := range order {
		if dl > 0 && time.Now().UnixMilli() > dl {
			res.Cut = true
			break
		}
		cs := &cases[i]
		curIdx.Store(int64(i))
		curStart.Store(time.Now().UnixNano())
		o := runCase(t, cs)
		v := judge(cs, o)
		mu.Lock()
		res.record(cs, o, v)
		mu.Unlock()
	}
	curIdx.Store(-1)
	mu.Lock()
	write()
	mu.Unlock()
	exitCode = 0
}

func replay(t *testing.T, path string) int {
	b, err := os.ReadFile(path)
	if err != nil {
		fmt.Println("ENGINE-ERROR cannot read", path, err)
		return 3
	}
	var v struct {
		Signature string `json:"signature"`
		Replay    Case   `json:"replay"`
	}
	if err := json.Unmarshal(b, &v); err != nil || v.Replay.Op == "" {
		fmt.Println("ENGINE-ERROR not a C19 violation artefact:", path, err)
		return 3
	}
	cs := &v.Replay
	fmt.Printf("REPLAY property=C19 case=%s\n", cs.Key())
	o := runCase(t, cs)
	vd := judge(cs, o)
	fmt.Printf("  returned: %s\n  requests: %s\n  metadata requests=%d coordinator lookups=%d leaked-broker-goroutines=%v\n", errString(o.Err), logString(o.Log), o.NMeta, o.NCoord, o.Leaked)
	bad := 0
	for _, f := range vd.Findings {
		if f.Signature == "ENGINE" {
			fmt.Println("ENGINE-ERROR", f.Message)
			return 3
		}
		if f.Info {
			fmt.Printf("  INFO %s: %s\n", f.Signature, f.Message)
			continue
		}
		bad++
		fmt.Printf("  STILL VIOLATES signature=%s\n  %s\n", f.Signature, f.Message)
	}
	if bad > 0 {
		if vd.Findings[0].Signature != v.Signature {
			fmt.Printf("  (recorded signature was %q)\n", v.Signature)
		}
		return 1
	}
	fmt.Println("  no violation: the property holds on this case now")
	return 0
}

func TestCheck(t *testing.T) {
	if p := os.Getenv("VERIF_REPLAY"); p != "" {
		exitCode = replay(t, p)
		return
	}
	if s := os.Getenv("VERIF_C19_SHARD"); s != "" {
		runShard(t, s)
		return
	}
	c := ev.NewCheck("C19", "fault_enumeration")
	tier := ev.Tier()
	_, _, ncases := enumerate(tier, func(int) bool { return false })
	nproc := runtime.NumCPU()
	if nproc > 16 {
		nproc = 16
	}
	if v, err := strconv.Atoi(os.Getenv("VERIF_C19_PROCS")); err == nil && v > 0 {
		nproc = v
	}
	// worker processes are short-lived (≤ ~20 000 executions each): sarama leaks one broker goroutine per
	// controller refresh (see executions_with_leaked_broker_goroutines), which must not pile up.
	nsh := (ncases + 19999) / 20000
	if nsh < nproc {
		nsh = nproc
	}
	budget := ev.Deadline(45*time.Second, 9*time.Minute)
	deadline := time.Now().Add(budget)
	dir := filepath.Join(ev.Root(), ".build", "c19", fmt.Sprintf("run-%d", os.Getpid()))
	_ = os.MkdirAll(dir, 0o755)
	defer os.RemoveAll(dir)
	fmt.Printf("C19: %d cases (tier %s) in %d shards, %d worker processes at a time, internal deadline %s\n", ncases, tier, nsh, nproc, budget)
	var wg sync.WaitGroup
	results := make([]*ShardResult, nsh)
	hashFiles := make([]string, nsh)
	queue := make(chan int, nsh)
	shardOrder := make([]int, nsh)
	for i := range shardOrder {
		shardOrder[i] = i
	}
	for _, s := range rotate(shardOrder, ev.Seed()) {
		queue <- s
	}
	close(queue)
	notStarted := int32(0)
	for w := 0; w < nproc; w++ {
		wg.Add(1)
		go func() {
			defer wg.Done()
			for s := range queue {
				if time.Now().After(deadline) {
					atomic.AddInt32(&notStarted, 1)
					continue
				}
				out := filepath.Join(dir, fmt.Sprintf("shard-%d.json", s))
				cmd := exec.Command(os.Args[0], "-test.run", "^TestCheck$", "-test.timeout", "0")
				cmd.Env = append(os.Environ(), fmt.Sprintf("VERIF_C19_SHARD=%d/%d", s, nsh), "VERIF_C19_OUT="+out,
					fmt.Sprintf("VERIF_C19_DEADLINE=%d", deadline.UnixMilli()), "VERIF_TIER="+tier)
				outb, err := cmd.CombinedOutput()
				b, rerr := os.ReadFile(out)
				if rerr != nil {
					c.EngineError(fmt.Sprintf("shard %d produced no result (%v): %s", s, err, tailStr(string(outb), 1500)))
					continue
				}
				r := &ShardResult{}
				if jerr := json.Unmarshal(b, r); jerr != nil {
					c.EngineError(fmt.Sprintf("shard %d result unreadable: %v", s, jerr))
					continue
				}
				if err != nil && r.Hang == "" {
					c.EngineError(fmt.Sprintf("shard %d died (%v): %s", s, err, tailStr(string(outb), 1500)))
				}
				results[s] = r
				hashFiles[s] = out + ".hashes"
			}
		}()
	}
	wg.Wait()

	// ---- merge
	total := newShardResult(-1)
	distinct := map[uint64]struct{}{}
	cut := false
	for s, r := range results {
		if r == nil {
			cut = true
			continue
		}
		if hb, err := os.ReadFile(hashFiles[s]); err == nil {
			for i := 0; i+8 <= len(hb); i += 8 {
				distinct[binary.LittleEndian.Uint64(hb[i:])] = struct{}{}
			}
		}
		total.Evaluations += r.Evaluations
		total.Leaked += r.Leaked
		total.Nontrivial += r.Nontrivial
		for k, n := range r.PerFam {
			total.PerFam[k] += n
		}
		for k, n := range r.PerOp {
			total.PerOp[k] += n
		}
		for k, n := range r.Outcomes {
			total.Outcomes[k] += n
		}
		for k, n := range r.Budget {
			total.Budget[k] += n
		}
		for k := range r.ReqVersions {
			total.ReqVersions[k] = true
		}
		for _, e := range r.Engine {
			c.EngineError(e)
		}
		if r.Hang != "" {
			var cs Case
			_ = json.Unmarshal([]byte(r.Hang), &cs)
			c.Report(ev.Violation{Signature: "hang op=" + cs.Op, Check: "c19/" + cs.Fam, Message: "the operation did not return within 60 s of wall time (fake clock: no timer can be the cause): " + r.Hang, Replay: cs})
		}
		cut = cut || r.Cut
		for sig, a := range r.Sigs {
			t := total.Sigs[sig]
			if t == nil {
				t = &SigAgg{Info: a.Info}
				total.Sigs[sig] = t
			}
			t.Count += a.Count
			t.Examples = append(t.Examples, a.Examples...)
		}
		for _, s := range r.Samples { // per operation the case with the longest request log
			op, _ := s["op"].(string)
			n, _ := s["n"].(float64)
			if total.sampled == nil {
				total.sampled = map[string]int{}
			}
			if int(n) > total.sampled[op] {
				total.sampled[op] = int(n)
				kept := total.Samples[:0]
				for _, x := range total.Samples {
					if x["op"] != op {
						kept = append(kept, x)
					}
				}
				total.Samples = append(kept, s)
			}
		}
	}
	var sigs []string
	for s := range total.Sigs {
		sigs = append(sigs, s)
	}
	sort.Strings(sigs)
	vcount := map[string]int{}
	var infos []string
	for _, s := range sigs {
		a := total.Sigs[s]
		if a.Info {
			infos = append(infos, fmt.Sprintf("%s x%d — %s", s, a.Count, a.Examples[0].Message))
			continue
		}
		vcount[s] = a.Count
		sort.SliceStable(a.Examples, func(i, j int) bool { return exampleRank(&a.Examples[i].Case) < exampleRank(&a.Examples[j].Case) })
		n := len(a.Examples)
		if n > 2 {
			n = 2
		}
		// one replayable example per signature is always written (known findings get no artefact from ev.Report)
		if eb, err := json.MarshalIndent(ev.Violation{Property: "C19", Signature: s, Check: "c19/" + a.Examples[0].Case.Fam, Message: a.Examples[0].Message, Replay: a.Examples[0].Case}, "", " "); err == nil {
			d := filepath.Join(ev.Root(), "out", "C19")
			_ = os.MkdirAll(d, 0o755)
			_ = os.WriteFile(filepath.Join(d, fmt.Sprintf("example-%016x.json", hash64(s))), eb, 0o644)
		}
		for _, e := range a.Examples[:n] { // the shortest cases of each signature become artefacts
			c.Report(ev.Violation{Signature: s, Check: "c19/" + e.Case.Fam, Message: fmt.Sprintf("%s   [%d cases with this signature]", e.Message, a.Count), Replay: e.Case})
		}
	}
	pl := tierPlan(tier)
	limited := fmt.Sprintf("Retry.Max=%v: all scripts of length ≤ Max+2 (6^0+…+6^7 = 335 923 per operation and version), every supported version", pl.retryMaxLimited)
	if pl.nonNC >= 0 {
		limited = fmt.Sprintf("Retry.Max=%v: scripts of length ≤ Max+2 restricted to ≤ %d entries that are not NOT_CONTROLLER (the full product is enumerated by the thorough tier), every supported version", pl.retryMaxLimited, pl.nonNC)
	}
	c.Set("evaluations", total.Evaluations)
	c.Set("cases_enumerated", ncases)
	c.Set("distinct_nontrivial", len(distinct))
	c.Set("nontrivial_evaluations", total.Nontrivial)
	if n := atomic.LoadInt32(&notStarted); n > 0 {
		c.Set("shards_not_started_before_deadline", int(n))
	}
	c.Set("rule", "cases = (family, operation, Kafka version, Admin.Retry.Max, answer script | broker spread + single fault), enumerated exhaustively by nested products (cases.go), each executed once through the real sarama.NewClusterAdmin + operation inside a synctest bubble against a scripted in-memory cluster; distinct = FNV-64 of the canonical JSON of the case; non-trivial = at least one request of the operation under test reached a simulated broker and the oracle compared return value and per-broker request log with the reference model (cases where nothing must be sent – unsupported Kafka version – are evaluated but not counted as non-trivial)")
	c.Set("exhaustive", !cut && total.Evaluations == ncases)
	if cut {
		c.Set("cut", fmt.Sprintf("internal deadline reached: %d of %d cases evaluated (shards stride the list, so every family is covered proportionally)", total.Evaluations, ncases))
	}
	c.Set("bounds", map[string]interface{}{
		"controller_ops":            ctlOps,
		"leader_ops":                leadOps,
		"kafka_versions":            versions,
		"script_alphabet":           "ok | NOT_CONTROLLER+controller moves to the other broker | NOT_CONTROLLER without move | another error code in the per-topic (per-partition) result | incomplete response | connection drop",
		"retry_max_full_product":    pl.retryMaxFull,
		"initial_controller":        "broker 1 (= the seed broker) and broker 2 for Retry.Max ∈ {0,1,2}; broker 1 otherwise",
		"script_length":             "≤ Retry.Max+2",
		"retry_max_5":               limited,
		"error_code_sweep":          "every KError -1,1..88 in place of success after 0..2 controller moves (controller ops: per-topic result; AlterPartitionReassignments: top-level and per-partition, 1 and 2 partitions); every code as single item error of each leader-bound op",
		"leader_spreads":            "every map of 1–3 partitions/groups onto 1–3 brokers (DescribeLogDirs: every non-empty subset of 1–3 brokers; one-group operations: every coordinator × 1–3 partitions); faults: none | one item error (3 codes) | top-level error | one broker drops the connection | one broker answers without the topic/group",
		"brokers_controller_family": 2,
	})
	c.Set("per_family", total.PerFam)
	c.Set("per_operation", total.PerOp)
	c.Set("distinct_observed_outcomes", len(total.Outcomes))
	c.Set("distinct_observed_outcomes_note", "abstract outcome = (operation, sequence of (broker, answer kind) of its requests, type/code of the returned error, number of item errors in the result); the count varies slightly between runs because multi-broker operations iterate Go maps (request order) – verdicts do not depend on it")
	c.Set("try_budget_explaining_observation", total.Budget)
	var rv []string
	for k := range total.ReqVersions {
		rv = append(rv, k)
	}
	sort.Strings(rv)
	c.Set("request_versions_seen", rv)
	c.Set("violating_cases_by_signature", vcount)
	c.Set("executions_with_leaked_broker_goroutines", total.Leaked)
	if len(infos) > 0 {
		c.Set("info_outside_property", infos)
	}
	sort.Slice(total.Samples, func(i, j int) bool { // leader-bound operations first, DeleteTopic (a twin of CreateTopic) last
		rank := func(m map[string]interface{}) int {
			for k, op := range []string{"DeleteRecords", "DescribeConsumerGroups", "DescribeLogDirs", "AlterPartitionReassignments", "CreateTopic", "ListConsumerGroupOffsets", "DeleteConsumerGroup", "CreatePartitions", "DeleteTopic"} {
				if m["op"] == op {
					return k
				}
			}
			return 99
		}
		return rank(total.Samples[i]) < rank(total.Samples[j])
	})
	for _, s := range total.Samples {
		delete(s, "n")
		c.AddSample(s)
	}
	c.Assumptions = []string{
		"default goroutine schedule: the quantifier of C19 is over fault sequences, inputs and configurations, not schedules",
		"'within Admin.Retry.Max' is accepted as either Max tries (pinned code) or Max+1 tries (the field's documentation: number of retries); at least one try is always demanded",
		"an error 'reported' by a leader-bound operation = non-nil error, or the item's error code present in the returned value (ListConsumerGroupOffsets, DescribeConsumerGroups, DescribeLogDirs hand the broker's per-item codes back)",
		"'unchanged' = the broker's code is recognisable in the returned error: KError, *TopicError/*TopicPartitionError, errors.Is, or its text inside ErrReassignPartitions/ErrDeleteRecords",
	}
	fmt.Printf("C19: evaluations=%d distinct_nontrivial=%d distinct outcomes=%d exhaustive=%v leaked=%d\n", total.Evaluations, len(distinct), len(total.Outcomes), !cut && total.Evaluations == ncases, total.Leaked)
	fmt.Printf("C19: per family %v\n", total.PerFam)
	fmt.Printf("C19: try budget %v\n", total.Budget)
	for _, s := range sigs {
		fmt.Printf("C19: signature %q ×%d\n", s, total.Sigs[s].Count)
	}
	exitCode = c.Finish()
}

// exampleRank: shorter cases first; cases of the unsupported-version families last
func exampleRank(c *Case) int {
	n := len(c.Key())
	if strings.Contains(c.Fam, "unsupported") {
		n += 1000
	}
	return n
}

func tailStr(s string, n int) string {
	s = strings.TrimSpace(s)
	if len(s) > n {
		return "…" + s[len(s)-n:]
	}
	return s
}
