package c19

// Enumeration of the cases. A case is a plain value (JSON) – it is its own replay recipe.

import (
	"encoding/json"
	"fmt"
)

type Fault struct {
	Kind   string `json:"kind,omitempty"`   // "" (none) | item | top | drop | inc
	Item   int    `json:"item,omitempty"`   // index of the item that carries the error
	Broker int32  `json:"broker,omitempty"` // broker that drops / answers incompletely / reports the dir error
	Code   int16  `json:"code,omitempty"`
}

type Case struct {
	Fam          string  `json:"fam"`
	Op           string  `json:"op"`
	Version      string  `json:"version"`
	RetryMax     int     `json:"retry_max"`
	Script       []Sym   `json:"script,omitempty"`
	NParts       int     `json:"nparts,omitempty"` // AlterPartitionReassignments: partitions in the assignment
	Ctrl0        int32   `json:"ctrl0,omitempty"`  // controller-bound: the controller when the admin is created (0 = broker 1)
	ValidateOnly bool    `json:"validate_only,omitempty"`
	NB           int     `json:"nb,omitempty"`     // leader-bound: number of brokers
	Spread       []int32 `json:"spread,omitempty"` // leader-bound: item i is led / coordinated by broker Spread[i]; DescribeLogDirs: the broker ids asked
	Fault        Fault   `json:"fault,omitempty"`
	// IDBase0: controller-bound cases only: the cluster's brokers are numbered 0 and 1 instead of 1 and 2
	IDBase0 bool `json:"id_base_0,omitempty"`
	// Order: operations that ask several brokers at the same time (DescribeLogDirs, ListConsumerGroups): the order in which
	// the brokers' answers (or connection failures) are released, one at a time; empty = answered as the requests arrive
	Order []int32 `json:"order,omitempty"`
}

func (c *Case) Key() string {
	b, _ := json.Marshal(c)
	return string(b)
}

var versions = []string{"0.10.0.0", "0.10.2.0", "0.11.0.0", "1.0.0.0", "2.4.0.0"}

// What a broker of each release understands (Kafka protocol facts, independent of sarama's tables):
// minimum release per API and the highest request version of the API in each release of `versions`.
var apiMin = map[string]string{
	"CreateTopic": "0.10.1.0", "DeleteTopic": "0.10.1.0", "CreatePartitions": "1.0.0.0", "AlterPartitionReassignments": "2.4.0.0",
	"DeleteRecords": "0.11.0.0", "ListConsumerGroupOffsets": "0.8.2.0", "DescribeConsumerGroups": "0.9.0.0",
	"DeleteConsumerGroup": "1.1.0.0", "DescribeLogDirs": "1.0.0.0", "ListConsumerGroups": "0.9.0.0",
}

var apiMaxVersion = map[string]map[string]int16{
	"CreateTopic":                 {"0.10.2.0": 1, "0.11.0.0": 2, "1.0.0.0": 2, "2.4.0.0": 5},
	"DeleteTopic":                 {"0.10.2.0": 0, "0.11.0.0": 1, "1.0.0.0": 1, "2.4.0.0": 4},
	"CreatePartitions":            {"1.0.0.0": 0, "2.4.0.0": 1},
	"AlterPartitionReassignments": {"2.4.0.0": 0},
	"DeleteRecords":               {"0.11.0.0": 0, "1.0.0.0": 0, "2.4.0.0": 1},
	"ListConsumerGroupOffsets":    {"0.10.0.0": 1, "0.10.2.0": 2, "0.11.0.0": 3, "1.0.0.0": 3, "2.4.0.0": 6},
	"DescribeConsumerGroups":      {"0.10.0.0": 0, "0.10.2.0": 0, "0.11.0.0": 1, "1.0.0.0": 1, "2.4.0.0": 5},
	"DeleteConsumerGroup":         {"2.4.0.0": 2},
	"DescribeLogDirs":             {"1.0.0.0": 0, "2.4.0.0": 1},
	"ListConsumerGroups":          {"0.10.0.0": 0, "0.10.2.0": 0, "0.11.0.0": 1, "1.0.0.0": 1, "2.4.0.0": 3},
}

var reqKind = map[string]string{
	"CreateTopic": "CreateTopics", "DeleteTopic": "DeleteTopics", "CreatePartitions": "CreatePartitions",
	"AlterPartitionReassignments": "AlterPartitionReassignments", "DeleteRecords": "DeleteRecords",
	"ListConsumerGroupOffsets": "OffsetFetch", "DescribeConsumerGroups": "DescribeGroups",
	"DeleteConsumerGroup": "DeleteGroups", "DescribeLogDirs": "DescribeLogDirs", "ListConsumerGroups": "ListGroups",
}

func verLess(a, b string) bool {
	var x, y [4]int
	fmt.Sscanf(a, "%d.%d.%d.%d", &x[0], &x[1], &x[2], &x[3])
	fmt.Sscanf(b, "%d.%d.%d.%d", &y[0], &y[1], &y[2], &y[3])
	for i := 0; i < 4; i++ {
		if x[i] != y[i] {
			return x[i] < y[i]
		}
	}
	return false
}

func supported(op, version string) bool { return !verLess(version, apiMin[op]) }

var ctlOps = []string{"CreateTopic", "DeleteTopic", "CreatePartitions", "AlterPartitionReassignments"}
var leadOps = []string{"DeleteRecords", "ListConsumerGroupOffsets", "DescribeConsumerGroups", "DeleteConsumerGroup", "DescribeLogDirs"}

// the "another error" of the script alphabet, one realistic code per operation
var otherErr = map[string]int16{
	"CreateTopic": 36 /*TOPIC_ALREADY_EXISTS*/, "DeleteTopic": 3 /*UNKNOWN_TOPIC_OR_PARTITION*/, "CreatePartitions": 37, /*INVALID_PARTITIONS*/
	"AlterPartitionReassignments": 39, /*INVALID_REPLICA_ASSIGNMENT*/
}

func alphabet(op string) []Sym {
	a := []Sym{{Kind: "ok"}, {Kind: "ncm"}, {Kind: "ncn"}, {Kind: "err", Code: otherErr[op]}, {Kind: "inc"}, {Kind: "drop"}}
	if op == "AlterPartitionReassignments" {
		a[3].Pos = "item" // per-partition result, like the per-topic result of the other operations
	}
	return a
}

// scripts enumerates every script of length ≤ maxLen over alpha with at most maxNonNC entries that
// are not NOT_CONTROLLER (maxNonNC < 0: no limit), in prefix (depth-first) order.
func scripts(alpha []Sym, maxLen, maxNonNC int) [][]Sym {
	var out [][]Sym
	var rec func(cur []Sym, non int)
	rec = func(cur []Sym, non int) {
		out = append(out, append([]Sym(nil), cur...))
		if len(cur) == maxLen {
			return
		}
		for _, s := range alpha {
			n := non
			if s.Kind != "ncm" && s.Kind != "ncn" {
				n++
			}
			if maxNonNC >= 0 && n > maxNonNC {
				continue
			}
			rec(append(cur, s), n)
		}
	}
	rec(nil, 0)
	return out
}

// every error code sarama (and Kafka up to 2.6) defines
func allCodes() []int16 {
	cs := []int16{-1}
	for c := int16(1); c <= 88; c++ {
		cs = append(cs, c)
	}
	return cs
}

var reprCodes = []int16{-1, 3, 29} // UNKNOWN, UNKNOWN_TOPIC_OR_PARTITION, TOPIC_AUTHORIZATION_FAILED

type plan struct {
	retryMaxFull    []int // Retry.Max values whose scripts (length ≤ Max+2) are enumerated completely
	retryMaxLimited []int // Retry.Max values enumerated with ≤ nonNC entries that are not NOT_CONTROLLER
	nonNC           int
	limitedVersions func(op, v string) bool
}

func lowestSupported(op string) string {
	for _, v := range versions {
		if supported(op, v) {
			return v
		}
	}
	return ""
}

func tierPlan(tier string) plan {
	all := func(op, v string) bool { return true }
	if tier == "thorough" {
		// Retry.Max=5: the full product 6^0+…+6^7 = 335 923 scripts per operation and version
		return plan{retryMaxFull: []int{0, 1, 2}, retryMaxLimited: []int{5}, nonNC: -1, limitedVersions: all}
	}
	return plan{retryMaxFull: []int{0, 1, 2}, retryMaxLimited: []int{5}, nonNC: 2, limitedVersions: all}
}

// spreads: every function items(k) → brokers(nb), k,nb ∈ 1..3
func spreads(maxK int) (out []struct {
	nb int
	sp []int32
}) {
	for nb := 1; nb <= 3; nb++ {
		for k := 1; k <= maxK; k++ {
			n := 1
			for i := 0; i < k; i++ {
				n *= nb
			}
			for x := 0; x < n; x++ {
				sp := make([]int32, k)
				y := x
				for i := 0; i < k; i++ {
					sp[i] = int32(1 + y%nb)
					y /= nb
				}
				out = append(out, struct {
					nb int
					sp []int32
				}{nb, sp})
			}
		}
	}
	return
}

func brokersOf(sp []int32) []int32 {
	seen := map[int32]bool{}
	var out []int32
	for _, b := range sp {
		if !seen[b] {
			seen[b] = true
			out = append(out, b)
		}
	}
	return out
}

// enumerator visits the case list in a fixed order; a case is materialised only if want(index).
type enumerator struct {
	n    int
	want func(i int) bool
	out  []Case
	idx  []int
}

func (e *enumerator) add(c Case) {
	if e.want == nil || e.want(e.n) {
		e.out = append(e.out, c)
		e.idx = append(e.idx, e.n)
	}
	e.n++
}

// wanted reports cheaply whether the next case would be kept (to skip building it).
func (e *enumerator) wanted() bool { return e.want == nil || e.want(e.n) }

var scriptCache = map[string][][]Sym{}

func cachedScripts(op string, maxLen, maxNonNC int) [][]Sym {
	k := fmt.Sprintf("%s/%d/%d", op, maxLen, maxNonNC)
	if s, ok := scriptCache[k]; ok {
		return s
	}
	s := scripts(alphabet(op), maxLen, maxNonNC)
	scriptCache[k] = s
	return s
}

// enumerate lists the cases of a tier; want selects which indices are materialised (nil = all).
// It returns the kept cases, their indices and the total number of cases.
func enumerate(tier string, want func(i int) bool) ([]Case, []int, int) {
	pl := tierPlan(tier)
	e := &enumerator{want: want}
	// ---- family ctl-script: controller-bound operations × answer scripts
	for _, op := range ctlOps {
		for _, v := range versions {
			if !supported(op, v) {
				// no request may be sent at all: scripts are irrelevant, keep the short ones
				for _, rm := range []int{0, 1, 2, 5} {
					for _, s := range cachedScripts(op, 1, -1) {
						e.add(Case{Fam: "ctl-unsupported", Op: op, Version: v, RetryMax: rm, Script: s, NParts: 1})
					}
				}
				continue
			}
			for _, rm := range pl.retryMaxFull {
				for _, c0 := range []int32{1, 2} { // which broker is controller when the admin is created (the seed is always broker 1)
					for _, s := range cachedScripts(op, rm+2, -1) {
						if e.wanted() {
							e.add(Case{Fam: "ctl-script", Op: op, Version: v, RetryMax: rm, Script: s, NParts: 1, Ctrl0: c0})
						} else {
							e.n++
						}
					}
				}
			}
			if v == "2.4.0.0" {
				// the same with brokers numbered from 0 (short scripts): a controller move onto broker 0 is a move like any other
				for _, c0 := range []int32{1, 2} {
					for _, s := range cachedScripts(op, 3, -1) {
						if e.wanted() {
							e.add(Case{Fam: "ctl-script-id0", Op: op, Version: v, RetryMax: 2, Script: s, NParts: 1, Ctrl0: c0, IDBase0: true})
						} else {
							e.n++
						}
					}
				}
			}
			if pl.limitedVersions(op, v) {
				for _, rm := range pl.retryMaxLimited {
					fam := "ctl-script-limited"
					if pl.nonNC < 0 {
						fam = "ctl-script"
					}
					for _, s := range cachedScripts(op, rm+2, pl.nonNC) {
						if e.wanted() {
							e.add(Case{Fam: fam, Op: op, Version: v, RetryMax: rm, Script: s, NParts: 1, Ctrl0: 1})
						} else {
							e.n++
						}
					}
				}
			}
		}
	}
	// ---- family ctl-codes: every error code in place of success, after 0..2 controller moves
	for _, op := range ctlOps {
		for _, v := range []string{lowestSupported(op), "2.4.0.0"} {
			for _, code := range allCodes() {
				if code == 41 {
					continue // NOT_CONTROLLER is the ncn symbol of the script families
				}
				poss := []string{""}
				nparts := []int{1}
				if op == "AlterPartitionReassignments" {
					poss = []string{"top", "item"}
					nparts = []int{1, 2}
				}
				for _, pos := range poss {
					for _, np := range nparts {
						for nc := 0; nc <= 2; nc++ { // preceded by nc controller moves
							var s []Sym
							for i := 0; i < nc; i++ {
								s = append(s, Sym{Kind: "ncm"})
							}
							s = append(s, Sym{Kind: "err", Code: code, Pos: pos})
							e.add(Case{Fam: "ctl-codes", Op: op, Version: v, RetryMax: 3, Script: s, NParts: np, Ctrl0: 1})
						}
					}
				}
			}
			if v == "2.4.0.0" && lowestSupported(op) == v {
				break
			}
		}
	}
	type spread struct {
		nb int
		sp []int32
	}
	// ---- family lead-spread: leader/coordinator/broker-bound operations × spreads × single faults
	for _, op := range leadOps {
		for _, v := range versions {
			if !supported(op, v) {
				for _, sp := range spreads(2) {
					e.add(leadCase("lead-unsupported", op, v, sp.nb, sp.sp, Fault{}))
				}
				continue
			}
			var sps []spread
			switch op {
			case "DescribeLogDirs": // the broker ids asked: every non-empty ascending subset of 1..nb
				for nb := 1; nb <= 3; nb++ {
					for m := 1; m < 1<<nb; m++ {
						var ids []int32
						for b := 0; b < nb; b++ {
							if m&(1<<b) != 0 {
								ids = append(ids, int32(b+1))
							}
						}
						sps = append(sps, spread{nb, ids})
					}
				}
			case "ListConsumerGroupOffsets": // one group: coordinator ∈ 1..nb, 1..3 partitions asked (Spread repeats the coordinator)
				for nb := 1; nb <= 3; nb++ {
					for c := 1; c <= nb; c++ {
						for k := 1; k <= 3; k++ {
							sp := make([]int32, k)
							for i := range sp {
								sp[i] = int32(c)
							}
							sps = append(sps, spread{nb, sp})
						}
					}
				}
			case "DeleteConsumerGroup": // one group per call
				for nb := 1; nb <= 3; nb++ {
					for c := 1; c <= nb; c++ {
						sps = append(sps, spread{nb, []int32{int32(c)}})
					}
				}
			default:
				for _, sp := range spreads(3) {
					sps = append(sps, spread{sp.nb, sp.sp})
				}
			}
			for _, sp := range sps {
				e.add(leadCase("lead-spread", op, v, sp.nb, sp.sp, Fault{}))
				for i := range sp.sp {
					if op == "DescribeLogDirs" {
						break
					}
					for _, code := range reprCodes {
						e.add(leadCase("lead-spread", op, v, sp.nb, sp.sp, Fault{Kind: "item", Item: i, Code: code}))
					}
				}
				if op == "ListConsumerGroupOffsets" && !verLess(v, "0.10.2.0") {
					for _, code := range reprCodes {
						e.add(leadCase("lead-spread", op, v, sp.nb, sp.sp, Fault{Kind: "top", Code: code}))
					}
				}
				for _, b := range brokersOf(sp.sp) {
					e.add(leadCase("lead-spread", op, v, sp.nb, sp.sp, Fault{Kind: "drop", Broker: b}))
					if op == "DeleteRecords" || op == "DeleteConsumerGroup" {
						e.add(leadCase("lead-spread", op, v, sp.nb, sp.sp, Fault{Kind: "inc", Broker: b}))
					}
					if op == "DescribeLogDirs" {
						for _, code := range reprCodes {
							e.add(leadCase("lead-spread", op, v, sp.nb, sp.sp, Fault{Kind: "item", Broker: b, Code: code}))
						}
					}
				}
			}
		}
	}
	// ---- family lead-order: the operations that ask several brokers AT THE SAME TIME, with the brokers' answers released one
	// at a time in every order (which goroutine of the operation finishes last must not decide what the caller is told).
	// ListConsumerGroups is not among the operations the property names; it is judged only for "a broker that fails makes the
	// operation report an error" under connection-level failure
	for _, op := range []string{"DescribeLogDirs", "ListConsumerGroups"} {
		for _, v := range []string{"1.0.0.0", "2.4.0.0"} {
			for nb := 2; nb <= 3; nb++ {
				var ids []int32
				for b := 1; b <= nb; b++ {
					ids = append(ids, int32(b))
				}
				for _, ord := range perms(ids) {
					c := leadCase("lead-order", op, v, nb, ids, Fault{})
					c.Order = ord
					e.add(c)
					for _, b := range ids {
						c := leadCase("lead-order", op, v, nb, ids, Fault{Kind: "drop", Broker: b})
						c.Order = ord
						e.add(c)
						if op == "DescribeLogDirs" {
							c := leadCase("lead-order", op, v, nb, ids, Fault{Kind: "item", Broker: b, Code: reprCodes[0]})
							c.Order = ord
							e.add(c)
						}
					}
				}
			}
		}
	}
	// ---- family lead-codes: every error code for a single item on the smallest and on a 2-broker shape
	for _, op := range leadOps {
		v := "2.4.0.0"
		for _, code := range allCodes() {
			switch op {
			case "DescribeLogDirs":
				e.add(leadCase("lead-codes", op, v, 2, []int32{1, 2}, Fault{Kind: "item", Broker: 2, Code: code}))
			case "ListConsumerGroupOffsets":
				e.add(leadCase("lead-codes", op, v, 2, []int32{2, 2}, Fault{Kind: "item", Item: 1, Code: code}))
				e.add(leadCase("lead-codes", op, v, 2, []int32{2, 2}, Fault{Kind: "top", Code: code}))
			case "DeleteConsumerGroup":
				e.add(leadCase("lead-codes", op, v, 2, []int32{2}, Fault{Kind: "item", Item: 0, Code: code}))
			default:
				e.add(leadCase("lead-codes", op, v, 2, []int32{1, 2}, Fault{Kind: "item", Item: 1, Code: code}))
				e.add(leadCase("lead-codes", op, v, 1, []int32{1}, Fault{Kind: "item", Item: 0, Code: code}))
			}
		}
	}
	// ---- family content (INFO only): does the request carry what the caller asked
	for _, op := range []string{"CreateTopic", "CreatePartitions"} {
		for _, v := range versions {
			if supported(op, v) {
				e.add(Case{Fam: "content", Op: op, Version: v, RetryMax: 2, NParts: 1, ValidateOnly: true, Ctrl0: 1})
			}
		}
	}
	return e.out, e.idx, e.n
}

func leadCase(fam, op, v string, nb int, sp []int32, f Fault) Case {
	return Case{Fam: fam, Op: op, Version: v, RetryMax: 2, NB: nb, Spread: append([]int32(nil), sp...), Fault: f}
}

// perms: every permutation of l, in lexicographic order of positions.
func perms(l []int32) [][]int32 {
	if len(l) <= 1 {
		return [][]int32{append([]int32(nil), l...)}
	}
	var out [][]int32
	for i := range l {
		rest := append(append([]int32(nil), l[:i]...), l[i+1:]...)
		for _, p := range perms(rest) {
			out = append(out, append([]int32{l[i]}, p...))
		}
	}
	return out
}
