package c18

import (
	"testing"
	"time"

	"verif/engine/gx"
	"verif/engine/rigs/consrig"
	"verif/engine/rigs/prodrig"
)

func TestMain(m *testing.M)   { gx.Main(m) }
func TestWorker(t *testing.T) { gx.WorkerMain(t) }
func TestCheck(t *testing.T) {
	scs := append(prodrig.Scenarios("C18"), consrig.Scenarios("C18")...)
	gx.RunCheck(t, "C18", scs, 50*time.Second, 14*time.Minute, append(prodrig.Assumptions, consrig.Assumptions...))
}
