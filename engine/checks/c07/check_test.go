package c07

import (
	"testing"
	"time"

	"verif/engine/gx"
	"verif/engine/rigs/cgrig"
)

func TestMain(m *testing.M)   { gx.Main(m) }
func TestWorker(t *testing.T) { gx.WorkerMain(t) }
func TestCheck(t *testing.T) {
	gx.RunCheck(t, "C07", cgrig.Scenarios("C07"), 55*time.Second, 14*time.Minute, cgrig.Assumptions)
}
