package c14

import (
	"testing"
	"time"

	"verif/engine/gx"
	"verif/engine/rigs/brokrig"
)

func TestMain(m *testing.M)   { gx.Main(m) }
func TestWorker(t *testing.T) { gx.WorkerMain(t) }
func TestCheck(t *testing.T) {
	gx.RunCheck(t, "C14", brokrig.Scenarios(), 55*time.Second, 9*time.Minute, brokrig.Assumptions)
}
