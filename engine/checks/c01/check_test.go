package c01

import (
	"os"
	"testing"
	"time"

	"verif/engine/ev"
	"verif/engine/gx"
	_ "verif/engine/rigs/prodrig"
)

var exitCode = 3

func TestMain(m *testing.M) {
	m.Run()
	os.Exit(exitCode)
}

func TestWorker(t *testing.T) { gx.WorkerMain(t) }

func TestCheck(t *testing.T) {
	if os.Getenv("VERIF_WORKER") != "" {
		t.Skip()
	}
	if p := os.Getenv("VERIF_REPLAY"); p != "" {
		exitCode = gx.ReplayFile(t, p)
		return
	}
	c := ev.NewCheck("C01", "model_checking")
	e := gx.NewExplorer(c)
	e.Deadline = time.Now().Add(ev.Deadline(50*time.Second, 14*time.Minute))
	e.Accept = func(v ev.Violation) bool { return v.Property == "C01" }
	all := true
	for _, s := range scenarios() {
		_, ok := e.Explore(s.name, s.bound())
		all = all && ok
	}
	e.Summarize(all)
	exitCode = c.Finish()
}

type sc struct {
	name     string
	q, t     int
}

func (s sc) bound() int {
	if ev.Tier() == "thorough" {
		return s.t
	}
	return s.q
}

const gates = "pp.send,pp.fin,pp.flush,bridge.take,retryBatch.out"
const faults = "notleader,timeout-appended,fatal,missing,drop,drop-appended"

func scenarios() []sc {
	return []sc{
		{"prod?rm=1&nm=2&np=1&faults=" + faults + "&gates=" + gates, 2, 3},
		{"prod?idem=1&rm=1&nm=2&np=1&fm=2&ff=100&faults=" + faults + "&gates=" + gates, 2, 3},
	}
}
