package c11

import (
	"testing"
	"time"

	"verif/engine/ev"
	"verif/engine/gx"
	"verif/engine/rigs/consrig"
)

func TestMain(m *testing.M)   { gx.Main(m) }
func TestWorker(t *testing.T) { gx.WorkerMain(t) }
func TestCheck(t *testing.T) {
	gx.RunCheck(t, "C11", consrig.Scenarios("C11"), 55*time.Second, 10*time.Minute, consrig.Assumptions,
		func(t *testing.T, c *ev.Check, e *gx.Explorer) bool {
			fam := consrig.TxnFamily(ev.Tier() == "thorough")
			c.Set("txn_family_size", len(fam))
			done, ok := e.ExploreMany(fam, 0, 0)
			c.Set("txn_family_done", done)
			c.Set("txn_family_rule", "every well-formed transactional log of <= 4 (quick) / 6 (thorough) batches over {dA,dB,dN,cA,cB,aA,aB} x batches-per-fetch x every start offset x isolation level x every order of the aborted index x 2 protocol generations, each run through the real consumer with the default schedule")
			return ok
		})
}
