package c12

import (
	"testing"
	"time"

	"verif/engine/gx"
	"verif/engine/rigs/cgrig"
	"verif/engine/rigs/consrig"
	_ "verif/engine/rigs/omrig"
	"verif/engine/rigs/prodrig"
)

func TestMain(m *testing.M)   { gx.Main(m) }
func TestWorker(t *testing.T) { gx.WorkerMain(t) }

const omFaults = "notcoord,loading,toolarge,unknown,missing,drop,drop-committed"

func TestCheck(t *testing.T) {
	var scs []gx.Sc
	scs = append(scs, prodrig.Scenarios("C12")...)
	scs = append(scs, consrig.Scenarios("C12")...)
	scs = append(scs, cgrig.Scenarios("C12")...)
	scs = append(scs,
		gx.Sc{Name: "om?np=1&auto=1&ops=2&gates=om.flush.sent&faults=" + omFaults, Q: 3, T: 4},
		gx.Sc{Name: "om?np=2&auto=0&ops=1&gates=om.flush.sent&faults=" + omFaults, Q: 2, T: 3},
		// two partitions, auto-commit: Close releases a clean partition manager while the dirty sibling's final flush can still fail
		gx.Sc{Name: "om?np=2&auto=1&ops=1&gates=om.flush.sent&faults=drop,unknown,notcoord", Q: 3, T: 4},
		// unbuffered Errors() channels and a slow (but servicing) reader; Close may arrive while a manual Commit is reporting a failure
		gx.Sc{Name: "om?np=1&auto=0&ops=2&errbuf=0&slowerr=1&gates=om.flush.sent&faults=drop,unknown,toolarge", Q: 3, T: 4},
		gx.Sc{Name: "om?np=1&auto=1&ops=1&errbuf=0&slowerr=1&gates=om.flush.sent&faults=drop,unknown", Q: 3, T: 4},
	)
	as := append(append([]string{}, prodrig.Assumptions...), consrig.Assumptions...)
	as = append(as, cgrig.Assumptions...)
	as = append(as, "Close/AsyncClose is an action enabled at every decision point of these scenarios (closeany), in the documented order (children before parents), with the application servicing the output channels; a second Close follows on partition consumers, groups, offset managers and clients")
	gx.RunCheck(t, "C12", scs, 58*time.Second, 18*time.Minute, as)
}
