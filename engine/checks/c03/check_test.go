package c03

import (
	"fmt"
	"testing"
	"time"

	"verif/engine/ev"
	"verif/engine/gx"
	"verif/engine/rigs/consrig"
)

func TestMain(m *testing.M)   { gx.Main(m) }
func TestWorker(t *testing.T) { gx.WorkerMain(t) }
func TestCheck(t *testing.T) {
	gx.RunCheck(t, "C03", consrig.Scenarios("C03"), 55*time.Second, 10*time.Minute, consrig.Assumptions,
		func(t *testing.T, c *ev.Check, e *gx.Explorer) bool {
			fam := consrig.LayoutFamily(ev.Tier() == "thorough")
			c.Set("layout_family_size", len(fam))
			done, ok := e.ExploreMany(fam, 0, 0)
			c.Set("layout_family_done", done)
			c.Set("layout_family_rule", fmt.Sprint("every log of n records x every cut into batches x every format legal for the version x codecs x start offsets (oldest, newest, every literal 0..n, n+1) x fetch sizes at/around batch boundaries x Kafka versions, each run through the real consumer with the default schedule"))
			return ok
		})
}
