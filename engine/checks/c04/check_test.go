package c04

import (
	"testing"
	"time"

	"verif/engine/gx"
	"verif/engine/rigs/prodrig"
)

func TestMain(m *testing.M)   { gx.Main(m) }
func TestWorker(t *testing.T) { gx.WorkerMain(t) }
func TestCheck(t *testing.T) {
	gx.RunCheck(t, "C04", prodrig.Scenarios("C04"), 50*time.Second, 14*time.Minute, prodrig.Assumptions)
}
