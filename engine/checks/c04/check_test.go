package c04

import (
	"testing"
	"time"

	"verif/engine/ev"
	"verif/engine/gx"
	"verif/engine/rigs/prodrig"
)

func TestMain(m *testing.M)   { gx.Main(m) }
func TestWorker(t *testing.T) { gx.WorkerMain(t) }
func TestCheck(t *testing.T) {
	gx.RunCheck(t, "C04", prodrig.Scenarios("C04"), 55*time.Second, 14*time.Minute, prodrig.Assumptions,
		func(t *testing.T, c *ev.Check, e *gx.Explorer) bool {
			fam := prodrig.C04Family()
			bound := 1
			if ev.Tier() == "thorough" {
				bound = 2
			}
			done, ok := e.ExploreMany(fam, bound, 1)
			c.Set("format_family_size", len(fam))
			c.Set("format_family_done", done)
			c.Set("format_family_rule", "message format generation (v0, v1, record batch v2, produce v7) x codec (none, gzip, snappy, lz4, zstd) x batch composition (1-2 partitions, 3-5 messages, input-first so that several messages and partitions share a request) x acks x flush setting, keys (nil/empty/non-empty) and headers on some messages; default schedule plus every schedule with <=1 (quick) / <=2 (thorough) deviations incl. retried and deduplicated batches; the simulated broker decodes every request and the oracle compares wire and log content and every reported (partition, offset) with what was submitted")
			sizes := prodrig.C04Sizes(ev.Tier() == "thorough")
			done2, ok2 := e.ExploreMany(sizes, 0, 1)
			c.Set("size_family_size", len(sizes))
			c.Set("size_family_done", done2)
			c.Set("size_family_rule", "values padded to every size from 50 to 70 bytes and around 8185/8247 bytes (thorough: every size 8176..8256) - record bodies on both sides of the points where a record's length prefix grows - x (message set v1, record batch) x (none, gzip), two messages of one partition per request, default schedule")
			return ok && ok2
		})
}
