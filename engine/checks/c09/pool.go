package c09

// Worker pool shared by C09 and C10: work units are handed to child processes (re-exec of the test
// binary with -test.run ^TestChild$) one at a time over stdin; the child answers one JSON line per
// unit on fd 3. A child that dies or exceeds the per-unit watchdog is attributed to the unit it was
// executing (and, through the progress file, to the case inside the unit) and replaced.

import (
	"bufio"
	"encoding/json"
	"fmt"
	"os"
	"os/exec"
	"path/filepath"
	"runtime"
	"strings"
	"sync"
	"sync/atomic"
	"syscall"
	"time"
)

type Pool struct {
	Mode     string        // value of VERIF_CHILD in the children
	Workers  int           // default: NumCPU
	Deadline time.Time     // no unit is started after it
	Watchdog time.Duration // per unit; ≥10 s
	Env      []string
	Scratch  string // directory for progress files
	// OnResult is called (serialised) with the JSON line of a finished unit.
	OnResult func(unit string, line []byte)
	// OnResultNext (optional, instead of OnResult): returns a follow-up unit to run on a FRESH worker ("" = unit done).
	OnResultNext func(unit string, line []byte) string
	// OnDeath is called (serialised) when the child executing unit died; progress = content of its progress file.
	// It returns the unit to retry with (e.g. resume after the fatal case) or "" to give up on the unit.
	OnDeath func(unit, why, progress string) string
	// OnPartial (optional): a child may answer a unit with several lines; lines for which IsPartial reports true are
	// passed to OnPartial (serialised) and the pool keeps waiting (watchdog restarted) for the final line.
	IsPartial func(line []byte) bool
	OnPartial func(unit string, line []byte)
	// OnTime (optional) is told how long each attempt of a unit took.
	OnTime func(unit string, d time.Duration, died bool)
	// MaxDeaths (optional): a unit is abandoned after this many worker deaths (OnAbandon is told).
	MaxDeaths int
	OnAbandon func(unit string, deaths int)
}

type child struct {
	cmd      *exec.Cmd
	in       *bufio.Writer
	inc      interface{ Close() error }
	out      *bufio.Reader
	outf     *os.File
	progress string
	stderr   string
}

func (p *Pool) spawn(i int) (*child, error) {
	r, w, err := os.Pipe()
	if err != nil {
		return nil, err
	}
	cmd := exec.Command(os.Args[0], "-test.run", "^TestChild$", "-test.timeout", "0")
	prog := filepath.Join(p.Scratch, fmt.Sprintf("progress-%s-%d", p.Mode, i))
	_ = os.Remove(prog)
	cmd.Env = append(append(os.Environ(), "VERIF_CHILD="+p.Mode, "VERIF_PROGRESS="+prog, "VERIF_WORKER=1"), p.Env...)
	cmd.ExtraFiles = []*os.File{w}
	cmd.Stdout = nil
	errPath := filepath.Join(p.Scratch, fmt.Sprintf("stderr-%s-%d", p.Mode, i))
	if ef, err := os.Create(errPath); err == nil {
		cmd.Stderr = ef
		defer ef.Close()
	}
	in, err := cmd.StdinPipe()
	if err != nil {
		return nil, err
	}
	if err := cmd.Start(); err != nil {
		return nil, err
	}
	w.Close()
	return &child{cmd: cmd, in: bufio.NewWriter(in), inc: in, out: bufio.NewReaderSize(r, 1<<20), outf: r, progress: prog, stderr: errPath}, nil
}

func (c *child) kill() {
	if c == nil {
		return
	}
	_ = c.inc.Close()
	_ = c.cmd.Process.Kill()
	_ = c.cmd.Wait()
	_ = c.outf.Close()
}

// Run executes the units; returns how many completed and whether every unit was started before the deadline.
func (p *Pool) Run(units []string) (completed int, all bool) {
	if p.Workers <= 0 {
		p.Workers = runtime.NumCPU()
	}
	if p.Watchdog < 10*time.Second {
		p.Watchdog = 10 * time.Second
	}
	_ = os.MkdirAll(p.Scratch, 0o755)
	var next int64 = -1
	var done int64
	var cut int32
	var mu sync.Mutex
	var wg sync.WaitGroup
	for w := 0; w < p.Workers; w++ {
		wg.Add(1)
		go func(w int) {
			defer wg.Done()
			var c *child
			defer func() { c.kill() }()
			for {
				i := int(atomic.AddInt64(&next, 1))
				if i >= len(units) {
					return
				}
				if time.Now().After(p.Deadline) {
					atomic.StoreInt32(&cut, 1)
					return
				}
				unit := units[i]
				deaths := 0
				for unit != "" {
					if c == nil {
						var err error
						if c, err = p.spawn(w); err != nil {
							mu.Lock()
							unit = p.OnDeath(unit, "cannot start child: "+err.Error(), "")
							mu.Unlock()
							c = nil
							time.Sleep(100 * time.Millisecond)
							continue
						}
					}
					t0 := time.Now()
					line, why := c.roundTrip(unit, p.Watchdog, func(l []byte) bool {
						if p.IsPartial != nil && p.IsPartial(l) {
							mu.Lock()
							p.OnPartial(unit, l)
							mu.Unlock()
							return true
						}
						return false
					})
					if p.OnTime != nil {
						mu.Lock()
						p.OnTime(unit, time.Since(t0), why != "")
						mu.Unlock()
					}
					if why == "" {
						mu.Lock()
						next := ""
						if p.OnResultNext != nil {
							next = p.OnResultNext(unit, line)
						} else {
							p.OnResult(unit, line)
						}
						mu.Unlock()
						if next != "" {
							c.kill()
							c = nil
							unit = next
							continue
						}
						atomic.AddInt64(&done, 1)
						break
					}
					prog, _ := os.ReadFile(c.progress)
					st := ""
					if c.cmd.ProcessState != nil {
						st = c.cmd.ProcessState.String()
					}
					c.kill()
					if c.cmd.ProcessState != nil {
						st = c.cmd.ProcessState.String()
						if ws, ok := c.cmd.ProcessState.Sys().(syscall.WaitStatus); ok && ws.Signaled() {
							st += " signal=" + ws.Signal().String()
						}
					}
					if eb, err := os.ReadFile(c.stderr); err == nil && len(eb) > 0 {
						if len(eb) > 300 {
							eb = eb[:300]
						}
						st += " stderr: " + strings.Join(strings.Fields(string(eb)), " ")
					}
					c = nil
					mu.Lock()
					if i := strings.IndexByte(string(prog), 0); i >= 0 {
						prog = prog[:i]
					}
					unit = p.OnDeath(unit, why+" ("+st+")", strings.TrimSpace(string(prog)))
					deaths++
					if unit != "" && ((p.MaxDeaths > 0 && deaths >= p.MaxDeaths) || time.Now().After(p.Deadline)) {
						if p.OnAbandon != nil {
							p.OnAbandon(unit, deaths)
						}
						atomic.StoreInt32(&cut, 1)
						unit = ""
					}
					mu.Unlock()
				}
			}
		}(w)
	}
	wg.Wait()
	return int(done), atomic.LoadInt32(&cut) == 0
}

func (c *child) roundTrip(unit string, watchdog time.Duration, partial func([]byte) bool) ([]byte, string) {
	if _, err := c.in.WriteString(unit + "\n"); err != nil {
		return nil, "child gone (write): " + err.Error()
	}
	if err := c.in.Flush(); err != nil {
		return nil, "child gone (write): " + err.Error()
	}
	type res struct {
		line []byte
		err  error
	}
	for {
		ch := make(chan res, 1)
		go func() {
			l, err := c.out.ReadBytes('\n')
			ch <- res{l, err}
		}()
		select {
		case r := <-ch:
			if r.err != nil {
				return nil, "child died: " + r.err.Error()
			}
			if partial != nil && partial(r.line) {
				continue
			}
			return r.line, ""
		case <-time.After(watchdog):
			return nil, fmt.Sprintf("no answer within %v (hang)", watchdog)
		}
	}
}

// ChildLoop is the body of TestChild: one unit per stdin line, one JSON line per unit on fd 3.
func ChildLoop(handle func(unit string) interface{}) {
	ChildLoopEmit(func(unit string, emit func(interface{})) interface{} { return handle(unit) })
}

// ChildLoopEmit is ChildLoop for handlers that also emit partial results (extra lines before the final one).
func ChildLoopEmit(handle func(unit string, emit func(interface{})) interface{}) {
	out := os.NewFile(3, "results")
	w := bufio.NewWriterSize(out, 1<<20)
	sc := bufio.NewScanner(os.Stdin)
	sc.Buffer(make([]byte, 1<<20), 1<<20)
	for sc.Scan() {
		unit := strings.TrimSpace(sc.Text())
		if unit == "" {
			continue
		}
		emit := func(v interface{}) {
			b, err := json.Marshal(v)
			if err != nil {
				b, _ = json.Marshal(map[string]string{"unit": unit, "engine_error": err.Error()})
			}
			w.Write(b)
			w.WriteByte('\n')
			w.Flush()
		}
		emit(handle(unit, emit))
	}
}

var progMap []byte

// Progress records the case being executed in this child's progress file (a shared memory mapping: one
// memory copy per call, and the content survives the death of the process).
func Progress(s string) {
	if progMap == nil {
		p := os.Getenv("VERIF_PROGRESS")
		if p == "" {
			return
		}
		f, err := os.OpenFile(p, os.O_RDWR|os.O_CREATE, 0o644)
		if err != nil {
			return
		}
		defer f.Close()
		if f.Truncate(4096) != nil {
			return
		}
		m, err := syscall.Mmap(int(f.Fd()), 0, 4096, syscall.PROT_READ|syscall.PROT_WRITE, syscall.MAP_SHARED)
		if err != nil {
			return
		}
		progMap = m
	}
	n := copy(progMap[:4095], s)
	progMap[n] = 0
}
