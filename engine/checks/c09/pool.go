package c09

// Worker pool shared by C09 and C10: work units are handed to child processes (re-exec of the test
// binary with -test.run ^TestChild$) one at a time over stdin; the child answers one JSON line per
// unit on fd 3. A child that dies or exceeds the per-unit watchdog is attributed to the unit it was
// executing (and, through the progress file, to the case inside the unit) and replaced.

import (
	"bufio"
	"encoding/json"
	"fmt"
	"os"
	"os/exec"
	"path/filepath"
	"runtime"
	"strings"
	"sync"
	"sync/atomic"
	"syscall"
	"time"
)

type Pool struct {
	Mode     string        // value of VERIF_CHILD in the children
	Workers  int           // default: NumCPU
	Deadline time.Time     // no unit is started after it
	Watchdog time.Duration // per unit; ≥10 s
	Env      []string
	Scratch  string // directory for progress files
	// OnResult is called (serialised) with the JSON line of a finished unit.
	OnResult func(unit string, line []byte)
	// OnDeath is called (serialised) when the child executing unit died; progress = content of its progress file.
	// It returns the unit to retry with (e.g. resume after the fatal case) or "" to give up on the unit.
	OnDeath func(unit, why, progress string) string
}

type child struct {
	cmd      *exec.Cmd
	in       *bufio.Writer
	inc      interface{ Close() error }
	out      *bufio.Reader
	outf     *os.File
	progress string
}

func (p *Pool) spawn(i int) (*child, error) {
	r, w, err := os.Pipe()
	if err != nil {
		return nil, err
	}
	cmd := exec.Command(os.Args[0], "-test.run", "^TestChild$", "-test.timeout", "0")
	prog := filepath.Join(p.Scratch, fmt.Sprintf("progress-%s-%d", p.Mode, i))
	_ = os.Remove(prog)
	cmd.Env = append(append(os.Environ(), "VERIF_CHILD="+p.Mode, "VERIF_PROGRESS="+prog, "VERIF_WORKER=1"), p.Env...)
	cmd.ExtraFiles = []*os.File{w}
	cmd.Stdout = nil
	cmd.Stderr = nil
	in, err := cmd.StdinPipe()
	if err != nil {
		return nil, err
	}
	if err := cmd.Start(); err != nil {
		return nil, err
	}
	w.Close()
	return &child{cmd: cmd, in: bufio.NewWriter(in), inc: in, out: bufio.NewReaderSize(r, 1<<20), outf: r, progress: prog}, nil
}

func (c *child) kill() {
	if c == nil {
		return
	}
	_ = c.inc.Close()
	_ = c.cmd.Process.Kill()
	_ = c.cmd.Wait()
	_ = c.outf.Close()
}

// Run executes the units; returns how many completed and whether every unit was started before the deadline.
func (p *Pool) Run(units []string) (completed int, all bool) {
	if p.Workers <= 0 {
		p.Workers = runtime.NumCPU()
	}
	if p.Watchdog < 10*time.Second {
		p.Watchdog = 10 * time.Second
	}
	_ = os.MkdirAll(p.Scratch, 0o755)
	var next int64 = -1
	var done int64
	var cut int32
	var mu sync.Mutex
	var wg sync.WaitGroup
	for w := 0; w < p.Workers; w++ {
		wg.Add(1)
		go func(w int) {
			defer wg.Done()
			var c *child
			defer func() { c.kill() }()
			for {
				i := int(atomic.AddInt64(&next, 1))
				if i >= len(units) {
					return
				}
				if time.Now().After(p.Deadline) {
					atomic.StoreInt32(&cut, 1)
					return
				}
				unit := units[i]
				for unit != "" {
					if c == nil {
						var err error
						if c, err = p.spawn(w); err != nil {
							mu.Lock()
							unit = p.OnDeath(unit, "cannot start child: "+err.Error(), "")
							mu.Unlock()
							c = nil
							time.Sleep(100 * time.Millisecond)
							continue
						}
					}
					line, why := c.roundTrip(unit, p.Watchdog)
					if why == "" {
						mu.Lock()
						p.OnResult(unit, line)
						mu.Unlock()
						atomic.AddInt64(&done, 1)
						break
					}
					prog, _ := os.ReadFile(c.progress)
					st := ""
					if c.cmd.ProcessState != nil {
						st = c.cmd.ProcessState.String()
					}
					c.kill()
					if c.cmd.ProcessState != nil {
						st = c.cmd.ProcessState.String()
						if ws, ok := c.cmd.ProcessState.Sys().(syscall.WaitStatus); ok && ws.Signaled() {
							st += " signal=" + ws.Signal().String()
						}
					}
					c = nil
					mu.Lock()
					if i := strings.IndexByte(string(prog), 0); i >= 0 {
						prog = prog[:i]
					}
					unit = p.OnDeath(unit, why+" ("+st+")", strings.TrimSpace(string(prog)))
					mu.Unlock()
				}
			}
		}(w)
	}
	wg.Wait()
	return int(done), atomic.LoadInt32(&cut) == 0
}

func (c *child) roundTrip(unit string, watchdog time.Duration) ([]byte, string) {
	if _, err := c.in.WriteString(unit + "\n"); err != nil {
		return nil, "child gone (write): " + err.Error()
	}
	if err := c.in.Flush(); err != nil {
		return nil, "child gone (write): " + err.Error()
	}
	type res struct {
		line []byte
		err  error
	}
	ch := make(chan res, 1)
	go func() {
		l, err := c.out.ReadBytes('\n')
		ch <- res{l, err}
	}()
	select {
	case r := <-ch:
		if r.err != nil {
			return nil, "child died: " + r.err.Error()
		}
		return r.line, ""
	case <-time.After(watchdog):
		return nil, fmt.Sprintf("no answer within %v (hang)", watchdog)
	}
}

// ChildLoop is the body of TestChild: one unit per stdin line, one JSON line per unit on fd 3.
func ChildLoop(handle func(unit string) interface{}) {
	out := os.NewFile(3, "results")
	w := bufio.NewWriterSize(out, 1<<20)
	sc := bufio.NewScanner(os.Stdin)
	sc.Buffer(make([]byte, 1<<20), 1<<20)
	for sc.Scan() {
		unit := strings.TrimSpace(sc.Text())
		if unit == "" {
			continue
		}
		b, err := json.Marshal(handle(unit))
		if err != nil {
			b, _ = json.Marshal(map[string]string{"unit": unit, "engine_error": err.Error()})
		}
		w.Write(b)
		w.WriteByte('\n')
		w.Flush()
	}
}

var progMap []byte

// Progress records the case being executed in this child's progress file (a shared memory mapping: one
// memory copy per call, and the content survives the death of the process).
func Progress(s string) {
	if progMap == nil {
		p := os.Getenv("VERIF_PROGRESS")
		if p == "" {
			return
		}
		f, err := os.OpenFile(p, os.O_RDWR|os.O_CREATE, 0o644)
		if err != nil {
			return
		}
		defer f.Close()
		if f.Truncate(4096) != nil {
			return
		}
		m, err := syscall.Mmap(int(f.Fd()), 0, 4096, syscall.PROT_READ|syscall.PROT_WRITE, syscall.MAP_SHARED)
		if err != nil {
			return
		}
		progMap = m
	}
	n := copy(progMap[:4095], s)
	progMap[n] = 0
}
