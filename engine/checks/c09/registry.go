//go:build verif

package c09

import (
	"fmt"

	"github.com/Shopify/sarama"

	"verif/engine/ev"
)

// CrossCheckRegistry compares the go/parser scan of /repo with the compiled-in table.
func CrossCheckRegistry(c *ev.Check) (extraMax map[string]int, ok bool) {
	scan, err := ScanRepo()
	if err != nil {
		c.EngineError("scan of " + RepoDir() + " failed: " + err.Error())
		return nil, false
	}
	table := sarama.VerifC09BodyNames()
	ok = true
	for n := range scan {
		if _, in := table[n]; !in {
			c.EngineError("protocol body " + n + " (" + scan[n].File + ") exists in /repo but not in the compiled-in registry: add it to bridge/verif_c09_table.go")
			ok = false
		}
	}
	for n := range table {
		if _, in := scan[n]; !in {
			c.EngineError("registry entry " + n + " has no type with encode+decode+key+version in /repo")
			ok = false
		}
	}
	extraMax = map[string]int{}
	for n, b := range scan {
		if b.HasVersion && b.MaxGate != table[n] {
			fmt.Printf("NOTE: %s: scan finds highest version gate %d, table says %d; exploring 0..%d\n", n, b.MaxGate, table[n], maxInt(b.MaxGate, table[n]))
			if b.MaxGate > table[n] {
				extraMax[n] = b.MaxGate
			}
		}
	}
	c.Set("bodies_found_by_scan", len(scan))
	return extraMax, ok
}

func maxInt(a, b int) int {
	if a > b {
		return a
	}
	return b
}
