package c09

import (
	"encoding/json"
	"fmt"
	"os"
	"path/filepath"
	"sort"
	"strings"
	"testing"
	"time"

	"github.com/Shopify/sarama"

	"verif/engine/ev"
)

var exitCode = 3

func TestMain(m *testing.M) {
	m.Run()
	os.Exit(exitCode)
}

func extraMaxFromEnv() map[string]int {
	m := map[string]int{}
	_ = json.Unmarshal([]byte(os.Getenv("VERIF_C09_EXTRAMAX")), &m)
	return m
}

func TestChild(t *testing.T) {
	if os.Getenv("VERIF_CHILD") != "c09" {
		t.Skip()
	}
	sarama.VerifC09Families(extraMaxFromEnv())
	ChildLoop(func(u string) interface{} { return sarama.VerifC09RunUnit(u) })
	exitCode = 0
}

func TestCheck(t *testing.T) {
	if os.Getenv("VERIF_CHILD") != "" {
		t.Skip()
	}
	if p := os.Getenv("VERIF_REPLAY"); p != "" {
		exitCode = replay(p)
		return
	}
	if id := os.Getenv("VERIF_C09_CASE"); id != "" { // debugging aid: run one case by id
		tmp := filepath.Join(ev.Root(), ".build", "c09", "case.json")
		b, _ := json.Marshal(map[string]interface{}{"property": "C09", "replay": map[string]string{"case": id}})
		_ = os.WriteFile(tmp, b, 0o644)
		exitCode = replay(tmp)
		return
	}
	c := ev.NewCheck("C09", "exploration")
	extra, ok := CrossCheckRegistry(c)
	if !ok {
		exitCode = c.Finish()
		return
	}
	maxDev := 1
	if ev.Tier() == "thorough" {
		maxDev = 2
	}
	fams := sarama.VerifC09Families(extra)
	units := sarama.VerifC09Units(maxDev, extra)
	sweep := sarama.VerifC09SweepUnits(ev.Tier() == "thorough")
	units = append(units, sweep...)
	// level-1 units (base + every single deviation) first, heavy ones first; then the pair units, rotated by the seed
	var l1, l2 []sarama.VerifUnit
	for _, u := range units {
		if strings.HasSuffix(u.ID, "|1") {
			l1 = append(l1, u)
		} else {
			l2 = append(l2, u)
		}
	}
	sort.SliceStable(l1, func(i, j int) bool { return l1[i].Weight > l1[j].Weight })
	if n := len(l2); n > 0 {
		k := (ev.Seed()%n + n) % n * 7919 % n
		l2 = append(l2[k:], l2[:k]...)
	}
	var ids []string
	planned := 0
	for _, u := range append(l1, l2...) {
		ids = append(ids, u.ID)
		planned += u.Weight
	}
	xb, _ := json.Marshal(extra)
	start := time.Now()
	perFam := map[string]map[string]int{}
	outcomes := map[string]int{}
	sigCount := map[string]int{}
	sigExample := map[string]string{}
	baseRejected := map[string]string{}
	tot := sarama.VerifUnitResult{}
	nsamples := 0
	pool := &Pool{Mode: "c09", Deadline: start.Add(ev.Deadline(45*time.Second, 540*time.Second)), Watchdog: 120 * time.Second,
		Env: []string{"VERIF_C09_EXTRAMAX=" + string(xb), "GOMAXPROCS=2", "GOGC=400"}, Scratch: filepath.Join(ev.Root(), ".build", "c09")}
	pool.OnResult = func(unit string, line []byte) {
		var r sarama.VerifUnitResult
		if err := json.Unmarshal(line, &r); err != nil {
			c.EngineError("unit " + unit + ": bad result line: " + err.Error())
			return
		}
		tot.Evaluations += r.Evaluations
		tot.Rejected += r.Rejected
		tot.Shadowed += r.Shadowed
		tot.Nontrivial += r.Nontrivial
		tot.Distinct += r.Distinct
		tot.O3Pairs += r.O3Pairs
		tot.O3Same += r.O3Same
		tot.Readback += r.Readback
		tot.ByteIdent += r.ByteIdent
		tot.WireFacts += r.WireFacts
		pf := perFam[r.Family]
		if pf == nil {
			pf = map[string]int{}
			perFam[r.Family] = pf
		}
		pf["units"]++
		pf["evaluations"] += r.Evaluations
		pf["nontrivial"] += r.Nontrivial
		pf["rejected"] += r.Rejected
		pf["o3_pairs"] += r.O3Pairs
		for k, n := range r.Outcomes {
			outcomes[k] += n
			if k == "engine-error" && n > 0 {
				c.EngineError("unit " + unit + " reported an engine error")
			}
		}
		if r.BaseReject != "" {
			baseRejected[unit] = r.BaseReject
		}
		for _, v := range r.Violations {
			sigCount[v.Signature]++
			if sigCount[v.Signature] == 1 {
				sigExample[v.Signature] = v.Case
			}
			if sigCount[v.Signature] <= 2 {
				c.Report(ev.Violation{Signature: v.Signature, Message: v.Message, Check: unit, Replay: map[string]string{"case": v.Case}})
			}
		}
		if r.Sample != "" && (nsamples < 3 || (strings.Contains(r.Sample, "Fetch") && nsamples < 6)) {
			nsamples++
			c.AddSample(r.Sample)
		}
	}
	pool.OnDeath = func(unit, why, progress string) string {
		c.Report(ev.Violation{Signature: "child-died unit=" + strings.Split(unit, "|")[0], Message: "worker died while executing unit " + unit + ": " + why + " " + progress, Check: unit, Replay: map[string]string{"unit": unit}})
		return ""
	}
	completed, all := pool.Run(ids)
	exhaustive := all && completed == len(ids)
	c.Set("evaluations", tot.Evaluations)
	c.Set("distinct_nontrivial", tot.Distinct)
	c.Set("rule", fmt.Sprintf("every family (protocol body, record format, member blob, header) × every version 0..max × every record config × the base value and every value differing from it in ≤%d slots (alternatives per kind); a case is non-trivial when sarama's encoder accepts the value so that all oracles run; distinct = 64-bit hash of (family, version, config, canonical dump of the value), counted per work unit (units are disjoint by construction)", maxDev))
	c.Set("exhaustive", exhaustive)
	c.Set("max_deviations", maxDev)
	c.Set("size_sweep_units", len(sweep))
	c.Set("size_sweep_rule", "record batches (v2) whose one varying part - value, key, header value, header key, second record's value, number of records - takes every size in [0,300], [8100,8300], [16300,16500] (the widths of the varint length prefixes change inside these ranges), codec none (thorough: every codec); same oracles as a case")
	c.Set("units_planned", len(ids))
	c.Set("units_completed", completed)
	c.Set("cases_planned_upper_bound", planned)
	c.Set("families", len(fams))
	c.Set("rejected_by_encoder", tot.Rejected)
	c.Set("shadowed_pairs", tot.Shadowed)
	c.Set("o1_o2_cases", tot.Nontrivial)
	c.Set("o2_byte_identity_checked", tot.ByteIdent)
	c.Set("o3_pairs_compared", tot.O3Pairs)
	c.Set("o3_pairs_same_encoding", tot.O3Same)
	c.Set("o3_readbacks", tot.Readback)
	c.Set("o4_wire_facts", tot.WireFacts)
	c.Set("outcomes", outcomes)
	c.Set("per_family", perFam)
	// a base value the encoder refuses makes a whole (family, version) vacuous: tolerated only for the topmost version
	// (a `version > N` guard that rejects N+1), otherwise the generator is wrong
	famMax := map[string]int{}
	for _, f := range fams {
		famMax[f.Name] = f.MaxVersion
	}
	for u, why := range baseRejected {
		p := strings.Split(u, "|")
		var v int
		fmt.Sscanf(p[1], "v%d", &v)
		if v < famMax[p[0]] {
			c.EngineError("base value of " + u + " is rejected by sarama's encoder (" + why + "): the generator builds an illegal base")
		}
	}
	c.Set("versions_rejected_entirely", baseRejected)
	c.Set("domain_rules", sarama.VerifC09DomainRules())
	c.Set("violations_by_signature", sigCount)
	c.Set("violation_example_case", sigExample)
	vers := 0
	for _, f := range fams {
		vers += (f.MaxVersion + 1) * len(f.Configs)
	}
	c.Set("family_version_config_combinations", vers)
	if !exhaustive {
		c.Set("deadline_cut", fmt.Sprintf("internal deadline reached: %d of %d units completed (all single-deviation units run first)", completed, len(ids)))
	}
	c.Assumptions = append(c.Assumptions,
		"the compression level is an encoder parameter that is not on the wire: before re-encoding a decoded value the harness re-supplies the level of the configuration",
		"legacy compressed wrapper messages are built like produce_set.go does (Value = encoding of the inner set)",
		"values that sarama's own encoder rejects are counted and skipped")
	fmt.Printf("C09: %d units (%d completed), %d cases, %d non-trivial, %d distinct, %d rejected, O3 pairs %d (+%d same encoding), read-backs %d, wire facts %d, %.1fs\n",
		len(ids), completed, tot.Evaluations, tot.Nontrivial, tot.Distinct, tot.Rejected, tot.O3Pairs, tot.O3Same, tot.Readback, tot.WireFacts, time.Since(start).Seconds())
	exitCode = c.Finish()
}

func replay(path string) int {
	b, err := os.ReadFile(path)
	if err != nil {
		fmt.Println("ENGINE-ERROR cannot read", path, err)
		return 3
	}
	var v struct {
		Signature string            `json:"signature"`
		Replay    map[string]string `json:"replay"`
	}
	if err := json.Unmarshal(b, &v); err != nil || v.Replay["case"] == "" {
		fmt.Println("ENGINE-ERROR artefact has no replayable case:", path)
		return 3
	}
	extra := map[string]int{}
	if scan, err := ScanRepo(); err == nil {
		table := sarama.VerifC09BodyNames()
		for n, sb := range scan {
			if sb.HasVersion && sb.MaxGate > table[n] {
				extra[n] = sb.MaxGate
			}
		}
	}
	sarama.VerifC09Families(extra)
	viol, report, err := sarama.VerifC09RunCase(v.Replay["case"])
	if err != nil {
		fmt.Println("ENGINE-ERROR", err)
		return 3
	}
	fmt.Print(report)
	if len(viol) == 0 {
		fmt.Println("REPLAY: no violation on this tree")
		return 0
	}
	for _, x := range viol {
		fmt.Printf("REPLAY: still violates: %s\n  %s\n", x.Signature, strings.ReplaceAll(x.Message, "\n", "\n  "))
	}
	return 1
}
