//go:build verif

package sarama

// C09 harness, part 6: O4 — wire facts established by a small reader that shares no code with
// sarama's packetDecoder/packetEncoder (encoding/binary, hash/crc32 and the compression libraries
// are called directly).

import (
	"bytes"
	"compress/gzip"
	"encoding/binary"
	"fmt"
	"hash/crc32"
	"io/ioutil"
	"reflect"
	"time"

	xsnappy "github.com/eapache/go-xerial-snappy"
	rawsnappy "github.com/golang/snappy"
	"github.com/klauspost/compress/zstd"
	"github.com/pierrec/lz4"
)

type vreader struct {
	b   []byte
	off int
	err string
}

func (r *vreader) need(n int) bool {
	if r.err != "" {
		return false
	}
	if n < 0 || r.off+n > len(r.b) {
		r.err = fmt.Sprintf("reader: need %d bytes at offset %d of %d", n, r.off, len(r.b))
		return false
	}
	return true
}
func (r *vreader) i8() int8 {
	if !r.need(1) {
		return 0
	}
	r.off++
	return int8(r.b[r.off-1])
}
func (r *vreader) i16() int16 {
	if !r.need(2) {
		return 0
	}
	r.off += 2
	return int16(binary.BigEndian.Uint16(r.b[r.off-2:]))
}
func (r *vreader) i32() int32 {
	if !r.need(4) {
		return 0
	}
	r.off += 4
	return int32(binary.BigEndian.Uint32(r.b[r.off-4:]))
}
func (r *vreader) i64() int64 {
	if !r.need(8) {
		return 0
	}
	r.off += 8
	return int64(binary.BigEndian.Uint64(r.b[r.off-8:]))
}

// zig-zag varint as the Kafka protocol prescribes, decoded by hand
func (r *vreader) varint() int64 {
	var u uint64
	var shift uint
	for i := 0; ; i++ {
		if !r.need(1) {
			return 0
		}
		c := r.b[r.off]
		r.off++
		u |= uint64(c&0x7f) << shift
		if c&0x80 == 0 {
			break
		}
		shift += 7
		if i >= 9 {
			r.err = "reader: varint longer than 10 bytes"
			return 0
		}
	}
	return int64(u>>1) ^ -int64(u&1)
}
func (r *vreader) bytesN(n int) []byte {
	if !r.need(n) {
		return nil
	}
	r.off += n
	return r.b[r.off-n : r.off]
}

// nullable bytes with int32 length
func (r *vreader) nbytes32() ([]byte, bool) {
	n := r.i32()
	if n == -1 {
		return nil, true
	}
	return r.bytesN(int(n)), false
}
func (r *vreader) nbytesVar() ([]byte, bool) {
	n := r.varint()
	if n == -1 {
		return nil, true
	}
	return r.bytesN(int(n)), false
}

func vindependentDecompress(c CompressionCodec, b []byte) ([]byte, error) {
	if len(b) == 0 {
		return b, nil // no records: an empty section is what brokers write for a batch whose records were compacted away
	}
	switch c {
	case CompressionNone:
		return b, nil
	case CompressionGZIP:
		zr, err := gzip.NewReader(bytes.NewReader(b))
		if err != nil {
			return nil, err
		}
		return ioutil.ReadAll(zr)
	case CompressionSnappy:
		if len(b) < 8 || !bytes.Equal(b[:8], []byte{130, 83, 78, 65, 80, 80, 89, 0}) {
			return rawsnappy.Decode(nil, b) // a plain snappy block (no xerial framing)
		}
		return xsnappy.Decode(b)
	case CompressionLZ4:
		return ioutil.ReadAll(lz4.NewReader(bytes.NewReader(b)))
	case CompressionZSTD:
		d, err := zstd.NewReader(nil)
		if err != nil {
			return nil, err
		}
		defer d.Close()
		return d.DecodeAll(b, nil)
	}
	return nil, fmt.Errorf("codec %d", c)
}

func vsameBytes(what string, got []byte, gotNil bool, want []byte) string {
	if gotNil != (want == nil) {
		return fmt.Sprintf("%s: null marker on the wire %v, value nil %v", what, gotNil, want == nil)
	}
	if !bytes.Equal(got, want) {
		return fmt.Sprintf("%s: wire has %x, value has %x", what, got, want)
	}
	return ""
}

func vmillis(t time.Time) int64 {
	if t.IsZero() {
		return -1
	}
	return t.UnixNano() / int64(time.Millisecond)
}

// vwireBatch checks one v2 record batch at the start of b against the value; returns bytes consumed.
func vwireBatch(b []byte, rb *RecordBatch, facts *int) (int, string) {
	r := &vreader{b: b}
	first := r.i64()
	length := r.i32()
	ple := r.i32()
	magic := r.i8()
	crc := uint32(r.i32())
	if r.err != "" {
		return 0, r.err
	}
	end := 12 + int(length)
	if end != len(b) && end > len(b) {
		return 0, fmt.Sprintf("batch length field %d exceeds the %d bytes that follow it", length, len(b)-12)
	}
	body := b[:end]
	*facts += 4
	if first != rb.FirstOffset || ple != rb.PartitionLeaderEpoch || magic != 2 {
		return 0, fmt.Sprintf("batch header: firstOffset %d/%d leaderEpoch %d/%d magic %d", first, rb.FirstOffset, ple, rb.PartitionLeaderEpoch, magic)
	}
	if want := crc32.Checksum(body[21:], crc32.MakeTable(crc32.Castagnoli)); want != crc {
		return 0, fmt.Sprintf("batch CRC field %#x, CRC-32C of bytes [21,%d) is %#x", crc, end, want)
	}
	r.b = body
	attr := r.i16()
	lod := r.i32()
	ft, mt := r.i64(), r.i64()
	pid, pep, seq := r.i64(), r.i16(), r.i32()
	n := r.i32()
	if r.err != "" {
		return 0, r.err
	}
	wantAttr := int16(rb.Codec) & 7
	if rb.LogAppendTime {
		wantAttr |= 8
	}
	if rb.IsTransactional {
		wantAttr |= 0x10
	}
	if rb.Control {
		wantAttr |= 0x20
	}
	*facts += 8
	switch {
	case attr != wantAttr:
		return 0, fmt.Sprintf("batch attributes %#x, want %#x", attr, wantAttr)
	case lod != rb.LastOffsetDelta, pid != rb.ProducerID, pep != rb.ProducerEpoch, seq != rb.FirstSequence:
		return 0, fmt.Sprintf("batch fields lastOffsetDelta %d/%d pid %d/%d epoch %d/%d seq %d/%d", lod, rb.LastOffsetDelta, pid, rb.ProducerID, pep, rb.ProducerEpoch, seq, rb.FirstSequence)
	case ft != vmillis(rb.FirstTimestamp) || mt != vmillis(rb.MaxTimestamp):
		return 0, fmt.Sprintf("batch timestamps %d,%d want %d,%d", ft, mt, vmillis(rb.FirstTimestamp), vmillis(rb.MaxTimestamp))
	case int(n) != len(rb.Records):
		return 0, fmt.Sprintf("batch record count %d, value has %d", n, len(rb.Records))
	}
	if r.off != 61 {
		return 0, fmt.Sprintf("records start at %d, expected 61", r.off)
	}
	raw, err := vindependentDecompress(rb.Codec, body[61:])
	if err != nil {
		return 0, fmt.Sprintf("records section does not decompress with codec %v: %v", rb.Codec, err)
	}
	rr := &vreader{b: raw}
	for i, rec := range rb.Records {
		l := rr.varint()
		start := rr.off
		at := rr.i8()
		ts := rr.varint()
		od := rr.varint()
		k, kn := rr.nbytesVar()
		v, vn := rr.nbytesVar()
		nh := rr.varint()
		if rr.err != "" {
			return 0, fmt.Sprintf("record %d: %s", i, rr.err)
		}
		*facts += 7
		if at != rec.Attributes || ts != int64(rec.TimestampDelta/time.Millisecond) || od != rec.OffsetDelta {
			return 0, fmt.Sprintf("record %d: attributes %d/%d timestampDelta %d/%d offsetDelta %d/%d", i, at, rec.Attributes, ts, int64(rec.TimestampDelta/time.Millisecond), od, rec.OffsetDelta)
		}
		if m := vsameBytes(fmt.Sprintf("record %d key", i), k, kn, rec.Key); m != "" {
			return 0, m
		}
		if m := vsameBytes(fmt.Sprintf("record %d value", i), v, vn, rec.Value); m != "" {
			return 0, m
		}
		if int(nh) != len(rec.Headers) {
			return 0, fmt.Sprintf("record %d: header count %d, value has %d", i, nh, len(rec.Headers))
		}
		for j, h := range rec.Headers {
			hk, hkn := rr.nbytesVar()
			hv, hvn := rr.nbytesVar()
			if rr.err != "" {
				return 0, fmt.Sprintf("record %d header %d: %s", i, j, rr.err)
			}
			*facts += 2
			if m := vsameBytes(fmt.Sprintf("record %d header %d key", i, j), hk, hkn, h.Key); m != "" {
				return 0, m
			}
			if m := vsameBytes(fmt.Sprintf("record %d header %d value", i, j), hv, hvn, h.Value); m != "" {
				return 0, m
			}
		}
		if int(l) != rr.off-start {
			return 0, fmt.Sprintf("record %d: zig-zag varint length says %d, record occupies %d bytes", i, l, rr.off-start)
		}
	}
	if rr.off != len(raw) {
		return 0, fmt.Sprintf("%d bytes after the last record", len(raw)-rr.off)
	}
	return end, ""
}

// vwireMsgSet checks a legacy message set occupying all of b.
func vwireMsgSet(b []byte, ms *MessageSet, facts *int) string {
	r := &vreader{b: b}
	for i, blk := range ms.Messages {
		off := r.i64()
		size := r.i32()
		if r.err != "" {
			return r.err
		}
		start := r.off
		if !r.need(int(size)) {
			return fmt.Sprintf("message %d: size field %d exceeds remaining %d", i, size, len(b)-start)
		}
		crc := uint32(r.i32())
		if want := crc32.ChecksumIEEE(b[start+4 : start+int(size)]); want != crc {
			return fmt.Sprintf("message %d: CRC field %#x, IEEE CRC of bytes after it is %#x", i, crc, want)
		}
		m := blk.Msg
		magic := r.i8()
		attr := r.i8()
		wantAttr := int8(m.Codec) & 7
		if m.LogAppendTime {
			wantAttr |= 8
		}
		*facts += 5
		if off != blk.Offset || magic != m.Version || attr != wantAttr {
			return fmt.Sprintf("message %d: offset %d/%d magic %d/%d attributes %#x/%#x", i, off, blk.Offset, magic, m.Version, attr, wantAttr)
		}
		if magic >= 1 {
			if ts := r.i64(); ts != vmillis(m.Timestamp) {
				return fmt.Sprintf("message %d: timestamp %d, want %d", i, ts, vmillis(m.Timestamp))
			}
			*facts++
		}
		k, kn := r.nbytes32()
		v, vn := r.nbytes32()
		if r.err != "" {
			return fmt.Sprintf("message %d: %s", i, r.err)
		}
		if msg := vsameBytes(fmt.Sprintf("message %d key", i), k, kn, m.Key); msg != "" {
			return msg
		}
		*facts += 2
		if m.Codec == CompressionNone || m.Value == nil {
			if msg := vsameBytes(fmt.Sprintf("message %d value", i), v, vn, m.Value); msg != "" {
				return msg
			}
		} else {
			raw, err := vindependentDecompress(m.Codec, v)
			if err != nil {
				return fmt.Sprintf("message %d: payload does not decompress with codec %v: %v", i, m.Codec, err)
			}
			if m.Set != nil {
				if msg := vwireMsgSet(raw, m.Set, facts); msg != "" {
					return fmt.Sprintf("message %d (compressed wrapper) inner set: %s", i, msg)
				}
			} else if !bytes.Equal(raw, m.Value) {
				return fmt.Sprintf("message %d: decompressed payload differs from Value", i)
			}
		}
		if r.off != start+int(size) {
			return fmt.Sprintf("message %d: size field %d, message occupies %d bytes", i, size, r.off-start)
		}
	}
	if r.off != len(b) {
		return fmt.Sprintf("%d bytes after the last message", len(b)-r.off)
	}
	return ""
}

func vwireRecords(b []byte, rec *Records, facts *int) string {
	switch {
	case rec.RecordBatch != nil && rec.recordsType == defaultRecords:
		n, msg := vwireBatch(b, rec.RecordBatch, facts)
		if msg == "" && n != len(b) {
			return fmt.Sprintf("batch occupies %d of %d bytes", n, len(b))
		}
		return msg
	case rec.MsgSet != nil && rec.recordsType == legacyRecords:
		return vwireMsgSet(b, rec.MsgSet, facts)
	}
	return ""
}

// vwireFacts: root is the value that was encoded into b.
func vwireFacts(fam *vfamily, cfg vcfg, ver int16, root reflect.Value, b []byte, facts *int) string {
	switch fam.Kind {
	case "request", "header":
		if fam.Name == "responseHeader" {
			return ""
		}
		hl := fam.headerLen(ver)
		key, corr, client := int16(0), vCorr, vClient
		hv := int16(1)
		if fam.Kind == "header" {
			h := root.Interface().(*VerifReqHeader)
			corr, client = h.CorrelationID, h.ClientID
			key, ver = 3, 0
			if cfg.Fmt == 1 {
				key, hv = 46, 2
			}
		} else {
			if hl == 0 {
				return "" // body encoded without a frame (type not produced by allocateBody)
			}
			pb := root.Interface().(protocolBody)
			key, hv = pb.key(), pb.headerVersion()
		}
		r := &vreader{b: b}
		n := r.i32()
		k, v, c := r.i16(), r.i16(), r.i32()
		if r.err != "" {
			return r.err
		}
		*facts += 4
		if int(n) != len(b)-4 {
			return fmt.Sprintf("request length prefix %d, %d bytes follow", n, len(b)-4)
		}
		if k != key || v != ver || c != corr {
			return fmt.Sprintf("request header key %d/%d version %d/%d correlation %#x/%#x", k, key, v, ver, c, corr)
		}
		if hv >= 1 {
			l := r.i16()
			s := r.bytesN(int(l))
			if r.err != "" || string(s) != client {
				return fmt.Sprintf("client id on the wire %q (len field %d), want %q %s", s, l, client, r.err)
			}
			*facts++
		}
		if hv >= 2 {
			if t := r.i8(); t != 0 {
				return fmt.Sprintf("tagged-field count byte of request header v2 is %d", t)
			}
			*facts++
		}
		if fam.Kind == "request" && r.off != hl {
			return fmt.Sprintf("request header occupies %d bytes, expected %d", r.off, hl)
		}
	case "records":
		switch x := root.Interface().(type) {
		case *RecordBatch:
			n, msg := vwireBatch(b, x, facts)
			if msg == "" && n != len(b) {
				msg = fmt.Sprintf("batch occupies %d of %d bytes", n, len(b))
			}
			return msg
		case *MessageSet:
			return vwireMsgSet(b, x, facts)
		case *Records:
			return vwireRecords(b, x, facts)
		}
	}
	return ""
}

// ---- O4(d): length prefixes of strings, byte arrays and arrays outside record sets ----
//
// For a base/deviation pair that differs in the size of one string / byte array / collection, the first
// byte at which the two encodings differ must belong to that field's length prefix, and the prefix must
// be the one the protocol prescribes for the version: unsigned varint of n+1 (0 = null) in flexible
// versions; big-endian int16 (strings), int32 (bytes, arrays; -1 = null) otherwise.

func vuvarint(n uint64) []byte {
	var out []byte
	for n >= 0x80 {
		out = append(out, byte(n)|0x80)
		n >>= 7
	}
	return append(out, byte(n))
}

// vlenPrefixes: acceptable encodings of length n (-1 = null) for a slot kind
func vlenPrefixes(kind string, n int, compact bool) [][]byte {
	if compact {
		if n < 0 || (n == 0 && kind != "string" && kind != "nstring" && kind != "bytes") {
			return [][]byte{{0}, {1}} // arrays: sarama writes "null" for some empty nullable arrays and "empty" for some nil ones
		}
		return [][]byte{vuvarint(uint64(n + 1))}
	}
	be := func(width int, v int) []byte {
		b := make([]byte, width)
		for i := 0; i < width; i++ {
			b[width-1-i] = byte(uint32(int32(v)) >> (8 * uint(i)))
		}
		return b
	}
	switch kind {
	case "string", "nstring":
		return [][]byte{be(2, n)}
	case "bytes":
		return [][]byte{be(4, n)}
	default: // arrays: a nil collection may travel as null or as empty, an empty nullable one as null (e.g. "all topics")
		if n <= 0 {
			return [][]byte{be(4, -1), be(4, 0)}
		}
		return [][]byte{be(4, n)}
	}
}

func vslotLen(v reflect.Value) (n int, content []byte) {
	for v.Kind() == reflect.Ptr {
		if v.IsNil() {
			return -1, nil
		}
		v = v.Elem()
	}
	switch v.Kind() {
	case reflect.String:
		return v.Len(), []byte(v.String())
	case reflect.Slice:
		if v.IsNil() {
			return -1, nil
		}
		if v.Type() == vtBytes {
			return v.Len(), v.Bytes()
		}
		return v.Len(), nil
	case reflect.Map:
		if v.IsNil() {
			return -1, nil
		}
		return v.Len(), nil
	}
	return -2, nil
}

// vo4d returns "" if the fact holds or is not applicable; counts applicable facts.
func vo4d(fam *vfamily, ver int16, parent, child *vrun, s *vslot, a valt, facts *int) string {
	switch s.kind {
	case "string", "nstring", "bytes", "slice", "map":
	default:
		return ""
	}
	if s.inRecords || s.derived || s.owner == "FetchResponseBlock.RecordsSet" || (fam.Kind != "request" && fam.Kind != "response" && fam.Kind != "member") {
		return ""
	}
	pb, cb := parent.b0[fam.headerLen(ver):], child.b0[fam.headerLen(ver):]
	if bytes.Equal(pb, cb) {
		return ""
	}
	np, _ := vslotLen(parent.slots[vslotIndex(parent.slots, s.path)].v)
	nc, content := vslotLen(a.val)
	if np == -2 || nc == -2 || np == nc {
		return ""
	}
	p := 0
	for p < len(pb) && p < len(cb) && pb[p] == cb[p] {
		p++
	}
	compact := fam.flexible(ver)
	*facts++
	for st := p; st >= 0 && st >= p-3; st-- {
		for _, pp := range vlenPrefixes(s.kind, np, compact) {
			if !bytes.HasPrefix(pb[st:], pp) {
				continue
			}
			for _, cp := range vlenPrefixes(s.kind, nc, compact) {
				// the differing byte must lie inside the prefix of at least one of the two encodings
				if bytes.HasPrefix(cb[st:], cp) && bytes.HasPrefix(cb[st+len(cp):], content) && (st+len(cp) > p || st+len(pp) > p) {
					return ""
				}
			}
		}
	}
	mode := "int16/int32 big-endian length"
	if compact {
		mode = "compact (unsigned varint of n+1)"
	}
	lo := p - 4
	if lo < 0 {
		lo = 0
	}
	return fmt.Sprintf("slot %s: size %d -> %d; the encodings first differ at body offset %d, but no %s prefix for these sizes covers that byte\nbase  …%x\nchild …%x",
		s.path, np, nc, p, mode, pb[lo:vmin(len(pb), p+8)], cb[lo:vmin(len(cb), p+8)])
}

func vslotIndex(slots []*vslot, path string) int {
	for i, s := range slots {
		if s.path == path {
			return i
		}
	}
	return 0
}
