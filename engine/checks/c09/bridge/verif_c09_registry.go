//go:build verif

package sarama

// C09/C10 harness, part 4: families = (type, encode entry, decode entry, versions, configs).

import (
	"bytes"
	"encoding/binary"
	"errors"
	"fmt"
	"reflect"
	"runtime/debug"
	"sort"
	"strings"
)

type vfamily struct {
	Name       string
	Kind       string // request | response | records | member | header
	Type       reflect.Type
	MaxVersion int16
	Cfgs       []vcfg
	C10        bool // decode target for data the client does not control
	NoC09      bool // decode entry only (its result is not the family type): not a round-trip family
	enc        func(root reflect.Value, ver int16) ([]byte, string, error)
	dec        func(b []byte, ver int16) (reflect.Value, error)
	flexible   func(ver int16) bool
	// headerLen: number of bytes in front of the body in enc's output (request frames)
	headerLen func(ver int16) int
}

var vnoCfg = []vcfg{{Fmt: 2, Codec: CompressionNone, Level: CompressionLevelDefault}}

// record configurations for bodies that nest records (Produce request, Fetch response)
var vnestCfgs = []vcfg{
	{0, CompressionNone, CompressionLevelDefault, false},
	{1, CompressionNone, CompressionLevelDefault, false},
	{1, CompressionGZIP, CompressionLevelDefault, false},
	{1, CompressionSnappy, CompressionLevelDefault, false},
	{1, CompressionLZ4, CompressionLevelDefault, false},
	{2, CompressionNone, CompressionLevelDefault, false},
	{2, CompressionGZIP, CompressionLevelDefault, false},
	{2, CompressionSnappy, CompressionLevelDefault, false},
	{2, CompressionLZ4, CompressionLevelDefault, false},
	{2, CompressionZSTD, CompressionLevelDefault, false},
	{Fmt: 2, Codec: CompressionNone, Level: CompressionLevelDefault, Mixed: true},
	{Fmt: 1, Codec: CompressionNone, Level: CompressionLevelDefault, Mixed: true},
}

func vcodecCfgs(fmts ...int) []vcfg {
	var out []vcfg
	for _, f := range fmts {
		out = append(out, vcfg{f, CompressionNone, CompressionLevelDefault, false})
		for _, l := range []int{CompressionLevelDefault, 1, 6, 9, 0, -1, -2} {
			out = append(out, vcfg{f, CompressionGZIP, l, false})
		}
		for _, c := range []CompressionCodec{CompressionSnappy, CompressionLZ4, CompressionZSTD} {
			for _, l := range []int{CompressionLevelDefault, 3} {
				out = append(out, vcfg{f, c, l, false})
			}
		}
	}
	return out
}

// verifEncode is encode() of encoder_decoder.go with the two-pass agreement made observable (O1):
// the sizing pass must predict exactly the number of bytes the writing pass produces, and both
// push/pop stacks must be empty at the end.
func verifEncode(e encoder) (raw []byte, o1 string, err error) {
	var prepEnc prepEncoder
	var realEnc realEncoder
	if err = e.encode(&prepEnc); err != nil {
		return nil, "", err
	}
	if prepEnc.length < 0 || prepEnc.length > int(MaxRequestSize) {
		return nil, "", PacketEncodingError{fmt.Sprintf("invalid request size (%d)", prepEnc.length)}
	}
	realEnc.raw = make([]byte, prepEnc.length)
	if err = e.encode(&realEnc); err != nil {
		return nil, "", err
	}
	if realEnc.off != prepEnc.length {
		o1 = fmt.Sprintf("sizing pass computed %d bytes, writing pass wrote %d", prepEnc.length, realEnc.off)
	} else if len(prepEnc.stack) != 0 || len(realEnc.stack) != 0 {
		o1 = fmt.Sprintf("push/pop stack not empty after encode (prep %d, real %d)", len(prepEnc.stack), len(realEnc.stack))
	}
	return realEnc.raw, o1, nil
}

type vpanic struct {
	val   interface{}
	stack string
}

func (p *vpanic) Error() string { return fmt.Sprintf("panic: %v", p.val) }

func vguard(f func() error) (err error) {
	defer func() {
		if r := recover(); r != nil {
			err = &vpanic{r, vshortStack(string(debug.Stack()))}
		}
	}()
	return f()
}

func vshortStack(s string) string {
	var out []string
	for _, l := range strings.Split(s, "\n") {
		if strings.Contains(l, "verif_") || strings.Contains(l, "vguard") || strings.Contains(l, ".Verif") {
			continue
		}
		if strings.Contains(l, "/repo/") || strings.Contains(l, "sarama.") {
			out = append(out, strings.TrimSpace(l))
		}
		if len(out) >= 8 {
			break
		}
	}
	return strings.Join(out, " | ")
}

func vsetVersion(root reflect.Value, ver int16) {
	if _, ok := root.Interface().(protocolBody); !ok {
		return
	}
	f := root.Elem().FieldByName("Version")
	if f.IsValid() && f.CanSet() {
		f.SetInt(int64(ver))
	}
}

const vCorr = int32(0x01020304)
const vClient = "cid"

// harness-side structs for the two headers
type VerifReqHeader struct {
	CorrelationID int32
	ClientID      string
}
type VerifRespHeader struct {
	Length        int32
	CorrelationID int32
}

func vhasVersion(t reflect.Type) bool { _, ok := t.FieldByName("Version"); return ok }

func vfamilies() []*vfamily {
	var out []*vfamily
	for _, e := range vbodies {
		e := e
		t := reflect.TypeOf(e.mk()).Elem()
		max := e.max
		if !vhasVersion(t) {
			max = 0
		}
		isReq := strings.HasSuffix(e.name, "Request")
		f := &vfamily{Name: e.name, Type: t, MaxVersion: max, Cfgs: vnoCfg}
		hv := func(ver int16) int16 {
			b := e.mk()
			vsetVersion(reflect.ValueOf(b), ver)
			return b.headerVersion()
		}
		if e.name == "ProduceRequest" || e.name == "FetchResponse" {
			f.Cfgs = vnestCfgs
		}
		if isReq {
			f.Kind = "request"
			f.flexible = func(ver int16) bool { return hv(ver) >= 2 }
			viaFrame := func(ver int16) bool {
				a := allocateBody(e.mk().key(), ver)
				return a != nil && reflect.TypeOf(a).Elem() == t
			}
			f.headerLen = func(ver int16) int {
				if !viaFrame(ver) {
					return 0
				}
				n := 4 + 2 + 2 + 4
				if hv(ver) >= 1 {
					n += 2 + len(vClient)
				}
				if hv(ver) >= 2 {
					n++
				}
				return n
			}
			f.enc = func(root reflect.Value, ver int16) ([]byte, string, error) {
				vsetVersion(root, ver)
				body := root.Interface().(protocolBody)
				if !viaFrame(ver) {
					return verifEncode(body)
				}
				return verifEncode(&request{correlationID: vCorr, clientID: vClient, body: body})
			}
			f.dec = func(b []byte, ver int16) (reflect.Value, error) {
				if !viaFrame(ver) {
					n := reflect.New(t)
					vsetVersion(n, ver)
					err := versionedDecode(b, n.Interface().(versionedDecoder), ver)
					return n, err
				}
				req, n, err := decodeRequest(bytes.NewReader(b))
				if err != nil {
					return reflect.Value{}, err
				}
				if n != len(b) {
					return reflect.Value{}, fmt.Errorf("decodeRequest consumed %d of %d bytes", n, len(b))
				}
				if req.correlationID != vCorr || req.clientID != vClient {
					return reflect.Value{}, fmt.Errorf("request header read back as corr=%#x client=%q", req.correlationID, req.clientID)
				}
				if req.body.version() != ver {
					return reflect.Value{}, fmt.Errorf("decoded request reports version %d, sent %d", req.body.version(), ver)
				}
				return reflect.ValueOf(req.body), nil
			}
		} else {
			f.Kind = "response"
			f.C10 = true
			f.flexible = func(ver int16) bool { return hv(ver) >= 1 }
			f.headerLen = func(int16) int { return 0 }
			f.enc = func(root reflect.Value, ver int16) ([]byte, string, error) {
				vsetVersion(root, ver)
				return verifEncode(root.Interface().(encoder))
			}
			f.dec = func(b []byte, ver int16) (reflect.Value, error) {
				n := reflect.New(t)
				err := versionedDecode(b, n.Interface().(versionedDecoder), ver)
				return n, err
			}
		}
		out = append(out, f)
	}
	plain := func(name, kind string, proto interface{}, cfgs []vcfg) *vfamily {
		t := reflect.TypeOf(proto).Elem()
		return &vfamily{Name: name, Kind: kind, Type: t, Cfgs: cfgs, C10: true,
			flexible:  func(int16) bool { return false },
			headerLen: func(int16) int { return 0 },
			enc: func(root reflect.Value, ver int16) ([]byte, string, error) {
				return verifEncode(root.Interface().(encoder))
			},
			dec: func(b []byte, ver int16) (reflect.Value, error) {
				n := reflect.New(t)
				err := decode(b, n.Interface().(decoder))
				return n, err
			}}
	}
	out = append(out,
		plain("RecordBatch", "records", &RecordBatch{}, vcodecCfgs(2)),
		plain("MessageSet", "records", &MessageSet{}, vcodecCfgs(0, 1)),
		plain("Records", "records", &Records{}, vnestCfgs),
		plain("ConsumerGroupMemberMetadata", "member", &ConsumerGroupMemberMetadata{}, vnoCfg),
		plain("ConsumerGroupMemberAssignment", "member", &ConsumerGroupMemberAssignment{}, vnoCfg),
		plain("StickyAssignorUserDataV0", "member", &StickyAssignorUserDataV0{}, vnoCfg),
		plain("StickyAssignorUserDataV1", "member", &StickyAssignorUserDataV1{}, vnoCfg),
	)
	// the entry the sticky assignor really uses for the user data of other members: V1, else V0 - with an acceptance
	// oracle: whatever it returns without error must be what a strict, independent reading of the bytes gives
	out = append(out, &vfamily{Name: "StickyUserDataAuto", Kind: "member", Type: reflect.TypeOf(StickyAssignorUserDataV1{}), Cfgs: vnoCfg, C10: true, NoC09: true,
		flexible:  func(int16) bool { return false },
		headerLen: func(int16) int { return 0 },
		enc: func(root reflect.Value, ver int16) ([]byte, string, error) {
			return verifEncode(root.Interface().(encoder))
		},
		dec: func(b []byte, ver int16) (reflect.Value, error) {
			ud, err := deserializeTopicPartitionAssignment(b)
			if err != nil {
				return reflect.Value{}, err
			}
			if msg := vstrictStickyUserData(b, ud); msg != "" {
				panic("verif-accept: " + msg)
			}
			return reflect.ValueOf(ud), nil
		}})
	// request header: the slots are correlation id and client id; Cfgs[i].Fmt selects the body (header version 1 / 2);
	// enc/dec depend on the configuration and are supplied by encdec()
	out = append(out, &vfamily{Name: "requestHeader", Kind: "header", Type: reflect.TypeOf(VerifReqHeader{}),
		Cfgs:      []vcfg{{Fmt: 0, Level: CompressionLevelDefault}, {Fmt: 1, Level: CompressionLevelDefault}},
		flexible:  func(int16) bool { return false },
		headerLen: func(int16) int { return 0 },
	})
	// response header: encoded by the harness (sarama has no encoder for it), decoded by sarama
	out = append(out, &vfamily{Name: "responseHeader", Kind: "header", Type: reflect.TypeOf(VerifRespHeader{}), MaxVersion: 1, Cfgs: vnoCfg, C10: true,
		flexible:  func(int16) bool { return false },
		headerLen: func(int16) int { return 0 },
		enc: func(root reflect.Value, ver int16) ([]byte, string, error) {
			h := root.Interface().(*VerifRespHeader)
			if h.Length <= 4 || h.Length > MaxResponseSize {
				return nil, "", errors.New("harness: not a legal response length")
			}
			b := make([]byte, 8)
			binary.BigEndian.PutUint32(b, uint32(h.Length))
			binary.BigEndian.PutUint32(b[4:], uint32(h.CorrelationID))
			if ver >= 1 {
				b = append(b, 0)
			}
			return b, "", nil
		},
		dec: func(b []byte, ver int16) (reflect.Value, error) {
			var h responseHeader
			err := versionedDecode(b, &h, ver)
			if err == nil {
				// what Broker.responseReceiver does next with a header it accepted: size the body buffer. Only a
				// negative size is replayed here (it panics); allocating up to MaxResponseSize for a body the
				// broker announces is legitimate and would only distort the allocation measure.
				if n := h.length - int32(getHeaderLength(ver)) + 4; n < 0 {
					_ = make([]byte, n)
				}
			}
			return reflect.ValueOf(&VerifRespHeader{h.length, h.correlationID}), err
		}})
	return out
}

// vencdec returns the encode/decode entry of a family under a configuration (only the request header
// family depends on the configuration).
func (f *vfamily) encdec(cfg vcfg) (func(reflect.Value, int16) ([]byte, string, error), func([]byte, int16) (reflect.Value, error)) {
	if f.Name != "requestHeader" {
		return f.enc, f.dec
	}
	mk := func() protocolBody {
		if cfg.Fmt == 0 {
			return &MetadataRequest{Topics: []string{"t"}}
		}
		return &ListPartitionReassignmentsRequest{TimeoutMs: 5}
	}
	enc := func(root reflect.Value, ver int16) ([]byte, string, error) {
		h := root.Interface().(*VerifReqHeader)
		return verifEncode(&request{correlationID: h.CorrelationID, clientID: h.ClientID, body: mk()})
	}
	dec := func(b []byte, ver int16) (reflect.Value, error) {
		req, n, err := decodeRequest(bytes.NewReader(b))
		if err != nil {
			return reflect.Value{}, err
		}
		if n != len(b) {
			return reflect.Value{}, fmt.Errorf("decodeRequest consumed %d of %d bytes", n, len(b))
		}
		if req.body.key() != mk().key() {
			return reflect.Value{}, fmt.Errorf("request body key read back as %d", req.body.key())
		}
		return reflect.ValueOf(&VerifReqHeader{req.correlationID, req.clientID}), nil
	}
	return enc, dec
}

// vstrictStickyUserData reads sticky-assignor user data strictly (every count and length must be backed by data, all
// bytes consumed; V1 = topics + generation, V0 = topics only) and compares it with what sarama accepted.
func vstrictStickyUserData(b []byte, got StickyAssignorUserData) string {
	parse := func(withGen bool) (parts []string, gen int32, ok bool) {
		r := &vreader{b: b}
		n := r.i32()
		if r.err != "" || n < 0 {
			return nil, 0, false
		}
		for i := int32(0); i < n; i++ {
			l := r.i16()
			if r.err != "" || l < -1 {
				return nil, 0, false
			}
			if l == -1 {
				l = 0 // the null string: sarama reads it as "" everywhere; a marker, not a length that disagrees with the data
			}
			name := r.bytesN(int(l))
			c := r.i32()
			if r.err != "" || c < 0 {
				return nil, 0, false
			}
			for k := int32(0); k < c; k++ {
				p := r.i32()
				if r.err != "" {
					return nil, 0, false
				}
				parts = append(parts, fmt.Sprintf("%s/%d", name, p))
			}
		}
		if withGen {
			gen = r.i32()
		}
		if r.err != "" || r.off != len(b) {
			return nil, 0, false
		}
		return parts, gen, true
	}
	want, gen, ok := parse(true)
	v1 := ok
	if !ok {
		want, _, ok = parse(false)
	}
	if !ok {
		return fmt.Sprintf("%d bytes of user data were accepted (as %T) although they are neither a complete V1 nor a complete V0 encoding: some count or length is not backed by the data", len(b), got)
	}
	var have []string
	for _, tp := range got.partitions() {
		have = append(have, fmt.Sprintf("%s/%d", tp.Topic, tp.Partition))
	}
	sort.Strings(want)
	sort.Strings(have)
	if fmt.Sprint(want) != fmt.Sprint(have) {
		return fmt.Sprintf("accepted user data lists partitions %v, the bytes say %v", have, want)
	}
	if v1 && got.hasGeneration() && int32(got.generation()) != gen {
		return fmt.Sprintf("accepted user data has generation %d, the bytes say %d", got.generation(), gen)
	}
	return ""
}
