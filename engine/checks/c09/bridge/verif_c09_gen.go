//go:build verif

package sarama

// C09/C10 harness, part 1: reflective value generator.
//
// A *base value* of a type has every wire-relevant field non-zero and pairwise distinct (running
// counter), every collection with exactly one element. A *slot* is one leaf / collection / map key of
// the base tree; every slot has a list of *alternatives* per kind. A case is the base with ≤k slots
// replaced by one of their alternatives. Everything is deterministic: the same (type, config)
// always yields the same base, the same slot numbering and the same alternatives, so a case is
// named by "family|version|config|slot.alt,slot.alt" and re-generated for replay.

import (
	"fmt"
	"math"
	"reflect"
	"sort"
	"strconv"
	"strings"
	"time"
	"unsafe"
)

// vcfg: record format / codec / level axis of a family (only meaningful where records are nested).
type vcfg struct {
	Fmt   int // 0 legacy magic 0, 1 legacy magic 1, 2 record batch
	Codec CompressionCodec
	Level int
	// Mixed: bodies that nest several record sets (Produce request, Fetch response): every other set is of the OTHER kind
	// (message set v1 / record batch) - a broker serves old segments as message sets and new ones as batches
	Mixed bool
}

func (c vcfg) String() string {
	f := [...]string{"msgset0", "msgset1", "batch"}[c.Fmt]
	l := fmt.Sprint(c.Level)
	if c.Level == CompressionLevelDefault {
		l = "default"
	}
	if c.Mixed {
		f += "+mixed"
	}
	return fmt.Sprintf("%s/%s/L%s", f, c.Codec.String(), l)
}

type valt struct {
	name string
	val  reflect.Value
	tame bool // value survives any reasonable wire representation unchanged (0, 1, -1, short strings…): read-back is demanded
}

type vslot struct {
	path      string // e.g. Blocks[s3][4].Records.RecordBatch.Records[0].Key
	owner     string // struct type and field the slot belongs to, e.g. Record.Key
	kind      string
	v         reflect.Value // settable holder
	commit    func()        // propagates a change to enclosing map values (no-op elsewhere)
	alts      []valt
	inRecords bool // inside a RecordBatch / MessageSet (different length encodings, enclosing length+crc fields)
	derived   bool // not transmitted as such (decode-side flags, caches): no field-sensitivity demanded
}

type vgen struct {
	nrec  int // record sets generated so far (cfg.Mixed)
	cfg   vcfg
	ctr   int
	slots []*vslot
	depth map[string]int
	root  string // name of the root type
	owner string // Type.Field currently being walked
}

// vrule: a restriction of the input domain, each with the reason why the excluded value is outside what
// the codec is meant to represent (listed in the evidence). root/alts: "|"-separated, "" = any.
type vrule struct {
	Root, PathSuffix, Alts, Why string
}

var vdomainRules = []vrule{
	{"ProduceRequest|Records", ".MsgSet.Messages", "nil|empty",
		"an empty legacy message set occupies zero bytes; Records.decode needs the magic byte at offset 16 to tell the format, so the Records union cannot represent it (FetchResponseBlock.decode tests remaining()>0 before calling it)"},
	{"FetchResponse", ".RecordBatch.Records", "nil|empty",
		"FetchResponseBlock.decode deliberately keeps only record sets with ≥1 record (fetch_response.go: `if n > 0 || (partial && len(b.RecordsSet) == 0)`), so an empty batch is dropped by design"},
	{"OffsetRequest", "replicaID", "-1|min",
		"replica ids are ≥0; -1 is the wire sentinel for 'not a replica' (decode leaves the id unset for negative values)"},
	{"AlterUserScramCredentialsRequest", ".Iterations", "max",
		"encode runs PBKDF2 with that many rounds by design (2^31 rounds take minutes); Kafka limits iterations to 4096..16384"},
}

func (g *vgen) excluded(path, alt string) bool {
	np := vslotPathNorm(path)
	for _, r := range vdomainRules {
		if r.Root != "" && !vinList(r.Root, g.root) {
			continue
		}
		if !strings.HasSuffix(np, r.PathSuffix) {
			continue
		}
		if r.Alts == "" || vinList(r.Alts, alt) {
			return true
		}
	}
	return false
}

func vinList(list, x string) bool {
	for _, e := range strings.Split(list, "|") {
		if e == x {
			return true
		}
	}
	return false
}

// base-value overrides: fields whose legal domain does not contain the counter value
var vbaseOverride = map[string]func(v reflect.Value){
	"AlterUserScramCredentialsUpsert.Mechanism": func(v reflect.Value) { v.SetInt(int64(SCRAM_MECHANISM_SHA_256)) },
	"AlterUserScramCredentialsDelete.Mechanism": func(v reflect.Value) { v.SetInt(int64(SCRAM_MECHANISM_SHA_512)) },
	"OffsetFetchRequest.RequireStable":          func(v reflect.Value) { v.SetBool(false) },              // true is only encodable in v7
	"JoinGroupRequest.GroupProtocols":           func(v reflect.Value) { v.Set(reflect.Zero(v.Type())) }, // deprecated twin of OrderedGroupProtocols; both set is rejected
	"VerifRespHeader.Length":                    func(v reflect.Value) { v.SetInt(100) },
}

// Go int-kinded enums that travel as int8
var vint8Types = map[string]bool{"AclOperation": true, "AclPermissionType": true, "AclResourceType": true, "AclResourcePatternType": true}

// fields that are never slots: configuration axes, codec scratch state, decode-side aliases
var vskip = map[string]string{
	"RecordBatch.Version":                      "magic, fixed 2",
	"RecordBatch.Codec":                        "config axis",
	"RecordBatch.CompressionLevel":             "config axis (not on the wire)",
	"RecordBatch.compressedRecords":            "encoder cache",
	"RecordBatch.recordsLen":                   "encoder/decoder statistic",
	"Record.length":                            "push-field scratch",
	"Message.Version":                          "config axis (magic)",
	"Message.Codec":                            "config axis",
	"Message.CompressionLevel":                 "config axis (not on the wire)",
	"Message.Set":                              "built by the harness for compressed wrappers",
	"Message.compressedCache":                  "encoder cache",
	"Message.compressedSize":                   "statistic",
	"Records.recordsType":                      "union tag, kept consistent",
	"FetchResponseBlock.Records":               "decode-side alias of RecordsSet[0]",
	"StickyAssignorUserDataV0.topicPartitions": "derived by decode",
	"StickyAssignorUserDataV1.topicPartitions": "derived by decode",
}

var (
	vtTime     = reflect.TypeOf(time.Time{})
	vtDuration = reflect.TypeOf(time.Duration(0))
	vtBroker   = reflect.TypeOf(Broker{})
	vtRecords  = reflect.TypeOf(Records{})
	vtBatch    = reflect.TypeOf(RecordBatch{})
	vtMessage  = reflect.TypeOf(Message{})
	vtMsgSet   = reflect.TypeOf(MessageSet{})
	vtBytes    = reflect.TypeOf([]byte(nil))
	vBaseTime  = time.Unix(1500000000, 123*int64(time.Millisecond))
)

func vsettable(f reflect.Value) reflect.Value {
	if f.CanSet() {
		return f
	}
	return reflect.NewAt(f.Type(), unsafe.Pointer(f.UnsafeAddr())).Elem()
}

func (g *vgen) next() int { g.ctr++; return g.ctr }

// fill sets v (settable) to the base value of its type.
func (g *vgen) fill(v reflect.Value, owner string) {
	t := v.Type()
	switch t {
	case vtTime:
		v.Set(reflect.ValueOf(vBaseTime.Add(time.Duration(g.next()) * time.Second)))
		return
	case vtDuration:
		v.SetInt(int64(time.Duration(g.next()+10) * time.Millisecond))
		return
	}
	switch t.Kind() {
	case reflect.Bool:
		v.SetBool(true)
	case reflect.Int8:
		v.SetInt(int64(g.next()%100 + 2))
	case reflect.Int, reflect.Int16, reflect.Int32, reflect.Int64:
		v.SetInt(int64(g.next() + 2))
	case reflect.Uint8:
		v.SetUint(uint64(g.next()%200 + 2))
	case reflect.Uint, reflect.Uint16, reflect.Uint32, reflect.Uint64:
		v.SetUint(uint64(g.next() + 2))
	case reflect.String:
		v.SetString(fmt.Sprintf("s%d", g.next()))
	case reflect.Slice:
		if t == vtBytes {
			v.SetBytes([]byte(fmt.Sprintf("b%d", g.next())))
			return
		}
		s := reflect.MakeSlice(t, 1, 1)
		g.fill(s.Index(0), owner)
		v.Set(s)
	case reflect.Map:
		m := reflect.MakeMap(t)
		k := reflect.New(t.Key()).Elem()
		g.fill(k, owner)
		e := reflect.New(t.Elem()).Elem()
		g.fill(e, owner)
		m.SetMapIndex(k, e)
		v.Set(m)
	case reflect.Ptr:
		p := reflect.New(t.Elem())
		g.fill(p.Elem(), owner)
		v.Set(p)
	case reflect.Struct:
		g.fillStruct(v)
	default:
		panic(fmt.Sprintf("verif generator: unsupported kind %s in %s", t.Kind(), owner))
	}
}

func (g *vgen) fillStruct(v reflect.Value) {
	t := v.Type()
	switch t {
	case vtBroker:
		b := v.Addr().Interface().(*Broker)
		b.id = int32(g.next() + 2)
		b.addr = fmt.Sprintf("host%d:%d", g.next(), 9000+g.ctr%100)
		r := fmt.Sprintf("rack%d", g.next())
		b.rack = &r
		return
	case vtRecords:
		r := v.Addr().Interface().(*Records)
		batch := g.cfg.Fmt == 2
		if g.cfg.Mixed {
			if g.nrec%2 == 1 {
				batch = !batch
			}
			g.nrec++
		}
		if batch {
			r.recordsType = defaultRecords
			r.RecordBatch = &RecordBatch{}
			g.fillStruct(reflect.ValueOf(r.RecordBatch).Elem())
		} else {
			r.recordsType = legacyRecords
			r.MsgSet = &MessageSet{}
			g.fillStruct(reflect.ValueOf(r.MsgSet).Elem())
		}
		return
	}
	name := t.Name()
	g.depth[name]++
	defer func() { g.depth[name]-- }()
	for i := 0; i < t.NumField(); i++ {
		f := t.Field(i)
		if _, skip := vskip[name+"."+f.Name]; skip {
			continue
		}
		if f.Name == "Version" && !vversionIsData[name] {
			continue // version axis: set by the family (top level) or by sarama's encode (nested)
		}
		if t == vtMessage && f.Name == "Value" && g.cfg.Codec != CompressionNone && g.depth["Message"] == 1 {
			continue // compressed wrapper: Value is derived from Set by vfinalize
		}
		g.fill(vsettable(v.Field(i)), name+"."+f.Name)
		if o := vbaseOverride[name+"."+f.Name]; o != nil {
			o(vsettable(v.Field(i)))
		}
	}
	switch t {
	case vtBatch:
		b := v.Addr().Interface().(*RecordBatch)
		b.Version = 2
		b.Codec = g.cfg.Codec
		b.CompressionLevel = g.cfg.Level
		b.PartialTrailingRecord = false
	case vtMessage:
		m := v.Addr().Interface().(*Message)
		m.Version = int8(g.cfg.Fmt)
		if g.cfg.Fmt > 1 {
			m.Version = 1
		}
		if g.depth["Message"] == 1 && g.cfg.Codec != CompressionNone {
			m.Codec = g.cfg.Codec
			m.CompressionLevel = g.cfg.Level
			m.Set = &MessageSet{}
			g.fillStruct(reflect.ValueOf(m.Set).Elem())
		}
	case vtMsgSet:
		ms := v.Addr().Interface().(*MessageSet)
		ms.PartialTrailingMessage = false
		ms.OverflowMessage = false
	}
}

// vfinalize completes derived fields after deviations were applied: the Value of a compressing wrapper
// message is the encoding of its inner set (what produce_set.go does).
func vfinalize(v reflect.Value) error {
	var err error
	vvisit(v, func(x reflect.Value) {
		if x.Type() == vtMessage && x.CanAddr() {
			m := x.Addr().Interface().(*Message)
			if m.Codec != CompressionNone && m.Set != nil {
				b, e := encode(m.Set, nil)
				if e != nil {
					err = e
				}
				m.Value = b
			}
		}
	})
	return err
}

// vsetLevels re-supplies the compression level (an encoder parameter that is not on the wire) to a decoded value.
func vsetLevels(v reflect.Value, level int) {
	vvisit(v, func(x reflect.Value) {
		if !x.CanAddr() {
			return
		}
		switch x.Type() {
		case vtMessage:
			m := x.Addr().Interface().(*Message)
			if m.Codec != CompressionNone {
				m.CompressionLevel = level
			}
		case vtBatch:
			x.Addr().Interface().(*RecordBatch).CompressionLevel = level
		}
	})
}

// vvisit calls fn on every struct value reachable from v (pointers, slices, map values followed).
func vvisit(v reflect.Value, fn func(reflect.Value)) {
	switch v.Kind() {
	case reflect.Ptr, reflect.Interface:
		if !v.IsNil() {
			vvisit(v.Elem(), fn)
		}
	case reflect.Struct:
		if v.Type() == vtTime || v.Type() == vtBroker {
			return
		}
		fn(v)
		for i := 0; i < v.NumField(); i++ {
			f := v.Field(i)
			if v.CanAddr() {
				f = vsettable(f)
			}
			vvisit(f, fn)
		}
	case reflect.Slice:
		if v.Type() == vtBytes {
			return
		}
		for i := 0; i < v.Len(); i++ {
			vvisit(v.Index(i), fn)
		}
	case reflect.Map:
		it := v.MapRange()
		for it.Next() {
			e := it.Value()
			if e.Kind() == reflect.Struct { // e.g. map[int32]Records: visit an addressable copy and store it back
				c := reflect.New(e.Type()).Elem()
				c.Set(e)
				vvisit(c, fn)
				v.SetMapIndex(it.Key(), c)
			} else {
				vvisit(e, fn)
			}
		}
	}
}

// ---- slot collection ----

func (g *vgen) addSlot(s *vslot) {
	s.owner = g.owner
	if strings.HasPrefix(s.kind, "key-") {
		s.owner += "<key>"
	}
	// drop alternatives equal to the base value
	base := vdump(s.v, false)
	out := s.alts[:0]
	for _, a := range s.alts {
		if g.excluded(s.path, a.name) {
			continue
		}
		if vdump(a.val, false) != base {
			out = append(out, a)
		}
	}
	s.alts = out
	if len(s.alts) > 0 {
		g.slots = append(g.slots, s)
	}
}

func vconv(t reflect.Type, x interface{}) reflect.Value { return reflect.ValueOf(x).Convert(t) }

func vintAlts(t reflect.Type) []valt {
	var lo, hi int64
	k := t.Kind()
	if vint8Types[t.Name()] {
		k = reflect.Int8
	}
	switch k {
	case reflect.Int8:
		lo, hi = math.MinInt8, math.MaxInt8
	case reflect.Int16:
		lo, hi = math.MinInt16, math.MaxInt16
	case reflect.Int32, reflect.Int:
		lo, hi = math.MinInt32, math.MaxInt32
	default:
		lo, hi = math.MinInt64, math.MaxInt64
	}
	return []valt{
		{"0", vconv(t, int64(0)), true}, {"1", vconv(t, int64(1)), true}, {"-1", vconv(t, int64(-1)), true},
		{"min", vconv(t, lo), false}, {"max", vconv(t, hi), false},
	}
}

var vstr300 = strings.Repeat("a", 300)
var vstr127 = strings.Repeat("b", 127) // n+1 = 128: first length whose compact (uvarint n+1) prefix needs two bytes

func vstringAlts(t reflect.Type) []valt {
	return []valt{{"empty", vconv(t, ""), true}, {"1char", vconv(t, "x"), true}, {"nonascii", vconv(t, "é☃\x00"), true}, {"127", vconv(t, vstr127), true}, {"300", vconv(t, vstr300), true}}
}

func (g *vgen) leafAlts(v reflect.Value, path string) (string, []valt) {
	t := v.Type()
	switch t {
	case vtTime:
		return "time", []valt{
			{"zero", reflect.ValueOf(time.Time{}), true},
			{"ms", reflect.ValueOf(time.Unix(1234567, 891*int64(time.Millisecond))), true},
			{"subms", reflect.ValueOf(time.Unix(1234567, 891*int64(time.Millisecond)+456789)), false},
			{"epoch", reflect.ValueOf(time.Unix(0, 0)), true},
			{"pre-epoch", reflect.ValueOf(time.Unix(-5, 0)), false},
		}
	case vtDuration:
		ms := int64(time.Millisecond)
		return "duration", []valt{
			{"0", vconv(t, int64(0)), true}, {"1ms", vconv(t, ms), true}, {"-1ms", vconv(t, -ms), true},
			{"subms", vconv(t, 7*ms+1), false}, {"maxint32ms", vconv(t, math.MaxInt32*ms), true}, {"minint32ms", vconv(t, math.MinInt32*ms), true},
			{"max", vconv(t, int64(math.MaxInt64)), false}, {"min", vconv(t, int64(math.MinInt64)), false},
		}
	}
	switch t.Kind() {
	case reflect.Bool:
		return "bool", []valt{{"false", vconv(t, false), true}, {"true", vconv(t, true), true}}
	case reflect.Int, reflect.Int8, reflect.Int16, reflect.Int32, reflect.Int64:
		return "int", vintAlts(t)
	case reflect.Uint, reflect.Uint8, reflect.Uint16, reflect.Uint32, reflect.Uint64:
		return "uint", []valt{{"0", vconv(t, uint64(0)), true}, {"1", vconv(t, uint64(1)), true}, {"max", vconv(t, uint64(math.MaxUint8)), false}}
	case reflect.String:
		return "string", vstringAlts(t)
	}
	return "", nil
}

func (g *vgen) walk(v reflect.Value, path string, commit func(), inRec bool) {
	t := v.Type()
	if k, alts := g.leafAlts(v, path); k != "" {
		g.addSlot(&vslot{path: path, kind: k, v: v, commit: commit, alts: alts, inRecords: inRec})
		return
	}
	switch t.Kind() {
	case reflect.Ptr:
		if t.Elem().Kind() == reflect.String {
			e := func(s string) reflect.Value { p := reflect.New(t.Elem()); p.Elem().SetString(s); return p }
			g.addSlot(&vslot{path: path, kind: "nstring", v: v, commit: commit, inRecords: inRec, alts: []valt{
				{"nil", reflect.Zero(t), true}, {"empty", e(""), true}, {"1char", e("x"), true}, {"nonascii", e("é☃\x00"), true}, {"127", e(vstr127), true}, {"300", e(vstr300), true}}})
			return
		}
		if t.Elem() == vtBroker {
			g.walkBroker(v, path, commit, !strings.HasSuffix(path, "]"))
			return
		}
		if !v.IsNil() {
			g.walk(v.Elem(), path, commit, inRec)
		}
	case reflect.Struct:
		g.walkStruct(v, path, commit, inRec)
	case reflect.Slice:
		if t == vtBytes {
			b300 := make([]byte, 300)
			for i := range b300 {
				b300[i] = byte(i)
			}
			b127, b64 := b300[100:227], b300[30:94] // 127: compact boundary; 64: first zig-zag varint length needing two bytes
			g.addSlot(&vslot{path: path, kind: "bytes", v: v, commit: commit, inRecords: inRec, alts: []valt{
				{"nil", reflect.Zero(t), true}, {"empty", reflect.ValueOf([]byte{}), true}, {"1", reflect.ValueOf([]byte{0}), true},
				{"2", reflect.ValueOf([]byte{0xff, 0}), true}, {"64", reflect.ValueOf(b64), true}, {"127", reflect.ValueOf(b127), true}, {"300", reflect.ValueOf(b300), true}}})
			return
		}
		// the collection itself
		two := reflect.MakeSlice(t, 2, 2)
		one := reflect.MakeSlice(t, 1, 1)
		if v.Len() > 0 {
			two.Index(0).Set(v.Index(0))
		} else {
			g.fill(two.Index(0), path)
		}
		one.Index(0).Set(two.Index(0))
		g.fill(two.Index(1), path)
		salts := []valt{{"nil", reflect.Zero(t), true}, {"empty", reflect.MakeSlice(t, 0, 0), true}, {"1", one, true}, {"2", two, true}}
		switch t.Elem().Kind() {
		case reflect.Int8, reflect.Int16, reflect.Int32, reflect.Int64, reflect.Bool:
			// lists of scalars around the length at which the compact (uvarint n+1) prefix needs a second byte:
			// an off-by-one in either pass of the encoder shows at 126, 127 or 128 elements
			for _, n := range []int{126, 127, 128} {
				l := reflect.MakeSlice(t, n, n)
				for i := 0; i < n; i++ {
					if t.Elem().Kind() == reflect.Bool {
						l.Index(i).SetBool(i%3 == 0)
					} else {
						l.Index(i).SetInt(int64(i % 100))
					}
				}
				salts = append(salts, valt{strconv.Itoa(n), l, true})
			}
		}
		g.addSlot(&vslot{path: path, kind: "slice", v: v, commit: commit, inRecords: inRec, alts: salts})
		for i := 0; i < v.Len(); i++ {
			g.walk(v.Index(i), fmt.Sprintf("%s[%d]", path, i), commit, inRec)
		}
	case reflect.Map:
		keys := vsortedKeys(v)
		two := reflect.MakeMap(t)
		one := reflect.MakeMap(t)
		for _, k := range keys {
			two.SetMapIndex(k, v.MapIndex(k))
			one.SetMapIndex(k, v.MapIndex(k))
		}
		for two.Len() < 2 {
			k2 := reflect.New(t.Key()).Elem()
			g.fill(k2, path)
			e2 := reflect.New(t.Elem()).Elem()
			g.fill(e2, path)
			two.SetMapIndex(k2, e2)
			if one.Len() == 0 {
				one.SetMapIndex(k2, e2)
			}
		}
		g.addSlot(&vslot{path: path, kind: "map", v: v, commit: commit, inRecords: inRec, alts: []valt{
			{"nil", reflect.Zero(t), true}, {"empty", reflect.MakeMap(t), true}, {"1", one, true}, {"2", two, true}}})
		for _, k := range keys {
			k := k
			m := v
			// key slot: the holder is a scratch copy of the key; commit moves the entry
			kh := reflect.New(t.Key()).Elem()
			kh.Set(k)
			kk, kalts := g.leafAlts(kh, path)
			if kk != "" {
				g.addSlot(&vslot{path: fmt.Sprintf("%s<key %s>", path, vdump(k, false)), kind: "key-" + kk, v: kh, inRecords: inRec, alts: kalts,
					commit: func() {
						val := m.MapIndex(k)
						m.SetMapIndex(k, reflect.Value{})
						m.SetMapIndex(kh, val)
						if commit != nil {
							commit()
						}
					}})
			}
			eh := reflect.New(t.Elem()).Elem()
			eh.Set(m.MapIndex(k))
			g.walk(eh, fmt.Sprintf("%s[%s]", path, vdump(k, false)), func() {
				m.SetMapIndex(k, eh)
				if commit != nil {
					commit()
				}
			}, inRec)
		}
	default:
		panic("verif generator: cannot walk " + t.String() + " at " + path)
	}
}

func (g *vgen) walkBroker(v reflect.Value, path string, commit func(), nilOK bool) {
	t := v.Type()
	if nilOK { // a field (FindCoordinatorResponse.Coordinator), not an element of a broker list
		g.addSlot(&vslot{path: path, kind: "ptr", v: v, commit: commit, alts: []valt{{"nil", reflect.Zero(t), true}}})
	}
	if v.IsNil() {
		return
	}
	b := v.Interface().(*Broker)
	saved := g.owner
	defer func() { g.owner = saved }()
	g.owner = "Broker.id"
	g.walk(reflect.ValueOf(&b.id).Elem(), path+".id", commit, false)
	g.owner = "Broker.rack"
	g.walk(reflect.ValueOf(&b.rack).Elem(), path+".rack", commit, false)
	g.owner = "Broker.addr"
	host := strings.SplitN(b.addr, ":", 2)[0]
	st := reflect.TypeOf("")
	var alts []valt
	for _, a := range []string{":9092", "x:9092", "é☃:9092", vstr300 + ":9092", host + ":0", host + ":1", host + ":-1", host + ":2147483647", host + ":-2147483648", "[::1]:9092"} {
		alts = append(alts, valt{a[:vmin(len(a), 24)], vconv(st, a), true})
	}
	g.addSlot(&vslot{path: path + ".addr", kind: "addr", v: reflect.ValueOf(&b.addr).Elem(), commit: commit, alts: alts})
}

func vmin(a, b int) int {
	if a < b {
		return a
	}
	return b
}

func (g *vgen) walkStruct(v reflect.Value, path string, commit func(), inRec bool) {
	t := v.Type()
	name := t.Name()
	switch t {
	case vtRecords:
		r := v.Addr().Interface().(*Records)
		if r.RecordBatch != nil {
			g.walkStruct(reflect.ValueOf(r.RecordBatch).Elem(), path+".RecordBatch", commit, true)
		}
		if r.MsgSet != nil {
			g.walkStruct(reflect.ValueOf(r.MsgSet).Elem(), path+".MsgSet", commit, true)
		}
		return
	case vtBatch, vtMsgSet, vtMessage:
		inRec = true
	}
	for i := 0; i < t.NumField(); i++ {
		f := t.Field(i)
		if _, skip := vskip[name+"."+f.Name]; skip {
			if t == vtMessage && f.Name == "Set" {
				m := v.Addr().Interface().(*Message)
				if m.Set != nil {
					g.depth["Message"]++ // values created inside the inner set are plain messages
					g.walkStruct(reflect.ValueOf(m.Set).Elem(), path+".Set", commit, true)
					g.depth["Message"]--
				}
			}
			continue
		}
		if f.Name == "Version" && !vversionIsData[name] {
			continue
		}
		if t == vtMessage && f.Name == "Value" {
			if m := v.Addr().Interface().(*Message); m.Set != nil {
				continue
			}
		}
		p := f.Name
		if path != "" {
			p = path + "." + f.Name
		}
		n0 := len(g.slots)
		saved := g.owner
		if k := f.Type.Kind(); !(k == reflect.Struct && f.Type != vtTime) && !(k == reflect.Ptr && f.Type.Elem().Kind() == reflect.Struct && f.Type.Elem() != vtBroker) {
			g.owner = name + "." + f.Name
		}
		g.walk(vsettable(v.Field(i)), p, commit, inRec)
		g.owner = saved
		if vderived[name+"."+f.Name] {
			for _, s := range g.slots[n0:] {
				s.derived = true
			}
		}
	}
}

// types whose Version field is an ordinary wire field (written and read as data)
var vversionIsData = map[string]bool{"ConsumerGroupMemberMetadata": true, "ConsumerGroupMemberAssignment": true}

// decode-side flags and helper fields that are not transmitted
var vderived = map[string]bool{
	"RecordBatch.PartialTrailingRecord": true,
	"MessageSet.PartialTrailingMessage": true,
	"MessageSet.OverflowMessage":        true,
	"FetchResponseBlock.Partial":        true,
	// alter_user_scram_credentials_request.go: "This field is never transmitted over the wire" (its salted hash is)
	"AlterUserScramCredentialsUpsert.Password": true,
}

func vsortedKeys(m reflect.Value) []reflect.Value {
	keys := m.MapKeys()
	sort.Slice(keys, func(i, j int) bool { return vkeyLess(keys[i], keys[j]) })
	return keys
}

func vkeyLess(a, b reflect.Value) bool {
	switch a.Kind() {
	case reflect.String:
		return a.String() < b.String()
	case reflect.Int, reflect.Int8, reflect.Int16, reflect.Int32, reflect.Int64:
		return a.Int() < b.Int()
	}
	return vdump(a, false) < vdump(b, false)
}

// vbuild returns a fresh base value (pointer to t) and its slots.
func vbuild(t reflect.Type, cfg vcfg, prepare func(root reflect.Value)) (reflect.Value, []*vslot) {
	g := &vgen{cfg: cfg, depth: map[string]int{}, root: t.Name()}
	root := reflect.New(t)
	g.fillStruct(root.Elem())
	if prepare != nil {
		prepare(root)
	}
	g.walkStruct(root.Elem(), "", nil, false)
	return root, g.slots
}

// vapply applies deviations (slot index, alternative index) to a freshly built base. Slots are applied
// from the highest index down, so that an enclosing key move happens after changes inside the entry.
// It reports false if one deviation lies inside a collection that another deviation replaces.
func vapply(slots []*vslot, devs [][2]int) bool {
	ds := append([][2]int(nil), devs...)
	sort.Slice(ds, func(i, j int) bool { return ds[i][0] > ds[j][0] })
	for i := range ds {
		for j := range ds {
			if i != j && vinside(slots[ds[i][0]].path, slots[ds[j][0]].path) {
				return false
			}
		}
	}
	for _, d := range ds {
		s := slots[d[0]]
		s.v.Set(s.alts[d[1]].val)
		if s.commit != nil {
			s.commit()
		}
	}
	return true
}

// vinside: slot a lies strictly inside the collection / pointer slot b
func vinside(a, b string) bool {
	if i := strings.Index(b, "<key "); i >= 0 {
		return false
	}
	return len(a) > len(b) && strings.HasPrefix(a, b) && (a[len(b)] == '[' || a[len(b)] == '.' || a[len(b)] == '<')
}
