//go:build verif

package sarama

// C10 harness: malformed input. Seeds are the valid encodings of C09's values for every decode entry
// point that reads data the client does not control; every single mutation of a seed (truncation at
// every length, every bit flip, every 1/2/4-byte big-endian field and every varint / uvarint at every
// offset overwritten with each boundary value) and every short byte string is fed to the real decoder.
// Oracle: value or error — no panic, no death, no hang (parent watchdog), allocation within
// 64 KiB + 1000·len(input) (+ 40·decompressed size + the codec's working set for compressed seeds);
// for record formats additionally: a mutation inside a checksummed region or of a length field yields
// an error or a prefix of the original records, never different records.

import (
	"encoding/binary"
	"encoding/hex"
	"fmt"
	"hash/crc32"
	"os"
	"reflect"
	"runtime"
	"runtime/debug"
	"sort"
	"strconv"
	"strings"
)

type VerifC10Result struct {
	Unit       string           `json:"unit"`
	Family     string           `json:"family"`
	Seeds      int              `json:"seeds"`
	SeedBytes  int              `json:"seed_bytes"`
	Cases      int              `json:"cases"`
	Next       int              `json:"next"` // index of the first case not executed (== total when complete)
	ByClass    map[string]int   `json:"by_class"`
	Outcomes   map[string]int   `json:"outcomes"` // value | error | panic | alloc | wrong-records
	Errors     map[string]int   `json:"errors"`   // distinct error texts (numbers stripped) → count
	Distinct   int              `json:"distinct"` // distinct inputs (hash) that reached a decoder
	CRCChecked int              `json:"crc_clause_checked"`
	SigCount   map[string]int   `json:"sig_count"`
	Violations []VerifViolation `json:"violations,omitempty"` // first example per signature
	MaxAlloc   uint64           `json:"max_alloc"`
	WorkingSet uint64           `json:"working_set"`
	Sample     string           `json:"sample,omitempty"`
	EngineErr  string           `json:"engine_error,omitempty"`
	// Recycle: the unit stopped early (at Next) after a case that allocated ≥64 MiB: the Go runtime never gives
	// address space back, so the worker asks to be replaced instead of dying later of an innocent allocation
	Recycle   bool `json:"recycle,omitempty"`
	Partial   bool `json:"partial,omitempty"` // an intermediate result (cases up to Next); counters restart after it
	lastAlloc uint64
}

const (
	vAllocBase    = 64 << 10
	vAllocPerByte = 1000
	vAllocPerDec  = 40
)

// boundary values written into every field position
func vfieldValues(width int, remaining int) []uint64 {
	mask := uint64(1)<<(8*uint(width)) - 1
	if width == 8 {
		mask = ^uint64(0)
	}
	vals := []uint64{mask /* -1 / 0xff.. */, 0, 1, mask >> 1 /* 0x7f.. */, (mask >> 1) + 1 /* 0x80.. */, uint64(remaining+1) & mask, uint64(1<<31-1) & mask,
		2, 3, 4, 5, 8 /* small lengths: shorter than any header, just below / at / above the fixed part of a frame */}
	seen := map[uint64]bool{}
	var out []uint64
	for _, v := range vals {
		if !seen[v] {
			seen[v] = true
			out = append(out, v)
		}
	}
	return out
}

type vmutation struct {
	class string // truncate | bitflip | int8 | int16 | int32 | varint | uvarint | short
	desc  string
	off   int // first byte changed (or new length for truncate)
	n     int // number of bytes changed
}

// vmutate enumerates all single mutations of seed; fn receives a private copy. Returns false if fn stopped it.
// The enumeration order is fixed: the i-th mutation of a seed is always the same.
func vmutate(seed []byte, from int, fn func(idx int, m vmutation, data []byte) bool) (total int, completed bool) {
	idx := 0
	emit := func(m vmutation, mk func() []byte) bool {
		i := idx
		idx++
		if i < from {
			return true
		}
		return fn(i, m, mk())
	}
	L := len(seed)
	// the valid seed itself first (baseline), then truncations
	if !emit(vmutation{"valid", "unmodified", L, 0}, func() []byte { return append([]byte{}, seed...) }) {
		return idx, false
	}
	for l := 0; l < L; l++ {
		l := l
		if !emit(vmutation{"truncate", fmt.Sprintf("truncated to %d of %d bytes", l, L), l, 0}, func() []byte { return append([]byte{}, seed[:l]...) }) {
			return idx, false
		}
	}
	for i := 0; i < L; i++ {
		for bit := 0; bit < 8; bit++ {
			i, bit := i, bit
			if !emit(vmutation{"bitflip", fmt.Sprintf("bit %d of byte %d flipped", bit, i), i, 1}, func() []byte {
				d := append([]byte{}, seed...)
				d[i] ^= 1 << uint(bit)
				return d
			}) {
				return idx, false
			}
		}
	}
	for i := 0; i < L; i++ {
		for _, w := range []int{1, 2, 4} {
			if i+w > L {
				continue
			}
			for _, v := range vfieldValues(w, L-i-w) {
				i, w, v := i, w, v
				cur := uint64(0)
				for k := 0; k < w; k++ {
					cur = cur<<8 | uint64(seed[i+k])
				}
				if cur == v {
					continue // not a mutation
				}
				if !emit(vmutation{"int" + strconv.Itoa(8*w), fmt.Sprintf("%d-byte field at %d := %#x", w, i, v), i, w}, func() []byte {
					d := append([]byte{}, seed...)
					for k := 0; k < w; k++ {
						d[i+w-1-k] = byte(v >> (8 * uint(k)))
					}
					return d
				}) {
					return idx, false
				}
			}
		}
		// zig-zag varints and unsigned varints: the encoding overwrites as many bytes as it needs
		rem := L - i - 1
		for _, sv := range []int64{-1, 0, 1, 0x7f, 0x3f, -0x40, -0x80, int64(rem + 1), 1<<31 - 1, -1 << 31, 1<<63 - 1, -1 << 63} {
			var tmp [binary.MaxVarintLen64]byte
			n := binary.PutVarint(tmp[:], sv)
			if i+n > L || string(seed[i:i+n]) == string(tmp[:n]) {
				continue
			}
			i, sv, enc := i, sv, append([]byte{}, tmp[:n]...)
			if !emit(vmutation{"varint", fmt.Sprintf("zig-zag varint %d written at %d", sv, i), i, n}, func() []byte {
				d := append([]byte{}, seed...)
				copy(d[i:], enc)
				return d
			}) {
				return idx, false
			}
		}
		for _, uv := range []uint64{0, 1, 2, 0x7f, 0x80, uint64(rem + 1), uint64(rem + 2), 1<<31 - 1, 1 << 31, 1<<32 - 1, 1 << 32, 1<<63 - 1, 1 << 63, 1<<64 - 1} {
			var tmp [binary.MaxVarintLen64]byte
			n := binary.PutUvarint(tmp[:], uv)
			if i+n > L || string(seed[i:i+n]) == string(tmp[:n]) {
				continue
			}
			i, uv, enc := i, uv, append([]byte{}, tmp[:n]...)
			if !emit(vmutation{"uvarint", fmt.Sprintf("unsigned varint %d written at %d", uv, i), i, n}, func() []byte {
				d := append([]byte{}, seed...)
				copy(d[i:], enc)
				return d
			}) {
				return idx, false
			}
		}
	}
	return idx, true
}

var vshortAlphabet = []byte{0x00, 0x01, 0x02, 0x03, 0x04, 0x10, 0x20, 0x40, 0x7f, 0x80, 0xfe, 0xff}

func vshortStrings(maxLen int, from int, fn func(idx int, m vmutation, data []byte) bool) (int, bool) {
	idx := 0
	for l := 0; l <= maxLen; l++ {
		n := 1
		for k := 0; k < l; k++ {
			n *= len(vshortAlphabet)
		}
		for c := 0; c < n; c++ {
			i := idx
			idx++
			if i < from {
				continue
			}
			d := make([]byte, l)
			x := c
			for k := l - 1; k >= 0; k-- {
				d[k] = vshortAlphabet[x%len(vshortAlphabet)]
				x /= len(vshortAlphabet)
			}
			if !fn(i, vmutation{"short", fmt.Sprintf("byte string %x", d), 0, l}, d) {
				return idx, false
			}
		}
	}
	return idx, true
}

// vregions: byte ranges of seed that are covered by a record-batch / message checksum or hold a length
// field of a record format (found by locating the separately encoded record sets inside the seed).
type vregion struct {
	lo, hi int
	crcAt  int  // >0: the 4 bytes at this offset hold the checksum of [lo,hi)
	c      bool // CRC-32C (record batch) instead of IEEE (legacy message)
}

func vrecordRegions(root reflect.Value, seed []byte) (regions []vregion, has bool) {
	add := func(b []byte, walk func(base int)) {
		if len(b) == 0 {
			return
		}
		if p := strings.Index(string(seed), string(b)); p >= 0 {
			walk(p)
		}
	}
	var batchRegions func(base int, b []byte)
	batchRegions = func(base int, b []byte) {
		if len(b) < 61 {
			return
		}
		end := 12 + int(int32(binary.BigEndian.Uint32(b[8:])))
		if end > len(b) {
			end = len(b)
		}
		regions = append(regions, vregion{lo: base + 8, hi: base + 12}, vregion{lo: base + 21, hi: base + end, crcAt: base + 17, c: true})
	}
	var setRegions func(base int, b []byte)
	setRegions = func(base int, b []byte) {
		off := 0
		for off+12 <= len(b) {
			size := int(int32(binary.BigEndian.Uint32(b[off+8:])))
			if size < 0 || off+12+size > len(b) {
				break
			}
			regions = append(regions, vregion{lo: base + off + 8, hi: base + off + 12}, vregion{lo: base + off + 16, hi: base + off + 12 + size, crcAt: base + off + 12})
			off += 12 + size
		}
	}
	vvisitAll(root, func(x reflect.Value) {
		switch x.Type() {
		case vtBatch:
			has = true
			rb := x.Addr().Interface().(*RecordBatch)
			cp := *rb
			cp.compressedRecords = nil
			if b, err := encode(&cp, nil); err == nil {
				add(b, func(p int) { batchRegions(p, b) })
			}
		case vtMsgSet:
			has = true
			ms := x.Addr().Interface().(*MessageSet)
			if b, err := encode(ms, nil); err == nil {
				add(b, func(p int) { setRegions(p, b) })
			}
		}
	})
	return
}

// vvisitAll is vvisit that also visits RecordBatch / MessageSet structs reached through pointers.
func vvisitAll(v reflect.Value, fn func(reflect.Value)) { vvisit(v, fn) }

// vtwinProgress: progress hook of the running unit (a death inside the valid-checksum twin is attributed to it).
var vtwinProgress func(string)

// vtwinFloor: a corrupted payload with a matching checksum is indistinguishable, for the decompressor, from a payload that
// legitimately needs its working window; only allocations that are clearly disproportionate are reported for the twin.
const vtwinFloor = 16 << 20

// vfixCRCs recomputes the checksums of the regions of the seed inside (mutated) data.
func vfixCRCs(rs []vregion, data []byte) ([]byte, bool) {
	out := append([]byte{}, data...)
	changed := false
	for _, r := range rs {
		if r.crcAt <= 0 || r.hi > len(out) || r.crcAt+4 > len(out) || r.lo > r.hi {
			continue
		}
		var sum uint32
		if r.c {
			sum = crc32.Checksum(out[r.lo:r.hi], crc32.MakeTable(crc32.Castagnoli))
		} else {
			sum = crc32.ChecksumIEEE(out[r.crcAt+4 : r.hi])
		}
		if binary.BigEndian.Uint32(out[r.crcAt:]) != sum {
			binary.BigEndian.PutUint32(out[r.crcAt:], sum)
			changed = true
		}
	}
	return out, changed
}

func vinRegions(rs []vregion, m vmutation) bool {
	if m.class == "truncate" || m.class == "valid" || m.class == "short" {
		return false
	}
	for _, r := range rs {
		if m.off >= r.lo && m.off+m.n <= r.hi {
			return true
		}
	}
	return false
}

// vrecordList flattens the records a decoded value would hand to the application.
func vrecordList(v reflect.Value) []string {
	var out []string
	var fromSet func(ms *MessageSet)
	fromSet = func(ms *MessageSet) {
		for _, blk := range ms.Messages {
			if blk == nil || blk.Msg == nil {
				continue
			}
			if blk.Msg.Set != nil {
				fromSet(blk.Msg.Set)
				continue
			}
			out = append(out, fmt.Sprintf("msg off=%d k=%x v=%x ts=%d nilk=%v nilv=%v", blk.Offset, blk.Msg.Key, blk.Msg.Value, vmillis(blk.Msg.Timestamp), blk.Msg.Key == nil, blk.Msg.Value == nil))
		}
	}
	inner := map[*MessageSet]bool{}
	vvisit(v, func(x reflect.Value) {
		switch x.Type() {
		case vtBatch:
			rb := x.Addr().Interface().(*RecordBatch)
			for _, r := range rb.Records {
				if r == nil {
					out = append(out, "rec <nil>")
					continue
				}
				h := ""
				for _, hd := range r.Headers {
					if hd != nil {
						h += fmt.Sprintf("[%x=%x]", hd.Key, hd.Value)
					}
				}
				out = append(out, fmt.Sprintf("rec off=%d ts=%d k=%x v=%x h=%s attr=%d pid=%d ep=%d seq=%d ctl=%v txn=%v", rb.FirstOffset+r.OffsetDelta, vmillis(rb.FirstTimestamp)+int64(r.TimestampDelta/1e6), r.Key, r.Value, h, r.Attributes, rb.ProducerID, rb.ProducerEpoch, rb.FirstSequence, rb.Control, rb.IsTransactional))
			}
		case vtMessage:
			m := x.Addr().Interface().(*Message)
			if m.Set != nil {
				inner[m.Set] = true
			}
		case vtMsgSet:
			ms := x.Addr().Interface().(*MessageSet)
			if !inner[ms] {
				fromSet(ms)
			}
		}
	})
	return out
}

// vsubMultiset: every record of a also occurs in b (with multiplicity) — no record that the original did not contain.
// (Losing records is the legitimate "partial trailing set" outcome; the order inside one set is not examined.)
func vsubMultiset(a, b []string) (string, bool) {
	cnt := map[string]int{}
	for _, x := range b {
		cnt[x]++
	}
	for _, x := range a {
		if cnt[x] == 0 {
			return x, false
		}
		cnt[x]--
	}
	return "", true
}

func vpanicKind(msg string) string {
	switch {
	case strings.HasPrefix(msg, "verif-accept:"):
		return "accepted-malformed"
	case strings.Contains(msg, "makeslice: len out of range"):
		return "makeslice-len"
	case strings.Contains(msg, "makeslice: cap out of range"):
		return "makeslice-cap"
	case strings.Contains(msg, "slice bounds out of range"):
		return "slice-bounds"
	case strings.Contains(msg, "index out of range"):
		return "index-range"
	case strings.Contains(msg, "nil pointer"):
		return "nil-deref"
	case strings.Contains(msg, "makemap"), strings.Contains(msg, "makechan"):
		return "make-size"
	case strings.Contains(msg, "out of memory"):
		return "out-of-memory"
	}
	return "other"
}

type vc10seed struct {
	id    string // case id of the C09 value
	data  []byte
	root  reflect.Value
	recs  []string
	regs  []vregion
	hasRe bool
	decSz int
	cold  uint64

	prepared, usable bool
}

type vc10unit struct {
	fam    *vfamily
	ver    int16
	cfg    int
	mode   string // base | slot:<n> | short:<maxlen>
	unitID string
}

func vparseC10Unit(unit string) (*vc10unit, error) {
	p := strings.Split(unit, "|")
	if len(p) != 4 {
		return nil, fmt.Errorf("bad unit %q", unit)
	}
	id, err := vparseCase(strings.Join(p[:3], "|") + "|")
	if err != nil {
		return nil, err
	}
	f := vfam(id.fam)
	if f == nil || id.cfg >= len(f.Cfgs) {
		return nil, fmt.Errorf("unknown family/config in %q", unit)
	}
	return &vc10unit{fam: f, ver: id.ver, cfg: id.cfg, mode: p[3], unitID: unit}, nil
}

// VerifC10Units: tier quick = base seeds + short strings ≤3; thorough = also every single-deviation seed, short strings ≤4.
// vmutationCount: number of cases vmutate enumerates for a seed (the enumeration itself, without building inputs).
func vmutationCount(seed []byte) int {
	n, _ := vmutate(seed, 1<<62, func(int, vmutation, []byte) bool { return true })
	return n
}

func VerifC10Units(thorough bool, extraMax map[string]int) []VerifUnit {
	VerifC09Families(extraMax)
	var out []VerifUnit
	short := 3
	if thorough {
		short = 4
	}
	for _, f := range vallFamilies() {
		if !f.C10 {
			continue
		}
		for v := int16(0); v <= f.MaxVersion; v++ {
			nshort := 0
			for l, p := 0, 1; l <= short; l, p = l+1, p*len(vshortAlphabet) {
				nshort += p
			}
			out = append(out, VerifUnit{ID: fmt.Sprintf("%s|v%d|c0|short:%d", f.Name, v, short), Family: f.Name, Weight: nshort})
			for ci, cfg := range f.Cfgs {
				_, slots := vbuild(f.Type, cfg, nil)
				w := 0
				if r := vexecEncodeOnly(vcaseID{fam: f.Name, ver: v, cfg: ci}); r != nil && r.b0 != nil {
					w = vmutationCount(r.b0)
				}
				if w == 0 {
					continue // the encoder refuses the base value of this version
				}
				out = append(out, VerifUnit{ID: fmt.Sprintf("%s|v%d|c%d|base", f.Name, v, ci), Family: f.Name, Weight: w})
				for si, s := range slots {
					// quick: only the seeds that differ from the base value in the size of a collection (two messages in a
					// set, two partitions in a response, ...): decoders that carry state from one element to the next
					if thorough || s.kind == "slice" || s.kind == "map" {
						out = append(out, VerifUnit{ID: fmt.Sprintf("%s|v%d|c%d|slot:%d", f.Name, v, ci, si), Family: f.Name, Weight: w * len(s.alts)})
					}
				}
			}
		}
	}
	return out
}

func vmemAlloc() uint64 {
	var ms runtime.MemStats
	runtime.ReadMemStats(&ms)
	return ms.TotalAlloc
}

// vdecodeMeasured runs the decoder on data, returning the decoded value (if any), the error, and the bytes allocated.
func vdecodeMeasured(dec func([]byte, int16) (reflect.Value, error), data []byte, ver int16) (v reflect.Value, err error, alloc uint64) {
	before := vmemAlloc()
	err = vguard(func() (e error) { v, e = dec(data, ver); return })
	if err == nil && v.IsValid() {
		// what a consumer asks of every record set it has decoded (records.go): part of reading the data
		if perr := vguard(func() error { vreadRecordSets(v); return nil }); perr != nil {
			err = perr
		}
	}
	alloc = vmemAlloc() - before
	return
}

// vreadRecordSets calls the accessors of Records the consumer calls on every decoded fetch block.
func vreadRecordSets(v reflect.Value) {
	vvisitAll(v, func(x reflect.Value) {
		if x.Type() != vtRecords || !x.CanAddr() {
			return
		}
		r := x.Addr().Interface().(*Records)
		_, _ = r.numRecords()
		_, _ = r.isPartial()
		_, _ = r.isOverflow()
		if c, e := r.isControl(); e == nil && c {
			_, _ = r.getControlRecord()
		}
	})
}

// VerifC10RunUnit executes the cases of a unit starting at case index `from`, leaving out the indices in skip (cases
// known to kill the process); progress is told the case about to run; flush (optional) receives intermediate
// results every 1000 cases, so that a later death of the process loses little.
func VerifC10RunUnit(unit string, from, to int, skip map[int]bool, progress func(string), flush func(VerifC10Result)) (res VerifC10Result) {
	if to <= 0 {
		to = 1 << 62
	}
	fresh := func() VerifC10Result {
		return VerifC10Result{Unit: unit, ByClass: map[string]int{}, Outcomes: map[string]int{}, Errors: map[string]int{}, SigCount: map[string]int{}}
	}
	res = fresh()
	u, err := vparseC10Unit(unit)
	if err != nil {
		res.EngineErr = err.Error()
		return
	}
	res.Family = u.fam.Name
	debug.SetGCPercent(-1)
	defer debug.SetGCPercent(100)
	seen := map[uint64]bool{}
	flushedDistinct := 0
	seedsCounted := map[*vc10seed]bool{}
	stopped := false
	idx := 0 // global case index over all seeds of the unit
	run := func(seed *vc10seed, total int) func(i int, m vmutation, data []byte) bool {
		return func(i int, m vmutation, data []byte) bool {
			if total+i >= to {
				res.Next = to
				stopped = true
				return false
			}
			if skip[total+i] {
				return true
			}
			if i == 0 && !seedsCounted[seed] && seed.data != nil {
				seedsCounted[seed] = true
				res.Seeds++
				res.SeedBytes += len(seed.data)
				if seed.cold > res.WorkingSet {
					res.WorkingSet = seed.cold
				}
			}
			caseID := fmt.Sprintf("%s#%d", unit, total+i)
			progress(caseID)
			vtwinProgress = progress
			if vc10case(u, seed, caseID, m, data, &res, seen) {
				res.Recycle = true
				res.Next = total + i + 1
				return false
			}
			if flush != nil && res.Cases >= 1000 {
				res.Partial = true
				res.Next = total + i + 1
				res.Distinct = len(seen) - flushedDistinct
				flushedDistinct = len(seen)
				flush(res)
				fam := res.Family
				res = fresh()
				res.Family = fam
				// the process accumulates caches (decoded seeds, pooled decompressors): long before its heap nears the
				// address-space cap - where an innocent case would be blamed for the death - ask for a fresh process
				var ms runtime.MemStats
				runtime.ReadMemStats(&ms)
				if ms.HeapInuse > 160<<20 {
					runtime.GC()
					debug.FreeOSMemory()
					runtime.ReadMemStats(&ms)
					if ms.HeapInuse > 128<<20 {
						res.Recycle = true
						res.Next = total + i + 1
						return false
					}
				}
			}
			return true
		}
	}
	finish := func() {
		res.Distinct = len(seen) - flushedDistinct
	}
	if strings.HasPrefix(u.mode, "short:") {
		maxLen, _ := strconv.Atoi(u.mode[6:])
		seed := &vc10seed{id: "(none)"}
		n, done := vshortStrings(maxLen, from, run(seed, 0))
		if done {
			res.Next = n
		}
		finish()
		_ = stopped
		return
	}
	seeds, engErr := vc10seeds(u)
	if engErr != "" {
		res.EngineErr = engErr
		return
	}
	for _, s := range seeds {
		skipN := from - idx
		if skipN < 0 {
			skipN = 0
		}
		cnt := vmutationCount(s.data)
		if idx+cnt <= from { // entirely before the requested range
			idx += cnt
			continue
		}
		if idx >= to {
			res.Next = to
			finish()
			return
		}
		if !s.prepare(u) {
			idx += cnt
			continue
		}
		n, done := vmutate(s.data, skipN, run(s, idx))
		if res.Sample == "" && from == 0 {
			res.Sample = fmt.Sprintf("seed %s = %s (%d bytes)", s.id, vtrunc(hex.EncodeToString(s.data), 160), len(s.data))
		}
		if !done {
			finish()
			return
		}
		idx += n
	}
	res.Next = idx
	finish()
	return
}

// vc10seeds builds the seeds of a unit: the valid encodings (accepted by encoder and decoder) of the unit's values.
func vc10seeds(u *vc10unit) (seeds []*vc10seed, engErr string) {
	cfg := u.fam.Cfgs[u.cfg]
	var ids []vcaseID
	base := vcaseID{fam: u.fam.Name, ver: u.ver, cfg: u.cfg}
	switch {
	case u.mode == "base":
		ids = append(ids, base)
		// two deviations at once that belong together: a control batch (attribute bit) that carries no record at all
		_, slots := vbuild(u.fam.Type, cfg, nil)
		for a, sa := range slots {
			if sa.owner != "RecordBatch.Control" {
				continue
			}
			for b, sb := range slots {
				if sb.path != strings.TrimSuffix(sa.path, "Control")+"Records" {
					continue
				}
				for ai, aa := range sa.alts {
					if aa.val.Kind() != reflect.Bool || !aa.val.Bool() {
						continue
					}
					for bi, ba := range sb.alts {
						if ba.name == "empty" {
							c := base
							c.devs = [][2]int{{a, ai}, {b, bi}}
							ids = append(ids, c)
						}
					}
				}
			}
		}
	case strings.HasPrefix(u.mode, "slot:"):
		si, err := strconv.Atoi(u.mode[5:])
		_, slots := vbuild(u.fam.Type, cfg, nil)
		if err != nil || si >= len(slots) {
			return nil, "bad slot in unit " + u.unitID
		}
		for ai := range slots[si].alts {
			c := base
			c.devs = [][2]int{{si, ai}}
			ids = append(ids, c)
		}
	default:
		return nil, "bad unit mode " + u.mode
	}
	dup := map[string]bool{}
	for _, id := range ids {
		r := vexecEncodeOnly(id)
		if r == nil || r.b0 == nil || dup[string(r.b0)] {
			continue
		}
		dup[string(r.b0)] = true
		seeds = append(seeds, &vc10seed{id: id.String(), data: r.b0, root: r.root})
	}
	return seeds, ""
}

// prepare decodes the valid seed (reference records, checksummed regions, decompressed size, codec working set).
// It reports false if sarama cannot decode the seed (a C09 matter): such a seed is not mutated.
func (s *vc10seed) prepare(u *vc10unit) bool {
	if s.prepared {
		return s.usable
	}
	s.prepared = true
	_, dec := u.fam.encdec(u.fam.Cfgs[u.cfg])
	v, err, _ := vdecodeMeasured(dec, append([]byte{}, s.data...), u.ver)
	if _, panicked := err.(*vpanic); panicked {
		s.usable = true // reading a VALID encoding panics: the unmutated seed is a case of its own and reports it
		return true
	}
	if err != nil {
		return false
	}
	s.usable = true
	s.recs = vrecordList(v)
	s.regs, s.hasRe = vrecordRegions(s.root, s.data)
	vvisit(v, func(x reflect.Value) {
		switch x.Type() {
		case vtBatch:
			if rb := x.Addr().Interface().(*RecordBatch); rb.Codec != CompressionNone {
				s.decSz += rb.recordsLen
			}
		case vtMessage:
			if m := x.Addr().Interface().(*Message); m.Codec != CompressionNone {
				s.decSz += len(m.Value)
			}
		}
	})
	if s.decSz > 0 {
		runtime.GC()
		runtime.GC() // empty sync.Pools: the cold cost of a legitimate decode is the codec's working set
		_, _, s.cold = vdecodeMeasured(dec, append([]byte{}, s.data...), u.ver)
	}
	return true
}

// vexecEncodeOnly builds and encodes a C09 case (no oracles).
func vexecEncodeOnly(id vcaseID) *vrun {
	r := &vrun{id: id}
	fam := vfam(id.fam)
	cfg := fam.Cfgs[id.cfg]
	enc, _ := fam.encdec(cfg)
	root, slots := vbuild(fam.Type, cfg, nil)
	r.root, r.slots = root, slots
	for _, d := range id.devs {
		if d[0] >= len(slots) || d[1] >= len(slots[d[0]].alts) {
			return nil
		}
	}
	if !vapply(slots, id.devs) {
		return nil
	}
	if err := vguard(func() error { return vfinalize(root) }); err != nil {
		return nil
	}
	if fam.Kind == "request" || fam.Kind == "response" {
		vsetVersion(root, id.ver)
	}
	if err := vguard(func() (e error) { r.b0, _, e = enc(root, id.ver); return }); err != nil {
		return nil
	}
	return r
}

func vc10case(u *vc10unit, seed *vc10seed, caseID string, m vmutation, data []byte, res *VerifC10Result, seen map[uint64]bool) (big bool) {
	defer func() { big = res.lastAlloc >= 64<<20 }()
	cfg := u.fam.Cfgs[u.cfg]
	_, dec := u.fam.encdec(cfg)
	res.Cases++
	res.ByClass[m.class]++
	seen[vfnv(data)] = true
	input := append([]byte{}, data...) // decoders alias their input; keep a pristine copy for the report
	v, err, alloc := vdecodeMeasured(dec, data, u.ver)
	res.lastAlloc = alloc
	allowance := uint64(vAllocBase + vAllocPerByte*len(input))
	if seed.decSz > 0 {
		allowance += uint64(vAllocPerDec*seed.decSz) + seed.cold
	}
	report := func(kind, sigKind, msg string) {
		sig := fmt.Sprintf("%s type=%s kind=%s", kind, u.fam.Name, sigKind)
		if len(u.fam.Cfgs) > 1 && cfg.Codec != CompressionNone && seed.decSz > 0 {
			sig = fmt.Sprintf("%s type=%s codec=%s kind=%s", kind, u.fam.Name, cfg.Codec.String(), sigKind)
		}
		res.SigCount[sig]++
		res.Outcomes[kind]++
		if res.SigCount[sig] == 1 {
			c := ""
			if len(u.fam.Cfgs) > 1 {
				c = " cfg=" + cfg.String()
			}
			res.Violations = append(res.Violations, VerifViolation{Signature: sig, Case: caseID,
				Message: fmt.Sprintf("%s\ndecoder %s version %d%s; mutation class %s: %s of seed %s\ninput (%d bytes): %s", msg, u.fam.Name, u.ver, c, m.class, m.desc, seed.id, len(input), vtrunc(hex.EncodeToString(input), 800))})
		}
	}
	if p, ok := err.(*vpanic); ok {
		report("panic", vpanicKind(fmt.Sprint(p.val)), fmt.Sprintf("decode panicked: %v\nat %s", p.val, p.stack))
		if alloc > 64<<20 {
			runtime.GC()
		}
		return
	}
	if alloc > allowance {
		// measure again (warm pools); the verdict uses the smaller value
		_, _, alloc2 := vdecodeMeasured(dec, append([]byte{}, input...), u.ver)
		if alloc2 < alloc {
			alloc = alloc2
		}
	}
	if alloc > res.MaxAlloc {
		res.MaxAlloc = alloc
	}
	if alloc > allowance {
		report("alloc", "excessive", fmt.Sprintf("decode allocated %d bytes for a %d-byte input (allowance %d = 64 KiB + 1000·len + 40·%d decompressed + %d codec working set); result: %v", alloc, len(input), allowance, seed.decSz, seed.cold, err))
	}
	if alloc > 64<<20 {
		runtime.GC()
		debug.FreeOSMemory()
	} else if res.Cases%2000 == 0 {
		runtime.GC()
	}
	// the same corruption with a matching checksum (a payload corrupted before the checksum was computed): the
	// checksum no longer protects the decompressor / the record reader, which must still not panic or over-allocate
	if err != nil && seed.hasRe && vinRegions(seed.regs, m) && m.class != "valid" && os.Getenv("VERIF_C10_NOTWIN") == "" {
		if fixed, ok := vfixCRCs(seed.regs, input); ok {
			res.Cases++
			res.ByClass[m.class+"+crc"]++
			if vtwinProgress != nil {
				vtwinProgress(caseID + "+crc")
			}
			allowance := allowance
			if allowance < vtwinFloor {
				allowance = vtwinFloor
			}
			_, err2, alloc2 := vdecodeMeasured(dec, append([]byte{}, fixed...), u.ver)
			if p, isPanic := err2.(*vpanic); isPanic {
				input = fixed
				report("panic", vpanicKind(fmt.Sprint(p.val))+" valid-crc", fmt.Sprintf("decode panicked on a corrupted payload with a matching checksum: %v\nat %s", p.val, p.stack))
			} else if alloc2 > allowance {
				_, _, alloc3 := vdecodeMeasured(dec, append([]byte{}, fixed...), u.ver)
				if alloc3 < alloc2 {
					alloc2 = alloc3
				}
				if alloc2 > allowance {
					input = fixed
					report("alloc", "excessive valid-crc", fmt.Sprintf("decode allocated %d bytes for a %d-byte input whose payload is corrupted but whose checksum matches (allowance %d); result: %v", alloc2, len(fixed), allowance, err2))
				}
			}
			if alloc2 > 64<<20 {
				runtime.GC()
				debug.FreeOSMemory()
			}
		}
	}
	if err != nil {
		res.Outcomes["error"]++
		e := vstripNumbers(err.Error())
		if len(e) > 60 {
			e = e[:60]
		}
		res.Errors[e]++
		return
	}
	res.Outcomes["value"]++
	// CRC / length clause
	if seed.hasRe && vinRegions(seed.regs, m) && v.IsValid() {
		res.CRCChecked++
		if extra, ok := vsubMultiset(vrecordList(v), seed.recs); !ok {
			d := "record not in the original: " + extra + "\n   original records: " + strings.Join(seed.recs, " ; ")
			report("wrong-records", "crc-or-length", fmt.Sprintf("a mutation inside a checksummed region / length field decodes without error to different records\n%s", vtrunc(d, 600)))
		}
	}
	return
}

// VerifC10RunCase replays "unit#index".
func VerifC10RunCase(caseID string) (viol []VerifViolation, report string, err error) {
	p := strings.Split(caseID, "#")
	if len(p) != 2 {
		return nil, "", fmt.Errorf("bad case id %q", caseID)
	}
	n, e := strconv.Atoi(p[1])
	if e != nil {
		return nil, "", e
	}
	u, e := vparseC10Unit(p[0])
	if e != nil {
		return nil, "", e
	}
	res := VerifC10Result{Unit: p[0], ByClass: map[string]int{}, Outcomes: map[string]int{}, Errors: map[string]int{}, SigCount: map[string]int{}}
	debug.SetGCPercent(-1)
	defer debug.SetGCPercent(100)
	seen := map[uint64]bool{}
	found := false
	one := func(seed *vc10seed, base int) func(i int, m vmutation, data []byte) bool {
		return func(i int, m vmutation, data []byte) bool {
			if base+i != n {
				return base+i < n
			}
			found = true
			report = fmt.Sprintf("case %s: %s of seed %s\n input (%d bytes): %s\n", caseID, m.desc, seed.id, len(data), vtrunc(hex.EncodeToString(data), 800))
			vc10case(u, seed, caseID, m, data, &res, seen)
			return false
		}
	}
	if strings.HasPrefix(u.mode, "short:") {
		maxLen, _ := strconv.Atoi(u.mode[6:])
		vshortStrings(maxLen, n, one(&vc10seed{id: "(none)"}, 0))
	} else {
		seeds, engErr := vc10seeds(u)
		if engErr != "" {
			return nil, "", fmt.Errorf("%s", engErr)
		}
		idx := 0
		for _, s := range seeds {
			skip := n - idx
			if skip < 0 {
				break
			}
			if c := vmutationCount(s.data); idx+c <= n || !s.prepare(u) {
				idx += c
				continue
			}
			cnt, _ := vmutate(s.data, skip, one(s, idx))
			idx += cnt
			if found {
				break
			}
		}
	}
	if !found {
		return nil, report, fmt.Errorf("case %s does not exist on this tree (the seed encoding changed?)", caseID)
	}
	var outs []string
	for k, c := range res.Outcomes {
		outs = append(outs, fmt.Sprintf("%s=%d", k, c))
	}
	sort.Strings(outs)
	report += fmt.Sprintf(" outcome: %s; allocated %d bytes\n", strings.Join(outs, " "), res.MaxAlloc)
	return res.Violations, report, nil
}
