//go:build verif

package sarama

// C09/C10 harness, part 2: canonical textual form of a value (deep equality, hashing, diffing).
// Includes unexported fields; maps sorted by key; nil and empty collections are distinguished unless
// norm is set (norm = "as the wire can represent it": nil≡empty, times truncated to ms).

import (
	"fmt"
	"reflect"
	"sort"
	"strconv"
	"strings"
	"time"
	"unsafe"
)

// vaddr returns an addressable, non-read-only version of v (copying if needed).
func vaddr(v reflect.Value) reflect.Value {
	if v.CanAddr() {
		return reflect.NewAt(v.Type(), unsafe.Pointer(v.UnsafeAddr())).Elem()
	}
	c := reflect.New(v.Type()).Elem()
	c.Set(v)
	return c
}

func vptr(v reflect.Value) unsafe.Pointer { return unsafe.Pointer(vaddr(v).UnsafeAddr()) }

var vdumpSkip = map[string]bool{
	"Record.length": true, // push-field scratch (offset of the record inside the buffer being coded)
}

type vdumper struct {
	sb       strings.Builder
	norm     bool
	multiMap bool // saw a map with ≥2 entries (wire order of entries not fixed)
}

func vdump(v reflect.Value, norm bool) string {
	d := &vdumper{norm: norm}
	d.dump(v)
	return d.sb.String()
}

func vdumpI(x interface{}) (string, bool) {
	d := &vdumper{}
	d.dump(reflect.ValueOf(x))
	return d.sb.String(), d.multiMap
}

func (d *vdumper) dump(v reflect.Value) {
	if !v.IsValid() {
		d.sb.WriteString("<invalid>")
		return
	}
	t := v.Type()
	switch t {
	case vtTime:
		tm := *(*time.Time)(vptr(v))
		if tm.IsZero() {
			d.sb.WriteString("T(zero)")
		} else if d.norm {
			fmt.Fprintf(&d.sb, "T(%dms)", tm.UnixNano()/int64(time.Millisecond))
		} else {
			fmt.Fprintf(&d.sb, "T(%dns)", tm.UnixNano())
		}
		return
	case vtBroker:
		b := (*Broker)(vptr(v))
		fmt.Fprintf(&d.sb, "Broker{id:%d addr:%q rack:", b.id, b.addr)
		if b.rack == nil {
			d.sb.WriteString("nil}")
		} else {
			fmt.Fprintf(&d.sb, "%q}", *b.rack)
		}
		return
	}
	switch t.Kind() {
	case reflect.Bool:
		d.sb.WriteString(strconv.FormatBool(v.Bool()))
	case reflect.Int, reflect.Int8, reflect.Int16, reflect.Int32, reflect.Int64:
		d.sb.WriteString(strconv.FormatInt(v.Int(), 10))
	case reflect.Uint, reflect.Uint8, reflect.Uint16, reflect.Uint32, reflect.Uint64:
		d.sb.WriteString(strconv.FormatUint(v.Uint(), 10))
	case reflect.String:
		s := v.String()
		if len(s) > 40 {
			fmt.Fprintf(&d.sb, "str[%d:%x]", len(s), vfnv([]byte(s)))
		} else {
			d.sb.WriteString(strconv.Quote(s))
		}
	case reflect.Ptr, reflect.Interface:
		if v.IsNil() {
			d.sb.WriteString("nil")
			return
		}
		d.sb.WriteString("&")
		d.dump(v.Elem())
	case reflect.Slice:
		if v.IsNil() && !d.norm {
			d.sb.WriteString("nil")
			return
		}
		if t.Elem().Kind() == reflect.Uint8 {
			b := v.Bytes()
			if len(b) > 40 {
				fmt.Fprintf(&d.sb, "bytes[%d:%x]", len(b), vfnv(b))
			} else {
				fmt.Fprintf(&d.sb, "x%x", b)
			}
			return
		}
		d.sb.WriteString("[")
		for i := 0; i < v.Len(); i++ {
			if i > 0 {
				d.sb.WriteString(" ")
			}
			d.dump(v.Index(i))
		}
		d.sb.WriteString("]")
	case reflect.Map:
		if v.IsNil() && !d.norm {
			d.sb.WriteString("nil")
			return
		}
		if v.Len() >= 2 {
			d.multiMap = true
		}
		d.sb.WriteString("map[")
		for i, k := range vsortedKeys(v) {
			if i > 0 {
				d.sb.WriteString(" ")
			}
			d.dump(k)
			d.sb.WriteString(":")
			d.dump(v.MapIndex(k))
		}
		d.sb.WriteString("]")
	case reflect.Struct:
		name := t.Name()
		v = vaddr(v)
		d.sb.WriteString(name)
		d.sb.WriteString("{")
		first := true
		for i := 0; i < t.NumField(); i++ {
			f := t.Field(i)
			if vdumpSkip[name+"."+f.Name] {
				continue
			}
			if !first {
				d.sb.WriteString(" ")
			}
			first = false
			d.sb.WriteString(f.Name)
			d.sb.WriteString(":")
			if f.Name == "topicPartitions" { // derived from a map in map order: compare as a multiset
				var l []string
				fv := vsettable(v.Field(i))
				for j := 0; j < fv.Len(); j++ {
					l = append(l, vdump(fv.Index(j), d.norm))
				}
				sort.Strings(l)
				d.sb.WriteString("sorted[" + strings.Join(l, " ") + "]")
				continue
			}
			d.dump(vsettable(v.Field(i)))
		}
		d.sb.WriteString("}")
	default:
		fmt.Fprintf(&d.sb, "<%s>", t.Kind())
	}
}

func vfnv(b []byte) uint64 {
	h := uint64(14695981039346656037)
	for _, c := range b {
		h ^= uint64(c)
		h *= 1099511628211
	}
	return h
}
