//go:build verif

package sarama

// C09 harness, part 6: size sweeps. The reflective generator varies one or two fields over a small
// alphabet, so a record only ever has a handful of sizes; the length prefixes of the record format are
// variable-length integers whose width changes at 64, 8192, 1048576 (zig-zag varints) and 128, 16384
// (unsigned varints). A sweep encodes a record batch whose one varying field takes EVERY size in a range
// around those boundaries and judges it with the same oracles as a case: two-pass agreement (O1),
// decode(encode(v)) == v and a stable re-encoding (O2), and the independent wire reader (O4).
//
// unit: "sweep|<kind>|<lo>|<hi>|<codec>"; case: "sweep|<kind>|<n>|<n>|<codec>".

import (
	"bytes"
	"fmt"
	"strconv"
	"strings"
	"time"
)

var vsweepKinds = []string{"value", "key", "hval", "hkey", "second", "nrec"}

// vsweepRanges: every size whose encoding sits next to a width change of some length prefix of a record.
var vsweepRanges = [][2]int{{0, 300}, {8100, 8300}, {16300, 16500}}

func VerifC09SweepUnits(thorough bool) []VerifUnit {
	var out []VerifUnit
	codecs := []int{0}
	if thorough {
		codecs = []int{0, 1, 2, 3, 4}
	}
	for _, k := range vsweepKinds {
		for _, r := range vsweepRanges {
			if k == "nrec" && r[0] > 0 {
				continue // number of records in a batch: 0..300 only
			}
			for _, c := range codecs {
				out = append(out, VerifUnit{ID: fmt.Sprintf("sweep|%s|%d|%d|%d", k, r[0], r[1], c), Family: "RecordBatchSweep", Weight: (r[1] - r[0]) / 4})
			}
		}
	}
	return out
}

func vsweepBatch(kind string, n int, codec int) *RecordBatch {
	t0 := time.Unix(1600000000, 0)
	fill := func(n int, c byte) []byte { return bytes.Repeat([]byte{c}, n) }
	rb := &RecordBatch{Version: 2, Codec: CompressionCodec(codec), CompressionLevel: CompressionLevelDefault, FirstTimestamp: t0, MaxTimestamp: t0, ProducerID: -1, ProducerEpoch: -1, FirstSequence: -1}
	switch kind {
	case "value":
		rb.Records = []*Record{{Value: fill(n, 'v')}}
	case "key":
		rb.Records = []*Record{{Key: fill(n, 'k'), Value: []byte("x")}}
	case "hval":
		rb.Records = []*Record{{Value: []byte("x"), Headers: []*RecordHeader{{Key: []byte("h"), Value: fill(n, 'w')}}}}
	case "hkey":
		rb.Records = []*Record{{Value: []byte("x"), Headers: []*RecordHeader{{Key: fill(n, 'g'), Value: []byte("y")}}}}
	case "second":
		rb.Records = []*Record{{Value: []byte("first")}, {OffsetDelta: 1, Value: fill(n, 's')}}
		rb.LastOffsetDelta = 1
	case "nrec":
		for i := 0; i < n; i++ {
			rb.Records = append(rb.Records, &Record{OffsetDelta: int64(i), Value: []byte{byte('a' + i%26)}})
		}
		if n > 0 {
			rb.LastOffsetDelta = int32(n - 1)
		}
	default:
		return nil
	}
	return rb
}

func vsweepSame(a, b *RecordBatch) string {
	if len(a.Records) != len(b.Records) {
		return fmt.Sprintf("%d records encoded, %d decoded (partial trailing record flag: %v)", len(a.Records), len(b.Records), b.PartialTrailingRecord)
	}
	for i := range a.Records {
		x, y := a.Records[i], b.Records[i]
		if !bytes.Equal(x.Key, y.Key) || !bytes.Equal(x.Value, y.Value) || x.OffsetDelta != y.OffsetDelta || len(x.Headers) != len(y.Headers) {
			return fmt.Sprintf("record %d differs after the round trip (key %d/%d bytes, value %d/%d bytes, offset delta %d/%d, headers %d/%d)", i, len(x.Key), len(y.Key), len(x.Value), len(y.Value), x.OffsetDelta, y.OffsetDelta, len(x.Headers), len(y.Headers))
		}
		for j := range x.Headers {
			if !bytes.Equal(x.Headers[j].Key, y.Headers[j].Key) || !bytes.Equal(x.Headers[j].Value, y.Headers[j].Value) {
				return fmt.Sprintf("record %d header %d differs after the round trip", i, j)
			}
		}
	}
	return ""
}

// vsweepOne returns (clause, message) of the first oracle that fails, or "", "".
func vsweepOne(kind string, n, codec int, facts *int) (string, string) {
	rb := vsweepBatch(kind, n, codec)
	if rb == nil {
		return "engine", "unknown sweep kind " + kind
	}
	var raw []byte
	var o1 string
	err := vguard(func() error {
		var e error
		raw, o1, e = verifEncode(rb)
		return e
	})
	if err != nil {
		if _, isPanic := err.(*vpanic); isPanic {
			return "O1-encode-panic", "encoding panicked: " + err.Error()
		}
		return "O1-encode-error", "a legal batch was refused by the encoder: " + err.Error()
	}
	if o1 != "" {
		return "O1-two-pass", o1
	}
	// the independent reader first: it needs the value as submitted (a codec leaves compressedRecords set, harmless)
	if codec == 0 {
		if _, msg := vwireBatch(raw, vsweepBatch(kind, n, codec), facts); msg != "" {
			return "O4-wire", msg
		}
	}
	var out RecordBatch
	err = vguard(func() error { return decode(raw, &out) })
	if err != nil {
		return "O2-decode-rejects-own-encoding", "decoding sarama's own encoding failed: " + err.Error()
	}
	if msg := vsweepSame(vsweepBatch(kind, n, codec), &out); msg != "" {
		return "O2-value", msg
	}
	// re-encode the decoded value: same length, decodes to the same value
	out.Codec, out.CompressionLevel = CompressionCodec(codec), CompressionLevelDefault
	out.compressedRecords, out.recordsLen = nil, 0
	var raw2 []byte
	err = vguard(func() error {
		var e error
		raw2, o1, e = verifEncode(&out)
		return e
	})
	if err != nil {
		return "O2-reencode-fails", "re-encoding the decoded batch failed: " + err.Error()
	}
	if o1 != "" {
		return "O1-two-pass", "re-encoding: " + o1
	}
	if codec == 0 && len(raw2) != len(raw) {
		return "O2-length", fmt.Sprintf("re-encoding the decoded batch gives %d bytes, the first encoding had %d", len(raw2), len(raw))
	}
	return "", ""
}

func vsweepParse(unit string) (kind string, lo, hi, codec int, ok bool) {
	p := strings.Split(unit, "|")
	if len(p) != 5 || p[0] != "sweep" {
		return
	}
	var e1, e2, e3 error
	lo, e1 = strconv.Atoi(p[2])
	hi, e2 = strconv.Atoi(p[3])
	codec, e3 = strconv.Atoi(p[4])
	return p[1], lo, hi, codec, e1 == nil && e2 == nil && e3 == nil
}

func vsweepViolation(kind string, n, codec int, clause, msg string) VerifViolation {
	return VerifViolation{
		Signature: fmt.Sprintf("%s type=RecordBatch sweep=%s", clause, kind),
		Message:   fmt.Sprintf("%s\nrecord batch (v2, codec %d) of the size sweep: kind=%s size=%d (value/key/header bytes, or number of records)", msg, codec, kind, n),
		Case:      fmt.Sprintf("sweep|%s|%d|%d|%d", kind, n, n, codec),
	}
}

func vrunSweepUnit(unit string) (res VerifUnitResult) {
	res.Unit, res.Family = unit, "RecordBatchSweep"
	res.Outcomes = map[string]int{}
	kind, lo, hi, codec, ok := vsweepParse(unit)
	if !ok {
		res.Outcomes["engine-error"]++
		return
	}
	for n := lo; n <= hi; n++ {
		if kind == "nrec" && n == 0 && codec != 0 {
			// a batch without records under a compression codec: the base cases judge it (the snappy form is a
			// recorded finding with its own signature); the sweep is about sizes
			continue
		}
		clause, msg := vsweepOne(kind, n, codec, &res.WireFacts)
		res.Evaluations++
		res.Nontrivial++
		res.Distinct++
		if clause == "engine" {
			res.Outcomes["engine-error"]++
			continue
		}
		if clause == "" {
			res.Outcomes["ok"]++
			continue
		}
		res.Outcomes["violation"]++
		if len(res.Violations) < 50 {
			res.Violations = append(res.Violations, vsweepViolation(kind, n, codec, clause, msg))
		}
	}
	res.Sample = fmt.Sprintf("%s: sizes %d..%d codec %d", kind, lo, hi, codec)
	return
}

func vrunSweepCase(caseID string) ([]VerifViolation, string, error) {
	kind, lo, _, codec, ok := vsweepParse(caseID)
	if !ok {
		return nil, "", fmt.Errorf("bad sweep case %q", caseID)
	}
	var facts int
	clause, msg := vsweepOne(kind, lo, codec, &facts)
	report := fmt.Sprintf("sweep case kind=%s size=%d codec=%d: %s %s\n", kind, lo, codec, clause, msg)
	if clause == "" {
		return nil, report + " outcome: ok\n", nil
	}
	return []VerifViolation{vsweepViolation(kind, lo, codec, clause, msg)}, report, nil
}
