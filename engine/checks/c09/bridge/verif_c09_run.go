//go:build verif

package sarama

// C09 harness, part 5: case execution (oracles O1–O4), work units, exported entry points.

import (
	"bytes"
	"encoding/hex"
	"fmt"
	"reflect"
	"sort"
	"strconv"
	"strings"
	"sync"
)

type VerifViolation struct {
	Signature string `json:"signature"`
	Message   string `json:"message"`
	Case      string `json:"case"`
}

// VerifUnitResult: what one work unit did (all counts measured).
type VerifUnitResult struct {
	Unit        string           `json:"unit"`
	Family      string           `json:"family"`
	Evaluations int              `json:"evaluations"`
	Rejected    int              `json:"rejected"` // sarama's encoder refused the value
	Shadowed    int              `json:"shadowed"` // second deviation lies inside a collection the first one replaces
	Nontrivial  int              `json:"nontrivial"`
	Distinct    int              `json:"distinct"`
	O3Pairs     int              `json:"o3_pairs"`    // parent/child pairs with different encodings, decoded values compared
	O3Same      int              `json:"o3_same_enc"` // pairs with identical encodings (field not transmitted in this version)
	Readback    int              `json:"o3_readback"` // deviating leaf located in the decoded value and compared
	ByteIdent   int              `json:"o2_byte_identical_checked"`
	WireFacts   int              `json:"o4_facts"`
	Outcomes    map[string]int   `json:"outcomes"`
	Violations  []VerifViolation `json:"violations,omitempty"`
	Sample      string           `json:"sample,omitempty"`
	BaseReject  string           `json:"base_rejected,omitempty"` // the base value itself was refused by the encoder
}

// VerifC09DomainRules: the documented restrictions of the input domain (for the evidence file).
func VerifC09DomainRules() []string {
	var out []string
	for _, r := range vdomainRules {
		out = append(out, fmt.Sprintf("%s …%s ∌ {%s}: %s", r.Root, r.PathSuffix, r.Alts, r.Why))
	}
	for k, why := range vskip {
		out = append(out, "not a slot: "+k+" ("+why+")")
	}
	sort.Strings(out)
	return out
}

type vcaseID struct {
	fam  string
	ver  int16
	cfg  int
	devs [][2]int
}

func (c vcaseID) String() string {
	var ds []string
	for _, d := range c.devs {
		ds = append(ds, fmt.Sprintf("%d.%d", d[0], d[1]))
	}
	return fmt.Sprintf("%s|v%d|c%d|%s", c.fam, c.ver, c.cfg, strings.Join(ds, ","))
}

func vparseCase(s string) (vcaseID, error) {
	p := strings.Split(s, "|")
	if len(p) != 4 || !strings.HasPrefix(p[1], "v") || !strings.HasPrefix(p[2], "c") {
		return vcaseID{}, fmt.Errorf("bad case id %q", s)
	}
	v, e1 := strconv.Atoi(p[1][1:])
	c, e2 := strconv.Atoi(p[2][1:])
	if e1 != nil || e2 != nil {
		return vcaseID{}, fmt.Errorf("bad case id %q", s)
	}
	id := vcaseID{fam: p[0], ver: int16(v), cfg: c}
	if p[3] != "" {
		for _, d := range strings.Split(p[3], ",") {
			q := strings.Split(d, ".")
			if len(q) != 2 {
				return id, fmt.Errorf("bad deviation %q", d)
			}
			a, e1 := strconv.Atoi(q[0])
			b, e2 := strconv.Atoi(q[1])
			if e1 != nil || e2 != nil {
				return id, fmt.Errorf("bad deviation %q", d)
			}
			id.devs = append(id.devs, [2]int{a, b})
		}
	}
	return id, nil
}

var (
	vfamOnce sync.Once
	vfamList []*vfamily
	vfamMap  map[string]*vfamily
)

func vfam(name string) *vfamily {
	vfamOnce.Do(func() {
		vfamList = vfamilies()
		vfamMap = map[string]*vfamily{}
		for _, f := range vfamList {
			vfamMap[f.Name] = f
		}
	})
	return vfamMap[name]
}

func vallFamilies() []*vfamily { vfam(""); return vfamList }

// vrun: result of pushing one value through encode/decode/encode/decode.
type vrun struct {
	id       vcaseID
	desc     string // human description of the deviations
	outcome  string // ok | rejected | shadowed | violation
	rejectBy string
	d0       string
	b0       []byte
	d1       string
	multi    bool
	v1       reflect.Value
	root     reflect.Value
	slots    []*vslot
	viol     []VerifViolation
	facts    int
	byteID   bool
	clauses  []string
}

func vslotPathNorm(p string) string {
	// strip indices and keys: Blocks["s3"][4].Err -> Blocks[][].Err
	var sb strings.Builder
	depth := 0
	for i := 0; i < len(p); i++ {
		c := p[i]
		switch {
		case c == '[' || c == '<':
			depth++
			if c == '[' {
				sb.WriteString("[]")
			} else {
				sb.WriteString("<key>")
			}
		case c == ']' || c == '>':
			depth--
		case depth == 0:
			sb.WriteByte(c)
		}
	}
	return sb.String()
}

// violate records a violation. Signature = clause + where (owner field and alternative of each deviation, or the
// family for the base value) + the error class; a child whose parent already violates the same clause
// inherits the parent's signature (see vinherit), so that one defect gives one signature.
func (r *vrun) violate(clause, msg string, errText ...string) {
	where := " type=" + r.id.fam
	if n := len(r.id.devs); n > 0 && r.slots != nil && clause != "O2-reencode-fails" { // a decoded value the encoder refuses: class = (type, error)
		var ps []string
		for _, d := range r.id.devs {
			ps = append(ps, r.slots[d[0]].owner+"="+r.slots[d[0]].alts[d[1]].name)
		}
		sort.Strings(ps)
		where = " at=" + strings.Join(ps, "+")
		if strings.HasPrefix(ps[0], "VerifRe") {
			where = " type=" + r.id.fam + where
		}
	}
	e := ""
	if len(errText) > 0 && errText[0] != "" {
		t := vstripNumbers(strings.TrimPrefix(strings.TrimPrefix(errText[0], "kafka: error decoding packet: "), "kafka: error encoding packet: "))
		if len(t) > 48 {
			t = t[:48]
		}
		e = " err=" + strings.TrimSpace(t)
	}
	fam := vfam(r.id.fam)
	cfg := ""
	if len(fam.Cfgs) > 1 {
		cfg = " cfg=" + fam.Cfgs[r.id.cfg].String()
	}
	r.viol = append(r.viol, VerifViolation{
		Signature: clause + where + e,
		Message:   fmt.Sprintf("%s\ncase %s (version %d%s; %s)\nvalue: %s\nencoded: %s", msg, r.id, r.id.ver, cfg, r.desc, vtrunc(r.d0, 1500), vtrunc(hex.EncodeToString(r.b0), 600)),
		Case:      r.id.String(),
	})
	r.clauses = append(r.clauses, clause)
	r.outcome = "violation"
}

// vinherit: if the parent violates the same clause, the child's violation is the same defect.
func vinherit(parent, child *vrun) {
	for i, c := range child.clauses {
		for j, p := range parent.clauses {
			if c == p {
				child.viol[i].Signature = parent.viol[j].Signature
				child.viol[i].Message = "(same clause already violated by parent " + parent.id.String() + ")\n" + child.viol[i].Message
			}
		}
	}
}

func vtrunc(s string, n int) string {
	if len(s) > n {
		return s[:n] + fmt.Sprintf("…(%d more)", len(s)-n)
	}
	return s
}

// vexec runs oracles O1, O2, O4 on one case.
func vexec(id vcaseID) *vrun {
	r := &vrun{id: id, outcome: "ok"}
	fam := vfam(id.fam)
	if fam == nil || id.cfg >= len(fam.Cfgs) {
		r.outcome = "engine-error"
		r.rejectBy = "unknown family/config"
		return r
	}
	cfg := fam.Cfgs[id.cfg]
	enc, dec := fam.encdec(cfg)
	root, slots := vbuild(fam.Type, cfg, nil)
	r.root, r.slots = root, slots
	var ds []string
	for _, d := range id.devs {
		if d[0] >= len(slots) || d[1] >= len(slots[d[0]].alts) {
			r.outcome = "engine-error"
			r.rejectBy = "deviation out of range"
			return r
		}
		ds = append(ds, slots[d[0]].path+" := "+slots[d[0]].alts[d[1]].name)
	}
	r.desc = "base"
	if len(ds) > 0 {
		r.desc = strings.Join(ds, "; ")
	}
	if !vapply(slots, id.devs) {
		r.outcome = "shadowed"
		return r
	}
	if err := vguard(func() error { return vfinalize(root) }); err != nil {
		r.outcome, r.rejectBy = "rejected", "inner set: "+err.Error()
		return r
	}
	if fam.Kind == "request" || fam.Kind == "response" {
		vsetVersion(root, id.ver)
	}
	r.d0, _ = vdumpI(root.Interface())

	// O1 + first encode
	var o1 string
	var err error
	err = vguard(func() (e error) { r.b0, o1, e = enc(root, id.ver); return })
	if p, ok := err.(*vpanic); ok {
		r.violate("O1-encode-panic", fmt.Sprintf("encode panicked: %v\nat %s", p.val, p.stack))
		return r
	}
	if err != nil {
		r.outcome, r.rejectBy = "rejected", err.Error()
		return r
	}
	if o1 != "" {
		r.violate("O1-two-pass", o1)
		return r
	}
	// O2: v1 = dec(enc(v0))
	var v1 reflect.Value
	err = vguard(func() (e error) { v1, e = dec(r.b0, id.ver); return })
	if err != nil {
		cl := "O2-decode-rejects-own-encoding"
		if p, ok := err.(*vpanic); ok {
			cl = "O2-decode-panic"
			err = fmt.Errorf("%v at %s", p.val, p.stack)
		}
		r.violate(cl, fmt.Sprintf("decode of sarama's own encoding failed: %v", err), err.Error())
		return r
	}
	r.v1 = v1
	r.d1, r.multi = vdumpI(v1.Interface())
	vsetLevels(v1, cfg.Level)
	var b1 []byte
	err = vguard(func() (e error) { b1, o1, e = enc(v1, id.ver); return })
	if err != nil {
		r.violate("O2-reencode-fails", fmt.Sprintf("encoding the decoded value failed: %v\ndecoded: %s", err, vtrunc(r.d1, 1200)), err.Error())
		return r
	}
	if o1 != "" {
		r.violate("O1-two-pass", "on the decoded value: "+o1)
		return r
	}
	if len(b1) != len(r.b0) {
		r.violate("O2-length", fmt.Sprintf("re-encoding the decoded value gives %d bytes, first encoding had %d\ndecoded: %s\nre-encoded: %s", len(b1), len(r.b0), vtrunc(r.d1, 1200), vtrunc(hex.EncodeToString(b1), 600)))
		return r
	}
	var v2 reflect.Value
	err = vguard(func() (e error) { v2, e = dec(b1, id.ver); return })
	if err != nil {
		r.violate("O2-second-decode-fails", fmt.Sprintf("decode of the re-encoding failed: %v", err), err.Error())
		return r
	}
	d2, _ := vdumpI(v2.Interface())
	if d2 != r.d1 {
		r.violate("O2-unstable", fmt.Sprintf("dec(enc(v1)) != v1\nv1: %s\nv2: %s\nfirst difference at %s", vtrunc(r.d1, 1200), vtrunc(d2, 1200), vfirstDiff(r.d1, d2)))
		return r
	}
	if !r.multi {
		r.byteID = true
		if !bytes.Equal(b1, r.b0) {
			r.violate("O2-bytes", fmt.Sprintf("no map with ≥2 entries, yet re-encoding differs from the first encoding\nre-encoded: %s\ndecoded: %s", vtrunc(hex.EncodeToString(b1), 600), vtrunc(r.d1, 1200)))
			return r
		}
	}
	// O4 wire facts (independent reader)
	if msg := vwireFacts(fam, cfg, id.ver, root, r.b0, &r.facts); msg != "" {
		r.violate("O4-wire", msg)
	}
	return r
}

func vfirstDiff(a, b string) string {
	i := 0
	for i < len(a) && i < len(b) && a[i] == b[i] {
		i++
	}
	lo := i - 60
	if lo < 0 {
		lo = 0
	}
	return fmt.Sprintf("offset %d: …%s ≠ …%s", i, vtrunc(a[lo:], 140), vtrunc(b[lo:], 140))
}

// vo3 checks field sensitivity of child against parent (child = parent + one more deviation `last`).
func vo3(parent, child *vrun, last [2]int, res *VerifUnitResult) {
	if parent.outcome != "ok" || child.outcome != "ok" {
		return
	}
	if bytes.Equal(parent.b0, child.b0) {
		res.O3Same++
		return
	}
	if parent.multi && child.multi && len(parent.b0) == len(child.b0) {
		return // entry order of a multi-entry map may be the only difference
	}
	res.O3Pairs++
	s := child.slots[last[0]]
	if parent.d1 == child.d1 {
		child.violate("O3-insensitive", fmt.Sprintf("encodings differ but decode to equal values: slot %s := %s is written by encode and lost by decode\nparent %s encoded: %s\ndecoded (both): %s",
			s.path, s.alts[last[1]].name, parent.id, vtrunc(hex.EncodeToString(parent.b0), 600), vtrunc(child.d1, 1200)))
		return
	}
	a := s.alts[last[1]]
	if !a.tame || s.derived {
		return
	}
	got, ok := vresolve(child.v1, s)
	if !ok {
		return
	}
	res.Readback++
	want := vdump(a.val, true)
	if strings.HasPrefix(s.kind, "key-") {
		return // vresolve already established that the new key exists
	}
	g := vdump(got, true)
	if s.kind == "slice" || s.kind == "map" {
		// a collection: only the number of elements is demanded here (fields of the elements are slots of their own)
		for got.Kind() == reflect.Ptr && !got.IsNil() {
			got = got.Elem()
		}
		if got.Kind() != reflect.Slice && got.Kind() != reflect.Map {
			return
		}
		g, want = fmt.Sprint("len ", got.Len()), fmt.Sprint("len ", a.val.Len())
	}
	if g != want {
		if vreadbackCoercion(vfam(child.id.fam).Cfgs[child.id.cfg], s, a, g) {
			return
		}
		child.violate("O3-readback", fmt.Sprintf("slot %s written as %s reads back as %s although it is transmitted (encoding differs from parent %s)\ndecoded: %s",
			s.path, vtrunc(want, 200), vtrunc(g, 200), parent.id, vtrunc(child.d1, 1200)))
	}
}

// vreadbackCoercion lists the documented value coercions of sarama's codec (not defects):
// the value written is replaced by a different, documented one.
func vreadbackCoercion(cfg vcfg, s *vslot, a valt, got string) bool {
	switch {
	case strings.HasSuffix(s.path, "Coordinator") && a.name == "nil" && strings.Contains(got, `Broker{id:-1 addr:":-1"`):
		return true // find_coordinator_response.go: a nil coordinator is written as NoNode (id -1, ":-1")
	case s.owner == "ConsumerMetadataResponse.Coordinator" && a.name == "nil":
		return true // consumer_metadata_response.go: a nil coordinator is rebuilt from the deprecated CoordinatorID/Host/Port fields
	case strings.HasSuffix(s.path, ".RecordsSet") && cfg.Fmt < 2:
		return true // legacy message sets have no framing of their own: two sets in a row are one set on the wire
	case strings.HasSuffix(s.path, "ResourcePatternType") && a.name == "0" && got == "3":
		return true // acl_bindings.go: "Cannot encode an unknown resource pattern type, using Literal instead"
	case strings.HasSuffix(s.path, "ResourcePatternTypeFilter") && a.name == "0" && got == "3":
		return true // acl_filter.go: same rule for filters
	}
	return false
}

// vresolve finds the slot's position in a decoded value.
func vresolve(root reflect.Value, s *vslot) (reflect.Value, bool) {
	v := root
	p := s.path
	for len(p) > 0 {
		for v.Kind() == reflect.Ptr {
			if v.IsNil() {
				return v, len(p) == 0
			}
			if v.Type().Elem() == vtBroker {
				break
			}
			v = v.Elem()
		}
		switch p[0] {
		case '.':
			p = p[1:]
			continue
		case '[':
			end := vmatch(p, '[', ']')
			if end < 0 {
				return v, false
			}
			key := p[1:end]
			p = p[end+1:]
			switch v.Kind() {
			case reflect.Slice:
				i, err := strconv.Atoi(key)
				if err != nil || i >= v.Len() {
					return v, false
				}
				v = v.Index(i)
			case reflect.Map:
				found := false
				for _, k := range v.MapKeys() {
					if vdump(k, false) == key {
						v = v.MapIndex(k)
						found = true
						break
					}
				}
				if !found {
					return v, false
				}
			default:
				return v, false
			}
		case '<': // <key K>: the slot is the key; the alternative must now be a key of the map
			if v.Kind() != reflect.Map {
				return v, false
			}
			return v, true
		default:
			n := strings.IndexAny(p, ".[<")
			if n < 0 {
				n = len(p)
			}
			name := p[:n]
			p = p[n:]
			if v.Kind() == reflect.Ptr && v.Type().Elem() == vtBroker {
				if v.IsNil() {
					return v, false
				}
				b := v.Interface().(*Broker)
				switch name {
				case "id":
					v = reflect.ValueOf(&b.id).Elem()
				case "rack":
					v = reflect.ValueOf(&b.rack).Elem()
				case "addr":
					v = reflect.ValueOf(&b.addr).Elem()
				default:
					return v, false
				}
				continue
			}
			if v.Kind() != reflect.Struct {
				return v, false
			}
			v = vaddr(v)
			f := v.FieldByName(name)
			if !f.IsValid() {
				return v, false
			}
			v = vsettable(f)
		}
	}
	return v, true
}

func vmatch(p string, open, close byte) int {
	depth := 0
	inq := false
	for i := 0; i < len(p); i++ {
		c := p[i]
		if c == '"' && (i == 0 || p[i-1] != '\\') {
			inq = !inq
		}
		if inq {
			continue
		}
		if c == open {
			depth++
		} else if c == close {
			depth--
			if depth == 0 {
				return i
			}
		}
	}
	return -1
}

// ---- work units ----

// A unit is "family|vN|cM|L" with L = "1" (base and all single deviations) or "2:<slot>" (all pairs whose
// lower slot is <slot>, each checked against its single-deviation parent).
type VerifUnit struct {
	ID     string `json:"id"`
	Family string `json:"family"`
	Weight int    `json:"weight"`
}

type VerifFamilyInfo struct {
	Name       string   `json:"name"`
	Kind       string   `json:"kind"`
	MaxVersion int      `json:"max_version"`
	Configs    []string `json:"configs"`
	C10        bool     `json:"c10"`
	Slots      int      `json:"slots"`
	Alts       int      `json:"alternatives"`
}

// VerifC09Families lists the registry. extraMax: per body name, a higher max version found by the scan.
func VerifC09Families(extraMax map[string]int) []VerifFamilyInfo {
	var out []VerifFamilyInfo
	for _, f := range vallFamilies() {
		if f.NoC09 {
			continue
		}
		if m, ok := extraMax[f.Name]; ok && int16(m) > f.MaxVersion && vhasVersion(f.Type) {
			f.MaxVersion = int16(m)
		}
		fi := VerifFamilyInfo{Name: f.Name, Kind: f.Kind, MaxVersion: int(f.MaxVersion), C10: f.C10}
		for _, c := range f.Cfgs {
			fi.Configs = append(fi.Configs, c.String())
		}
		_, slots := vbuild(f.Type, f.Cfgs[0], nil)
		fi.Slots = len(slots)
		for _, s := range slots {
			fi.Alts += len(s.alts)
		}
		out = append(out, fi)
	}
	return out
}

// VerifC09BodyNames: names of the protocol bodies in the compiled-in table.
func VerifC09BodyNames() map[string]int {
	m := map[string]int{}
	for _, e := range vbodies {
		m[e.name] = int(e.max)
	}
	return m
}

func VerifC09Units(maxDev int, extraMax map[string]int) []VerifUnit {
	VerifC09Families(extraMax)
	var out []VerifUnit
	for _, f := range vallFamilies() {
		if f.NoC09 {
			continue
		}
		for ci, cfg := range f.Cfgs {
			_, slots := vbuild(f.Type, cfg, nil)
			nalt := 0
			for _, s := range slots {
				nalt += len(s.alts)
			}
			for v := int16(0); v <= f.MaxVersion; v++ {
				out = append(out, VerifUnit{ID: fmt.Sprintf("%s|v%d|c%d|1", f.Name, v, ci), Family: f.Name, Weight: 1 + nalt})
				if maxDev >= 2 {
					rest := nalt
					for si, s := range slots {
						rest -= len(s.alts)
						if rest == 0 {
							break
						}
						out = append(out, VerifUnit{ID: fmt.Sprintf("%s|v%d|c%d|2:%d", f.Name, v, ci, si), Family: f.Name, Weight: len(s.alts) * (1 + rest)})
					}
				}
			}
		}
	}
	return out
}

func VerifC09RunUnit(unit string) (res VerifUnitResult) {
	if strings.HasPrefix(unit, "sweep|") {
		return vrunSweepUnit(unit)
	}
	res.Unit = unit
	res.Outcomes = map[string]int{}
	p := strings.Split(unit, "|")
	if len(p) != 4 {
		res.Outcomes["engine-error"]++
		return
	}
	base, err := vparseCase(strings.Join(p[:3], "|") + "|")
	if err != nil {
		res.Outcomes["engine-error"]++
		return
	}
	res.Family = base.fam
	fam := vfam(base.fam)
	if fam == nil {
		res.Outcomes["engine-error"]++
		return
	}
	_, slots := vbuild(fam.Type, fam.Cfgs[base.cfg], nil)
	seen := map[uint64]bool{}
	account := func(r *vrun) {
		res.Evaluations++
		res.Outcomes[r.outcome]++
		switch r.outcome {
		case "rejected":
			res.Rejected++
			res.Outcomes["rejected: "+vtrunc(vstripNumbers(r.rejectBy), 60)]++
		case "shadowed":
			res.Shadowed++
		case "ok", "violation":
			res.Nontrivial++
			seen[vfnv([]byte(r.id.fam+"|"+fmt.Sprint(r.id.ver, r.id.cfg)+"|"+r.d0))] = true
		}
		res.WireFacts += r.facts
		if r.byteID {
			res.ByteIdent++
		}
	}
	collect := func(r *vrun) {
		if len(r.viol) > 0 && len(res.Violations) < 200 {
			res.Violations = append(res.Violations, r.viol...)
		}
	}
	mk := func(devs ...[2]int) vcaseID {
		return vcaseID{fam: base.fam, ver: base.ver, cfg: base.cfg, devs: devs}
	}
	if p[3] == "1" {
		// prelude: the decoder of this family first sees every truncation of the base encoding (what a fetch that ends
		// in the middle of a message, or a broken connection, hands it all the time). Nothing is judged here (C10 does
		// that); the point is that the cases below run AFTER malformed input: a decoder that keeps state between calls
		// (pooled length fields, cached format detection) must not let it leak into the next, well-formed value
		if e := vexecEncodeOnly(mk()); e != nil && e.b0 != nil && fam.dec != nil {
			_, dec := fam.encdec(fam.Cfgs[base.cfg])
			for l := 0; l < len(e.b0); l++ {
				cut := append([]byte{}, e.b0[:l]...)
				_ = vguard(func() error { _, err := dec(cut, base.ver); return err })
			}
		}
		b := vexec(mk())
		account(b)
		collect(b)
		if b.outcome == "rejected" {
			res.BaseReject = b.rejectBy
		}
		res.Sample = fmt.Sprintf("%s %s -> %d bytes %s", b.id, vtrunc(b.d0, 300), len(b.b0), vtrunc(hex.EncodeToString(b.b0), 120))
		for si, s := range slots {
			for ai := range s.alts {
				c := vexec(mk([2]int{si, ai}))
				vo3(b, c, [2]int{si, ai}, &res)
				if b.outcome != "rejected" && c.b0 != nil && b.b0 != nil {
					if msg := vo4d(fam, base.ver, b, c, s, s.alts[ai], &c.facts); msg != "" {
						c.violate("O4-length-prefix", msg)
					}
				}
				vinherit(b, c)
				account(c)
				collect(c)
			}
		}
	} else if strings.HasPrefix(p[3], "2:") {
		si, err := strconv.Atoi(p[3][2:])
		if err != nil || si >= len(slots) {
			res.Outcomes["engine-error"]++
			return
		}
		other := map[[2]int]*vrun{} // single-deviation runs of the second slot, computed when a pair violates
		for ai := range slots[si].alts {
			par := vexec(mk([2]int{si, ai})) // evaluated (and reported) by the level-1 unit; here only the O3 reference
			vo3(vexecBase(base), par, [2]int{si, ai}, &VerifUnitResult{})
			vinherit(vexecBase(base), par)
			for sj := si + 1; sj < len(slots); sj++ {
				for aj := range slots[sj].alts {
					c := vexec(mk([2]int{si, ai}, [2]int{sj, aj}))
					vo3(par, c, [2]int{sj, aj}, &res)
					if len(c.viol) > 0 {
						vinherit(par, c)
						p2 := other[[2]int{sj, aj}]
						if p2 == nil {
							p2 = vexec(mk([2]int{sj, aj}))
							vo3(vexecBase(base), p2, [2]int{sj, aj}, &VerifUnitResult{})
							vinherit(vexecBase(base), p2)
							other[[2]int{sj, aj}] = p2
						}
						vinherit(p2, c)
					}
					account(c)
					collect(c)
				}
			}
		}
	} else {
		res.Outcomes["engine-error"]++
	}
	res.Distinct = len(seen)
	return
}

var vbaseCache = map[string]*vrun{}

func vexecBase(id vcaseID) *vrun {
	k := vcaseID{fam: id.fam, ver: id.ver, cfg: id.cfg}.String()
	if r := vbaseCache[k]; r != nil {
		return r
	}
	r := vexec(vcaseID{fam: id.fam, ver: id.ver, cfg: id.cfg})
	vbaseCache = map[string]*vrun{k: r}
	return r
}

func vstripNumbers(s string) string {
	var sb strings.Builder
	for _, c := range s {
		if c >= '0' && c <= '9' {
			c = '#'
		}
		sb.WriteRune(c)
	}
	return sb.String()
}

// VerifC09RunCase re-executes one case (replay): the case itself and, for O3, its parent.
func VerifC09RunCase(caseID string) (violations []VerifViolation, report string, err error) {
	if strings.HasPrefix(caseID, "sweep|") {
		return vrunSweepCase(caseID)
	}
	id, err := vparseCase(caseID)
	if err != nil {
		return nil, "", err
	}
	if vfam(id.fam) == nil {
		return nil, "", fmt.Errorf("unknown family %q", id.fam)
	}
	c := vexec(id)
	var res VerifUnitResult
	if n := len(id.devs); n > 0 {
		ds := append([][2]int(nil), id.devs...)
		sort.Slice(ds, func(i, j int) bool { return ds[i][0] < ds[j][0] })
		par := vexec(vcaseID{fam: id.fam, ver: id.ver, cfg: id.cfg, devs: ds[:n-1]})
		vo3(par, c, ds[n-1], &res)
		if n == 1 && par.b0 != nil && c.b0 != nil {
			s := c.slots[ds[0][0]]
			if msg := vo4d(vfam(id.fam), id.ver, par, c, s, s.alts[ds[0][1]], &c.facts); msg != "" {
				c.violate("O4-length-prefix", msg)
			}
		}
		if n == 2 {
			base := vexec(vcaseID{fam: id.fam, ver: id.ver, cfg: id.cfg})
			vo3(base, par, ds[0], &res)
			vinherit(base, par)
			p2 := vexec(vcaseID{fam: id.fam, ver: id.ver, cfg: id.cfg, devs: ds[1:]})
			vo3(base, p2, ds[1], &res)
			vinherit(base, p2)
			vinherit(p2, c)
		}
		vinherit(par, c)
	}
	report = fmt.Sprintf("case %s: %s\n outcome: %s %s\n value: %s\n encoded(%d): %s\n decoded: %s\n", id, c.desc, c.outcome, c.rejectBy, vtrunc(c.d0, 2000), len(c.b0), vtrunc(hex.EncodeToString(c.b0), 800), vtrunc(c.d1, 2000))
	return c.viol, report, nil
}
