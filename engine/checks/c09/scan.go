// Package c09: wire round-trip check (thin driver; the harness proper lives in bridge/ and is compiled
// into package sarama through the overlay). This file: go/parser scan of the CURRENT /repo tree that
// finds every protocol body and the highest version each body's code gates on, so that a body added
// to /repo cannot be forgotten by the compiled-in registry.
package c09

import (
	"go/ast"
	"go/parser"
	"go/token"
	"os"
	"path/filepath"
	"sort"
	"strconv"
	"strings"
)

type ScannedBody struct {
	Name       string `json:"name"`
	File       string `json:"file"`
	IsRequest  bool   `json:"is_request"`
	HasVersion bool   `json:"has_version_field"`
	MaxGate    int    `json:"max_gate"` // highest integer a version expression is compared with in the file(s) of the type
}

func RepoDir() string {
	if r := os.Getenv("VERIF_REPO"); r != "" {
		return r
	}
	return "/repo"
}

// ScanRepo parses every non-test .go file of package sarama. VERIF_MUTANT files replace the /repo
// file of the same name (as the overlay does), so the scan sees the code that is actually compiled.
func ScanRepo() (map[string]*ScannedBody, error) {
	files, err := filepath.Glob(filepath.Join(RepoDir(), "*.go"))
	if err != nil {
		return nil, err
	}
	sort.Strings(files)
	mut := os.Getenv("VERIF_MUTANT")
	fset := token.NewFileSet()
	methods := map[string]map[string]bool{} // type -> method names
	typeFile := map[string]string{}         // type -> file
	hasVersion := map[string]bool{}         // type has field Version
	fileGate := map[string]int{}            // file -> max gate
	methodGate := map[string]int{}          // receiver type -> max gate inside its methods
	uses := map[string]map[string]bool{}    // type -> types named in its struct fields
	for _, f := range files {
		if strings.HasSuffix(f, "_test.go") {
			continue
		}
		src := f
		if mut != "" {
			if _, err := os.Stat(filepath.Join(mut, filepath.Base(f))); err == nil {
				src = filepath.Join(mut, filepath.Base(f))
			}
		}
		af, err := parser.ParseFile(fset, src, nil, 0)
		if err != nil {
			return nil, err
		}
		base := filepath.Base(f)
		for _, d := range af.Decls {
			switch d := d.(type) {
			case *ast.GenDecl:
				for _, s := range d.Specs {
					ts, ok := s.(*ast.TypeSpec)
					if !ok {
						continue
					}
					typeFile[ts.Name.Name] = base
					st, ok := ts.Type.(*ast.StructType)
					if !ok {
						continue
					}
					u := map[string]bool{}
					for _, fl := range st.Fields.List {
						for _, n := range fl.Names {
							if n.Name == "Version" {
								hasVersion[ts.Name.Name] = true
							}
						}
						ast.Inspect(fl.Type, func(n ast.Node) bool {
							if id, ok := n.(*ast.Ident); ok {
								u[id.Name] = true
							}
							return true
						})
					}
					uses[ts.Name.Name] = u
				}
			case *ast.FuncDecl:
				recv := ""
				if d.Recv != nil && len(d.Recv.List) == 1 {
					t := d.Recv.List[0].Type
					if s, ok := t.(*ast.StarExpr); ok {
						t = s.X
					}
					if id, ok := t.(*ast.Ident); ok {
						recv = id.Name
					}
				}
				if recv != "" {
					if methods[recv] == nil {
						methods[recv] = map[string]bool{}
					}
					methods[recv][d.Name.Name] = true
				}
				if d.Body == nil {
					continue
				}
				g := maxGate(d.Body)
				if g > fileGate[base] {
					fileGate[base] = g
				}
				if recv != "" && g > methodGate[recv] {
					methodGate[recv] = g
				}
			}
		}
	}
	out := map[string]*ScannedBody{}
	for t, ms := range methods {
		if ms["encode"] && ms["decode"] && ms["key"] && ms["version"] {
			b := &ScannedBody{Name: t, File: typeFile[t], HasVersion: hasVersion[t]}
			b.IsRequest = strings.HasSuffix(t, "Request")
			// gate: methods of the type itself and of every type reachable through its fields
			seen := map[string]bool{}
			var walk func(string)
			walk = func(n string) {
				if seen[n] {
					return
				}
				seen[n] = true
				if methodGate[n] > b.MaxGate {
					b.MaxGate = methodGate[n]
				}
				for u := range uses[n] {
					if _, ok := uses[u]; ok {
						walk(u)
					}
				}
			}
			walk(t)
			out[t] = b
		}
	}
	return out, nil
}

func mentionsVersion(e ast.Expr) bool {
	found := false
	ast.Inspect(e, func(n ast.Node) bool {
		switch x := n.(type) {
		case *ast.Ident:
			if strings.Contains(strings.ToLower(x.Name), "version") {
				found = true
			}
		case *ast.BasicLit:
			return false
		}
		return true
	})
	return found
}

func intLit(e ast.Expr) (int, bool) {
	if p, ok := e.(*ast.ParenExpr); ok {
		return intLit(p.X)
	}
	if l, ok := e.(*ast.BasicLit); ok && l.Kind == token.INT {
		n, err := strconv.Atoi(l.Value)
		return n, err == nil
	}
	return 0, false
}

// maxGate: the highest version the code distinguishes: `v >= N`, `v == N`, `v < N` → N; `v > N`, `v <= N` → N+1;
// `switch v { case N: }` → N.
func maxGate(body ast.Node) int {
	max := 0
	up := func(n int) {
		if n > max && n < 100 {
			max = n
		}
	}
	ast.Inspect(body, func(n ast.Node) bool {
		switch x := n.(type) {
		case *ast.BinaryExpr:
			var lit int
			var ok, litRight bool
			if lit, ok = intLit(x.Y); ok && mentionsVersion(x.X) {
				litRight = true
			} else if lit, ok = intLit(x.X); ok && mentionsVersion(x.Y) {
				litRight = false
			} else {
				return true
			}
			op := x.Op
			if !litRight { // N op v  ==  v op' N
				switch op {
				case token.LSS:
					op = token.GTR
				case token.GTR:
					op = token.LSS
				case token.LEQ:
					op = token.GEQ
				case token.GEQ:
					op = token.LEQ
				}
			}
			switch op {
			case token.GEQ, token.EQL, token.LSS, token.NEQ:
				up(lit)
			case token.GTR, token.LEQ:
				up(lit + 1)
			}
		case *ast.SwitchStmt:
			if x.Tag != nil && mentionsVersion(x.Tag) {
				for _, c := range x.Body.List {
					for _, e := range c.(*ast.CaseClause).List {
						if lit, ok := intLit(e); ok {
							up(lit)
						}
					}
				}
			}
		}
		return true
	})
	return max
}
