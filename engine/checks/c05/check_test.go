package c05

import (
	"testing"
	"time"

	"verif/engine/gx"
	"verif/engine/rigs/prodrig"
)

func TestMain(m *testing.M)   { gx.Main(m) }
func TestWorker(t *testing.T) { gx.WorkerMain(t) }
func TestCheck(t *testing.T) {
	gx.RunCheck(t, "C05", prodrig.Scenarios("C05"), 50*time.Second, 14*time.Minute, prodrig.Assumptions)
}
