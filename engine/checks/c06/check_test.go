package c06

import (
	"testing"
	"time"

	"verif/engine/gx"
	_ "verif/engine/rigs/omrig"
)

func TestMain(m *testing.M)   { gx.Main(m) }
func TestWorker(t *testing.T) { gx.WorkerMain(t) }

const faults = "notcoord,loading,toolarge,unknown,missing,drop,drop-committed"

var assumptions = []string{
	"simkafka's group coordinator stores what an OffsetCommit carries unless the chosen answer says otherwise; FindCoordinator/OffsetFetch answered faithfully",
	"one committer at a time (auto-commit ticker or manual Commit), as the API intends; marks/resets are atomic under the partition lock, so every placement relative to snapshot/send/response is one of: before the commit begins, at the om.flush.sent gate, while the request is pending, after the answer",
	"bounds: 1-2 partitions, <=2-3 marks/resets per partition, search depth per tier",
}

func TestCheck(t *testing.T) {
	gx.RunBFSCheck(t, "C06", []gx.BFSSc{
		{Name: "om?np=1&auto=1&ops=3&gates=om.flush.sent&faults=" + faults, Q: 7, T: 9},
		{Name: "om?np=1&auto=0&ops=3&gates=om.flush.sent&faults=" + faults, Q: 7, T: 9},
		{Name: "om?np=2&auto=1&ops=2&init=valid&ret=1&gates=om.flush.sent&faults=" + faults, Q: 5, T: 7},
		{Name: "om?np=1&auto=1&ops=2&init=zero&gates=om.flush.sent&faults=" + faults, Q: 5, T: 7},
		// explicit retention (v2 commit requests), constant empty metadata, a stored position to come back from
		{Name: "om?np=1&auto=1&ops=2&init=valid&ret=1&meta=const&gates=om.flush.sent&faults=" + faults, Q: 4, T: 6},
		// the fetch of the stored position fails when the partition manager is created (coordinator moved, connection lost,
		// an error without special treatment): ManagePartition may fail, it must not come up with another position
		{Name: "om?np=1&auto=1&ops=2&init=valid&ofaults=notcoord,drop,other&gates=om.flush.sent&faults=notcoord,drop", Q: 3, T: 4},
		// two managed partitions in two topics: one commit request spans topics; a block (= a whole topic) may be missing
		{Name: "om?np=2&split=1&auto=1&ops=2&gates=om.flush.sent&faults=" + faults + ",missing-unstored", Q: 5, T: 7},
		// every mark and reset with the same (empty) metadata: positions differ by the offset only
		{Name: "om?np=1&auto=1&ops=3&meta=const&gates=om.flush.sent&faults=" + faults, Q: 7, T: 9},
		// other retry budgets: none at all (Close still owes one final attempt) and a larger one
		{Name: "om?np=1&auto=1&ops=2&rm=0&init=valid&gates=om.flush.sent&faults=notcoord,drop", Q: 5, T: 6},
		{Name: "om?np=1&auto=1&ops=2&rm=3&gates=om.flush.sent&faults=notcoord", Q: 5, T: 6},
	}, 50*time.Second, 9*time.Minute, assumptions)
}
