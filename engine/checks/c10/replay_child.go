package c10

import (
	"fmt"
	"os"
	"os/exec"
	"time"
)

// replayInChild re-executes one case in a child process (so that a fatal allocation or a hang is observed, not suffered).
func replayInChild(path, caseID string) int {
	cmd := exec.Command(os.Args[0], "-test.run", "^TestCheck$", "-test.timeout", "0")
	cmd.Env = append(os.Environ(), "VERIF_C10_INPROC=1", "VERIF_REPLAY="+path, "GOMAXPROCS=1")
	cmd.Stdout = os.Stdout
	cmd.Stderr = os.Stderr
	if err := cmd.Start(); err != nil {
		fmt.Println("ENGINE-ERROR cannot start replay child:", err)
		return 3
	}
	done := make(chan error, 1)
	go func() { done <- cmd.Wait() }()
	select {
	case err := <-done:
		if err == nil {
			return 0
		}
		if ee, ok := err.(*exec.ExitError); ok {
			switch ee.ExitCode() {
			case 1:
				return 1
			case 3:
				return 3
			}
			fmt.Printf("REPLAY: still violates: the decoding process died on case %s: %v\n", caseID, err)
			return 1
		}
		fmt.Println("ENGINE-ERROR", err)
		return 3
	case <-time.After(60 * time.Second):
		_ = cmd.Process.Kill()
		fmt.Printf("REPLAY: still violates: decoding case %s did not return within 60 s (hang)\n", caseID)
		return 1
	}
}
