package c10

import (
	"encoding/json"
	"fmt"
	"os"
	"path/filepath"
	"sort"
	"strconv"
	"strings"
	"syscall"
	"testing"
	"time"

	"github.com/Shopify/sarama"
	metrics "github.com/rcrowley/go-metrics"

	"verif/engine/checks/c09"
	"verif/engine/ev"
)

var exitCode = 3

func TestMain(m *testing.M) {
	m.Run()
	os.Exit(exitCode)
}

func extraMaxFromEnv() map[string]int {
	m := map[string]int{}
	_ = json.Unmarshal([]byte(os.Getenv("VERIF_C09_EXTRAMAX")), &m)
	return m
}

// Address-space cap of a worker: what the process has mapped at start-up (the Go runtime reserves ≈1.5 GiB of
// address space by itself) plus heapRoom. A legitimate decode needs a few MiB (largest codec working set: 8 MiB),
// so a runaway allocation fails fast and only kills the worker.
var heapRoomMB = func() uint64 {
	if v, err := strconv.Atoi(os.Getenv("VERIF_C10_HEAP_MB")); err == nil && v > 0 {
		return uint64(v)
	}
	return 512
}()

func capAddressSpace() {
	vm := uint64(1536 << 20)
	if b, err := os.ReadFile("/proc/self/status"); err == nil {
		for _, l := range strings.Split(string(b), "\n") {
			if strings.HasPrefix(l, "VmSize:") {
				f := strings.Fields(l)
				if len(f) >= 2 {
					if kb, err := strconv.ParseUint(f[1], 10, 64); err == nil {
						vm = kb << 10
					}
				}
			}
		}
	}
	lim := vm + heapRoomMB<<20
	_ = syscall.Setrlimit(syscall.RLIMIT_AS, &syscall.Rlimit{Cur: lim, Max: lim})
}

// TestChild: worker. Address space capped so that a multi-GiB make() kills only this process; the case
// being executed is in the progress file.
func TestChild(t *testing.T) {
	if os.Getenv("VERIF_CHILD") != "c10" {
		t.Skip()
	}
	metrics.UseNilMetrics = true
	capAddressSpace()
	sarama.VerifC09Families(extraMaxFromEnv())
	c09.ChildLoopEmit(func(u string, emit func(interface{})) interface{} {
		base, from, to, skip := parseUnit(u)
		return sarama.VerifC10RunUnit(base, from, to, skip, c09.Progress, func(r sarama.VerifC10Result) { emit(r) })
	})
	exitCode = 0
}

// unit strings on the wire: "base" | "base@from-to" | "base@from-to!skip1,skip2" (cases [from,to) of the unit, to=0: to the
// end; skips = indices of cases known to kill the process). "base" here includes the chunk suffix, see chunkKey.
func parseUnit(u string) (base string, from, to int, skip map[int]bool) {
	skip = map[int]bool{}
	base = u
	if i := strings.LastIndex(u, "@"); i >= 0 {
		base = u[:i]
		rest := u[i+1:]
		if j := strings.Index(rest, "!"); j >= 0 {
			for _, x := range strings.Split(rest[j+1:], ",") {
				if n, err := strconv.Atoi(x); err == nil {
					skip[n] = true
				}
			}
			rest = rest[:j]
		}
		ft := strings.SplitN(rest, "-", 2)
		from, _ = strconv.Atoi(ft[0])
		if len(ft) == 2 {
			to, _ = strconv.Atoi(ft[1])
		}
	}
	return
}

func formatUnit(base string, from, to int, skip map[int]bool) string {
	var l []int
	for k := range skip {
		if k >= from {
			l = append(l, k)
		}
	}
	sort.Ints(l)
	s := fmt.Sprintf("%s@%d-%d", base, from, to)
	for i, k := range l {
		if i == 0 {
			s += "!"
		} else {
			s += ","
		}
		s += strconv.Itoa(k)
	}
	return s
}

func TestCheck(t *testing.T) {
	if os.Getenv("VERIF_CHILD") != "" {
		t.Skip()
	}
	metrics.UseNilMetrics = true
	if p := os.Getenv("VERIF_REPLAY"); p != "" {
		exitCode = replay(p)
		return
	}
	if id := os.Getenv("VERIF_C10_CASE"); id != "" { // debugging aid
		tmp := filepath.Join(ev.Root(), ".build", "c10", "case.json")
		b, _ := json.Marshal(map[string]interface{}{"property": "C10", "replay": map[string]string{"case": id}})
		_ = os.MkdirAll(filepath.Dir(tmp), 0o755)
		_ = os.WriteFile(tmp, b, 0o644)
		exitCode = replay(tmp)
		return
	}
	c := ev.NewCheck("C10", "exploration")
	extra, ok := c09.CrossCheckRegistry(c)
	if !ok {
		exitCode = c.Finish()
		return
	}
	thorough := ev.Tier() == "thorough"
	units := sarama.VerifC10Units(thorough, extra)
	famCfgs := map[string][]string{}
	for _, f := range sarama.VerifC09Families(extra) {
		famCfgs[f.Name] = f.Configs
	}
	// base seeds and short strings first (heavy first), then the single-deviation seeds rotated by the seed
	var first, rest []sarama.VerifUnit
	for _, u := range units {
		if strings.Contains(u.ID, "|slot:") {
			rest = append(rest, u)
		} else {
			first = append(first, u)
		}
	}
	sort.SliceStable(first, func(i, j int) bool { return first[i].Weight > first[j].Weight })
	if n := len(rest); n > 0 {
		k := (ev.Seed()%n + n) % n * 7919 % n
		rest = append(rest[k:], rest[:k]...)
	}
	// units are cut into chunks of ≤ chunk cases, so that a unit full of fatal cases is shared by several workers
	chunk := 1500
	if thorough {
		chunk = 12000
	}
	var ids []string
	for _, u := range append(first, rest...) {
		if u.Weight <= chunk {
			ids = append(ids, u.ID)
			continue
		}
		for from := 0; from < u.Weight; from += chunk {
			to := from + chunk
			if to >= u.Weight {
				to = 0
			}
			ids = append(ids, fmt.Sprintf("%s@%d-%d", u.ID, from, to))
		}
	}
	xb, _ := json.Marshal(extra)
	start := time.Now()
	type agg struct {
		Units, Seeds, Cases, Panics, Allocs, Wrong, Deaths int
	}
	perFam := map[string]*agg{}
	fam := func(n string) *agg {
		if perFam[n] == nil {
			perFam[n] = &agg{}
		}
		return perFam[n]
	}
	byClass := map[string]int{}
	outcomes := map[string]int{}
	errorsSeen := map[string]int{}
	sigCount := map[string]int{}
	sigExample := map[string]string{}
	var cases, distinct, seeds, crcChecked int
	var maxAlloc, workingSet uint64
	nsamples := 0
	deaths := 0
	pool := &c09.Pool{Mode: "c10", Deadline: start.Add(ev.Deadline(45*time.Second, 540*time.Second)), Watchdog: 60 * time.Second,
		Env: []string{"VERIF_C09_EXTRAMAX=" + string(xb), "GOMAXPROCS=1"}, Scratch: filepath.Join(ev.Root(), ".build", "c10")}
	report := func(sig, msg, check, caseID string) {
		sigCount[sig]++
		if sigCount[sig] == 1 {
			sigExample[sig] = caseID
			c.Report(ev.Violation{Signature: sig, Message: msg, Check: check, Replay: map[string]string{"case": caseID}})
		}
	}
	recycles := 0
	flushedNext := map[string]int{}    // base unit -> first case index whose result has not been received yet
	fatal := map[string]map[int]bool{} // base unit -> case indices that killed a worker
	pool.IsPartial = func(line []byte) bool {
		return strings.Contains(string(line[:minInt(len(line), 4096)]), `"partial":true`) || strings.Contains(string(line), `"partial":true`)
	}
	var absorb func(unit string, line []byte) (next string)
	pool.OnPartial = func(unit string, line []byte) { absorb(unit, line) }
	pool.OnResultNext = func(unit string, line []byte) string { return absorb(unit, line) }
	absorb = func(unit string, line []byte) (next string) {
		var r sarama.VerifC10Result
		if err := json.Unmarshal(line, &r); err != nil {
			c.EngineError("unit " + unit + ": bad result line: " + err.Error())
			return
		}
		if r.EngineErr != "" {
			c.EngineError("unit " + unit + ": " + r.EngineErr)
			return
		}
		base, _, to, _ := parseUnit(unit)
		key := fmt.Sprintf("%s-%d", base, to)
		if r.Partial || r.Recycle {
			flushedNext[key] = r.Next
		}
		if r.Recycle {
			recycles++
			next = formatUnit(base, r.Next, to, fatal[base])
		}
		a := fam(r.Family)
		if !r.Partial && !r.Recycle {
			a.Units++
		}
		a.Seeds += r.Seeds
		a.Cases += r.Cases
		a.Panics += r.Outcomes["panic"]
		a.Allocs += r.Outcomes["alloc"]
		a.Wrong += r.Outcomes["wrong-records"]
		cases += r.Cases
		distinct += r.Distinct
		seeds += r.Seeds
		crcChecked += r.CRCChecked
		if r.MaxAlloc > maxAlloc {
			maxAlloc = r.MaxAlloc
		}
		if r.WorkingSet > workingSet {
			workingSet = r.WorkingSet
		}
		for k, n := range r.ByClass {
			byClass[k] += n
		}
		for k, n := range r.Outcomes {
			outcomes[k] += n
		}
		for k, n := range r.Errors {
			errorsSeen[k] += n
		}
		for _, v := range r.Violations {
			n := r.SigCount[v.Signature]
			if sigCount[v.Signature] == 0 {
				report(v.Signature, v.Message, unit, v.Case)
				n--
			}
			sigCount[v.Signature] += n
		}
		if r.Sample != "" && nsamples < 6 && (nsamples < 3 || strings.Contains(r.Sample, "Fetch") || strings.Contains(r.Sample, "Batch")) {
			nsamples++
			c.AddSample(r.Sample)
		}
		return
	}
	pool.OnDeath = func(unit, why, progress string) string {
		deaths++
		base, from0, to, _ := parseUnit(unit)
		key := fmt.Sprintf("%s-%d", base, to)
		f := strings.Split(base, "|")[0]
		fam(f).Deaths++
		twin := ""
		if strings.HasSuffix(progress, "+crc") {
			// the process died while decoding the valid-checksum twin of the case (same corruption, checksum recomputed)
			progress = strings.TrimSuffix(progress, "+crc")
			twin = " valid-crc"
		}
		if !strings.HasPrefix(progress, base+"#") {
			c.EngineError("worker died in unit " + unit + " (" + why + ") and the progress file does not name a case of it: " + progress)
			return ""
		}
		failure, kind := "death", "killed"
		switch {
		case strings.Contains(why, "hang"):
			kind = "hang"
		case strings.Contains(why, "out of memory") || strings.Contains(why, "cannot allocate"):
			// the Go runtime gave up on an allocation under the address-space cap: the extreme form of the allocation clause
			failure, kind = "alloc", "excessive"
			outcomes["alloc-fatal"]++
		case strings.Contains(why, "stack overflow") || strings.Contains(why, "stack exceeds"):
			kind = "stack-overflow"
		case strings.Contains(why, "exit status 2"):
			kind = "fatal-error"
		}
		outcomes["death-"+kind]++
		codec := ""
		if parts := strings.Split(base, "|"); len(parts) == 4 {
			var ci int
			fmt.Sscanf(parts[2], "c%d", &ci)
			if cs := famCfgs[f]; ci < len(cs) && len(cs) > 1 {
				if cc := strings.Split(cs[ci], "/"); len(cc) == 3 && cc[1] != "none" {
					codec = " codec=" + cc[1]
				}
			}
		}
		report(fmt.Sprintf("%s type=%s%s kind=%s%s", failure, f, codec, kind, twin),
			fmt.Sprintf("the worker process (heap room capped at %d MiB) died while decoding case %s%s: %s", heapRoomMB, progress, map[bool]string{true: " (its twin with the checksum recomputed)", false: ""}[twin != ""], why), unit, progress)
		idx, _ := strconv.Atoi(progress[strings.LastIndex(progress, "#")+1:])
		if fatal[base] == nil {
			fatal[base] = map[int]bool{}
		}
		fatal[base][idx] = true
		// results since the last partial answer died with the worker: run again from there, leaving out the fatal cases
		from := flushedNext[key]
		if from < from0 {
			from = from0
		}
		return formatUnit(base, from, to, fatal[base])
	}
	slow := map[string]time.Duration{}
	pool.OnTime = func(unit string, d time.Duration, died bool) {
		base, _, _, _ := parseUnit(unit)
		slow[base] += d
	}
	abandoned := map[string]int{}
	pool.OnAbandon = func(unit string, deaths int) { abandoned[unit] = deaths }
	completed, all := pool.Run(ids)
	{
		type kv struct {
			k string
			d time.Duration
		}
		var l []kv
		for k, d := range slow {
			l = append(l, kv{k, d})
		}
		sort.Slice(l, func(i, j int) bool { return l[i].d > l[j].d })
		var top []string
		for i := 0; i < len(l) && i < 8; i++ {
			top = append(top, fmt.Sprintf("%s %.1fs", l[i].k, l[i].d.Seconds()))
		}
		c.Set("slowest_units", top)
		c.Set("units_abandoned", abandoned)
	}
	exhaustive := all && completed == len(ids)
	short := 3
	if thorough {
		short = 4
	}
	c.Set("evaluations", cases)
	c.Set("distinct_nontrivial", distinct)
	c.Set("rule", fmt.Sprintf("for every decode entry point of data the client does not control (every response body × version, response header, record batch, message set, Records, fetch blocks with nested compressed sets, member metadata/assignment, sticky user data) and every seed = valid encoding of C09's base value%s: the seed, every truncation, every single-bit flip, every 1/2/4-byte big-endian field and zig-zag / unsigned varint at every offset overwritten with each boundary value; plus every byte string of length ≤%d over a 12-byte alphabet into every decoder × version. Every case reaches the real decoder (non-trivial by construction); distinct = 64-bit hash of the input bytes per (decoder, version, config) unit", map[bool]string{false: "", true: " and of every single-deviation value"}[thorough], short))
	c.Set("exhaustive", exhaustive)
	c.Set("units_planned", len(ids))
	c.Set("units_completed", completed)
	c.Set("seeds", seeds)
	c.Set("cases_by_mutation_class", byClass)
	c.Set("outcomes", outcomes)
	c.Set("distinct_error_texts", len(errorsSeen))
	c.Set("crc_clause_cases_checked", crcChecked)
	c.Set("worker_deaths", deaths)
	c.Set("worker_recycles_after_big_allocation", recycles)
	c.Set("max_alloc_bytes_within_allowance_or_not", maxAlloc)
	c.Set("max_codec_working_set_bytes", workingSet)
	c.Set("per_family", perFam)
	c.Set("violations_by_signature", sigCount)
	c.Set("violation_example_case", sigExample)
	if !exhaustive {
		c.Set("deadline_cut", fmt.Sprintf("internal deadline reached: %d of %d units completed (base seeds and short strings run first)", completed, len(ids)))
	}
	top := []string{}
	for k, n := range errorsSeen {
		top = append(top, fmt.Sprintf("%8d %s", n, k))
	}
	sort.Sort(sort.Reverse(sort.StringSlice(top)))
	if len(top) > 12 {
		top = top[:12]
	}
	c.Set("most_frequent_errors", top)
	c.Assumptions = append(c.Assumptions,
		"allocation is measured as runtime.MemStats.TotalAlloc delta around the decode call in a single-threaded worker with the collector paused; a case over the allowance is measured a second time (warm pools) and judged on the smaller value",
		"for seeds carrying a compressed payload the allowance additionally contains 40 × decompressed size and the codec's working set measured on the valid seed with cold pools",
		"hang detection: 60 s watchdog per unit in the parent (a unit takes well under a second)",
		"a worker answers every 1000 cases; after a worker death the unit is run again from the last answer, leaving out the fatal case(s), so no result is lost")
	fmt.Printf("C10: %d units (%d completed), %d seeds, %d cases, %d distinct, outcomes %v, crc-clause cases %d, deaths %d, %.1fs\n", len(ids), completed, seeds, cases, distinct, outcomes, crcChecked, deaths, time.Since(start).Seconds())
	exitCode = c.Finish()
}

func minInt(a, b int) int {
	if a < b {
		return a
	}
	return b
}

func replay(path string) int {
	b, err := os.ReadFile(path)
	if err != nil {
		fmt.Println("ENGINE-ERROR cannot read", path, err)
		return 3
	}
	var v struct {
		Signature string            `json:"signature"`
		Replay    map[string]string `json:"replay"`
	}
	if err := json.Unmarshal(b, &v); err != nil || v.Replay["case"] == "" {
		fmt.Println("ENGINE-ERROR artefact has no replayable case:", path)
		return 3
	}
	if os.Getenv("VERIF_C10_INPROC") == "" {
		// a case may kill the process: replay in a capped child and interpret its fate
		return replayInChild(path, v.Replay["case"])
	}
	capAddressSpace()
	extra := map[string]int{}
	if scan, err := c09.ScanRepo(); err == nil {
		table := sarama.VerifC09BodyNames()
		for n, sb := range scan {
			if sb.HasVersion && sb.MaxGate > table[n] {
				extra[n] = sb.MaxGate
			}
		}
	}
	sarama.VerifC09Families(extra)
	viol, report, err := sarama.VerifC10RunCase(v.Replay["case"])
	fmt.Print(report)
	if err != nil {
		fmt.Println("ENGINE-ERROR", err)
		return 3
	}
	if len(viol) == 0 {
		fmt.Println("REPLAY: no violation on this tree")
		return 0
	}
	for _, x := range viol {
		fmt.Printf("REPLAY: still violates: %s\n  %s\n", x.Signature, strings.ReplaceAll(x.Message, "\n", "\n  "))
	}
	return 1
}
