package c17

// The child process: executes blocks of cases through the real partitioners and writes one JSON line
// per completed piece to the result file. A progress file always names the piece (and, in fine mode,
// the very case) being executed so that the parent can attribute a fatal death (stack overflow,
// out of memory) to a case. Stack overflow cannot be recovered in Go, hence the process boundary.

import (
	"encoding/binary"
	"encoding/json"
	"fmt"
	"math/bits"
	"os"
	"runtime/debug"
	"sort"
	"strconv"
	"strings"
	"syscall"
	"time"
	"unsafe"

	"github.com/Shopify/sarama"
)

const (
	childEnv    = "VERIF_C17_CHILD"
	coarseChunk = 1 << 18
	fineChunk   = 1 << 12
	bigCap      = 1 << 21
)

type Block struct {
	ID    int    `json:"id"`
	Kind  string `json:"kind"` // hash | fnv | keyless | random | manual | rr | rrcycle
	Ctor  string `json:"ctor"`
	Key   string `json:"key,omitempty"`   // empty | bytes | fnv-bytes | nil
	N     int32  `json:"n,omitempty"`     // numPartitions (not for rr kinds)
	Start int32  `json:"start,omitempty"` // rr: start cursor
	From  int    `json:"from"`
	To    int    `json:"to"`
	Fine  bool   `json:"fine,omitempty"` // progress file updated before every case
	// explicit cases (replay artefacts): used instead of the tier's lists
	OvHashes []uint32  `json:"ov_hashes,omitempty"`
	OvKeys   [][]byte  `json:"ov_keys,omitempty"`
	OvVals   []int64   `json:"ov_vals,omitempty"`
	OvSeqs   [][]int32 `json:"ov_seqs,omitempty"`
}

func (b Block) group() string { return b.Kind + "|" + b.Ctor + "|" + b.Key }

type Job struct {
	Tier         string  `json:"tier"`
	Blocks       []Block `json:"blocks"`
	Progress     string  `json:"progress"`
	Result       string  `json:"result"`
	DeadlineNano int64   `json:"deadline_nano"`
	MaxStack     int     `json:"max_stack"`
}

type CViol struct {
	Sig  string `json:"sig"`
	Msg  string `json:"msg"`
	Case int    `json:"case"`
}

// Piece = what one contiguous index range of one block produced.
type Piece struct {
	Block      int                      `json:"block"`
	From       int                      `json:"from"`
	To         int                      `json:"to"`
	Evals      int64                    `json:"evals"`   // cases started
	Calls      int64                    `json:"calls"`   // Partition() calls
	Reached    int64                    `json:"reached"` // distinct cases that reached their oracle (popcount of the bitmap)
	Masks      map[string]uint32        `json:"masks,omitempty"`
	Big        map[string]int           `json:"big,omitempty"`
	DocMatch   int64                    `json:"doc_match,omitempty"`
	DocDiffer  int64                    `json:"doc_differ,omitempty"`
	Scripted   int64                    `json:"scripted,omitempty"`
	Unscripted int64                    `json:"unscripted,omitempty"`
	FbCalls    int64                    `json:"fb_calls,omitempty"`
	Flags      map[string]int64         `json:"flags,omitempty"` // observed RequiresConsistency answers (information)
	Viol       []CViol                  `json:"viol,omitempty"`
	ViolCounts map[string]int64         `json:"viol_counts,omitempty"`
	Samples    []map[string]interface{} `json:"samples,omitempty"`
	Notes      []string                 `json:"notes,omitempty"`
	Cut        bool                     `json:"cut,omitempty"`
	End        bool                     `json:"end,omitempty"`

	bitmap  []uint64
	bigVals map[int32][]int32
}

func newPiece(block, from, to int, bigVals map[int32][]int32) *Piece {
	return &Piece{Block: block, From: from, To: to, Masks: map[string]uint32{}, Big: map[string]int{}, Flags: map[string]int64{},
		ViolCounts: map[string]int64{}, bitmap: make([]uint64, (to-from+63)/64), bigVals: bigVals}
}

func (p *Piece) reach(i int) { p.bitmap[(i-p.From)>>6] |= 1 << uint((i-p.From)&63) }

func (p *Piece) seen(n, part int32) {
	if n <= 32 {
		if part >= 0 && part < 32 {
			p.Masks[strconv.Itoa(int(n))] |= 1 << uint(part)
		}
		return
	}
	if l := p.bigVals[n]; len(l) < bigCap {
		p.bigVals[n] = append(l, part)
	}
}

// violate counts a violation; the first three per signature and piece are kept with their message
// (rendered lazily: a badly broken tree produces millions).
func (p *Piece) violate(sig string, msg func() string, i int) {
	p.ViolCounts[sig]++
	if p.ViolCounts[sig] <= 3 {
		p.Viol = append(p.Viol, CViol{Sig: sig, Msg: msg(), Case: i})
	}
}

// finalize counts the bitmap; the last piece of a block run also carries the number of distinct
// partitions seen for numPartitions > 32 over the whole run (first bigCap results).
func (p *Piece) finalize(last bool) {
	for _, w := range p.bitmap {
		p.Reached += int64(bits.OnesCount64(w))
	}
	if !last {
		return
	}
	for n, l := range p.bigVals {
		sort.Slice(l, func(i, j int) bool { return l[i] < l[j] })
		d := 0
		for i := range l {
			if i == 0 || l[i] != l[i-1] {
				d++
			}
		}
		p.Big[strconv.Itoa(int(n))] = d
	}
}

type childOut struct {
	prog, res *os.File
	deadline  time.Time
}

func (w *childOut) progress(block, from, cur int) {
	s := fmt.Sprintf("%d %d %d", block, from, cur)
	rec := []byte(s + strings.Repeat(" ", 63-len(s)) + "\n")
	_, _ = w.prog.WriteAt(rec, 0)
}

func (w *childOut) line(p *Piece) {
	b, _ := json.Marshal(p)
	_, _ = w.res.Write(append(b, '\n'))
}

func (w *childOut) late() bool { return !w.deadline.IsZero() && time.Now().After(w.deadline) }

func bxChildMain(jobPath string) int {
	raw, err := os.ReadFile(jobPath)
	if err != nil {
		fmt.Fprintln(os.Stderr, "c17 child:", err)
		return 3
	}
	var job Job
	if err := json.Unmarshal(raw, &job); err != nil {
		fmt.Fprintln(os.Stderr, "c17 child:", err)
		return 3
	}
	if job.MaxStack > 0 {
		debug.SetMaxStack(job.MaxStack)
	}
	// address-space cap: a runaway allocation kills this child, not the machine
	_ = syscall.Setrlimit(syscall.RLIMIT_AS, &syscall.Rlimit{Cur: 4 << 30, Max: 4 << 30})
	w := &childOut{}
	if w.prog, err = os.OpenFile(job.Progress, os.O_RDWR|os.O_CREATE|os.O_TRUNC, 0o644); err != nil {
		fmt.Fprintln(os.Stderr, "c17 child:", err)
		return 3
	}
	if w.res, err = os.OpenFile(job.Result, os.O_WRONLY|os.O_CREATE|os.O_APPEND, 0o644); err != nil {
		fmt.Fprintln(os.Stderr, "c17 child:", err)
		return 3
	}
	if job.DeadlineNano > 0 {
		w.deadline = time.Unix(0, job.DeadlineNano)
	}
	sp := newSpace(job.Tier)
	for _, b := range job.Blocks {
		if !runBlock(sp, b, w) {
			w.line(&Piece{Block: -1, Cut: true})
			break
		}
	}
	w.line(&Piece{Block: -1, End: true})
	return 0
}

// space = the case lists of a tier (built lazily, identically in parent and child).
type space struct {
	tier  string
	hl    []uint32
	fk    *fnvKeys
	rrPre [][]int32
}

func newSpace(tier string) *space { return &space{tier: tier} }

func (s *space) hashes() []uint32 {
	if s.hl == nil {
		s.hl = hashList(s.tier)
	}
	return s.hl
}
func (s *space) keys() *fnvKeys {
	if s.fk == nil {
		s.fk = newFnvKeys(s.tier)
	}
	return s.fk
}
func (s *space) prefixes() [][]int32 {
	if s.rrPre == nil {
		s.rrPre = rrCyclePrefixes(rrAlphabet(s.tier))
	}
	return s.rrPre
}

// size = number of cases of the (un-restricted) block.
func (s *space) size(b Block) int {
	switch b.Kind {
	case "hash":
		if b.OvHashes != nil {
			return len(b.OvHashes)
		}
		return len(s.hashes())
	case "fnv":
		if b.OvKeys != nil {
			return len(b.OvKeys)
		}
		return s.keys().count()
	case "keyless":
		if b.OvVals != nil {
			return len(b.OvVals)
		}
		if sp, _ := specByID(b.Ctor); sp.Fallback {
			return len(fallbackValues(b.N))
		}
		return len(drawValues(b.N))
	case "random":
		if b.OvVals != nil {
			return len(b.OvVals)
		}
		return len(drawValues(b.N))
	case "manual":
		if b.OvVals != nil {
			return len(b.OvVals)
		}
		return len(manualValues(b.N))
	case "rr":
		if b.OvSeqs != nil {
			return len(b.OvSeqs)
		}
		return ipow(len(rrAlphabet(s.tier)), rrSeqLen(s.tier))
	case "rrcycle":
		if b.OvSeqs != nil {
			return len(b.OvSeqs)
		}
		return len(s.prefixes()) * 17
	}
	return 0
}

func (s *space) hashAt(b Block, i int) uint32 {
	if b.OvHashes != nil {
		return b.OvHashes[i]
	}
	return s.hashes()[i]
}

func (s *space) keyAt(b Block, i int, buf []byte) []byte {
	if b.OvKeys != nil {
		return append(buf[:0], b.OvKeys[i]...)
	}
	return s.keys().key(i, buf)
}

func (s *space) valAt(b Block, i int) int64 {
	if b.OvVals != nil {
		return b.OvVals[i]
	}
	switch b.Kind {
	case "keyless":
		if sp, _ := specByID(b.Ctor); sp.Fallback {
			return fallbackValues(b.N)[i]
		}
		return drawValues(b.N)[i]
	case "random":
		return drawValues(b.N)[i]
	}
	return manualValues(b.N)[i]
}

func (s *space) seqAt(b Block, i int) []int32 {
	if b.OvSeqs != nil {
		return b.OvSeqs[i]
	}
	if b.Kind == "rr" {
		return rrSeq(rrAlphabet(s.tier), rrSeqLen(s.tier), i)
	}
	return rrCycleSeq(s.prefixes(), i)
}

// describe renders case i of a block for messages, samples and artefacts.
func (s *space) describe(b Block, i int) map[string]interface{} {
	d := map[string]interface{}{"kind": b.Kind, "constructor": b.Ctor, "index": i}
	if b.Key != "" {
		d["key_kind"] = b.Key
	}
	if b.N != 0 {
		d["numPartitions"] = b.N
	}
	if i < 0 || i >= s.size(b) {
		return d
	}
	switch b.Kind {
	case "hash":
		d["hash"] = fmt.Sprintf("%#08x", s.hashAt(b, i))
	case "fnv":
		k := s.keyAt(b, i, nil)
		d["key_hex"] = fmt.Sprintf("%x", k)
		d["hash"] = fmt.Sprintf("%#08x", fnv1a(k))
	case "keyless", "random":
		d["scripted_value"] = s.valAt(b, i)
	case "manual":
		d["msg_partition"] = s.valAt(b, i)
	case "rr", "rrcycle":
		d["start_cursor"] = b.Start
		d["numPartitions_sequence"] = s.seqAt(b, i)
	}
	return d
}

// replayBlock = a self-contained block (explicit cases) that re-executes case i, preceded by case
// i-1 when there is one (the same-instance consistency oracle looks at the previous key).
func (s *space) replayBlock(b Block, i int) Block {
	lo := i - 1
	if lo < 0 || b.Kind != "hash" && b.Kind != "fnv" {
		lo = i
	}
	r := Block{ID: 0, Kind: b.Kind, Ctor: b.Ctor, Key: b.Key, N: b.N, Start: b.Start, From: 0, To: i - lo + 1, Fine: true}
	for j := lo; j <= i; j++ {
		switch b.Kind {
		case "hash":
			r.OvHashes = append(r.OvHashes, s.hashAt(b, j))
		case "fnv":
			r.OvKeys = append(r.OvKeys, s.keyAt(b, j, nil))
		case "keyless", "random", "manual":
			r.OvVals = append(r.OvVals, s.valAt(b, j))
		default:
			r.OvSeqs = append(r.OvSeqs, s.seqAt(b, j))
		}
	}
	return r
}

func smallKind(k string) bool { return k != "hash" && k != "fnv" }

// runBlock executes [From,To) of a block piece by piece; false = the internal deadline cut it.
func runBlock(sp *space, b Block, w *childOut) bool {
	fine := b.Fine || smallKind(b.Kind)
	chunk := coarseChunk
	if fine {
		chunk = fineChunk
	}
	r := &runner{sp: sp, b: b}
	bigVals := map[int32][]int32{}
	for a := b.From; a < b.To; {
		if w.late() {
			return false
		}
		e := a + chunk
		if e > b.To {
			e = b.To
		}
		w.progress(b.ID, a, -1)
		pc := newPiece(b.ID, a, e, bigVals)
		if r.ready == false {
			if err := r.reset(); err != nil {
				pc.Notes = append(pc.Notes, "SETUP: "+err.Error())
				pc.finalize(e == b.To)
				w.line(pc)
				a = e
				continue
			}
		}
		i := a
		for i < e && !r.late {
			i = r.runFrom(i, e, fine, pc, w)
		}
		pc.To = i // == e unless the deadline struck inside the piece
		pc.finalize(e == b.To || r.late)
		w.line(pc)
		if r.late {
			return false
		}
		a = e
	}
	return true
}

// runner holds the per-block state: the partitioner instances live across the cases of a block on
// purpose (stale state between different keys is part of what is checked).
type runner struct {
	sp    *space
	b     Block
	spec  ctorSpec
	ready bool
	late  bool // the internal deadline struck inside a piece

	i1, i2       *built
	k1, k2, kp   []byte // key buffers: instance 1, instance 2 (an equal but distinct key object), previous key
	m1, m2, mp   *sarama.ProducerMessage
	havePrev     bool
	prevH        uint32
	prevP        int32
	b1, b2, bp   keyBinding
	rrBuf        []int32
	sampled      int
	unsupStartRR bool
}

func (r *runner) reset() error {
	r.ready = false
	r.havePrev = false
	r.b1, r.b2, r.bp = keyBinding{}, keyBinding{}, keyBinding{}
	switch r.b.Kind {
	case "hash", "fnv", "keyless":
		s, ok := specByID(r.b.Ctor)
		if !ok {
			return fmt.Errorf("unknown constructor %q", r.b.Ctor)
		}
		r.spec = s
	}
	if r.b.Kind == "hash" || r.b.Kind == "fnv" {
		var err error
		if r.i1, err = build(r.spec, r.b.Kind == "hash"); err != nil {
			return err
		}
		if r.i2, err = build(r.spec, r.b.Kind == "hash"); err != nil {
			return err
		}
		r.k1, r.k2, r.kp = make([]byte, 0, 64), make([]byte, 0, 64), make([]byte, 0, 64)
		r.m1, r.m2, r.mp = &sarama.ProducerMessage{Topic: "t"}, &sarama.ProducerMessage{Topic: "t"}, &sarama.ProducerMessage{Topic: "t"}
	}
	r.ready = true
	return nil
}

func (r *runner) runFrom(i, e int, fine bool, pc *Piece, w *childOut) (next int) {
	cur := i
	defer func() {
		if x := recover(); x != nil {
			txt := fmt.Sprint(x)
			if len(txt) > 80 {
				txt = txt[:80]
			}
			pc.violate("panic/"+r.b.Kind+"/"+strings.ReplaceAll(txt, " ", "-"), func() string { return fmt.Sprintf("panic in case %v: %v", r.sp.describe(r.b, cur), x) }, cur)
			_ = r.reset()
			next = cur + 1
		}
	}()
	for ; cur < e; cur++ {
		if cur&4095 == 0 && cur > i && w.late() {
			r.late = true
			return cur
		}
		if fine {
			w.progress(r.b.ID, pc.From, cur)
		}
		pc.Evals++
		switch r.b.Kind {
		case "hash", "fnv":
			r.oneKeyed(cur, pc)
		case "keyless":
			r.oneKeyless(cur, pc)
		case "random":
			r.oneRandom(cur, pc)
		case "manual":
			r.oneManual(cur, pc)
		case "rr", "rrcycle":
			r.oneRR(cur, pc)
		}
	}
	return e
}

// requiresConsistency asks the partitioner the way topicProducer.partitionMessage does.
func requiresConsistency(p sarama.Partitioner, m *sarama.ProducerMessage) bool {
	if d, ok := p.(sarama.DynamicConsistencyPartitioner); ok {
		return d.MessageRequiresConsistency(m)
	}
	return p.RequiresConsistency()
}

// keyBinding keeps msg.Key pointing at a reused key buffer: the interface value holds a copy of the
// slice header, so it is refreshed (one allocation) only when the buffer moved or changed length.
type keyBinding struct {
	ptr *byte
	n   int
	set bool
}

func (kb *keyBinding) bind(m *sarama.ProducerMessage, k []byte) {
	if p := unsafe.SliceData(k); !kb.set || p != kb.ptr || len(k) != kb.n {
		m.Key = sarama.ByteEncoder(k)
		kb.ptr, kb.n, kb.set = p, len(k), true
	}
}

// oneKeyed: case = (constructor, hash, n, key kind) for a keyed message.
func (r *runner) oneKeyed(i int, pc *Piece) {
	b, n := r.b, r.b.N
	var h uint32
	if b.Kind == "hash" {
		h = r.sp.hashAt(b, i)
		r.i1.fake.emptyVal, r.i2.fake.emptyVal = h, h
		if b.Key == "bytes" {
			r.k1 = binary.BigEndian.AppendUint32(r.k1[:0], h)
			r.k2 = binary.BigEndian.AppendUint32(r.k2[:0], h)
		} else {
			r.k1, r.k2 = r.k1[:0], r.k2[:0]
		}
		if fakeHashOf(r.k1, h) != h { // harness self-check: the key really carries the chosen hash
			panic("harness: key does not encode the chosen hash")
		}
	} else {
		r.k1 = r.sp.keyAt(b, i, r.k1)
		r.k2 = append(r.k2[:0], r.k1...)
		h = fnv1a(r.k1)
	}
	r.b1.bind(r.m1, r.k1)
	r.b2.bind(r.m2, r.k2)
	variant := r.spec.variant()
	desc := func() string {
		return fmt.Sprintf("%s key=%x (%s) hash=%#08x numPartitions=%d", b.Ctor, r.k1, b.Key, h, n)
	}

	p1, err := r.i1.p.Partition(r.m1, n)
	pc.Calls++
	if err != nil {
		pc.violate("error-returned/"+variant+"/"+b.Key, func() string { return desc() + ": Partition returned error " + err.Error() }, i)
		return
	}
	if p1 < 0 || p1 >= n {
		pc.violate("out-of-range/"+variant+"/"+hashClass(h), func() string { return fmt.Sprintf("%s: Partition returned %d, outside [0,%d)", desc(), p1, n) }, i)
		return
	}
	pc.reach(i)
	pc.seen(n, p1)
	if r.spec.reference() {
		if want := javaPartition(h, n); p1 != want {
			pc.violate("reference-mismatch/"+hashClass(h), func() string {
				return fmt.Sprintf("%s: Partition returned %d, Java's toPositive(hash)%%n = (hash&0x7fffffff)%%n = %d", desc(), p1, want)
			}, i)
		}
	} else if p1 == docAbsMod(h, n) {
		pc.DocMatch++
	} else {
		pc.DocDiffer++
	}

	// equal key (a distinct object with equal bytes), another instance built the same way
	p2, err := r.i2.p.Partition(r.m2, n)
	pc.Calls++
	if err != nil || p2 != p1 {
		pc.violate("inconsistent/across-instances/"+variant, func() string {
			return fmt.Sprintf("%s: first instance chose %d, a second instance built the same way chose %d (err=%v) for an equal key", desc(), p1, p2, err)
		}, i)
	}
	// the previous key again, after this one, on the same instance
	if r.havePrev {
		if b.Kind == "hash" {
			r.i1.fake.emptyVal = r.prevH
		}
		pp, err := r.i1.p.Partition(r.mp, n)
		pc.Calls++
		if err != nil || pp != r.prevP {
			pc.violate("inconsistent/same-instance/"+variant, func() string {
				return fmt.Sprintf("%s: the previous key %x (hash %#08x) was mapped to %d before and to %d (err=%v) after this key, same instance", desc(), r.kp, r.prevH, r.prevP, pp, err)
			}, i)
		}
		if b.Kind == "hash" {
			r.i1.fake.emptyVal = h
		}
	}
	// and this key again
	p3, err := r.i1.p.Partition(r.m1, n)
	pc.Calls++
	if err != nil || p3 != p1 {
		pc.violate("inconsistent/same-instance/"+variant, func() string {
			return fmt.Sprintf("%s: chose %d, then %d (err=%v) for the same key on the same instance", desc(), p1, p3, err)
		}, i)
	}
	if !requiresConsistency(r.i1.p, r.m1) {
		pc.violate("consistency-flag/keyed-false", func() string { return desc() + ": the partitioner does not require consistency for a keyed message" }, i)
	}
	// all spellings of the empty key are equal keys
	if len(r.k1) == 0 && (b.Kind == "fnv" || isBoundary(h)) {
		for _, alt := range []sarama.Encoder{sarama.ByteEncoder(nil), sarama.StringEncoder("")} {
			pa, err := r.i1.p.Partition(&sarama.ProducerMessage{Topic: "t", Key: alt}, n)
			pc.Calls++
			if err != nil || pa != p1 {
				pc.violate("inconsistent/empty-key-encodings/"+variant, func() string {
					return fmt.Sprintf("%s: empty key as %T chose %d (err=%v), as ByteEncoder{} chose %d", desc(), alt, pa, err, p1)
				}, i)
			}
		}
	}
	r.kp = append(r.kp[:0], r.k1...)
	r.bp.bind(r.mp, r.kp)
	r.prevH, r.prevP, r.havePrev = h, p1, true

	if r.sampled < 1 && h >= 0x80000000 && isBoundary(h) && (n == 7 || n == maxInt32) {
		r.sampled++
		s := r.sp.describe(b, i)
		s["partition"] = p1
		s["configuration"] = sarama.VerifC17Describe(r.i1.p)
		if r.i1.swapped {
			s["hash_injected_via"] = "bridge field swap (constructor has no hash option)"
		} else if r.i1.fake != nil {
			s["hash_injected_via"] = "public API (hash function option)"
		} else {
			s["hash_injected_via"] = "none: constructor's own FNV-1a over a real key"
		}
		if r.spec.reference() {
			s["java_model"] = javaPartition(h, n)
		}
		pc.Samples = append(pc.Samples, s)
	}
}

func isBoundary(h uint32) bool {
	for _, v := range boundaryHashes {
		if v == h {
			return true
		}
	}
	return false
}

// oneKeyless: a message without key must be routed to the configured fallback.
func (r *runner) oneKeyless(i int, pc *Piece) {
	b, n := r.b, r.b.N
	v := r.sp.valAt(b, i)
	bi, err := build(r.spec, true)
	if err != nil {
		pc.Notes = append(pc.Notes, "SETUP: "+err.Error())
		return
	}
	msg := &sarama.ProducerMessage{Topic: "t", Value: sarama.StringEncoder("v")}
	desc := fmt.Sprintf("%s keyless message numPartitions=%d scripted=%d", b.Ctor, n, v)
	if r.spec.Fallback {
		bi.rec.ret = int32(v)
		p, err := bi.p.Partition(msg, n) // the pinned tree never returns from here (fatal stack overflow)
		pc.Calls++
		if err != nil {
			pc.violate("error-returned/keyless-custom-fallback", func() string { return desc + ": error " + err.Error() }, i)
			return
		}
		if p < 0 || p >= n {
			pc.violate("out-of-range/keyless-custom-fallback", func() string { return fmt.Sprintf("%s: Partition returned %d", desc, p) }, i)
			return
		}
		pc.reach(i)
		pc.seen(n, p)
		pc.FbCalls += int64(bi.rec.calls)
		switch {
		case bi.rec.calls == 0:
			pc.violate("custom-fallback-ignored/not-called", func() string {
				return fmt.Sprintf("%s: the partitioner given to WithCustomFallbackPartitioner was never asked; result %d", desc, p)
			}, i)
		case bi.rec.calls != 1 || bi.rec.msg != msg || bi.rec.n != n || p != int32(v):
			pc.violate("custom-fallback-ignored/wrong-forwarding", func() string {
				return fmt.Sprintf("%s: fallback called %d times with n=%d, answered %d, Partition returned %d", desc, bi.rec.calls, bi.rec.n, v, p)
			}, i)
		}
	} else {
		src := &scriptSource{first: v}
		scripted := sarama.VerifC17ScriptRandom(bi.p, src)
		p, err := bi.p.Partition(msg, n)
		pc.Calls++
		if err != nil {
			pc.violate("error-returned/keyless-default-fallback", func() string { return desc + ": error " + err.Error() }, i)
			return
		}
		if p < 0 || p >= n {
			pc.violate("out-of-range/keyless-default-fallback", func() string { return fmt.Sprintf("%s: Partition returned %d, outside [0,%d)", desc, p, n) }, i)
			return
		}
		pc.reach(i)
		pc.seen(n, p)
		if scripted && src.draws > 0 {
			pc.Scripted++
		} else {
			pc.Unscripted++
		}
	}
	if requiresConsistency(bi.p, msg) {
		pc.violate("consistency-flag/keyless-true", func() string { return desc + ": the partitioner requires consistency for a keyless message" }, i)
	}
	if i == b.From && n == 7 {
		s := r.sp.describe(b, i)
		s["configuration"] = sarama.VerifC17Describe(bi.p)
		s["custom_fallback_calls"] = 0
		if bi.rec != nil {
			s["custom_fallback_calls"] = bi.rec.calls
		}
		pc.Samples = append(pc.Samples, s)
	}
}

func (r *runner) oneRandom(i int, pc *Piece) {
	b, n := r.b, r.b.N
	v := r.sp.valAt(b, i)
	p := sarama.NewRandomPartitioner("t")
	src := &scriptSource{first: v}
	scripted := sarama.VerifC17ScriptRandom(p, src)
	last := int32(-1)
	for _, msg := range []*sarama.ProducerMessage{{Topic: "t"}, {Topic: "t", Key: sarama.StringEncoder("k")}} {
		src.draws = 0
		got, err := p.Partition(msg, n)
		pc.Calls++
		if err != nil {
			pc.violate("error-returned/random", func() string { return fmt.Sprintf("NewRandomPartitioner n=%d draw=%d: error %v", n, v, err) }, i)
			return
		}
		if got < 0 || got >= n {
			pc.violate("out-of-range/random", func() string {
				return fmt.Sprintf("NewRandomPartitioner n=%d first 31-bit draw=%d: Partition returned %d", n, v, got)
			}, i)
			return
		}
		pc.seen(n, got)
		last = got
		if scripted && src.draws > 0 {
			pc.Scripted++
		} else {
			pc.Unscripted++
		}
	}
	pc.reach(i)
	if i == b.From && n == 7 {
		s := r.sp.describe(b, i)
		s["partition"] = last
		pc.Samples = append(pc.Samples, s)
	}
	pc.Flags[fmt.Sprintf("random.RequiresConsistency=%v", p.RequiresConsistency())]++
}

func (r *runner) oneManual(i int, pc *Piece) {
	b, n := r.b, r.b.N
	v := int32(r.sp.valAt(b, i))
	p := sarama.NewManualPartitioner("t")
	for _, key := range []sarama.Encoder{nil, sarama.StringEncoder("k")} {
		got, err := p.Partition(&sarama.ProducerMessage{Topic: "t", Key: key, Partition: v}, n)
		pc.Calls++
		if err != nil || got != v {
			pc.violate("manual-mismatch", func() string {
				return fmt.Sprintf("NewManualPartitioner msg.Partition=%d numPartitions=%d: Partition returned %d, err=%v", v, n, got, err)
			}, i)
			return
		}
		if got >= 0 && got < n {
			pc.seen(n, got)
		}
	}
	pc.reach(i)
	if i == b.From && n == 7 {
		s := r.sp.describe(b, i)
		s["partition"] = v
		pc.Samples = append(pc.Samples, s)
	}
	pc.Flags[fmt.Sprintf("manual.RequiresConsistency=%v", p.RequiresConsistency())]++
}

// oneRR: one sequence of partition counts on one round-robin instance.
func (r *runner) oneRR(i int, pc *Piece) {
	b := r.b
	seq := r.sp.seqAt(b, i)
	p := sarama.NewRoundRobinPartitioner("t")
	if b.Start != 0 && !sarama.VerifC17SetRRCursor(p, b.Start) {
		if !r.unsupStartRR {
			r.unsupStartRR = true
			pc.Notes = append(pc.Notes, fmt.Sprintf("bridge cannot set the cursor of %T: start cursor %d skipped", p, b.Start))
		}
		return
	}
	if cap(r.rrBuf) < len(seq) {
		r.rrBuf = make([]int32, len(seq))
	}
	res := r.rrBuf[:len(seq)]
	msg := &sarama.ProducerMessage{Topic: "t"}
	runStart := 0
	for k, n := range seq {
		got, err := p.Partition(msg, n)
		pc.Calls++
		change := "first-call"
		if k > 0 {
			switch {
			case n < seq[k-1]:
				change = "after-shrink"
			case n > seq[k-1]:
				change = "after-growth"
			default:
				change = "same-count"
			}
			if n != seq[k-1] {
				runStart = k
			}
		}
		if b.Start != 0 && k == 0 {
			change = "far-cursor"
		}
		if err != nil {
			pc.violate("error-returned/roundrobin", func() string {
				return fmt.Sprintf("round-robin start=%d counts=%v call %d: error %v", b.Start, seq, k, err)
			}, i)
			return
		}
		if got < 0 || got >= n {
			pc.violate("out-of-range/roundrobin/"+change, func() string {
				return fmt.Sprintf("round-robin start cursor=%d numPartitions sequence=%v: call %d (n=%d) returned %d, outside [0,%d); results so far %v", b.Start, seq, k, n, got, n, res[:k])
			}, i)
			return
		}
		pc.seen(n, got)
		res[k] = got
		if int64(k-runStart) >= int64(n) {
			if got != res[k-int(n)] {
				pc.violate("roundrobin-not-a-cycle/period", func() string {
					return fmt.Sprintf("round-robin start=%d counts=%v: call %d returned %d but call %d (n=%d calls earlier, same count) returned %d; results %v", b.Start, seq, k, got, k-int(n), n, res[k-int(n)], res[:k+1])
				}, i)
				return
			}
		} else {
			for j := runStart; j < k; j++ {
				if res[j] == got {
					pc.violate("roundrobin-not-a-cycle/repeat-before-all-visited", func() string {
						return fmt.Sprintf("round-robin start=%d counts=%v: call %d returned %d again (as call %d) before all %d partitions were visited; results %v", b.Start, seq, k, got, j, n, res[:k+1])
					}, i)
					return
				}
			}
		}
	}
	pc.reach(i)
	if i == r.sp.size(b)*5/7 {
		s := r.sp.describe(b, i)
		s["partitions"] = append([]int32(nil), res...)
		pc.Samples = append(pc.Samples, s)
		pc.Flags[fmt.Sprintf("roundrobin.RequiresConsistency=%v", p.RequiresConsistency())]++
	}
}
