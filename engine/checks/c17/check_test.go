// Package c17 checks property C17 (partitioners keep their contract and the producer honours their
// choice). The check is a list of parts that contribute to one evidence file:
//
//	bx  bounded-exhaustive enumeration of the partitioners themselves (this file's siblings bx_*.go)
//	    - add the producer-routing (GX) half as another entry of `parts`.
package c17

import (
	"encoding/json"
	"fmt"
	"os"
	"testing"

	"verif/engine/ev"
)

var exitCode = 3 // engine error until a part said otherwise

func TestMain(m *testing.M) {
	m.Run()
	os.Exit(exitCode)
}

// part: run contributes coverage/violations to the shared ev.Check and says whether its finite space
// was enumerated completely; replay re-executes a violation artefact whose "part" field names it and
// returns the process exit code (1 still violates, 0 not, 3 engine error).
type part struct {
	name   string
	run    func(t *testing.T, c *ev.Check) (exhaustive bool)
	replay func(t *testing.T, replay json.RawMessage) int
}

var parts = []part{
	{name: "bx", run: bxPart, replay: bxReplay},
}

func TestCheck(t *testing.T) {
	if job := os.Getenv(childEnv); job != "" { // re-executed as a worker of the bx part
		exitCode = bxChildMain(job)
		return
	}
	if p := os.Getenv("VERIF_REPLAY"); p != "" {
		exitCode = replayFile(t, p)
		return
	}
	c := ev.NewCheck("C17", "exploration")
	all := true
	for _, p := range parts {
		if !p.run(t, c) {
			all = false
		}
	}
	c.Set("exhaustive", all)
	exitCode = c.Finish()
}

func replayFile(t *testing.T, path string) int {
	raw, err := os.ReadFile(path)
	if err != nil {
		fmt.Println("ENGINE-ERROR", err)
		return 3
	}
	var v struct {
		Signature string          `json:"signature"`
		Replay    json.RawMessage `json:"replay"`
	}
	var which struct {
		Part string `json:"part"`
	}
	if err := json.Unmarshal(raw, &v); err != nil {
		fmt.Println("ENGINE-ERROR", err)
		return 3
	}
	_ = json.Unmarshal(v.Replay, &which)
	if which.Part == "" {
		which.Part = "routing" // artefacts of the GX routing part carry a scenario + choice list, no part field
	}
	fmt.Printf("REPLAY %s recorded signature=%s part=%s\n", path, v.Signature, which.Part)
	for _, p := range parts {
		if p.name == which.Part {
			return p.replay(t, v.Replay)
		}
	}
	fmt.Printf("ENGINE-ERROR artefact names unknown part %q\n", which.Part)
	return 3
}
