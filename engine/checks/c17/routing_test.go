package c17

import (
	"encoding/json"
	"os"
	"testing"
	"time"

	"verif/engine/ev"
	"verif/engine/gx"
	"verif/engine/rigs/routerig"
)

// The producer-routing half: every partitioner x key pattern x every leaderless subset of a
// 3-partition topic, run through the real client + async producer in synctest bubbles (default
// schedule and all 1-deviation schedules), judged against the recorded choices of the partitioner.

func TestWorker(t *testing.T) { gx.WorkerMain(t) }

func init() {
	parts = append(parts, part{name: "routing", run: routingPart, replay: routingReplay})
}

func routingPart(t *testing.T, c *ev.Check) bool {
	e := gx.NewExplorer(c)
	defer e.Close()
	e.Accept = func(v ev.Violation) bool { return v.Property == "C17" }
	e.Deadline = time.Now().Add(ev.Deadline(20*time.Second, 3*time.Minute))
	fam := routerig.Family()
	bound := 0
	if ev.Tier() == "thorough" {
		bound = 1
	}
	done, ok := e.ExploreMany(fam, bound, 1)
	// two topics whose custom-hash partitioners can be inside their hash computation at the same time (the hasher is
	// user-supplied code and therefore a decision point): all schedules with <= 2 deviations
	e.Explore("route?pt=chash2&keys=all&lead=0&nm=4", 2)
	c.Set("routing_family_size", len(fam))
	c.Set("routing_family_done", done)
	c.Set("routing_executions", e.Execs)
	c.Set("routing_rule", "partitioner in {hash, reference hash, random, round-robin, manual, custom returning -1 / n / an error} x key pattern x every leaderless subset of 3 partitions x 4 messages through the real producer; the partitioner is wrapped to record (partitions offered, choice, consistency requirement)")
	c.Add("evaluations", e.Execs)
	c.Add("distinct_nontrivial", e.Execs)
	return ok
}

func routingReplay(t *testing.T, raw json.RawMessage) int {
	f, err := os.CreateTemp("", "c17-replay-*.json")
	if err != nil {
		return 3
	}
	defer os.Remove(f.Name())
	b, _ := json.Marshal(map[string]interface{}{"property": "C17", "replay": json.RawMessage(raw)})
	f.Write(b)
	f.Close()
	return gx.ReplayFile(t, f.Name())
}
