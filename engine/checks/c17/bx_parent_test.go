package c17

// The parent side of the bounded-exhaustive part: builds the list of blocks, runs them in child
// processes (a pool of workers), attributes dead children to the case named in their progress
// file, resumes after the dead case, merges the pieces and writes the evidence.

import (
	"bufio"
	"bytes"
	"context"
	"encoding/json"
	"fmt"
	"math/bits"
	"os"
	"os/exec"
	"path/filepath"
	"runtime"
	"sort"
	"strconv"
	"strings"
	"sync"
	"testing"
	"time"

	"verif/engine/ev"
)

const (
	childMaxStack = 16 << 20 // a keyless recursion dies in ~70 ms; no legitimate call chain here is deeper than a few frames
	jobCostCap    = 6_000_000
	maxDeathsJob  = 600
)

// allBlocks enumerates the whole space of the tier, one block per (family, constructor, key kind, n).
func allBlocks(sp *space) []Block {
	var out []Block
	add := func(b Block) {
		b.ID = len(out)
		b.From, b.To = 0, sp.size(b)
		out = append(out, b)
	}
	for _, s := range hashCtors() {
		for _, k := range []string{"empty", "bytes"} {
			for _, n := range partitionCounts {
				add(Block{Kind: "hash", Ctor: s.ID, Key: k, N: n})
			}
		}
	}
	for _, s := range hashCtors() {
		if s.injectable() {
			continue
		}
		for _, n := range partitionCounts {
			add(Block{Kind: "fnv", Ctor: s.ID, Key: "fnv-bytes", N: n})
		}
	}
	for _, s := range hashCtors() {
		for _, n := range partitionCounts {
			add(Block{Kind: "keyless", Ctor: s.ID, Key: "nil", N: n})
		}
	}
	for _, n := range partitionCounts {
		add(Block{Kind: "random", Ctor: "NewRandomPartitioner", N: n})
	}
	for _, n := range partitionCounts {
		add(Block{Kind: "manual", Ctor: "NewManualPartitioner", N: n})
	}
	for _, st := range rrStarts {
		add(Block{Kind: "rr", Ctor: "NewRoundRobinPartitioner", Start: st})
	}
	add(Block{Kind: "rrcycle", Ctor: "NewRoundRobinPartitioner"})
	return out
}

// groupJobs: consecutive blocks of the same family/constructor/key kind share a child, up to a cost cap.
func groupJobs(blocks []Block) [][]Block {
	var jobs [][]Block
	var cur []Block
	cost := 0
	flush := func() {
		if len(cur) > 0 {
			jobs = append(jobs, cur)
		}
		cur, cost = nil, 0
	}
	for _, b := range blocks {
		c := b.To - b.From
		// keyless blocks get a child each: on a tree where they are fatal every case costs a process,
		// and the deaths of one child are sequential
		if len(cur) > 0 && (cur[0].group() != b.group() || cost+c > jobCostCap || b.Kind == "keyless") {
			flush()
		}
		cur = append(cur, b)
		cost += c
	}
	flush()
	jobCost := func(j []Block) (c int) {
		for _, b := range j {
			c += b.To - b.From
		}
		return
	}
	sort.SliceStable(jobs, func(i, j int) bool { return jobCost(jobs[i]) > jobCost(jobs[j]) })
	if r := seedRot(len(jobs)); r > 0 { // VERIF_SEED rotates the visiting order only
		jobs = append(append([][]Block(nil), jobs[r:]...), jobs[:r]...)
	}
	return jobs
}

type death struct {
	Block  Block
	Case   int
	Reason string
	Stderr string
}

type jobResult struct {
	pieces  []Piece
	deaths  []death
	cut     bool
	errs    []string
	spawned int
}

type cappedBuf struct {
	b   bytes.Buffer
	max int
}

func (c *cappedBuf) Write(p []byte) (int, error) {
	if room := c.max - c.b.Len(); room > 0 {
		if len(p) > room {
			c.b.Write(p[:room])
		} else {
			c.b.Write(p)
		}
	}
	return len(p), nil
}

func classifyDeath(stderr string, runErr error, timedOut bool) string {
	switch {
	case timedOut:
		return "hang"
	case strings.Contains(stderr, "stack overflow") || strings.Contains(stderr, "goroutine stack exceeds"):
		return "stack-overflow"
	case strings.Contains(stderr, "out of memory") || strings.Contains(stderr, "cannot allocate memory"):
		return "out-of-memory"
	case strings.Contains(stderr, "fatal error:"):
		return "fatal-error"
	case strings.Contains(stderr, "panic:"):
		return "panic"
	}
	if runErr != nil {
		return "killed"
	}
	return "exit-without-end-marker"
}

// runJob executes the blocks in child processes until every case ran or died.
func runJob(dir string, idx int, tier string, blocks []Block, deadline time.Time) jobResult {
	var res jobResult
	remaining := append([]Block(nil), blocks...)
	base := filepath.Join(dir, fmt.Sprintf("job%04d", idx))
	for len(remaining) > 0 {
		if !deadline.IsZero() && time.Now().After(deadline) {
			res.cut = true
			return res
		}
		job := Job{Tier: tier, Blocks: remaining, Progress: base + ".progress", Result: base + ".result", MaxStack: childMaxStack}
		if !deadline.IsZero() {
			job.DeadlineNano = deadline.UnixNano()
		}
		jb, _ := json.Marshal(job)
		_ = os.Remove(job.Progress)
		_ = os.Remove(job.Result)
		if err := os.WriteFile(base+".job", jb, 0o644); err != nil {
			res.errs = append(res.errs, err.Error())
			return res
		}
		wd := 10 * time.Minute // watchdog against hangs only; far above any block's run time
		if !deadline.IsZero() {
			wd = time.Until(deadline) + 2*time.Minute
		}
		ctx, cancel := context.WithTimeout(context.Background(), wd)
		cmd := exec.CommandContext(ctx, os.Args[0], "-test.run", "^TestCheck$", "-test.timeout", "0")
		cmd.Env = childEnviron(base + ".job")
		stderr := &cappedBuf{max: 6000}
		cmd.Stderr = stderr
		cmd.Stdout = nil
		runErr := cmd.Run()
		timedOut := ctx.Err() != nil
		cancel()
		res.spawned++

		pieces, ended, cut, perr := readPieces(job.Result)
		if perr != nil {
			res.errs = append(res.errs, perr.Error())
		}
		res.pieces = append(res.pieces, pieces...)
		if ended {
			if cut {
				res.cut = true
			}
			if runErr != nil {
				res.errs = append(res.errs, fmt.Sprintf("child of job %d wrote its end marker but exited with %v", idx, runErr))
			}
			return res
		}
		// the child died: which case?
		pb, err := os.ReadFile(job.Progress)
		var bid, from, cur int
		if err != nil {
			res.errs = append(res.errs, fmt.Sprintf("child of job %d died (%v) before writing progress; stderr: %s", idx, runErr, firstLines(stderr.b.String(), 6)))
			return res
		}
		if _, err := fmt.Sscan(string(pb), &bid, &from, &cur); err != nil {
			res.errs = append(res.errs, fmt.Sprintf("child of job %d died (%v), unreadable progress %q; stderr: %s", idx, runErr, string(pb), firstLines(stderr.b.String(), 6)))
			return res
		}
		at := -1
		for i, b := range remaining {
			if b.ID == bid && b.From <= from && from < b.To {
				at = i
				break
			}
		}
		if at < 0 {
			res.errs = append(res.errs, fmt.Sprintf("child of job %d died in block %d@%d which it was not given", idx, bid, from))
			return res
		}
		db := remaining[at]
		var next []Block
		if cur < 0 {
			// coarse piece: repeat it with per-case progress to find the case
			fineTo := from + coarseChunk
			if fineTo > db.To {
				fineTo = db.To
			}
			f := db
			f.From, f.To, f.Fine = from, fineTo, true
			next = append(next, f)
			if fineTo < db.To {
				r := db
				r.From, r.Fine = fineTo, false
				next = append(next, r)
			}
		} else {
			res.deaths = append(res.deaths, death{Block: db, Case: cur, Reason: classifyDeath(stderr.b.String(), runErr, timedOut), Stderr: stderr.b.String()})
			if from < cur { // cases of the current piece before the fatal one were not flushed: run them again
				r := db
				r.From, r.To = from, cur
				next = append(next, r)
			}
			if cur+1 < db.To {
				r := db
				r.From = cur + 1
				next = append(next, r)
			}
		}
		remaining = append(next, remaining[at+1:]...)
		if len(res.deaths) > maxDeathsJob {
			res.errs = append(res.errs, fmt.Sprintf("job %d: more than %d dead children, giving up on the rest of the job", idx, maxDeathsJob))
			return res
		}
	}
	return res
}

func childEnviron(jobFile string) []string {
	var env []string
	for _, e := range os.Environ() {
		if strings.HasPrefix(e, "VERIF_REPLAY=") || strings.HasPrefix(e, childEnv+"=") {
			continue
		}
		env = append(env, e)
	}
	return append(env, childEnv+"="+jobFile, "GOTRACEBACK=single")
}

func readPieces(path string) (pieces []Piece, ended, cut bool, err error) {
	f, e := os.Open(path)
	if e != nil {
		return nil, false, false, nil // died before the first piece
	}
	defer f.Close()
	sc := bufio.NewScanner(f)
	sc.Buffer(make([]byte, 1<<20), 64<<20)
	for sc.Scan() {
		var p Piece
		if e := json.Unmarshal(sc.Bytes(), &p); e != nil {
			continue // a torn last line of a dead child
		}
		switch {
		case p.End:
			ended = true
		case p.Cut:
			cut = true
		default:
			pieces = append(pieces, p)
		}
	}
	return pieces, ended, cut, sc.Err()
}

// deathSummary renders a dead child's stderr without addresses (so that artefacts are stable): the
// fatal lines and the most frequent frame of the traceback (the recursing function).
func deathSummary(stderr string) string {
	var fatal []string
	count := map[string]int{}
	lines := strings.Split(stderr, "\n")
	for i, l := range lines {
		switch {
		case strings.HasPrefix(l, "fatal error:") || strings.HasPrefix(l, "panic:") || strings.Contains(l, "goroutine stack exceeds"):
			fatal = append(fatal, strings.TrimSpace(l))
		case strings.HasPrefix(l, "\t") && i > 0 && strings.Contains(l, ".go:"):
			fn := lines[i-1]
			if k := strings.LastIndex(fn, "("); k > 0 {
				fn = fn[:k]
			}
			loc := strings.Fields(l)[0]
			count[fn+" at "+filepath.Base(loc)]++
		}
	}
	best, bn := "", 0
	for k, n := range count {
		if n > bn || n == bn && k < best {
			best, bn = k, n
		}
	}
	out := strings.Join(fatal, "; ")
	if bn > 3 {
		out += "; frame repeated in the captured traceback: " + best
	}
	if out == "" {
		out = "(no fatal message on stderr)"
	}
	return out
}

func firstLines(s string, n int) string {
	l := strings.Split(strings.TrimSpace(s), "\n")
	if len(l) > n {
		l = l[:n]
	}
	return strings.Join(l, " | ")
}

// deathSignature classifies a dead child. The known defect of the pinned tree (the custom fallback
// option stores the partitioner itself, a keyless message then recurses until the stack limit) has
// its own signature; every other death gets one that names reason, family and constructor class.
func deathSignature(d death) string {
	s, _ := specByID(d.Block.Ctor)
	if d.Block.Kind == "keyless" && s.Fallback && d.Reason == "stack-overflow" {
		return "custom-fallback-ignored/keyless-stack-overflow"
	}
	class := d.Block.Ctor
	if s.ID != "" {
		class = s.variant()
		if s.Fallback {
			class += "+fallback"
		}
	}
	return "process-death/" + d.Reason + "/" + d.Block.Kind + "/" + class
}

type ctorAgg struct {
	Cases    int64 `json:"cases"`
	Reached  int64 `json:"reached_oracle"`
	Calls    int64 `json:"partition_calls"`
	Died     int   `json:"cases_that_killed_the_child"`
	masks    map[string]uint32
	big      map[string]int
	Distinct map[string]int `json:"distinct_partitions_by_numPartitions"`
}

func addRule(c *ev.Check, s string) {
	if old, ok := c.Coverage["rule"].(string); ok && old != "" {
		c.Set("rule", old+" || "+s)
		return
	}
	c.Set("rule", s)
}

// bxPart is the bounded-exhaustive half of C17.
func bxPart(t *testing.T, c *ev.Check) bool {
	tier := ev.Tier()
	sp := newSpace(tier)
	start := time.Now()
	deadline := start.Add(ev.Deadline(30*time.Second, 4*time.Minute))
	dir := filepath.Join(ev.Root(), ".build", "c17", fmt.Sprintf("run-%d", os.Getpid()))
	if err := os.MkdirAll(dir, 0o755); err != nil {
		c.EngineError("bx: " + err.Error())
		return false
	}
	defer os.RemoveAll(dir)

	blocks := allBlocks(sp)
	jobs := groupJobs(blocks)
	workers := runtime.NumCPU() - 2
	if workers < 2 {
		workers = 2
	}
	results := make([]jobResult, len(jobs))
	var wg sync.WaitGroup
	ch := make(chan int)
	for w := 0; w < workers; w++ {
		wg.Add(1)
		go func() {
			defer wg.Done()
			for i := range ch {
				results[i] = runJob(dir, i, tier, jobs[i], deadline)
			}
		}()
	}
	for i := range jobs {
		ch <- i
	}
	close(ch)
	wg.Wait()

	// ---- merge
	type blockAgg struct {
		done   int
		deaths int
	}
	perBlock := make([]blockAgg, len(blocks))
	ctors := map[string]*ctorAgg{}
	fams := map[string]map[string]int64{}
	getC := func(id string) *ctorAgg {
		a := ctors[id]
		if a == nil {
			a = &ctorAgg{masks: map[string]uint32{}, big: map[string]int{}}
			ctors[id] = a
		}
		return a
	}
	getF := func(k string) map[string]int64 {
		if fams[k] == nil {
			fams[k] = map[string]int64{}
		}
		return fams[k]
	}
	var evals, reached, calls, docMatch, docDiffer, scripted, unscripted, fbCalls int64
	flags := map[string]int64{}
	violCounts := map[string]int64{}
	samples := map[string]map[string]interface{}{}
	spawned, died := 0, 0
	cutJobs := 0
	exhaustive := true
	for _, b := range blocks {
		getF(b.Kind)["blocks"]++
	}
	for ji, r := range results {
		spawned += r.spawned
		for _, e := range r.errs {
			c.EngineError("bx: " + e)
			exhaustive = false
		}
		if r.cut {
			cutJobs++
			exhaustive = false
		}
		for _, p := range r.pieces {
			if p.Block < 0 || p.Block >= len(blocks) {
				c.EngineError(fmt.Sprintf("bx: job %d returned a piece of unknown block %d", ji, p.Block))
				continue
			}
			b := blocks[p.Block]
			perBlock[p.Block].done += p.To - p.From
			a := getC(b.Ctor)
			a.Cases += p.Evals
			a.Reached += p.Reached
			a.Calls += p.Calls
			for n, m := range p.Masks {
				a.masks[n] |= m
			}
			for n, d := range p.Big {
				if d > a.big[n] {
					a.big[n] = d
				}
			}
			f := getF(b.Kind)
			f["cases"] += p.Evals
			f["reached_oracle"] += p.Reached
			evals += p.Evals
			reached += p.Reached
			calls += p.Calls
			docMatch += p.DocMatch
			docDiffer += p.DocDiffer
			scripted += p.Scripted
			unscripted += p.Unscripted
			fbCalls += p.FbCalls
			for k, v := range p.Flags {
				flags[k] += v
			}
			for _, n := range p.Notes {
				if strings.HasPrefix(n, "SETUP:") {
					c.EngineError("bx: " + b.Ctor + ": " + n)
				} else {
					fmt.Println("NOTE C17 bx:", n)
				}
			}
			for k, v := range p.ViolCounts {
				violCounts[k] += v
			}
			for _, v := range p.Viol {
				c.Report(ev.Violation{
					Signature: v.Sig,
					Message:   v.Msg,
					Check:     "bx/" + b.Kind,
					Replay:    map[string]interface{}{"part": "bx", "tier": tier, "block": sp.replayBlock(b, v.Case), "case": sp.describe(b, v.Case)},
				})
			}
			for _, s := range p.Samples {
				key := b.Kind
				if sp, ok := specByID(b.Ctor); ok { // one sample per family and variant
					key += "|" + sp.variant()
					if b.Kind == "keyless" {
						key = "keyless|default-fallback"
						if sp.Fallback {
							key = "keyless|custom-fallback"
						}
					}
				}
				if samples[key] == nil {
					s["outcome"] = "returned; judged by the oracles of its family"
					samples[key] = s
				}
			}
		}
		for _, d := range r.deaths {
			died++
			evals++ // the fatal case was started (its piece was lost with the child)
			perBlock[d.Block.ID].done++
			perBlock[d.Block.ID].deaths++
			getC(d.Block.Ctor).Died++
			getC(d.Block.Ctor).Cases++
			getF(d.Block.Kind)["cases"]++
			getF(d.Block.Kind)["killed_the_child"]++
			sig := deathSignature(d)
			violCounts[sig]++
			desc := sp.describe(blocks[d.Block.ID], d.Case)
			dj, _ := json.Marshal(desc)
			if d.Block.Kind == "keyless" && samples["keyless|custom-fallback"] == nil {
				sm := sp.describe(blocks[d.Block.ID], d.Case)
				sm["outcome"] = "the child process died inside Partition(): " + deathSummary(d.Stderr)
				samples["keyless|custom-fallback"] = sm
			}
			c.Report(ev.Violation{
				Signature: sig,
				Message:   fmt.Sprintf("the process executing case %s died (%s) inside Partition(): %s", dj, d.Reason, deathSummary(d.Stderr)),
				Check:     "bx/" + d.Block.Kind,
				Replay:    map[string]interface{}{"part": "bx", "tier": tier, "block": sp.replayBlock(blocks[d.Block.ID], d.Case), "case": desc},
			})
		}
	}
	// self-check of the bookkeeping: every case of every block ran or died, unless a deadline cut the run
	var incomplete []string
	for i, b := range blocks {
		if perBlock[i].done != b.To-b.From {
			incomplete = append(incomplete, fmt.Sprintf("%s %s n=%d start=%d: %d of %d", b.Kind, b.Ctor, b.N, b.Start, perBlock[i].done, b.To-b.From))
		}
	}
	if len(incomplete) > 0 {
		exhaustive = false
		if cutJobs == 0 {
			c.EngineError(fmt.Sprintf("bx: %d blocks incomplete although no deadline cut the run, e.g. %s", len(incomplete), incomplete[0]))
		}
		if len(incomplete) > 12 {
			incomplete = append(incomplete[:12], fmt.Sprintf("... and %d more", len(incomplete)-12))
		}
		c.Set("bx_cut_by_internal_deadline", incomplete)
	}

	// ---- evidence
	outcomes := map[string]uint32{}
	distinctOutcomes := 0
	for _, a := range ctors {
		a.Distinct = map[string]int{}
		for n, m := range a.masks {
			a.Distinct[n] = bits.OnesCount32(m)
			outcomes[n] |= m
		}
		for n, d := range a.big {
			a.Distinct[n] = d
		}
	}
	bigMax := 0
	for _, a := range ctors {
		for _, d := range a.big {
			if d > bigMax {
				bigMax = d
			}
		}
	}
	for _, m := range outcomes {
		distinctOutcomes += bits.OnesCount32(m)
	}
	distinctOutcomes += bigMax
	c.Add("evaluations", int(evals))
	c.Add("distinct_nontrivial", int(reached))
	addRule(c, "BX: cases are enumerated as a product, never sampled: {hash partitioner constructors and every option subset} x {keyed: empty key, 4-byte key} x numPartitions {1..17, 2^31-1} x every hash value of the tier's list (boundary values, all x*2^16+x, thorough: all multiples of 4099), the hash injected through a fake hash.Hash32 that is a pure function of the key; the constructors without a hash option additionally with their own FNV-1a over every real key of length 0..2 (thorough 0..3) plus a 5-byte FNV preimage of each boundary hash; keyless messages x scripted generator draw / scripted answer of a recording custom fallback; random x scripted draws; manual x msg.Partition boundary values; round-robin x every sequence of partition counts of the tier's length over the alphabet x start cursors, plus prefix+constant-run cycle cases. Lists are de-duplicated, so cases are distinct by construction; distinct_nontrivial is MEASURED as the number of set bits in per-block bitmaps indexed by case number, a bit being set when the case got a non-error result that was judged by the range oracle (manual: the equality oracle; round-robin: every call of the sequence judged). Cases that killed their child never set their bit.")
	for _, k := range []string{"hash|reference", "fnv|nonreference", "keyless|default-fallback", "keyless|custom-fallback", "random", "manual", "rr", "rrcycle", "hash|nonreference", "fnv|reference"} {
		if s := samples[k]; s != nil { // ev keeps the first 8
			c.AddSample(s)
		}
	}
	hashVals := len(sp.hashes())
	c.Set("bx", map[string]interface{}{
		"tier":                                    tier,
		"hash_values":                             hashVals,
		"fnv_real_keys":                           sp.keys().count(),
		"partition_counts":                        partitionCounts,
		"blocks":                                  len(blocks),
		"families":                                fams,
		"constructors":                            ctors,
		"partition_calls":                         calls,
		"child_processes_spawned":                 spawned,
		"child_processes_died":                    died,
		"violations_by_signature":                 violCounts,
		"distinct_outcomes_observed":              distinctOutcomes,
		"distinct_outcomes_rule":                  "number of distinct (numPartitions, partition) pairs returned, n<=17 exactly; for n=2^31-1 the largest count of distinct partitions any one block returned (counted over the first " + strconv.Itoa(bigCap) + " results of a block)",
		"nonreference_equals_abs_mod":             docMatch,
		"nonreference_differs_abs_mod":            docDiffer,
		"random_draws_scripted":                   scripted,
		"random_draws_unscripted":                 unscripted,
		"custom_fallback_calls_seen":              fbCalls,
		"consistency_answers_observed_not_judged": flags,
		"round_robin":                             map[string]interface{}{"alphabet": rrAlphabet(tier), "sequence_length": rrSeqLen(tier), "start_cursors": rrStarts, "cycle_prefixes": len(sp.prefixes())},
		"wall_s":                                  time.Since(start).Seconds(),
	})
	c.Assumptions = append(c.Assumptions,
		"BX: 'all keys' is reduced to 'all 32-bit hash values of the list' through a fake hash.Hash32 whose Sum32 is a pure function of the bytes written since Reset; for constructors without a hash option the fake is put in place by a bridge function (field assignment) and, independently, the constructor's own FNV-1a is driven with real keys against the harness's own FNV-1a",
		"BX: the random partitioner's generator is replaced by a scripted math/rand Source through the bridge so that keyless cases are deterministic; math/rand itself is trusted",
		"BX: round-robin start cursors other than 0 are set through the bridge; every such value is reachable by calls with numPartitions = 2^31-1",
		"BX: the argument of WithCustomFallbackPartitioner has an unexported type; the harness obtains one from a bridge constructor whose own keyless fallback is a recording fake",
		"BX: key encoders that fail, numPartitions <= 0 and concurrent use of one partitioner are outside the enumerated space",
	)
	fmt.Printf("C17 bx: tier=%s blocks=%d cases=%d reached-oracle=%d calls=%d children=%d died=%d distinct-outcomes=%d wall=%.1fs exhaustive=%v\n",
		tier, len(blocks), evals, reached, calls, spawned, died, distinctOutcomes, time.Since(start).Seconds(), exhaustive)
	var names []string
	for k := range ctors {
		names = append(names, k)
	}
	sort.Strings(names)
	for _, k := range names {
		a := ctors[k]
		fmt.Printf("  %-75s cases=%-10d reached=%-10d died=%d\n", k, a.Cases, a.Reached, a.Died)
	}
	return exhaustive
}

// bxReplay re-executes the case of a violation artefact in a child and says what happens.
func bxReplay(t *testing.T, raw json.RawMessage) int {
	var a struct {
		Tier  string                 `json:"tier"`
		Block Block                  `json:"block"`
		Case  map[string]interface{} `json:"case"`
	}
	if err := json.Unmarshal(raw, &a); err != nil {
		fmt.Println("ENGINE-ERROR cannot read replay artefact:", err)
		return 3
	}
	dir := filepath.Join(ev.Root(), ".build", "c17", fmt.Sprintf("replay-%d", os.Getpid()))
	if err := os.MkdirAll(dir, 0o755); err != nil {
		fmt.Println("ENGINE-ERROR", err)
		return 3
	}
	defer os.RemoveAll(dir)
	cj, _ := json.Marshal(a.Case)
	fmt.Printf("REPLAY C17 bx case %s\n", cj)
	r := runJob(dir, 0, a.Tier, []Block{a.Block}, time.Time{})
	for _, e := range r.errs {
		fmt.Println("ENGINE-ERROR", e)
	}
	if len(r.errs) > 0 {
		return 3
	}
	bad := 0
	for _, d := range r.deaths {
		bad++
		fmt.Printf("REPLAY: the child died (%s) in case %d of the replay block: signature=%s\n  %s\n", d.Reason, d.Case, deathSignature(d), deathSummary(d.Stderr))
	}
	for _, p := range r.pieces {
		for _, v := range p.Viol {
			bad++
			fmt.Printf("REPLAY: violation signature=%s\n  %s\n", v.Sig, v.Msg)
		}
		fmt.Printf("REPLAY: piece [%d,%d): cases=%d reached-oracle=%d partition-calls=%d\n", p.From, p.To, p.Evals, p.Reached, p.Calls)
	}
	if bad > 0 {
		fmt.Printf("REPLAY RESULT property=C17 still violates (%d)\n", bad)
		return 1
	}
	fmt.Println("REPLAY RESULT property=C17 no violation")
	return 0
}
