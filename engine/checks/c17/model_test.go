package c17

// Reference model, fakes and the case enumeration shared by the parent (which names cases and
// attributes dead children) and the children (which execute them).

import (
	"encoding/binary"
	"fmt"
	"hash"
	"os"
	"sort"
	"strconv"
	"strings"

	"github.com/Shopify/sarama"
)

// ---------------------------------------------------------------------------------------------
// reference model (independent of /repo/partitioner.go)

const (
	fnvOffset32 = 2166136261
	fnvPrime32  = 16777619
	maxInt32    = int32(0x7fffffff)
)

func fnvStep(h uint32, b byte) uint32 { return (h ^ uint32(b)) * fnvPrime32 }

// fnv1a is the harness's own FNV-1a (32 bit).
func fnv1a(b []byte) uint32 {
	h := uint32(fnvOffset32)
	for _, c := range b {
		h = fnvStep(h, c)
	}
	return h
}

// javaPartition is org.apache.kafka.common.utils.Utils.toPositive(hash) % numPartitions.
func javaPartition(h uint32, n int32) int32 { return int32(h&0x7fffffff) % n }

// docAbsMod is the behaviour the non-reference variant has had historically (|int32(h) % n|); it is
// NOT an oracle (the property only demands range and consistency there), only a recorded statistic.
func docAbsMod(h uint32, n int32) int32 {
	r := int32(h) % n
	if r < 0 {
		r = -r
	}
	return r
}

func hashClass(h uint32) string {
	switch {
	case h == 0x80000000:
		return "hash-minint32"
	case h&0x80000000 != 0:
		return "hash-negative"
	}
	return "hash-nonnegative"
}

// ---------------------------------------------------------------------------------------------
// fakes

// fakeHash is the injected hash.Hash32. Its value is a pure function of the bytes written since
// the last Reset, chosen so that the harness controls the 32-bit hash through the key:
// nothing written -> emptyVal; exactly 4 bytes -> those bytes big-endian; anything else -> FNV-1a
// of the bytes (so a stale, un-Reset buffer shows up as a different hash).
type fakeHash struct {
	n        int     // bytes written since Reset
	first    [4]byte // the first four of them
	run      uint32  // FNV-1a of all of them (streaming: constant memory even if Reset is never called)
	emptyVal uint32
}

func (f *fakeHash) Write(p []byte) (int, error) {
	if f.n == 0 {
		f.run = fnvOffset32
	}
	for _, c := range p {
		if f.n < 4 {
			f.first[f.n] = c
		}
		f.run = fnvStep(f.run, c)
		f.n++
	}
	return len(p), nil
}
func (f *fakeHash) Reset()         { f.n = 0 }
func (f *fakeHash) Size() int      { return 4 }
func (f *fakeHash) BlockSize() int { return 1 }
func (f *fakeHash) Sum(b []byte) []byte {
	v := f.Sum32()
	return append(b, byte(v>>24), byte(v>>16), byte(v>>8), byte(v))
}
func (f *fakeHash) Sum32() uint32 {
	switch f.n {
	case 0:
		return f.emptyVal
	case 4:
		return binary.BigEndian.Uint32(f.first[:])
	}
	return f.run
}

// fakeHashOf is the same function written on a whole key (the model's view).
func fakeHashOf(key []byte, emptyVal uint32) uint32 {
	switch len(key) {
	case 0:
		return emptyVal
	case 4:
		return binary.BigEndian.Uint32(key)
	}
	return fnv1a(key)
}

var _ hash.Hash32 = (*fakeHash)(nil)

// recFallback is the recording fake at the end of a custom fallback chain: it returns the scripted
// value and remembers who called it.
type recFallback struct {
	ret   int32
	calls int
	msg   *sarama.ProducerMessage
	n     int32
}

func (r *recFallback) Partition(m *sarama.ProducerMessage, n int32) (int32, error) {
	r.calls++
	r.msg, r.n = m, n
	return r.ret, nil
}
func (r *recFallback) RequiresConsistency() bool { return false }

// scriptSource is a math/rand Source whose first draw is chosen by the harness (as the 31-bit value
// Int31 will see); further draws count up from 0 so that math/rand's rejection loop terminates.
type scriptSource struct {
	first int64
	draws int
}

func (s *scriptSource) Int63() int64 {
	s.draws++
	if s.draws == 1 {
		return s.first << 32
	}
	return int64(s.draws-2) << 32
}
func (s *scriptSource) Seed(int64) {}

// ---------------------------------------------------------------------------------------------
// constructors

type ctorSpec struct {
	ID                  string
	Base                string // hash | refhash | customhash | custom
	Abs, Hash, Fallback bool   // options given to NewCustomPartitioner
}

func (s ctorSpec) reference() bool { return s.Base == "refhash" || (s.Base == "custom" && s.Abs) }

// injectable: the public API itself accepts the fake hash function.
func (s ctorSpec) injectable() bool { return s.Base == "customhash" || (s.Base == "custom" && s.Hash) }

func (s ctorSpec) variant() string {
	if s.reference() {
		return "reference"
	}
	return "nonreference"
}

func hashCtors() []ctorSpec {
	out := []ctorSpec{
		{ID: "NewHashPartitioner", Base: "hash"},
		{ID: "NewReferenceHashPartitioner", Base: "refhash"},
		{ID: "NewCustomHashPartitioner(fn)", Base: "customhash"},
	}
	for m := 0; m < 8; m++ {
		s := ctorSpec{Base: "custom", Abs: m&1 != 0, Hash: m&2 != 0, Fallback: m&4 != 0}
		var o []string
		if s.Abs {
			o = append(o, "WithAbsFirst")
		}
		if s.Hash {
			o = append(o, "WithCustomHashFunction")
		}
		if s.Fallback {
			o = append(o, "WithCustomFallbackPartitioner")
		}
		s.ID = "NewCustomPartitioner(" + strings.Join(o, ",") + ")"
		out = append(out, s)
	}
	return out
}

func specByID(id string) (ctorSpec, bool) {
	for _, s := range hashCtors() {
		if s.ID == id {
			return s, true
		}
	}
	return ctorSpec{}, false
}

// built is one partitioner instance made by a real constructor plus the harness's handles on the
// fakes that were injected.
type built struct {
	p       sarama.Partitioner
	fake    *fakeHash    // nil: the constructor's own FNV-1a hasher is in place
	rec     *recFallback // non-nil iff the spec has the custom-fallback option
	swapped bool         // the fake went in through the bridge (constructor has no hash option)
}

// build calls the real constructor. inject=true puts the fake hash in (through the public option
// where there is one, else through the bridge); inject=false leaves the constructor's hasher.
func build(s ctorSpec, inject bool) (*built, error) {
	b := &built{}
	factory := func() hash.Hash32 { b.fake = &fakeHash{}; return b.fake }
	switch s.Base {
	case "hash":
		b.p = sarama.NewHashPartitioner("t")
	case "refhash":
		b.p = sarama.NewReferenceHashPartitioner("t")
	case "customhash":
		b.p = sarama.NewCustomHashPartitioner(factory)("t")
	case "custom":
		var opts []sarama.HashPartitionerOption
		if s.Abs {
			opts = append(opts, sarama.WithAbsFirst())
		}
		if s.Hash {
			opts = append(opts, sarama.WithCustomHashFunction(factory))
		}
		if s.Fallback {
			b.rec = &recFallback{}
			opts = append(opts, sarama.WithCustomFallbackPartitioner(sarama.VerifC17NewFallback(b.rec)))
		}
		b.p = sarama.NewCustomPartitioner(opts...)("t")
	default:
		return nil, fmt.Errorf("unknown constructor base %q", s.Base)
	}
	if s.injectable() && b.fake == nil {
		return nil, fmt.Errorf("%s: the hash function factory was not called by the constructor", s.ID)
	}
	if inject && b.fake == nil {
		f := &fakeHash{}
		if !sarama.VerifC17SwapHasher(b.p, f) {
			return nil, fmt.Errorf("%s: bridge cannot swap the hasher of %T", s.ID, b.p)
		}
		b.fake, b.swapped = f, true
	}
	if !inject && b.fake != nil {
		return nil, fmt.Errorf("%s: fnv family asked for a constructor that takes a hash function", s.ID)
	}
	return b, nil
}

// ---------------------------------------------------------------------------------------------
// enumeration: every case has a stable index inside its block

var partitionCounts = func() []int32 {
	var l []int32
	for n := int32(1); n <= 17; n++ {
		l = append(l, n)
	}
	return append(l, maxInt32)
}()

var boundaryHashes = []uint32{0, 1, 2, 0x7fffffff, 0x80000000, 0x80000001, 0xffffffff}

func seedRot(n int) int {
	if n == 0 {
		return 0
	}
	s, _ := strconv.Atoi(os.Getenv("VERIF_SEED"))
	if s < 0 {
		s = -s
	}
	return (s * 7919) % n
}

// hashList: boundary values, all x*2^16+x, and (thorough) all multiples of 4099 below 2^32; sorted,
// de-duplicated, then rotated by VERIF_SEED (order only).
func hashList(tier string) []uint32 {
	l := append([]uint32(nil), boundaryHashes...)
	for x := uint32(0); x < 1<<16; x++ {
		l = append(l, x<<16|x)
	}
	if tier == "thorough" {
		for k := uint64(0); k*4099 < 1<<32; k++ {
			l = append(l, uint32(k*4099))
		}
	}
	sort.Slice(l, func(i, j int) bool { return l[i] < l[j] })
	out := l[:0]
	for i, v := range l {
		if i == 0 || v != l[i-1] {
			out = append(out, v)
		}
	}
	r := seedRot(len(out))
	return append(append([]uint32(nil), out[r:]...), out[:r]...)
}

// fnvPreimages finds, by meeting in the middle, a 5-byte key whose FNV-1a hash is each boundary value
// (the constructors without a hash option can only be driven through real keys).
func fnvPreimages() [][]byte {
	inv := uint32(1) // inverse of the FNV prime modulo 2^32 (Newton iteration)
	for i := 0; i < 6; i++ {
		inv *= 2 - fnvPrime32*inv
	}
	back := func(h uint32, b byte) uint32 { return (h * inv) ^ uint32(b) }
	out := make([][]byte, len(boundaryHashes))
	for ti, target := range boundaryHashes {
		tail := make(map[uint32][2]byte, 1<<16)
		for b5 := 0; b5 < 256; b5++ {
			h4 := back(target, byte(b5))
			for b4 := 0; b4 < 256; b4++ {
				tail[back(h4, byte(b4))] = [2]byte{byte(b4), byte(b5)}
			}
		}
	search:
		for a := 0; a < 256; a++ {
			h1 := fnvStep(fnvOffset32, byte(a))
			for b := 0; b < 256; b++ {
				h2 := fnvStep(h1, byte(b))
				for c := 0; c < 256; c++ {
					if t, ok := tail[fnvStep(h2, byte(c))]; ok {
						out[ti] = []byte{byte(a), byte(b), byte(c), t[0], t[1]}
						break search
					}
				}
			}
		}
		if out[ti] == nil || fnv1a(out[ti]) != target {
			panic(fmt.Sprintf("no FNV-1a preimage found for %#x", target))
		}
	}
	return out
}

// fnvKeys names the real keys of the fnv family by index: the boundary preimages, then every key of
// length 0, 1, 2 and (thorough) 3 bytes.
type fnvKeys struct {
	pre  [][]byte
	maxL int
}

func newFnvKeys(tier string) *fnvKeys {
	k := &fnvKeys{pre: fnvPreimages(), maxL: 2}
	if tier == "thorough" {
		k.maxL = 3
	}
	return k
}

func (k *fnvKeys) count() int {
	n := len(k.pre)
	for l, c := 0, 1; l <= k.maxL; l, c = l+1, c*256 {
		n += c
	}
	return n
}

// key writes key number i into buf and returns the slice.
func (k *fnvKeys) key(i int, buf []byte) []byte {
	if i < len(k.pre) {
		return append(buf[:0], k.pre[i]...)
	}
	i -= len(k.pre)
	for l, c := 0, 1; ; l, c = l+1, c*256 {
		if i < c {
			buf = buf[:0]
			for j := l - 1; j >= 0; j-- {
				buf = append(buf, byte(i>>(8*uint(j))))
			}
			return buf
		}
		i -= c
	}
}

// drawValues: the scripted first draw of the random generator / scripted answer of the recording
// fallback for a keyless message. For the generator these are the 31-bit values around math/rand's
// rejection threshold for n and the extremes; for the recording fallback only in-range answers are
// used (see fallbackValues).
func drawValues(n int32) []int64 {
	set := map[int64]bool{}
	add := func(v int64) {
		if v >= 0 && v <= int64(maxInt32) {
			set[v] = true
		}
	}
	thr := int64(maxInt32) - (int64(1)<<31)%int64(n)
	for _, v := range []int64{0, 1, 2, int64(n) - 1, int64(n), int64(n) + 1, 1 << 30, int64(maxInt32) - 1, int64(maxInt32), thr - 1, thr, thr + 1} {
		add(v)
	}
	return sortedKeys(set)
}

func fallbackValues(n int32) []int64 {
	set := map[int64]bool{0: true, int64(n) / 2: true, int64(n) - 1: true}
	return sortedKeys(set)
}

func manualValues(n int32) []int64 {
	set := map[int64]bool{}
	for _, v := range []int64{0, 1, int64(n) - 1, int64(n), int64(n) + 1, -1, int64(maxInt32), -int64(maxInt32) - 1} {
		set[v] = true
	}
	return sortedKeys(set)
}

func sortedKeys(set map[int64]bool) []int64 {
	var l []int64
	for v := range set {
		l = append(l, v)
	}
	sort.Slice(l, func(i, j int) bool { return l[i] < l[j] })
	return l
}

// round-robin: alphabet of partition counts and start cursors (0 = fresh instance, no bridge).
func rrAlphabet(tier string) []int32 {
	if tier == "thorough" {
		return []int32{1, 2, 3, 4, 5, 17, maxInt32}
	}
	return []int32{1, 2, 3, 4, 17, maxInt32}
}

func rrSeqLen(tier string) int {
	if tier == "thorough" {
		return 8
	}
	return 6
}

var rrStarts = []int32{0, 1, 2, 16, 17, 18, maxInt32 - 2, maxInt32 - 1, maxInt32}

func ipow(b, e int) int {
	r := 1
	for ; e > 0; e-- {
		r *= b
	}
	return r
}

// rrSeq: sequence number i of exactly `length` partition counts over the alphabet (shorter sequences
// are prefixes of these and judged on the way, as the oracle looks at every call).
func rrSeq(alpha []int32, length, i int) []int32 {
	s := make([]int32, length)
	for j := length - 1; j >= 0; j-- {
		s[j] = alpha[i%len(alpha)]
		i /= len(alpha)
	}
	return s
}

// rrCycleSeq: case i of the cycle family = a prefix of 0..3 changing counts, then 2n+1 calls with a
// constant n in 1..17.
func rrCyclePrefixes(alpha []int32) [][]int32 {
	out := [][]int32{{}}
	for l := 1; l <= 3; l++ {
		for i := 0; i < ipow(len(alpha), l); i++ {
			out = append(out, rrSeq(alpha, l, i))
		}
	}
	return out
}

func rrCycleSeq(prefixes [][]int32, i int) []int32 {
	n := int32(i%17) + 1
	s := append([]int32(nil), prefixes[i/17]...)
	for k := int32(0); k < 2*n+1; k++ {
		s = append(s, n)
	}
	return s
}
