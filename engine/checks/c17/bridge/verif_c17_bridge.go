//go:build verif

package sarama

// Bridge of check C17 (added to package sarama through `go build -overlay` for this check only;
// /repo is never written). It exports only what cannot be reached from outside the package:
//   - a value of the unexported type *hashPartitioner to hand to WithCustomFallbackPartitioner
//     (its parameter type is unexported, so no caller outside the package can build one);
//   - swapping the hasher of a partitioner made by a constructor that has no hash option;
//   - scripting the generator of the random partitioner (so keyless cases are deterministic);
//   - setting the cursor of the round-robin partitioner to a (reachable) far position.
// None of these functions takes a decision for the code under test: Partition,
// RequiresConsistency and MessageRequiresConsistency are always the real methods.

import (
	"fmt"
	"hash"
	"hash/fnv"
	"math/rand"
)

// VerifC17NewFallback builds the argument for WithCustomFallbackPartitioner: a hash partitioner whose
// own keyless fallback is `inner` (the harness passes a recording fake), so a keyless message that
// reaches it is observable.
func VerifC17NewFallback(inner Partitioner) *hashPartitioner {
	return &hashPartitioner{random: inner, hasher: fnv.New32a()}
}

// VerifC17SwapHasher replaces the hasher of a hash partitioner built by a real constructor.
func VerifC17SwapHasher(p Partitioner, h hash.Hash32) bool {
	hp, ok := p.(*hashPartitioner)
	if !ok {
		return false
	}
	hp.hasher = h
	return true
}

// VerifC17ScriptRandom replaces the source of the random partitioner (p itself, or the keyless
// fallback of a hash partitioner when that is a random partitioner).
func VerifC17ScriptRandom(p Partitioner, src rand.Source) bool {
	switch x := p.(type) {
	case *randomPartitioner:
		x.generator = rand.New(src)
		return true
	case *hashPartitioner:
		if r, ok := x.random.(*randomPartitioner); ok {
			r.generator = rand.New(src)
			return true
		}
	}
	return false
}

// VerifC17SetRRCursor puts the round-robin cursor at c (every value in [0, 2^31-1] is reachable by
// enough calls with numPartitions = 2^31-1).
func VerifC17SetRRCursor(p Partitioner, c int32) bool {
	rr, ok := p.(*roundRobinPartitioner)
	if !ok {
		return false
	}
	rr.partition = c
	return true
}

// VerifC17Describe renders the configuration a constructor produced (for evidence samples only).
func VerifC17Describe(p Partitioner) string {
	switch x := p.(type) {
	case *hashPartitioner:
		fb := fmt.Sprintf("%T", x.random)
		if x.random == Partitioner(x) {
			fb = "ITSELF"
		}
		return fmt.Sprintf("hashPartitioner{referenceAbs:%v hasher:%T fallback:%s}", x.referenceAbs, x.hasher, fb)
	default:
		return fmt.Sprintf("%T", p)
	}
}
