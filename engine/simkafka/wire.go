package simkafka

// Independent wire encoder for what a broker returns in a fetch response: legacy message sets
// (magic 0/1, plain or compressed wrapper with absolute/relative inner offsets), record batches
// (magic 2) and the FetchResponse framing for every version the consumer can ask for. Nothing here
// calls sarama's encoder, so C03/C11 do not trust sarama's own framing.

import (
	"bytes"
	"compress/gzip"
	"encoding/binary"
	"hash/crc32"
	"time"

	snappy "github.com/eapache/go-xerial-snappy"
	"github.com/klauspost/compress/zstd"
	"github.com/pierrec/lz4"
)

const (
	CodecNone = iota
	CodecGzip
	CodecSnappy
	CodecLZ4
	CodecZstd
	CodecSnappyXerial = 10 // snappy with xerial framing (what the Java clients write); wire codec id 2
)

type StoredRec struct {
	Delta     int64 // offset = batch base + Delta
	Key       []byte
	Value     []byte
	Headers   [][2][]byte
	Timestamp time.Time
	ID        string
}

// StoredBatch is one unit of the simulated log: a record batch, or (legacy) one plain message per
// record, or one compressed wrapper message.
type StoredBatch struct {
	Base            int64
	Magic           int8 // 0, 1, 2
	Codec           int
	LogAppendTime   bool
	AppendTime      time.Time
	PID             int64
	Epoch           int16
	FirstSeq        int32
	Txn             bool
	Control         bool
	ControlType     int16 // 0 abort, 1 commit
	Recs            []StoredRec
	LastOffsetDelta int32 // >= last record's delta (larger when trailing records were compacted away)
}

func (b *StoredBatch) LastOffset() int64 { return b.Base + int64(b.LastOffsetDelta) }

func wireCodec(c int) int8 {
	if c == CodecSnappyXerial {
		return 2
	}
	return int8(c)
}

func compressBytes(codec int, in []byte) []byte {
	var buf bytes.Buffer
	switch codec {
	case CodecNone:
		return in
	case CodecGzip:
		w := gzip.NewWriter(&buf)
		w.Write(in)
		w.Close()
	case CodecSnappy:
		return snappy.Encode(in)
	case CodecSnappyXerial:
		buf.Write([]byte{0x82, 'S', 'N', 'A', 'P', 'P', 'Y', 0, 0, 0, 0, 1, 0, 0, 0, 1})
		for len(in) > 0 {
			n := len(in)
			if n > 16 { // small blocks on purpose: several frames
				n = 16
			}
			blk := snappy.Encode(in[:n])
			var l [4]byte
			binary.BigEndian.PutUint32(l[:], uint32(len(blk)))
			buf.Write(l[:])
			buf.Write(blk)
			in = in[n:]
		}
	case CodecLZ4:
		w := lz4.NewWriter(&buf)
		w.Write(in)
		w.Close()
	case CodecZstd:
		w, _ := zstd.NewWriter(&buf)
		w.Write(in)
		w.Close()
	default:
		panic("codec")
	}
	return buf.Bytes()
}

func putBytes32(b *bytes.Buffer, x []byte) {
	if x == nil {
		binary.Write(b, binary.BigEndian, int32(-1))
		return
	}
	binary.Write(b, binary.BigEndian, int32(len(x)))
	b.Write(x)
}

func msToTime(t time.Time) int64 {
	if t.IsZero() {
		return -1
	}
	return t.UnixNano() / int64(time.Millisecond)
}

// legacyMessage encodes one message (without the offset/size prefix).
func legacyMessage(magic int8, attrs int8, ts time.Time, key, value []byte) []byte {
	var body bytes.Buffer
	body.WriteByte(byte(magic))
	body.WriteByte(byte(attrs))
	if magic >= 1 {
		binary.Write(&body, binary.BigEndian, msToTime(ts))
	}
	putBytes32(&body, key)
	putBytes32(&body, value)
	var out bytes.Buffer
	binary.Write(&out, binary.BigEndian, crc32.ChecksumIEEE(body.Bytes()))
	out.Write(body.Bytes())
	return out.Bytes()
}

func legacyEntry(offset int64, msg []byte) []byte {
	var out bytes.Buffer
	binary.Write(&out, binary.BigEndian, offset)
	binary.Write(&out, binary.BigEndian, int32(len(msg)))
	out.Write(msg)
	return out.Bytes()
}

func putVarint(b *bytes.Buffer, v int64) {
	var tmp [binary.MaxVarintLen64]byte
	n := binary.PutVarint(tmp[:], v)
	b.Write(tmp[:n])
}

func putVarBytes(b *bytes.Buffer, x []byte) {
	if x == nil {
		putVarint(b, -1)
		return
	}
	putVarint(b, int64(len(x)))
	b.Write(x)
}

// Encode returns the on-disk/wire bytes of the batch.
func (b *StoredBatch) Encode() []byte {
	if b.Magic < 2 {
		var attrs int8
		if b.LogAppendTime {
			attrs |= 8
		}
		if b.Codec == CodecNone {
			var out bytes.Buffer
			for _, r := range b.Recs {
				ts := r.Timestamp
				if b.LogAppendTime {
					ts = b.AppendTime
				}
				out.Write(legacyEntry(b.Base+r.Delta, legacyMessage(b.Magic, attrs, ts, r.Key, r.Value)))
			}
			return out.Bytes()
		}
		var inner bytes.Buffer
		for i, r := range b.Recs {
			off := b.Base + r.Delta
			if b.Magic == 1 {
				// relative offsets inside a v1 wrapper (KIP-31); gaps left by compaction are preserved
				off = r.Delta - b.Recs[0].Delta
				_ = i
			}
			inner.Write(legacyEntry(off, legacyMessage(b.Magic, 0, r.Timestamp, r.Key, r.Value)))
		}
		wts := b.Recs[len(b.Recs)-1].Timestamp
		if b.LogAppendTime {
			wts = b.AppendTime
		}
		w := legacyMessage(b.Magic, attrs|wireCodec(b.Codec), wts, nil, compressBytes(b.Codec, inner.Bytes()))
		return legacyEntry(b.LastOffset(), w)
	}
	var recs bytes.Buffer
	first := time.Time{}
	max := time.Time{}
	for _, r := range b.Recs {
		if first.IsZero() {
			first = r.Timestamp
		}
		if r.Timestamp.After(max) {
			max = r.Timestamp
		}
	}
	if b.LogAppendTime {
		max = b.AppendTime
	}
	for _, r := range b.Recs {
		var body bytes.Buffer
		body.WriteByte(0) // attributes
		putVarint(&body, int64(r.Timestamp.Sub(first)/time.Millisecond))
		putVarint(&body, r.Delta)
		putVarBytes(&body, r.Key)
		putVarBytes(&body, r.Value)
		putVarint(&body, int64(len(r.Headers)))
		for _, h := range r.Headers {
			putVarBytes(&body, h[0])
			putVarBytes(&body, h[1])
		}
		putVarint(&recs, int64(body.Len()))
		recs.Write(body.Bytes())
	}
	var crcPart bytes.Buffer
	attrs := int16(wireCodec(b.Codec))
	if b.LogAppendTime {
		attrs |= 8
	}
	if b.Txn {
		attrs |= 16
	}
	if b.Control {
		attrs |= 32
	}
	binary.Write(&crcPart, binary.BigEndian, attrs)
	binary.Write(&crcPart, binary.BigEndian, b.LastOffsetDelta)
	binary.Write(&crcPart, binary.BigEndian, msToTime(first))
	binary.Write(&crcPart, binary.BigEndian, msToTime(max))
	binary.Write(&crcPart, binary.BigEndian, b.PID)
	binary.Write(&crcPart, binary.BigEndian, b.Epoch)
	binary.Write(&crcPart, binary.BigEndian, b.FirstSeq)
	binary.Write(&crcPart, binary.BigEndian, int32(len(b.Recs)))
	crcPart.Write(compressBytes(b.Codec, recs.Bytes()))
	var out bytes.Buffer
	binary.Write(&out, binary.BigEndian, b.Base)
	binary.Write(&out, binary.BigEndian, int32(4+1+4+crcPart.Len())) // leader epoch + magic + crc + rest
	binary.Write(&out, binary.BigEndian, int32(0))                   // partition leader epoch
	out.WriteByte(2)
	binary.Write(&out, binary.BigEndian, crc32.Checksum(crcPart.Bytes(), crc32.MakeTable(crc32.Castagnoli)))
	out.Write(crcPart.Bytes())
	return out.Bytes()
}

// ControlBatch builds a transaction marker batch.
func ControlBatch(base int64, pid int64, epoch int16, commit bool, ts time.Time) *StoredBatch {
	typ := int16(0)
	if commit {
		typ = 1
	}
	var key, val bytes.Buffer
	binary.Write(&key, binary.BigEndian, int16(0)) // version
	binary.Write(&key, binary.BigEndian, typ)
	binary.Write(&val, binary.BigEndian, int16(0)) // version
	binary.Write(&val, binary.BigEndian, int32(0)) // coordinator epoch
	return &StoredBatch{Base: base, Magic: 2, PID: pid, Epoch: epoch, FirstSeq: -1, Txn: true, Control: true, ControlType: typ,
		Recs: []StoredRec{{Delta: 0, Key: key.Bytes(), Value: val.Bytes(), Timestamp: ts}}}
}

type FetchPart struct {
	Topic            string
	Partition        int32
	Err              int16
	HighWaterMark    int64
	LastStableOffset int64
	LogStartOffset   int64
	Aborted          [][2]int64 // (producer id, first offset); nil = null array
	PreferredReplica int32
	Records          []byte
	Omit             bool // leave the block out of the response (missing block fault)
}

// EncodeFetchResponse frames a fetch response body for the given version.
func EncodeFetchResponse(version int16, throttleMs int32, parts []FetchPart) []byte {
	var out bytes.Buffer
	if version >= 1 {
		binary.Write(&out, binary.BigEndian, throttleMs)
	}
	if version >= 7 {
		binary.Write(&out, binary.BigEndian, int16(0))
		binary.Write(&out, binary.BigEndian, int32(0))
	}
	var topics []string
	by := map[string][]FetchPart{}
	for _, p := range parts {
		if p.Omit {
			continue
		}
		if _, ok := by[p.Topic]; !ok {
			topics = append(topics, p.Topic)
		}
		by[p.Topic] = append(by[p.Topic], p)
	}
	binary.Write(&out, binary.BigEndian, int32(len(topics)))
	for _, t := range topics {
		binary.Write(&out, binary.BigEndian, int16(len(t)))
		out.WriteString(t)
		binary.Write(&out, binary.BigEndian, int32(len(by[t])))
		for _, p := range by[t] {
			binary.Write(&out, binary.BigEndian, p.Partition)
			binary.Write(&out, binary.BigEndian, p.Err)
			binary.Write(&out, binary.BigEndian, p.HighWaterMark)
			if version >= 4 {
				binary.Write(&out, binary.BigEndian, p.LastStableOffset)
				if version >= 5 {
					binary.Write(&out, binary.BigEndian, p.LogStartOffset)
				}
				if p.Aborted == nil {
					binary.Write(&out, binary.BigEndian, int32(-1))
				} else {
					binary.Write(&out, binary.BigEndian, int32(len(p.Aborted)))
					for _, a := range p.Aborted {
						binary.Write(&out, binary.BigEndian, a[0])
						binary.Write(&out, binary.BigEndian, a[1])
					}
				}
			}
			if version >= 11 {
				binary.Write(&out, binary.BigEndian, p.PreferredReplica)
			}
			binary.Write(&out, binary.BigEndian, int32(len(p.Records)))
			out.Write(p.Records)
		}
	}
	return out.Bytes()
}
