// Package simkafka: a small, boring, in-harness Kafka (DESIGN.md §4). It is at the same time the
// environment whose every answer is a controller choice and the reference model (a log is a Go slice).
package simkafka

import (
	"errors"
	"fmt"
	"net"
	"os"
	"sort"
	"strings"
	"sync"
	"time"

	"github.com/Shopify/sarama"

	"verif/engine/gx"
)

type Rec struct {
	Key, Value []byte
	Headers    []sarama.RecordHeader
	Timestamp  time.Time
	PID        int64
	Epoch      int16
	Seq        int32
	Control    bool
	Txn        bool
	ID         string // harness message id (payload), "" if unknown
}

type batchRange struct {
	first, last int32
	base        int64
}

type pidState struct {
	epoch   int16
	nextSeq int32
	recent  []batchRange
}

type Partition struct {
	Topic    string
	ID       int32
	Leader   int32 // -1 = none
	Replicas []int32
	Log      []Rec
	pids     map[int64]*pidState
	// consumer-side log
	Batches  []*StoredBatch
	LogStart int64
}

type BrokerNode struct {
	ID   int32
	Addr string
	Up   bool
}

type Req struct {
	Conn *Conn
	*sarama.VerifRequest
	Seq int
	// group coordinator bookkeeping: side effects of a request's arrival are applied once
	prepared bool
	arrival  time.Time
	reject   bool
	memberID string
}

type Conn struct {
	Label   string
	Node    *BrokerNode
	sv      net.Conn
	pending []*Req
	closed  bool
}

// ProduceEvent records what one produce request contained and what the cluster did with it.
type ProduceEvent struct {
	Conn     string
	Broker   int32
	Fault    string
	Acks     sarama.RequiredAcks
	Version  int16
	Raw      []byte
	Batches  []sarama.VerifBatch
	Verdicts []Verdict
	Step     int // number of decisions taken when the request was answered (index into the trace)
}

type Verdict struct {
	Topic     string
	Partition int32
	Appended  bool
	Duplicate bool // recognised as a re-send of a cached batch (idempotence)
	Base      int64
	Err       sarama.KError
	Answered  bool // whether the client was told (false for dropped connections / missing block / acks=0)
}

type Cluster struct {
	C          *gx.Ctl
	mu         sync.Mutex
	Brokers    []*BrokerNode
	Topics     map[string][]*Partition
	Controller int32
	conns      []*Conn
	dials      map[string]int
	nreq       int
	nextPID    int64

	// fault alphabets (names) enabled for this scenario
	ProduceFaults []string
	MetaFaults    []string
	FetchFaults   []string
	pairFault     map[int]string // doProduce with faultIdx -2: batch index -> fault
	OffsetFaults  []string       // ListOffsets: notleader (every block answered NOT_LEADER_FOR_PARTITION), drop
	// UrgentMetadata: a pending metadata request is answered before anything else happens (see gx.Actor.Urgent).
	UrgentMetadata bool
	// MetaDescending: metadata answers list a topic's partitions in descending order (the protocol promises no order)
	MetaDescending bool
	// AnswerRank is the default priority class of answer actors.
	AnswerRank int
	// MetaVersionCap lowers the metadata response version (0 = use the request's).
	GroupFaults       []string
	gseq              int
	Groups            map[string]*Group
	CoordFaults       []string
	CoordDown         bool // environment state: every coordinator lookup is answered COORDINATOR_NOT_AVAILABLE
	OffsetFetchFaults []string
	CommitFaults      []string
	// CommitGuard lets a group simulation reject commits of stale members/generations
	CommitGuard func(g *Group, req *sarama.OffsetCommitRequest) sarama.KError
	// AnswerIdleFetch: let fetches that have nothing to return be answered (long-poll expiry)
	AnswerIdleFetch bool
	// BatchesPerFetch > 0: a fetch returns that many whole batches per partition (instead of a byte range)
	BatchesPerFetch int
	// AbortedOrder permutes the aborted-transaction index of a fetch response (any order is legal)
	AbortedOrder func([][2]int64) [][2]int64
	BadRequests  []string // requests that did not decode
	RefetchLoop  string   // set when the client re-fetches the same data forever (see fetchVariants)
	lastFetchKey string
	sameFetch    int
	Fetched      []FetchEvent
	Produced     []ProduceEvent
	Requests     []string // kinds of all requests seen, in arrival order per decision
	FaultsTaken  []string

	Handlers map[string]func(r *Req) []gx.Variant // extra request kinds registered by rigs
	Now      func() time.Time
}

func New(c *gx.Ctl) *Cluster {
	cl := &Cluster{C: c, Topics: map[string][]*Partition{}, dials: map[string]int{}, nextPID: 7000, AnswerRank: 1, Handlers: map[string]func(r *Req) []gx.Variant{}}
	c.Providers = append(c.Providers, cl.actors)
	return cl
}

func (cl *Cluster) AddBroker(id int32) *BrokerNode {
	b := &BrokerNode{ID: id, Addr: fmt.Sprintf("b%d:9092", id), Up: true}
	cl.Brokers = append(cl.Brokers, b)
	if cl.Controller == 0 {
		cl.Controller = id
	}
	return b
}

func (cl *Cluster) AddTopic(name string, leaders ...int32) {
	for i, l := range leaders {
		cl.Topics[name] = append(cl.Topics[name], &Partition{Topic: name, ID: int32(i), Leader: l, Replicas: []int32{l}, pids: map[int64]*pidState{}})
	}
}

func (cl *Cluster) Part(topic string, p int32) *Partition {
	ps := cl.Topics[topic]
	if int(p) < len(ps) && p >= 0 {
		return ps[p]
	}
	return nil
}

func (cl *Cluster) node(id int32) *BrokerNode {
	for _, b := range cl.Brokers {
		if b.ID == id {
			return b
		}
	}
	return nil
}

// Dial implements proxy.Dialer: sarama connects to the simulated cluster through Config.Net.Proxy.
func (cl *Cluster) Dial(network, addr string) (net.Conn, error) {
	cl.mu.Lock()
	defer cl.mu.Unlock()
	var node *BrokerNode
	for _, b := range cl.Brokers {
		if b.Addr == addr {
			node = b
		}
	}
	if node == nil || !node.Up {
		return nil, errors.New("simkafka: connection refused: " + addr)
	}
	c, s := net.Pipe()
	cl.dials[addr]++
	conn := &Conn{Label: fmt.Sprintf("%s#%d", addr, cl.dials[addr]), Node: node, sv: s}
	cl.conns = append(cl.conns, conn)
	go cl.serve(conn)
	return c, nil
}

func (cl *Cluster) serve(conn *Conn) {
	for {
		r, err := sarama.VerifDecodeRequest(conn.sv)
		if err != nil {
			cl.mu.Lock()
			if _, bad := err.(sarama.PacketDecodingError); bad || strings.Contains(err.Error(), "insufficient data") || strings.Contains(err.Error(), "invalid") || strings.Contains(err.Error(), "CRC") || strings.Contains(err.Error(), "corrupt") {
				// the client sent bytes that do not decode as a request (like a real broker, the connection is closed)
				cl.BadRequests = append(cl.BadRequests, conn.Label+": "+err.Error())
			}
			conn.closed = true
			conn.pending = nil
			cl.mu.Unlock()
			conn.sv.Close()
			return
		}
		cl.mu.Lock()
		cl.nreq++
		conn.pending = append(conn.pending, &Req{Conn: conn, VerifRequest: r, Seq: cl.nreq})
		cl.mu.Unlock()
	}
}

// CloseAll closes every server-side connection (teardown).
func (cl *Cluster) CloseAll() {
	cl.mu.Lock()
	cs := append([]*Conn(nil), cl.conns...)
	cl.mu.Unlock()
	for _, c := range cs {
		c.sv.Close()
	}
}

func (cl *Cluster) drop(c *Conn) {
	cl.mu.Lock()
	c.closed = true
	c.pending = nil
	cl.mu.Unlock()
	c.sv.Close()
}

func (cl *Cluster) pop(r *Req) {
	cl.mu.Lock()
	p := r.Conn.pending
	for i := range p {
		if p[i] == r {
			r.Conn.pending = append(p[:i:i], p[i+1:]...)
			break
		}
	}
	cl.mu.Unlock()
}

func (cl *Cluster) Respond(r *Req, body interface{}) {
	b, err := sarama.VerifEncodeResponse(r.CorrelationID, body)
	if err != nil {
		panic(fmt.Sprintf("simkafka: cannot encode %T: %v", body, err))
	}
	cl.RespondRaw(r, b)
}

func (cl *Cluster) RespondRaw(r *Req, frame []byte) {
	if os.Getenv("VERIF_LOG") != "" {
		fmt.Printf("[sim] respond %s %s corr=%d v%d frame=%x\n", r.Conn.Label, kindOf(r.Body), r.CorrelationID, r.Version, frame)
	}
	sv := r.Conn.sv
	go func() { _, _ = sv.Write(frame) }()
}

// PendingKinds lists the pending requests (for fingerprints).
func (cl *Cluster) PendingKinds() string {
	cl.mu.Lock()
	defer cl.mu.Unlock()
	var s []string
	for _, c := range cl.conns {
		for _, r := range c.pending {
			s = append(s, c.Label+":"+kindOf(r.Body))
		}
	}
	return strings.Join(s, ",")
}

func kindOf(body interface{}) string {
	s := fmt.Sprintf("%T", body)
	s = strings.TrimPrefix(s, "*sarama.")
	return strings.TrimSuffix(s, "Request")
}

func (cl *Cluster) actors() []gx.Actor {
	cl.mu.Lock()
	var heads []*Req
	for _, c := range cl.conns {
		if !c.closed && len(c.pending) > 0 {
			heads = append(heads, c.pending[0])
		}
	}
	cl.mu.Unlock()
	sort.Slice(heads, func(i, j int) bool { return heads[i].Conn.Label < heads[j].Conn.Label })
	var acts []gx.Actor
	for _, r := range heads {
		vs := cl.variants(r)
		if len(vs) == 0 {
			continue
		}
		_, isMeta := r.Body.(*sarama.MetadataRequest)
		rank := cl.AnswerRank
		acts = append(acts, gx.Actor{Label: "ans:" + r.Conn.Label, Rank: rank, Variants: vs, Urgent: isMeta && cl.UrgentMetadata})
	}
	return acts
}

func (cl *Cluster) wrap(r *Req, kind, name string, f func()) gx.Variant {
	return gx.Variant{Name: kind + "." + name, Do: func() {
		cl.pop(r)
		if name != "ok" && name != "poll-expires" {
			cl.FaultsTaken = append(cl.FaultsTaken, kind+"."+name)
		}
		f()
	}}
}

func (cl *Cluster) variants(r *Req) []gx.Variant {
	kind := kindOf(r.Body)
	if h := cl.Handlers[kind]; h != nil {
		return h(r)
	}
	switch b := r.Body.(type) {
	case *sarama.MetadataRequest:
		vs := []gx.Variant{cl.wrap(r, kind, "ok", func() { cl.Respond(r, cl.Metadata(b)) })}
		for _, f := range cl.MetaFaults {
			f := f
			switch f {
			case "drop":
				vs = append(vs, cl.wrap(r, kind, f, func() { cl.drop(r.Conn) }))
			case "leader-unavailable", "unknown-topic":
				vs = append(vs, cl.wrap(r, kind, f, func() {
					m := cl.Metadata(b)
					for _, t := range m.Topics {
						if f == "unknown-topic" {
							t.Err = sarama.ErrUnknownTopicOrPartition
							t.Partitions = nil
							continue
						}
						for _, p := range t.Partitions {
							p.Err = sarama.ErrLeaderNotAvailable
							p.Leader = -1
						}
					}
					cl.Respond(r, m)
				}))
			}
		}
		return vs
	case *sarama.InitProducerIDRequest:
		return []gx.Variant{cl.wrap(r, kind, "ok", func() {
			cl.nextPID++
			cl.Respond(r, &sarama.InitProducerIDResponse{ProducerID: cl.nextPID, ProducerEpoch: 0})
		})}
	case *sarama.ProduceRequest:
		return cl.produceVariants(r, b)
	case *sarama.FindCoordinatorRequest:
		return cl.coordVariants(r, b.CoordinatorKey)
	case *sarama.ConsumerMetadataRequest:
		return cl.coordVariants(r, b.ConsumerGroup)
	case *sarama.JoinGroupRequest:
		return cl.joinVariants(r, b)
	case *sarama.SyncGroupRequest:
		return cl.syncVariants(r, b)
	case *sarama.HeartbeatRequest:
		return cl.heartbeatVariants(r, b)
	case *sarama.LeaveGroupRequest:
		return cl.leaveVariants(r, b)
	case *sarama.OffsetFetchRequest:
		return cl.offsetFetchVariants(r, b)
	case *sarama.OffsetCommitRequest:
		return cl.commitVariants(r, b)
	case *sarama.FetchRequest:
		return cl.fetchVariants(r, b)
	case *sarama.OffsetRequest:
		return cl.offsetVariants(r, b)
	}
	panic(fmt.Sprintf("simkafka: no handler for %T", r.Body))
}

// Metadata builds the faithful metadata answer for a request.
func (cl *Cluster) Metadata(req *sarama.MetadataRequest) *sarama.MetadataResponse {
	m := &sarama.MetadataResponse{Version: req.Version, ControllerID: cl.Controller}
	for _, b := range cl.Brokers {
		m.AddBroker(b.Addr, b.ID)
	}
	var names []string
	if len(req.Topics) == 0 {
		for t := range cl.Topics {
			names = append(names, t)
		}
	} else {
		names = append(names, req.Topics...)
	}
	sort.Strings(names)
	for _, t := range names {
		ps, ok := cl.Topics[t]
		if !ok {
			m.AddTopic(t, sarama.ErrUnknownTopicOrPartition)
			continue
		}
		m.AddTopic(t, sarama.ErrNoError)
		if cl.MetaDescending {
			rev := make([]*Partition, 0, len(ps))
			for i := len(ps) - 1; i >= 0; i-- {
				rev = append(rev, ps[i])
			}
			ps = rev
		}
		for _, p := range ps {
			kerr := sarama.ErrNoError
			if p.Leader < 0 {
				kerr = sarama.ErrLeaderNotAvailable
			}
			m.AddTopicPartition(t, p.ID, p.Leader, p.Replicas, p.Replicas, nil, kerr)
		}
	}
	return m
}

// PendingDetail describes the pending requests including the content that matters for state keys.
func (cl *Cluster) PendingDetail() []string {
	cl.mu.Lock()
	defer cl.mu.Unlock()
	var s []string
	for _, c := range cl.conns {
		for _, r := range c.pending {
			d := c.Label + ":" + kindOf(r.Body)
			if b, ok := r.Body.(*sarama.OffsetCommitRequest); ok {
				d += fmt.Sprint(sarama.VerifCommitBlocks(b))
			}
			s = append(s, d)
		}
	}
	return s
}

// ConnState summarises dials and which server-side connections are still open (hidden state of the
// client's broker objects that a canonical state key may need).
func (cl *Cluster) ConnState() string {
	cl.mu.Lock()
	defer cl.mu.Unlock()
	var s []string
	for _, c := range cl.conns {
		st := "open"
		if c.closed {
			st = "closed"
		}
		s = append(s, c.Label+"="+st)
	}
	return strings.Join(s, ",")
}

// AnswerableKinds lists the kinds of the head-of-line requests that can be answered now (requests the
// simulated broker is deliberately holding - long polls, joins waiting for the other members - are left out).
func (cl *Cluster) AnswerableKinds() []string {
	var out []string
	for _, a := range cl.actors() {
		if len(a.Variants) > 0 {
			k := a.Variants[0].Name
			if i := strings.IndexByte(k, '.'); i > 0 {
				k = k[:i]
			}
			out = append(out, k)
		}
	}
	return out
}
