package simkafka

import (
	"fmt"
	"sort"
	"time"

	"github.com/Shopify/sarama"

	"verif/engine/gx"
)

// consumer-side log of a partition (kept separately from the producer-side Log): stored batches in
// the exact wire form a broker would hold them.

func (p *Partition) HighWaterMark() int64 {
	if len(p.Batches) == 0 {
		return p.LogStart
	}
	return p.Batches[len(p.Batches)-1].LastOffset() + 1
}

type txnRange struct {
	pid         int64
	first, last int64 // last = offset of the marker, -1 while open
	aborted     bool
}

func (p *Partition) txns() []txnRange {
	var out []txnRange
	open := map[int64]int{}
	for _, b := range p.Batches {
		if !b.Txn {
			continue
		}
		if b.Control {
			if i, ok := open[b.PID]; ok {
				out[i].last = b.Base
				out[i].aborted = b.ControlType == 0
				delete(open, b.PID)
			}
			continue
		}
		if _, ok := open[b.PID]; !ok {
			open[b.PID] = len(out)
			out = append(out, txnRange{pid: b.PID, first: b.Base, last: -1})
		}
	}
	return out
}

// LastStableOffset: first offset of the earliest open transaction, else the high-water mark.
func (p *Partition) LastStableOffset() int64 {
	lso := p.HighWaterMark()
	for _, t := range p.txns() {
		if t.last < 0 && t.first < lso {
			lso = t.first
		}
	}
	return lso
}

// FetchEvent records one fetch request as seen by the broker.
type FetchEvent struct {
	Conn    string
	Broker  int32
	Version int16
	Fault   string
	Blocks  []sarama.VerifFetchBlock
}

// RefetchLimit: identical consecutive data-bearing fetches after which the client is considered to be in a livelock.
const RefetchLimit = 40

var fetchPartitionFaults = map[string]bool{"notleader": true, "unknown-error": true, "out-of-range": true, "missing": true}
var fetchConnFaults = map[string]bool{"drop": true, "throttled-empty": true}

func (cl *Cluster) fetchVariants(r *Req, req *sarama.FetchRequest) []gx.Variant {
	blocks := sarama.VerifFetchBlocks(req)
	if cl.RefetchLoop != "" {
		// livelock made visible: the client asked for exactly the same data RefetchLimit times in a row
		// although every answer carried data; the fetch stays unanswered so that the execution ends
		// (and the rig's progress oracle judges it) instead of spinning to the step limit
		return nil
	}
	if !cl.AnswerIdleFetch && cl.idleFetch(r, req, blocks) {
		// long poll: a broker holds a fetch that has nothing to return until data arrives or MaxWaitTime
		// expires, i.e. until (fake) time has passed since the request arrived: it becomes answerable
		// (with an empty response) once the scenario has let time pass by a "tick:" action
		if !r.prepared {
			r.prepared = true
			r.arrival = time.Now() // fake time of the bubble
		}
		if time.Since(r.arrival) < 250*time.Millisecond { // Consumer.MaxWaitTime default
			return nil
		}
		return []gx.Variant{cl.wrap(r, "Fetch", "poll-expires", func() { cl.doFetch(r, req, blocks, "ok", -1) })}
	}
	vs := []gx.Variant{cl.wrap(r, "Fetch", "ok", func() { cl.doFetch(r, req, blocks, "ok", -1) })}
	for _, f := range cl.FetchFaults {
		f := f
		switch {
		case fetchPartitionFaults[f]:
			for i := range blocks {
				i := i
				name := f
				if len(blocks) > 1 {
					name = fmt.Sprintf("%s@%d", f, blocks[i].Partition)
				}
				vs = append(vs, cl.wrap(r, "Fetch", name, func() { cl.doFetch(r, req, blocks, f, i) }))
			}
		case fetchConnFaults[f]:
			vs = append(vs, cl.wrap(r, "Fetch", f, func() { cl.doFetch(r, req, blocks, f, -1) }))
		default:
			panic("unknown fetch fault " + f)
		}
	}
	return vs
}

func (cl *Cluster) idleFetch(r *Req, req *sarama.FetchRequest, blocks []sarama.VerifFetchBlock) bool {
	rc := req.Version >= 4 && req.Isolation == sarama.ReadCommitted
	for _, b := range blocks {
		p := cl.Part(b.Topic, b.Partition)
		if p == nil || p.Leader != r.Conn.Node.ID {
			return false
		}
		upper := p.HighWaterMark()
		if rc {
			upper = p.LastStableOffset()
		}
		if b.Offset != upper && !(rc && b.Offset > upper && b.Offset <= p.HighWaterMark()) {
			return false
		}
	}
	return true
}

func (cl *Cluster) doFetch(r *Req, req *sarama.FetchRequest, blocks []sarama.VerifFetchBlock, fault string, faultIdx int) {
	cl.Fetched = append(cl.Fetched, FetchEvent{Conn: r.Conn.Label, Broker: r.Conn.Node.ID, Version: req.Version, Fault: fault, Blocks: blocks})
	if key := fmt.Sprint(blocks); fault == "ok" && faultIdx < 0 && key == cl.lastFetchKey && !cl.idleFetch(r, req, blocks) {
		cl.sameFetch++
		if cl.sameFetch >= RefetchLimit {
			cl.RefetchLoop = fmt.Sprintf("%d identical consecutive fetches %s, each answered with data", cl.sameFetch, key)
		}
	} else {
		cl.lastFetchKey, cl.sameFetch = key, 1
		if fault != "ok" {
			cl.lastFetchKey = ""
		}
	}
	if fault == "drop" {
		cl.drop(r.Conn)
		return
	}
	if fault == "throttled-empty" {
		cl.RespondRaw(r, sarama.VerifFrameResponse(r.CorrelationID, 0, EncodeFetchResponse(req.Version, 100, nil)))
		return
	}
	var parts []FetchPart
	for i, b := range blocks {
		f := "ok"
		if faultIdx == i {
			f = fault
		}
		fp := FetchPart{Topic: b.Topic, Partition: b.Partition, PreferredReplica: -1}
		p := cl.Part(b.Topic, b.Partition)
		switch {
		case p == nil:
			fp.Err = int16(sarama.ErrUnknownTopicOrPartition)
		case p.Leader != r.Conn.Node.ID:
			fp.Err = int16(sarama.ErrNotLeaderForPartition)
		case f == "notleader":
			fp.Err = int16(sarama.ErrNotLeaderForPartition)
		case f == "unknown-error":
			fp.Err = int16(sarama.ErrKafkaStorageError)
		case f == "out-of-range" || b.Offset < p.LogStart || b.Offset > p.HighWaterMark():
			fp.Err = int16(sarama.ErrOffsetOutOfRange)
		case f == "missing":
			fp.Omit = true
		default:
			cl.fillFetch(&fp, p, b, req)
		}
		if fp.Err != 0 {
			fp.HighWaterMark = -1
			fp.LastStableOffset = -1
			fp.LogStartOffset = -1
		}
		parts = append(parts, fp)
	}
	cl.RespondRaw(r, sarama.VerifFrameResponse(r.CorrelationID, 0, EncodeFetchResponse(req.Version, 0, parts)))
}

func (cl *Cluster) fillFetch(fp *FetchPart, p *Partition, b sarama.VerifFetchBlock, req *sarama.FetchRequest) {
	fp.HighWaterMark = p.HighWaterMark()
	fp.LastStableOffset = p.LastStableOffset()
	fp.LogStartOffset = p.LogStart
	upper := fp.HighWaterMark
	rc := req.Version >= 4 && req.Isolation == sarama.ReadCommitted
	if rc {
		upper = fp.LastStableOffset
	}
	var data []byte
	n := 0
	lastIncluded := int64(-1)
	for _, sb := range p.Batches {
		if sb.LastOffset() < b.Offset {
			continue
		}
		if sb.Base >= upper {
			break
		}
		enc := sb.Encode()
		if cl.BatchesPerFetch > 0 && n >= cl.BatchesPerFetch {
			break
		}
		data = append(data, enc...)
		lastIncluded = sb.LastOffset()
		n++
		if cl.BatchesPerFetch == 0 && len(data) >= int(b.MaxBytes) {
			break
		}
	}
	if cl.BatchesPerFetch == 0 && len(data) > int(b.MaxBytes) {
		// a broker serves a byte range of the log: the tail may be a partial batch. From fetch v3 on the
		// first batch is returned whole even if it is larger than the limit (KIP-74).
		limit := int(b.MaxBytes)
		if req.Version >= 3 {
			for _, sb := range p.Batches {
				if sb.LastOffset() >= b.Offset {
					if l := len(sb.Encode()); l > limit {
						limit = l
					}
					break
				}
			}
		}
		if limit < len(data) {
			data = data[:limit]
		}
	}
	fp.Records = data
	if req.Version >= 4 {
		fp.Aborted = [][2]int64{}
		if rc {
			var ab [][2]int64
			for _, t := range p.txns() {
				if t.aborted && t.last >= b.Offset && t.first <= lastIncluded {
					ab = append(ab, [2]int64{t.pid, t.first})
				}
			}
			sort.Slice(ab, func(i, j int) bool { return ab[i][1] < ab[j][1] })
			if cl.AbortedOrder != nil {
				ab = cl.AbortedOrder(ab)
			}
			if ab != nil {
				fp.Aborted = ab
			}
		}
	}
}

func (cl *Cluster) offsetVariants(r *Req, req *sarama.OffsetRequest) []gx.Variant {
	vs := cl.offsetOK(r, req)
	for _, f := range cl.OffsetFaults {
		switch f {
		case "notleader":
			vs = append(vs, cl.wrap(r, "Offset", f, func() {
				res := &sarama.OffsetResponse{Version: req.Version}
				for _, b := range sarama.VerifOffsetBlocks(req) {
					res.AddTopicPartition(b.Topic, b.Partition, -1)
					res.Blocks[b.Topic][b.Partition].Err = sarama.ErrNotLeaderForPartition
				}
				cl.Respond(r, res)
			}))
		case "drop":
			vs = append(vs, cl.wrap(r, "Offset", f, func() { cl.drop(r.Conn) }))
		default:
			panic("unknown offset fault " + f)
		}
	}
	return vs
}

func (cl *Cluster) offsetOK(r *Req, req *sarama.OffsetRequest) []gx.Variant {
	return []gx.Variant{cl.wrap(r, "Offset", "ok", func() {
		res := &sarama.OffsetResponse{Version: req.Version}
		for _, b := range sarama.VerifOffsetBlocks(req) {
			p := cl.Part(b.Topic, b.Partition)
			switch {
			case p == nil:
				res.AddTopicPartition(b.Topic, b.Partition, -1)
				res.Blocks[b.Topic][b.Partition].Err = sarama.ErrUnknownTopicOrPartition
			case p.Leader != r.Conn.Node.ID:
				res.AddTopicPartition(b.Topic, b.Partition, -1)
				res.Blocks[b.Topic][b.Partition].Err = sarama.ErrNotLeaderForPartition
			case b.Time == sarama.OffsetOldest:
				res.AddTopicPartition(b.Topic, b.Partition, p.LogStart)
			default:
				res.AddTopicPartition(b.Topic, b.Partition, p.HighWaterMark())
			}
		}
		cl.Respond(r, res)
	})}
}
