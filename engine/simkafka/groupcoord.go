package simkafka

// Group membership half of the simulated coordinator: the JoinGroup / SyncGroup / Heartbeat /
// LeaveGroup state machine of Kafka's group coordinator, kept minimal.
//
//   Empty --join--> PreparingRebalance --all members (re)joined--> CompletingRebalance --leader's sync--> Stable
//   Stable --join of a new member / leave / fenced member--> PreparingRebalance
//
// JoinGroup answers are held until every known member has rejoined (or the scenario fires the
// rebalance timeout, which drops the stragglers); SyncGroup answers of followers are held until the
// leader's SyncGroup delivered the assignments.

import (
	"fmt"
	"sort"

	"github.com/Shopify/sarama"

	"verif/engine/gx"
)

const (
	GEmpty = iota
	GPreparing
	GCompleting
	GStable
)

type Member struct {
	ID         string
	Protocol   string
	Metadata   []byte
	joinReq    *Req
	joinResp   *sarama.JoinGroupResponse
	syncReq    *Req
	Assignment []byte
	hasAssign  bool
}

// GroupReq is the coordinator's log of membership requests.
type GroupReq struct {
	Kind       string
	Conn       string
	MemberID   string
	Generation int32
	Answer     string // variant name
	Err        sarama.KError
	RespMember string // member id issued (JoinGroup)
	RespGen    int32
	Seq        int
}

type membership struct {
	State      int
	Generation int32
	Members    map[string]*Member
	Leader     string
	seq        int
	Log        []GroupReq
}

func (g *Group) ms() *membership {
	if g.M == nil {
		g.M = &membership{Members: map[string]*Member{}}
	}
	return g.M
}

func (m *membership) ids() []string {
	var ids []string
	for id := range m.Members {
		ids = append(ids, id)
	}
	sort.Strings(ids)
	return ids
}

func (m *membership) startRebalance() {
	if m.State == GStable || m.State == GEmpty || m.State == GCompleting {
		m.State = GPreparing
		for _, mem := range m.Members {
			mem.joinResp = nil
			mem.hasAssign = false
			mem.Assignment = nil
		}
	}
}

func (m *membership) remove(id string) {
	if _, ok := m.Members[id]; !ok {
		return
	}
	delete(m.Members, id)
	if len(m.Members) == 0 {
		m.State = GEmpty
		m.Leader = ""
		return
	}
	m.startRebalance()
}

func (cl *Cluster) logGroup(g *Group, e GroupReq) {
	cl.gseq++
	e.Seq = cl.gseq
	g.ms().Log = append(g.ms().Log, e)
}

// ---- JoinGroup

func (cl *Cluster) joinVariants(r *Req, req *sarama.JoinGroupRequest) []gx.Variant {
	g := cl.Group(req.GroupId)
	m := g.ms()
	proto, meta := "", []byte(nil)
	if len(req.OrderedGroupProtocols) > 0 {
		proto, meta = req.OrderedGroupProtocols[0].Name, req.OrderedGroupProtocols[0].Metadata
	}
	errAnswer := func(name string, kerr sarama.KError, forget bool) gx.Variant {
		return cl.wrap(r, "JoinGroup", name, func() {
			if mem := m.Members[r.memberID]; mem != nil && mem.joinReq == r {
				mem.joinReq = nil
			}
			if forget {
				m.remove(r.memberID)
			}
			cl.logGroup(g, GroupReq{Kind: "JoinGroup", Conn: r.Conn.Label, MemberID: req.MemberId, Answer: name, Err: kerr})
			cl.Respond(r, &sarama.JoinGroupResponse{Version: req.Version, Err: kerr, MemberId: req.MemberId})
		})
	}
	if g.Coordinator != r.Conn.Node.ID {
		return []gx.Variant{errAnswer("ok", sarama.ErrNotCoordinatorForConsumer, false)}
	}
	if !r.prepared {
		r.prepared = true
		r.memberID = req.MemberId
		if req.MemberId != "" && m.Members[req.MemberId] == nil {
			r.reject = true
		} else {
			if req.MemberId == "" {
				m.seq++
				r.memberID = fmt.Sprintf("member-%d", m.seq)
				m.Members[r.memberID] = &Member{ID: r.memberID}
			}
			mem := m.Members[r.memberID]
			changed := string(mem.Metadata) != string(meta) || mem.Protocol != proto
			mem.Protocol, mem.Metadata = proto, meta
			mem.joinReq = r
			if m.State != GPreparing && (m.State != GStable || changed || req.MemberId == "" || mem.ID == m.Leader) {
				m.startRebalance()
			} else if m.State == GStable {
				// a follower rejoining with unchanged metadata in a stable group gets the current generation back
				mem.joinResp = &sarama.JoinGroupResponse{Version: req.Version, GenerationId: m.Generation, GroupProtocol: proto, LeaderId: m.Leader, MemberId: mem.ID}
			}
		}
	}
	if r.reject {
		return []gx.Variant{errAnswer("ok", sarama.ErrUnknownMemberId, false)}
	}
	mem := m.Members[r.memberID]
	var vs []gx.Variant
	ready := mem != nil && mem.joinResp != nil
	if !ready && mem != nil && m.State == GPreparing {
		ready = true
		for _, x := range m.Members {
			if x.joinReq == nil {
				ready = false
			}
		}
	}
	if ready {
		vs = append(vs, cl.wrap(r, "JoinGroup", "ok", func() {
			if mem.joinResp == nil {
				// the join phase completes: new generation, leader, member list for the leader
				m.Generation++
				m.State = GCompleting
				if _, ok := m.Members[m.Leader]; !ok {
					m.Leader = m.ids()[0]
				}
				for _, x := range m.Members {
					resp := &sarama.JoinGroupResponse{Version: req.Version, GenerationId: m.Generation, GroupProtocol: proto, LeaderId: m.Leader, MemberId: x.ID}
					if x.ID == m.Leader {
						resp.Members = map[string][]byte{}
						for _, y := range m.Members {
							resp.Members[y.ID] = y.Metadata
						}
					}
					x.joinResp = resp
					x.hasAssign = false
				}
			}
			resp := mem.joinResp
			mem.joinReq = nil
			cl.logGroup(g, GroupReq{Kind: "JoinGroup", Conn: r.Conn.Label, MemberID: req.MemberId, Answer: "ok", RespMember: resp.MemberId, RespGen: resp.GenerationId})
			cl.Respond(r, resp)
		}))
	}
	for _, f := range cl.GroupFaults {
		switch f {
		case "join-rebalance":
			if ready {
				vs = append(vs, errAnswer(f, sarama.ErrRebalanceInProgress, false))
			}
		case "join-unknown-member":
			if ready {
				vs = append(vs, errAnswer(f, sarama.ErrUnknownMemberId, true))
			}
		case "join-notcoord":
			// the broker stopped being the group's coordinator (the member keeps its registration)
			if ready {
				vs = append(vs, errAnswer(f, sarama.ErrNotCoordinatorForConsumer, false))
			}
		case "join-other":
			// an error the client has no special treatment for (the coordinator forgets nothing)
			if ready {
				vs = append(vs, errAnswer(f, sarama.ErrInconsistentGroupProtocol, false))
			}
		case "join-drop":
			if ready {
				vs = append(vs, cl.wrap(r, "JoinGroup", f, func() {
					if mem != nil && mem.joinReq == r {
						mem.joinReq = nil
					}
					cl.logGroup(g, GroupReq{Kind: "JoinGroup", Conn: r.Conn.Label, MemberID: req.MemberId, Answer: f})
					cl.drop(r.Conn)
				}))
			}
		}
	}
	return vs
}

// RebalanceTimeout drops every member that has not rejoined (scenario action).
func (cl *Cluster) RebalanceTimeoutPossible(group string) bool {
	m := cl.Group(group).ms()
	if m.State != GPreparing {
		return false
	}
	some, missing := false, false
	for _, x := range m.Members {
		if x.joinReq != nil {
			some = true
		} else {
			missing = true
		}
	}
	return some && missing
}

func (cl *Cluster) RebalanceTimeout(group string) {
	m := cl.Group(group).ms()
	for id, x := range m.Members {
		if x.joinReq == nil {
			delete(m.Members, id)
		}
	}
}

// ---- SyncGroup

func (cl *Cluster) syncVariants(r *Req, req *sarama.SyncGroupRequest) []gx.Variant {
	g := cl.Group(req.GroupId)
	m := g.ms()
	answer := func(name string, kerr sarama.KError, assignment []byte, forget bool) gx.Variant {
		return cl.wrap(r, "SyncGroup", name, func() {
			if forget {
				m.remove(req.MemberId)
			}
			cl.logGroup(g, GroupReq{Kind: "SyncGroup", Conn: r.Conn.Label, MemberID: req.MemberId, Generation: req.GenerationId, Answer: name, Err: kerr})
			cl.Respond(r, &sarama.SyncGroupResponse{Err: kerr, MemberAssignment: assignment})
		})
	}
	mem := m.Members[req.MemberId]
	switch {
	case g.Coordinator != r.Conn.Node.ID:
		return []gx.Variant{answer("ok", sarama.ErrNotCoordinatorForConsumer, nil, false)}
	case mem == nil:
		return []gx.Variant{answer("ok", sarama.ErrUnknownMemberId, nil, false)}
	case req.GenerationId != m.Generation:
		return []gx.Variant{answer("ok", sarama.ErrIllegalGeneration, nil, false)}
	case m.State == GPreparing:
		return []gx.Variant{answer("ok", sarama.ErrRebalanceInProgress, nil, false)}
	}
	if !r.prepared {
		r.prepared = true
		if req.MemberId == m.Leader && m.State == GCompleting {
			for id, a := range req.GroupAssignments {
				if x := m.Members[id]; x != nil {
					x.Assignment, x.hasAssign = a, true
				}
			}
			for _, x := range m.Members {
				x.hasAssign = true // members the leader left out get an empty assignment
			}
			m.State = GStable
		}
	}
	var vs []gx.Variant
	if mem.hasAssign {
		vs = append(vs, answer("ok", sarama.ErrNoError, mem.Assignment, false))
		for _, f := range cl.GroupFaults {
			switch f {
			case "sync-rebalance":
				vs = append(vs, answer(f, sarama.ErrRebalanceInProgress, nil, false))
			case "sync-unknown-member":
				vs = append(vs, answer(f, sarama.ErrUnknownMemberId, nil, true))
			case "sync-illegal-generation":
				vs = append(vs, answer(f, sarama.ErrIllegalGeneration, nil, false))
			case "sync-notcoord":
				// the broker stopped being the group's coordinator (the member keeps its registration: the
				// coordinator the member finds next has the group's state)
				vs = append(vs, answer(f, sarama.ErrNotCoordinatorForConsumer, nil, false))
			case "sync-other":
				vs = append(vs, answer(f, sarama.ErrGroupAuthorizationFailed, nil, false))
			case "sync-drop":
				vs = append(vs, cl.wrap(r, "SyncGroup", f, func() {
					cl.logGroup(g, GroupReq{Kind: "SyncGroup", Conn: r.Conn.Label, MemberID: req.MemberId, Generation: req.GenerationId, Answer: f})
					cl.drop(r.Conn)
				}))
			}
		}
	}
	return vs
}

// ---- Heartbeat

func (cl *Cluster) heartbeatVariants(r *Req, req *sarama.HeartbeatRequest) []gx.Variant {
	g := cl.Group(req.GroupId)
	m := g.ms()
	answer := func(name string, kerr sarama.KError, forget bool) gx.Variant {
		return cl.wrap(r, "Heartbeat", name, func() {
			if forget {
				m.remove(req.MemberId)
			}
			cl.logGroup(g, GroupReq{Kind: "Heartbeat", Conn: r.Conn.Label, MemberID: req.MemberId, Generation: req.GenerationId, Answer: name, Err: kerr})
			cl.Respond(r, &sarama.HeartbeatResponse{Err: kerr})
		})
	}
	kerr := sarama.ErrNoError
	switch {
	case g.Coordinator != r.Conn.Node.ID:
		kerr = sarama.ErrNotCoordinatorForConsumer
	case m.Members[req.MemberId] == nil:
		kerr = sarama.ErrUnknownMemberId
	case req.GenerationId != m.Generation:
		kerr = sarama.ErrIllegalGeneration
	case m.State != GStable:
		kerr = sarama.ErrRebalanceInProgress
	}
	vs := []gx.Variant{answer("ok", kerr, false)}
	if kerr == sarama.ErrNoError {
		for _, f := range cl.GroupFaults {
			switch f {
			case "hb-rebalance":
				vs = append(vs, answer(f, sarama.ErrRebalanceInProgress, false))
			case "hb-unknown-member":
				vs = append(vs, answer(f, sarama.ErrUnknownMemberId, true))
			case "hb-illegal-generation":
				vs = append(vs, answer(f, sarama.ErrIllegalGeneration, false))
			case "hb-drop":
				vs = append(vs, cl.wrap(r, "Heartbeat", f, func() {
					cl.logGroup(g, GroupReq{Kind: "Heartbeat", Conn: r.Conn.Label, MemberID: req.MemberId, Generation: req.GenerationId, Answer: f})
					cl.drop(r.Conn)
				}))
			}
		}
	}
	return vs
}

// ---- LeaveGroup

func (cl *Cluster) leaveVariants(r *Req, req *sarama.LeaveGroupRequest) []gx.Variant {
	g := cl.Group(req.GroupId)
	m := g.ms()
	vs := []gx.Variant{cl.wrap(r, "LeaveGroup", "ok", func() {
		kerr := sarama.ErrNoError
		if m.Members[req.MemberId] == nil {
			kerr = sarama.ErrUnknownMemberId
		}
		m.remove(req.MemberId)
		cl.logGroup(g, GroupReq{Kind: "LeaveGroup", Conn: r.Conn.Label, MemberID: req.MemberId, Answer: "ok", Err: kerr})
		cl.Respond(r, &sarama.LeaveGroupResponse{Err: kerr})
	})}
	for _, f := range cl.GroupFaults {
		if f == "leave-drop" {
			vs = append(vs, cl.wrap(r, "LeaveGroup", f, func() {
				cl.logGroup(g, GroupReq{Kind: "LeaveGroup", Conn: r.Conn.Label, MemberID: req.MemberId, Answer: f})
				cl.drop(r.Conn)
			}))
		}
	}
	return vs
}

// GroupCommitGuard is the coordinator's admission rule for offset commits of group members.
func GroupCommitGuard(g *Group, req *sarama.OffsetCommitRequest) sarama.KError {
	if req.ConsumerGroupGeneration < 0 && req.ConsumerID == "" {
		return sarama.ErrNoError // simple consumer commit
	}
	m := g.ms()
	switch {
	case m.Members[req.ConsumerID] == nil:
		return sarama.ErrUnknownMemberId
	case req.ConsumerGroupGeneration != m.Generation:
		return sarama.ErrIllegalGeneration
	case m.State == GCompleting:
		return sarama.ErrRebalanceInProgress
	}
	return sarama.ErrNoError
}

// MembershipDigest summarises the group state for fingerprints.
func (g *Group) MembershipDigest() string {
	m := g.ms()
	s := fmt.Sprintf("st%d gen%d leader=%s [", m.State, m.Generation, m.Leader)
	for _, id := range m.ids() {
		x := m.Members[id]
		s += fmt.Sprintf("%s j%v a%v;", id, x.joinReq != nil, x.hasAssign)
	}
	return s + "]"
}
