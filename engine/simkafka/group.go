package simkafka

import (
	"fmt"

	"github.com/Shopify/sarama"

	"verif/engine/gx"
)

type TP struct {
	Topic     string
	Partition int32
}

type StoredOffset struct {
	Offset   int64
	Metadata string
}

// Group is the coordinator-side state of one consumer group.
type Group struct {
	Name        string
	Coordinator int32
	Offsets     map[TP]StoredOffset
	Commits     []CommitEvent
	M           *membership
}

type CommitEvent struct {
	Conn       string
	Fault      string
	Version    int16
	MemberID   string
	Generation int32
	Retention  int64
	Blocks     []sarama.VerifCommitBlock
	Stored     []bool
}

func (cl *Cluster) Group(name string) *Group {
	if cl.Groups == nil {
		cl.Groups = map[string]*Group{}
	}
	g := cl.Groups[name]
	if g == nil {
		g = &Group{Name: name, Coordinator: cl.Brokers[0].ID, Offsets: map[TP]StoredOffset{}}
		cl.Groups[name] = g
	}
	return g
}

func (cl *Cluster) coordVariants(r *Req, key string) []gx.Variant {
	g := cl.Group(key)
	if cl.CoordDown {
		return []gx.Variant{cl.wrap(r, "FindCoordinator", "down", func() {
			cl.Respond(r, &sarama.FindCoordinatorResponse{Version: r.Version, Err: sarama.ErrConsumerCoordinatorNotAvailable})
		})}
	}
	vs := []gx.Variant{cl.wrap(r, "FindCoordinator", "ok", func() {
		n := cl.node(g.Coordinator)
		cl.Respond(r, &sarama.FindCoordinatorResponse{Version: r.Version, Coordinator: sarama.VerifNewBroker(n.ID, n.Addr)})
	})}
	for _, f := range cl.CoordFaults {
		if f == "drop" {
			vs = append(vs, cl.wrap(r, "FindCoordinator", f, func() { cl.drop(r.Conn) }))
		}
	}
	return vs
}

func (cl *Cluster) offsetFetchVariants(r *Req, req *sarama.OffsetFetchRequest) []gx.Variant {
	g := cl.Group(req.ConsumerGroup)
	answer := func(kerr sarama.KError) {
		res := &sarama.OffsetFetchResponse{Version: req.Version}
		for t, ps := range sarama.VerifOffsetFetchPartitions(req) {
			for _, p := range ps {
				b := &sarama.OffsetFetchResponseBlock{Offset: -1, Err: kerr}
				if g.Coordinator != r.Conn.Node.ID {
					b.Err = sarama.ErrNotCoordinatorForConsumer
				} else if so, ok := g.Offsets[TP{t, p}]; ok && kerr == sarama.ErrNoError {
					b.Offset, b.Metadata = so.Offset, so.Metadata
				}
				res.AddBlock(t, p, b)
			}
		}
		cl.Respond(r, res)
	}
	vs := []gx.Variant{cl.wrap(r, "OffsetFetch", "ok", func() { answer(sarama.ErrNoError) })}
	for _, f := range cl.OffsetFetchFaults {
		switch f {
		case "loading":
			vs = append(vs, cl.wrap(r, "OffsetFetch", f, func() { answer(sarama.ErrOffsetsLoadInProgress) }))
		case "notcoord":
			vs = append(vs, cl.wrap(r, "OffsetFetch", f, func() { answer(sarama.ErrNotCoordinatorForConsumer) }))
		case "other":
			vs = append(vs, cl.wrap(r, "OffsetFetch", f, func() { answer(sarama.ErrGroupAuthorizationFailed) }))
		case "drop":
			vs = append(vs, cl.wrap(r, "OffsetFetch", f, func() { cl.drop(r.Conn) }))
		}
	}
	return vs
}

var commitPartitionFaults = map[string]sarama.KError{
	"notcoord":  sarama.ErrNotCoordinatorForConsumer,
	"loading":   sarama.ErrOffsetsLoadInProgress,
	"toolarge":  sarama.ErrOffsetMetadataTooLarge,
	"unknown":   sarama.ErrUnknownTopicOrPartition,
	"illegal":   sarama.ErrIllegalGeneration,
	"rebalance": sarama.ErrRebalanceInProgress,
}

func (cl *Cluster) commitVariants(r *Req, req *sarama.OffsetCommitRequest) []gx.Variant {
	blocks := sarama.VerifCommitBlocks(req)
	vs := []gx.Variant{cl.wrap(r, "OffsetCommit", "ok", func() { cl.doCommit(r, req, blocks, "ok", -1) })}
	for _, f := range cl.CommitFaults {
		f := f
		if _, ok := commitPartitionFaults[f]; ok || f == "missing" || f == "missing-unstored" {
			for i := range blocks {
				i := i
				name := f
				if len(blocks) > 1 {
					name = fmt.Sprintf("%s@%d", f, blocks[i].Partition)
				}
				vs = append(vs, cl.wrap(r, "OffsetCommit", name, func() { cl.doCommit(r, req, blocks, f, i) }))
			}
			continue
		}
		switch f {
		case "drop", "drop-committed":
			vs = append(vs, cl.wrap(r, "OffsetCommit", f, func() { cl.doCommit(r, req, blocks, f, -1) }))
		default:
			panic("unknown commit fault " + f)
		}
	}
	return vs
}

func (cl *Cluster) doCommit(r *Req, req *sarama.OffsetCommitRequest, blocks []sarama.VerifCommitBlock, fault string, idx int) {
	g := cl.Group(req.ConsumerGroup)
	ev := CommitEvent{Conn: r.Conn.Label, Fault: fault, Version: req.Version, MemberID: req.ConsumerID, Generation: req.ConsumerGroupGeneration, Retention: req.RetentionTime, Blocks: blocks}
	res := &sarama.OffsetCommitResponse{Version: req.Version}
	for i, b := range blocks {
		kerr := sarama.ErrNoError
		store := fault != "drop"
		if g.Coordinator != r.Conn.Node.ID {
			kerr, store = sarama.ErrNotCoordinatorForConsumer, false
		} else if cl.CommitGuard != nil {
			if e := cl.CommitGuard(g, req); e != sarama.ErrNoError {
				kerr, store = e, false
			}
		}
		if idx == i {
			if e, ok := commitPartitionFaults[fault]; ok {
				kerr, store = e, false
			}
			if fault == "missing-unstored" {
				store = false // the coordinator neither stored nor reported this block
			}
		}
		if store && kerr == sarama.ErrNoError {
			g.Offsets[TP{b.Topic, b.Partition}] = StoredOffset{b.Offset, b.Metadata}
		}
		ev.Stored = append(ev.Stored, store && kerr == sarama.ErrNoError)
		if !((fault == "missing" || fault == "missing-unstored") && idx == i) {
			res.AddError(b.Topic, b.Partition, kerr)
		}
	}
	g.Commits = append(g.Commits, ev)
	if fault == "drop" || fault == "drop-committed" {
		cl.drop(r.Conn)
		return
	}
	cl.Respond(r, res)
}
