package simkafka

import (
	"bytes"
	"fmt"
	"strconv"
	"strings"

	"github.com/Shopify/sarama"

	"verif/engine/gx"
)

// per-partition faults (applied to one partition of the request) and connection-level faults
var partitionFaults = map[string]bool{"notleader": true, "moved": true, "timeout-appended": true, "fatal": true, "missing": true, "dupcode": true}
var connFaults = map[string]bool{"drop": true, "drop-appended": true}

func (cl *Cluster) produceVariants(r *Req, req *sarama.ProduceRequest) []gx.Variant {
	batches := sarama.VerifProduceBatches(req)
	vs := []gx.Variant{cl.wrap(r, "Produce", "ok", func() { cl.doProduce(r, req, batches, "ok", -1) })}
	if req.RequiredAcks == sarama.NoResponse {
		return vs
	}
	for _, f := range cl.ProduceFaults {
		f := f
		switch {
		case partitionFaults[f] || strings.HasPrefix(f, "code"):
			if f == "moved" && len(cl.Brokers) < 2 {
				continue
			}
			for i := range batches {
				i := i
				name := f
				if len(batches) > 1 {
					name = fmt.Sprintf("%s@%d", f, batches[i].Partition)
				}
				vs = append(vs, cl.wrap(r, "Produce", name, func() { cl.doProduce(r, req, batches, f, i) }))
			}
		case strings.Contains(f, "~"):
			// "x~y": a request that carries exactly two partitions is answered with fault x for one and fault y for the other
			// (both ways round): one response, two different per-partition outcomes
			xy := strings.SplitN(f, "~", 2)
			if len(batches) == 2 && partitionFaults[xy[0]] && partitionFaults[xy[1]] {
				for _, first := range []int{0, 1} {
					first := first
					name := fmt.Sprintf("%s@%d+%s@%d", xy[0], batches[first].Partition, xy[1], batches[1-first].Partition)
					vs = append(vs, cl.wrap(r, "Produce", name, func() {
						cl.pairFault = map[int]string{first: xy[0], 1 - first: xy[1]}
						cl.doProduce(r, req, batches, f, -2)
						cl.pairFault = nil
					}))
				}
			}
		case connFaults[f]:
			vs = append(vs, cl.wrap(r, "Produce", f, func() { cl.doProduce(r, req, batches, f, -1) }))
		default:
			panic("unknown produce fault " + f)
		}
	}
	return vs
}

func (cl *Cluster) doProduce(r *Req, req *sarama.ProduceRequest, batches []sarama.VerifBatch, fault string, faultIdx int) {
	ev := ProduceEvent{Conn: r.Conn.Label, Broker: r.Conn.Node.ID, Fault: fault, Acks: req.RequiredAcks, Version: req.Version, Raw: r.Raw, Batches: batches, Step: len(cl.C.Choices)}
	res := &sarama.ProduceResponse{Version: req.Version}
	for i, b := range batches {
		f := "ok"
		if faultIdx == i || faultIdx == -1 {
			f = fault
		}
		if faultIdx == -2 {
			f = cl.pairFault[i]
		}
		v := Verdict{Topic: b.Topic, Partition: b.Partition, Base: -1, Answered: true}
		doAppend := f == "ok" || f == "timeout-appended" || f == "drop-appended" || f == "missing" || f == "dupcode"
		p := cl.Part(b.Topic, b.Partition)
		switch {
		case p == nil:
			v.Err, doAppend = sarama.ErrUnknownTopicOrPartition, false
		case p.Leader != r.Conn.Node.ID:
			v.Err, doAppend = sarama.ErrNotLeaderForPartition, false
		}
		if doAppend && b.IsBatch && b.PID >= 0 {
			v.Err, v.Duplicate, v.Base = p.checkSequence(b)
			if v.Err != sarama.ErrNoError || v.Duplicate {
				doAppend = false
			}
		}
		if doAppend {
			v.Base = int64(len(p.Log))
			v.Appended = true
			for k, x := range b.Recs {
				rec := Rec{Key: x.Key, Value: x.Value, Headers: x.Headers, Timestamp: x.Timestamp, PID: b.PID, Epoch: b.Epoch, Seq: -1, ID: RecID(x.Key, x.Value)}
				if b.IsBatch && b.PID >= 0 {
					rec.Seq = b.FirstSeq + int32(k)
				}
				p.Log = append(p.Log, rec)
			}
			if b.IsBatch && b.PID >= 0 {
				p.noteBatch(b, v.Base)
			}
		}
		switch f {
		case "notleader":
			v.Err = sarama.ErrNotLeaderForPartition
		case "moved":
			v.Err = sarama.ErrNotLeaderForPartition
			if p != nil {
				for _, n := range cl.Brokers {
					if n.ID != p.Leader && n.Up {
						p.Leader = n.ID
						p.Replicas = []int32{n.ID}
						break
					}
				}
			}
		case "timeout-appended":
			if v.Err == sarama.ErrNoError {
				v.Err = sarama.ErrRequestTimedOut
			}
		case "fatal":
			v.Err = sarama.ErrMessageSizeTooLarge
		case "dupcode":
			// pre-1.0 broker behaviour for a cached duplicate: the error code instead of the original offset
			if v.Duplicate {
				v.Err, v.Base = sarama.ErrDuplicateSequenceNumber, -1
			}
		case "missing":
			v.Answered = false
		default:
			// "code<N>": the partition is answered with Kafka error code N, nothing is appended
			if strings.HasPrefix(f, "code") {
				if n, err := strconv.Atoi(f[4:]); err == nil && v.Err == sarama.ErrNoError {
					v.Err = sarama.KError(n)
				}
			}
		case "drop", "drop-appended":
			v.Answered = false
		}
		if req.RequiredAcks == sarama.NoResponse {
			v.Answered = false
		}
		if v.Err != sarama.ErrNoError {
			if !v.Duplicate {
				v.Base = -1
			}
		}
		if f != "missing" {
			res.AddTopicPartition(b.Topic, b.Partition, v.Err)
			res.Blocks[b.Topic][b.Partition].Offset = v.Base
		}
		ev.Verdicts = append(ev.Verdicts, v)
	}
	cl.Produced = append(cl.Produced, ev)
	switch {
	case fault == "drop" || fault == "drop-appended":
		cl.drop(r.Conn)
	case req.RequiredAcks == sarama.NoResponse:
	default:
		cl.Respond(r, res)
	}
}

// checkSequence applies Kafka's idempotent-producer rules to an incoming batch.
func (p *Partition) checkSequence(b sarama.VerifBatch) (kerr sarama.KError, duplicate bool, base int64) {
	st := p.pids[b.PID]
	n := int32(len(b.Recs))
	if st == nil {
		// unknown producer: brokers accept any first sequence only if it is 0
		if b.FirstSeq != 0 {
			return sarama.ErrOutOfOrderSequenceNumber, false, -1
		}
		return sarama.ErrNoError, false, -1
	}
	switch {
	case b.Epoch < st.epoch:
		return sarama.ErrInvalidProducerEpoch, false, -1
	case b.Epoch > st.epoch:
		if b.FirstSeq != 0 {
			return sarama.ErrOutOfOrderSequenceNumber, false, -1
		}
		return sarama.ErrNoError, false, -1
	}
	for _, r := range st.recent {
		if r.first == b.FirstSeq && r.last == b.FirstSeq+n-1 {
			return sarama.ErrNoError, true, r.base
		}
	}
	switch {
	case b.FirstSeq == st.nextSeq:
		return sarama.ErrNoError, false, -1
	case len(st.recent) > 0 && b.FirstSeq+n-1 < st.recent[0].first:
		// entirely older than everything still cached: brokers >= 1.0 cannot tell the offset any more
		return sarama.ErrDuplicateSequenceNumber, false, -1
	}
	// neither the next expected sequence nor an exact re-send of a cached batch (this includes a
	// re-send that was re-batched differently): brokers >= 1.0 answer OUT_OF_ORDER_SEQUENCE_NUMBER
	return sarama.ErrOutOfOrderSequenceNumber, false, -1
}

func (p *Partition) noteBatch(b sarama.VerifBatch, base int64) {
	st := p.pids[b.PID]
	if st == nil || b.Epoch > st.epoch {
		st = &pidState{epoch: b.Epoch}
		p.pids[b.PID] = st
	}
	n := int32(len(b.Recs))
	st.recent = append(st.recent, batchRange{b.FirstSeq, b.FirstSeq + n - 1, base})
	if len(st.recent) > 5 {
		st.recent = st.recent[1:]
	}
	st.nextSeq = b.FirstSeq + n
}

// RecID: the harness puts a message's id into its value; a tombstone (no value) carries it in the key.
func RecID(key, value []byte) string {
	if len(value) == 0 && len(key) > 0 {
		return string(key)
	}
	if i := bytes.IndexByte(value, '|'); i >= 0 {
		return string(value[:i]) // a value padded to a given size: "<id>|xxxx..."
	}
	return string(value)
}
