package limrig

import (
	"fmt"
	"os"
	"sort"
	"strings"

	"github.com/Shopify/sarama"

	"verif/engine/gx"
)

// maxOverhead is the largest per-message overhead any format generation adds in sarama's own size
// measure (ProducerMessage.byteSize: 26 for message v0/v1, 5*5+10+1 = 36 for records v2). The property
// says "a message whose size exceeds MaxMessageBytes is rejected": rejection is demanded only when
// key+value alone already exceed the limit, acceptance only when key+value+maxOverhead is below it;
// the zone in between depends on which overhead one counts and is not judged.
const maxOverhead = 36

func (r *rig) judge() *gx.Outcome {
	out := &gx.Outcome{}
	r.mu.Lock()
	defer r.mu.Unlock()
	p := r.p
	cfg := r.cfg()
	if r.setupErr != nil {
		out.Obs = "setup-failed:" + r.setupErr.Error()
		out.Stat("setup-failed")
		return out
	}
	byID := map[string][]event{}
	for _, e := range r.events {
		byID[e.id] = append(byID[e.id], e)
	}
	tooLarge := sarama.ErrMessageSizeTooLarge.Error()

	// ---- what the broker saw
	var reqs []string
	sentIn := map[string]int{} // message id -> number of requests carrying it
	for ri, pe := range r.cl.Produced {
		total := 0
		var parts []string
		for _, b := range pe.Batches {
			kv := 0
			var ids []string
			for _, x := range b.Recs {
				kv += len(x.Key) + len(x.Value)
				id := recID(x.Value)
				ids = append(ids, id)
				sentIn[id]++
				n := idNum(id)
				if n < 0 || n >= r.submitted {
					out.Violate("C04", "alien-record-on-wire", "produce request #%d carried a record the application did not submit (value %.20q)", ri, x.Value)
					continue
				}
				wantK := p.KS[n]
				if wantK < 0 {
					wantK = 0
				}
				if len(x.Value) != p.VS[n] || len(x.Key) != wantK || b.Partition != p.Parts[n] {
					out.Violate("C04", "altered-on-wire", "m%d was submitted with key %d / value %d bytes for partition %d, the request carried key %d / value %d bytes for partition %d", n, p.KS[n], p.VS[n], p.Parts[n], len(x.Key), len(x.Value), b.Partition)
				}
			}
			total += len(b.Recs)
			parts = append(parts, fmt.Sprintf("p%d%v=%dB", b.Partition, ids, kv))
			// clause 2: per-partition batch bytes
			if len(b.Recs) > 1 && kv > p.MMB {
				out.Violate("C16", fmt.Sprintf("partition-batch-exceeds-MaxMessageBytes mmb=%d %s recs=%d over=+%d", p.MMB, p.Gen, len(b.Recs), kv-p.MMB),
					"produce request #%d carried a batch of %d records with %d key+value bytes for partition %d; Producer.MaxMessageBytes=%d allows more than that only for a single message (%s); batch=%v", ri, len(b.Recs), kv, b.Partition, p.MMB, cfg, ids)
			}
			if len(b.Recs) > 1 {
				switch {
				case kv == p.MMB:
					out.Stat("batch-bytes:at-limit")
				case kv > p.MMB-2*maxOverhead-49 && kv < p.MMB:
					out.Stat("batch-bytes:just-below-limit")
				}
			}
		}
		// clause 1: records per request
		if p.FX > 0 && total > p.FX {
			out.Violate("C16", fmt.Sprintf("request-exceeds-Flush.MaxMessages fx=%d %s over=+%d", p.FX, p.Gen, total-p.FX),
				"produce request #%d carried %d messages, Producer.Flush.MaxMessages=%d (%s); content=%v", ri, total, p.FX, cfg, parts)
		}
		if p.FX > 0 && total == p.FX {
			out.Stat("request-count:at-limit")
		}
		if total == 0 {
			// DESIGN.md §8 suspect: not a violation of C16 as stated
			out.Stat("info:empty-produce-request")
		}
		if total > 1 {
			out.Stat("request:multi-message")
		}
		if len(pe.Batches) > 1 {
			out.Stat("request:multi-partition")
		}
		reqs = append(reqs, fmt.Sprintf("#%d(%dB)%v", ri, len(pe.Raw), parts))
	}

	// clause 3: frame length on the wire (every request the client wrote, measured on the byte stream)
	nProduceFrames := 0
	for _, f := range r.frames {
		if f.key == 0 {
			nProduceFrames++
		}
		if f.size > int(r.maxMRS) {
			out.Violate("C16", fmt.Sprintf("request-exceeds-MaxRequestSize mrs=%d %s api=%d over=+%d", r.maxMRS, p.Gen, f.key, f.size-int(r.maxMRS)),
				"the client wrote a request frame of %d bytes (api key %d), sarama.MaxRequestSize=%d (%s)", f.size, f.key, r.maxMRS, cfg)
		}
		if p.MRS > 0 && f.key == 0 {
			switch {
			case f.size == int(r.maxMRS):
				out.Stat("wire:at-limit")
			case f.size == int(r.maxMRS)-1:
				out.Stat("wire:limit-1")
			case f.size > int(r.maxMRS)-10240:
				out.Stat("wire:inside-safety-margin")
			}
		}
	}
	if nProduceFrames < len(r.cl.Produced) {
		out.Violate("ENGINE", "tap-missed-frames", "the wire tap saw %d produce frames, the broker decoded %d", nProduceFrames, len(r.cl.Produced))
	}

	// clause 4: oversize messages are rejected and never sent; messages within the limit are not rejected as oversize
	for i := 0; i < r.accepted; i++ {
		id := msgID(i)
		kv := p.kv(i)
		evs := byID[id]
		rejected := len(evs) > 0 && !evs[0].ok && evs[0].err == tooLarge
		switch {
		case kv > p.MMB:
			out.Stat("size:must-reject")
			if sentIn[id] > 0 {
				out.Violate("C16", fmt.Sprintf("oversize-message-sent mmb=%d %s key=%v over=+%d", p.MMB, p.Gen, p.KS[i] >= 0, kv-p.MMB),
					"%s has %d key+value bytes (key %d, value %d), more than Producer.MaxMessageBytes=%d, and was sent to the broker in %d request(s) instead of being rejected (%s); outcome=%v", id, kv, p.KS[i], p.VS[i], p.MMB, sentIn[id], cfg, evs)
			} else if !rejected {
				what := "no outcome"
				if len(evs) > 0 {
					what = fmt.Sprintf("%+v", evs[0])
				}
				out.Violate("C16", fmt.Sprintf("oversize-message-not-rejected mmb=%d %s key=%v over=+%d", p.MMB, p.Gen, p.KS[i] >= 0, kv-p.MMB),
					"%s has %d key+value bytes, more than Producer.MaxMessageBytes=%d, but did not yield an ErrMessageSizeTooLarge error event: %s (%s)", id, kv, p.MMB, what, cfg)
			}
		case kv+maxOverhead < p.MMB:
			out.Stat("size:must-accept")
			if rejected {
				out.Violate("C16", fmt.Sprintf("message-within-limit-rejected mmb=%d %s kv=%d", p.MMB, p.Gen, kv),
					"%s has %d key+value bytes (+ at most %d bytes of overhead) which does not exceed Producer.MaxMessageBytes=%d, but it was rejected with ErrMessageSizeTooLarge (%s)", id, kv, maxOverhead, p.MMB, cfg)
			}
		default:
			out.Stat("size:zone-not-judged")
			if rejected {
				out.Stat("size:zone-not-judged:rejected")
			} else {
				out.Stat("size:zone-not-judged:accepted")
			}
		}
		// no broker fault anywhere in these scenarios: the only legitimate failures are the size rejection above and a message
		// that cannot travel in any request (judged with a margin: less than half of MaxRequestSize always can). A message
		// within every limit that ends as an error was not sent although a trigger fired (e.g. it was packed into a request
		// that the client itself then refuses to encode)
		if len(p.Faults) == 0 && len(evs) > 0 && !evs[0].ok && evs[0].err != tooLarge && kv+maxOverhead < p.MMB && 2*kv < int(r.maxMRS) {
			out.Violate("C16", fmt.Sprintf("message-within-limits-failed-without-fault %s", p.Gen),
				"%s (%d key+value bytes, within every limit) ended as an error although no broker answered with a fault: %s (%s)", id, kv, evs[0].err, cfg)
		}
	}

	// clause 5: exactly one outcome for every accepted message; shutdown completes
	hang := r.c.Stuck || !(r.closing && r.succDone && r.errDone)
	var lost []string
	for i := 0; i < r.accepted; i++ {
		id := msgID(i)
		switch n := len(byID[id]); {
		case n == 0:
			lost = append(lost, id)
		case n > 1:
			out.Violate("C16", "two-outcomes "+p.Gen, "message %s got %d terminal events (%s): %v", id, n, cfg, byID[id])
		}
	}
	for id := range byID {
		if n := idNum(id); n < 0 || n >= r.submitted {
			out.Violate("C01", "alien-outcome", "a terminal event was emitted for a message the application never submitted (Metadata=%q)", id)
		}
	}
	if len(r.c.Panics) > 0 {
		out.Violate("C12", "producer-panic", "a producer goroutine panicked: %s", firstLine(r.c.Panics[0]))
	}
	// A configuration with only Flush.Messages / Flush.Bytes and no Flush.Frequency has no trigger that
	// can fire for a buffer below the thresholds; C16 does not demand a flush there. That AsyncClose then
	// never completes (it waits for the in-flight messages, the broker worker waits for a trigger) is a
	// matter of C12/C01, not of C16.
	noTrigger := p.FF == 0 && (p.FM > 0 || p.FB > 0)
	if hang {
		below := len(lost) > 0 && (p.FM == 0 || len(lost) < p.FM)
		if noTrigger && below && len(r.live) == 0 {
			out.Stat("info:close-hangs-below-threshold-no-frequency")
			out.Violate("C12", "close-hangs buffered-below-Flush-threshold no-Flush.Frequency", "AsyncClose never completes: %v stay buffered below the Flush.Messages/Flush.Bytes thresholds and no Flush.Frequency is set (%s)", lost, cfg)
		} else {
			out.Violate("C16", "no-outcome close-hangs "+p.Gen+" "+trigName(p), "AsyncClose did not complete and %v never got an outcome (%s); Successes closed=%v Errors closed=%v pending=%s", lost, cfg, r.succDone, r.errDone, r.cl.PendingKinds())
		}
	} else if len(lost) > 0 {
		out.Violate("C16", "no-outcome "+p.Gen+" "+trigName(p), "%v were accepted on Input() but never got a success or error event although the producer shut down (%s)", lost, cfg)
	}

	// clause 6: flush liveness (collected at the quiescent points)
	seenSig := map[string]bool{}
	for _, l := range r.live {
		if !seenSig[l.sig] {
			seenSig[l.sig] = true
			out.Violate("C16", l.sig, "%s", l.msg)
		}
	}

	// ---- observation
	var evs []string
	for _, e := range r.events {
		if e.ok {
			evs = append(evs, e.id+":ok")
		} else {
			evs = append(evs, fmt.Sprintf("%s:err(%s)", e.id, e.err))
		}
	}
	sort.Strings(evs)
	out.Obs = fmt.Sprintf("events=%v requests=%v", evs, reqs)
	if hang {
		out.Obs += " HANG"
	}
	for k, v := range r.stats {
		for i := 0; i < v; i++ {
			out.Stat(k)
		}
	}
	if len(r.cl.Produced) > 0 || len(r.events) > 0 {
		out.Stat("nontrivial-executions")
	}
	out.Stat("trigger:" + trigName(p))
	out.Stat("gen:" + p.Gen)
	if os.Getenv("VERIF_REPLAY") != "" {
		var sb strings.Builder
		fmt.Fprintf(&sb, "  config: %s\n", cfg)
		for i := range p.VS {
			fmt.Fprintf(&sb, "  m%d: key=%d value=%d partition=%d outcome=%v\n", i, p.KS[i], p.VS[i], p.Parts[i], byID[msgID(i)])
		}
		for i, f := range r.frames {
			fmt.Fprintf(&sb, "  frame#%d api=%d bytes=%d\n", i, f.key, f.size)
		}
		for _, s := range reqs {
			fmt.Fprintf(&sb, "  produce %s\n", s)
		}
		out.Detail = sb.String()
	}
	return out
}

func trigName(p *Params) string {
	var t []string
	if p.FM > 0 {
		t = append(t, "messages")
	}
	if p.FB > 0 {
		t = append(t, "bytes")
	}
	if p.FF > 0 {
		t = append(t, "frequency")
	}
	if len(t) == 0 {
		return "immediate"
	}
	return strings.Join(t, "+")
}

func firstLine(s string) string {
	if i := strings.IndexByte(s, '\n'); i >= 0 {
		return s[:i]
	}
	return s
}
