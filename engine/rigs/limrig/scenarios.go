package limrig

import (
	"fmt"
	"strings"

	"verif/engine/ev"
	"verif/engine/gx"
)

var Assumptions = []string{
	"simkafka (engine/simkafka) decodes produce requests with sarama's own decoder (the codec is judged independently by C09/C10); frame lengths are measured by a tap on the raw byte stream the client writes, independent of that decoder",
	"one broker leading 1-2 partitions of one topic, no broker faults (C16 quantifies over sizes, configurations, versions and response latency, not over faults); Retry.Max=1, compression none (one small group of scenarios per codec for the oversize clause), manual partitioner, ChannelBufferSize=16",
	"sarama.MaxRequestSize (a package variable) is lowered to 12288 inside the executions of the wire family and restored afterwards; sarama subtracts a fixed 10 KiB safety margin from it when batching",
	"rejection of oversize messages is judged with a margin: demanded when key+value alone exceed MaxMessageBytes, forbidden when key+value+36 (the largest per-message overhead of any format) is below it, not judged in between",
	"flush liveness is judged at quiescent points (every goroutine durably blocked, fake clock): with nothing pending at the broker, buffered messages must be below every configured threshold, absent when no Flush setting exists, and a full Flush.Frequency of fake time with nothing in flight must make a request arrive; a configuration with only Flush.Messages/Flush.Bytes and no Frequency is not required to flush a buffer below the thresholds (and the AsyncClose hang that follows is attributed to C12, not C16)",
	"interleavings are explored at broker answers (latency: an answer left pending while more input is released), application submits, Flush.Frequency ticks and AsyncClose; not at every memory access",
	"channel-based sync shim replaces sync.Mutex/RWMutex/Once inside package sarama (overlay) so that lock waits are durably blocking",
}

// retryGates: with a fault in the alphabet messages travel the retry path, whose merge points must be owned by the controller
const retryGates = "pp.send,pp.fin,pp.flush,bridge.take,retryBatch.out,retryBatch.start"

const (
	MMB = 200   // Producer.MaxMessageBytes of the message/batch family
	MRS = 12288 // lowered sarama.MaxRequestSize of the wire family (sarama batches up to MRS-10240 = 2048)
)

type genInfo struct {
	name, ver string
	ovh       int // per-message overhead in sarama's estimate
	fixed     int // per-batch overhead in sarama's estimate
}

var gens = []genInfo{
	{"v0", "0.8.2.0", 26, 0},
	{"v1", "0.10.2.0", 26, 0},
	{"v2", "0.11.0.0", 36, 49},
}

// Scenarios: the schedule layer (GX): all executions with at most B deviations from the default policy
// (an answer postponed while input is released, an early tick, an early AsyncClose, ...).
func Scenarios() []gx.Sc {
	out := []gx.Sc{
		// partition-batch limit and count limit under latency, record batches
		{Name: "lim?ver=0.11.0.0&mmb=200&vs=6,39,40,100&ff=100&fx=2&policy=input&closeany=1", Q: 3, T: 5},
		{Name: "lim?ver=0.11.0.0&mmb=200&vs=6,6,6,6&parts=0,1,0,1&fx=2&policy=input", Q: 4, T: 6},
		{Name: "lim?ver=2.1.0&mmb=200&vs=39,39,40,165&ks=-1,-1,-1,-1&parts=0,0,1,1&fm=2&ff=100&closeany=1", Q: 3, T: 5},
		// message sets v1 / v0
		{Name: "lim?ver=0.10.2.0&mmb=200&vs=73,74,74,6&fm=3&ff=100&fx=3&policy=input", Q: 3, T: 5},
		{Name: "lim?ver=0.8.2.0&mmb=200&vs=37,40,100,98&ks=37,34,-1,3&fb=120&ff=100&closeany=1", Q: 3, T: 5},
		{Name: "lim?ver=0.8.2.0&mmb=200&vs=6,174,175,201&ks=-1,-1,-1,3&policy=input&closeany=1", Q: 3, T: 5},
		// lone message and the timer, after an earlier flush
		{Name: "lim?ver=0.11.0.0&vs=6,6,6&ff=100&fm=5&fb=4000&closeany=1", Q: 4, T: 6},
		{Name: "lim?ver=0.10.2.0&vs=6,6&ff=100&closeany=1", Q: 4, T: 6},
		// request-size limit
		{Name: fmt.Sprintf("lim?ver=0.11.0.0&mrs=%d&vs=963,964,2100,8&ff=100&policy=input&closeany=1", MRS), Q: 3, T: 5},
		{Name: fmt.Sprintf("lim?ver=0.8.2.0&mrs=%d&vs=998,998,%d,8&parts=0,1,0,1&policy=input", MRS, MRS-71), Q: 3, T: 5},
	}
	// a retriable error for one partition while a message of ANOTHER partition waits for space in the broker worker: what
	// the failed partition gives back is not room in the other partition's batch
	out = append(out,
		gx.Sc{Name: "lim?ver=0.11.0.0&mmb=200&vs=6,6,39,39,40&parts=0,0,1,1,1&policy=input&faults=notleader&gates=" + retryGates, Q: 2, T: 3},
		gx.Sc{Name: "lim?ver=0.10.2.0&mmb=200&vs=6,6,73,73,74&parts=0,0,1,1,1&policy=input&faults=notleader&gates=" + retryGates, Q: 2, T: 3},
	)
	// a lowered MaxRequestSize and messages that are each far below every limit but together exceed it, spread over two
	// partitions so that no partition batch comes near MaxMessageBytes: the request must be cut, not refused as a whole
	for _, g := range gens {
		out = append(out, gx.Sc{Name: fmt.Sprintf("lim?ver=%s&mrs=%d&vs=5000,5000,5000,5000,8&parts=0,1,0,1,0&policy=input&closeany=1", g.ver, MRS), Q: 2, T: 3})
	}
	// a compression codec does not lift the message limit: an oversize message is refused under every codec and format
	for _, g := range gens {
		for _, codec := range []string{"gzip", "snappy", "lz4"} {
			if codec == "lz4" && g.name == "v0" {
				continue // needs message format v1
			}
			out = append(out, gx.Sc{Name: fmt.Sprintf("lim?ver=%s&mmb=%d&codec=%s&vs=6,%d,6,%d&ks=-1,-1,-1,3&policy=input&closeany=1", g.ver, MMB, codec, MMB+1, MMB+100), Q: 1, T: 2})
		}
	}
	// a systematic layer: five messages per generation, sizes straddling the batch estimate, two partitions,
	// every trigger kind, latency (policy input) and early close
	for _, g := range gens {
		hb := (MMB - g.fixed - 2*g.ovh) / 2
		h := (MRS - 10240 - g.fixed - 2*g.ovh) / 2
		out = append(out,
			gx.Sc{Name: fmt.Sprintf("lim?ver=%s&mmb=%d&vs=%d,%d,6,%d,6&parts=0,0,1,0,1&fm=2&ff=100&fx=2&policy=input&closeany=1", g.ver, MMB, hb, hb+1, MMB-g.ovh), Q: 3, T: 4},
			gx.Sc{Name: fmt.Sprintf("lim?ver=%s&mmb=%d&vs=%d,3,6,%d,6&ks=%d,%d,4,-1,0&parts=0,0,0,1,1&fb=120&ff=100&closeany=1", g.ver, MMB, hb/2, MMB+1, hb-hb/2, hb-2), Q: 3, T: 4},
			gx.Sc{Name: fmt.Sprintf("lim?ver=%s&mmb=%d&vs=6,6,6,6,6&parts=0,0,1,1,0&fx=2&policy=input&closeany=1", g.ver, MMB), Q: 3, T: 4},
			gx.Sc{Name: fmt.Sprintf("lim?ver=%s&mrs=%d&vs=%d,%d,8,2100,8&parts=0,1,0,1,0&fm=3&ff=100&policy=input&closeany=1", g.ver, MRS, h, h+1), Q: 3, T: 4},
		)
	}
	return out
}

func join(a []int) string {
	s := make([]string, len(a))
	for i, x := range a {
		s[i] = fmt.Sprint(x)
	}
	return strings.Join(s, ",")
}

// vectors enumerates alphabet^n.
func vectors(alphabet []int, n int) [][]int {
	out := [][]int{{}}
	for i := 0; i < n; i++ {
		var next [][]int
		for _, v := range out {
			for _, a := range alphabet {
				next = append(next, append(append([]int{}, v...), a))
			}
		}
		out = next
	}
	return out
}

type flushCfg struct{ fm, fb, ff, fx int }

func flushCfgs(fmv, fbv, ffv, fxv int) []flushCfg {
	var out []flushCfg
	for _, fm := range []int{0, fmv} {
		for _, fb := range []int{0, fbv} {
			for _, ff := range []int{0, ffv} {
				for _, fx := range []int{0, fxv} {
					if fx > 0 && fx < fm {
						continue // rejected by Config.Validate
					}
					out = append(out, flushCfg{fm, fb, ff, fx})
				}
			}
		}
	}
	return out
}

func (f flushCfg) q() string {
	return fmt.Sprintf("&fm=%d&fb=%d&ff=%d&fx=%d", f.fm, f.fb, f.ff, f.fx)
}

// MsgAlphabet: key+value sizes around every boundary of the message / partition-batch limit for one
// format generation: small; two of them just below / exactly at / just above sarama's batch estimate;
// half of the limit in raw bytes (two of them hit the property's limit exactly); exactly at sarama's
// per-message measure; one above it (not judged zone); the limit in raw bytes (not judged zone); one
// above the limit in raw bytes (must be rejected).
func MsgAlphabet(g genInfo, size int) []int {
	hb := (MMB - g.fixed - 2*g.ovh) / 2
	switch size {
	case 9:
		return []int{6, hb - 1, hb, hb + 1, MMB / 2, MMB - g.ovh, MMB - g.ovh + 1, MMB, MMB + 1}
	case 6:
		return []int{6, hb - 1, hb, MMB / 2, MMB - g.ovh, MMB + 1}
	}
	return []int{6, hb, MMB / 2, MMB - g.ovh, MMB + 1}
}

// WireAlphabet: value sizes around sarama's batching threshold MRS-10240 (two of them just below / at /
// above it) plus one that exceeds it alone.
func WireAlphabet(g genInfo) []int {
	h := (MRS - 10240 - g.fixed - 2*g.ovh) / 2
	return []int{8, h - 1, h, h + 1, 2100}
}

var layouts = map[int][][]int{
	1: {{0}},
	2: {{0, 0}, {0, 1}},
	3: {{0, 0, 0}, {0, 1, 0}},
	4: {{0, 0, 0, 0}, {0, 1, 0, 1}, {0, 0, 1, 0}},
	5: {{0, 0, 0, 0, 0}, {0, 1, 0, 1, 0}},
}

// Family: the bounded-exhaustive input/configuration family, each member run through the real producer
// with its default schedule (policy drain: one message at a time; policy input: all input released while
// the first answer is left pending, so that batches accumulate behind the in-flight request).
func Family(thorough bool) []string {
	big, _ := families(thorough)
	return spread(big)
}

// SmallFamily: the sub-families with few members (count limit B, request-size boundary C1, lone messages
// D); they are explored with deviations (bound 1 quick, 2 thorough) on top of the default schedule.
func SmallFamily(thorough bool) []string {
	_, small := families(thorough)
	return spread(small)
}

func families(thorough bool) (out, small []string) {
	// ---- A: MaxMessageBytes (message rejection + partition batch) x Flush.* x generation x layout x keys x latency
	lens := []int{3}
	if thorough {
		lens = []int{3, 4}
	}
	for _, g := range gens {
		for _, n := range lens {
			alpha := MsgAlphabet(g, 6)
			if thorough && n == 3 {
				alpha = MsgAlphabet(g, 9)
			} else if n == 4 {
				alpha = MsgAlphabet(g, 5)
			}
			for _, kvs := range vectors(alpha, n) {
				keyModes := []string{"nil", "half"}
				if thorough && n == 3 {
					keyModes = append(keyModes, "heavy")
				}
				for _, keyed := range keyModes {
					vs, ks := make([]int, n), make([]int, n)
					for i, kv := range kvs {
						switch keyed {
						case "half":
							ks[i] = kv / 2
							vs[i] = kv - kv/2
						case "heavy": // the key carries all but the three bytes of the message id
							ks[i] = kv - 3
							vs[i] = 3
						default:
							ks[i], vs[i] = -1, kv
						}
					}
					for _, lay := range layouts[n] {
						for _, f := range flushCfgs(2, 120, 100, 2) {
							for _, pol := range []string{"drain", "input"} {
								out = append(out, fmt.Sprintf("lim?ver=%s&mmb=%d&vs=%s&ks=%s&parts=%s%s&policy=%s", g.ver, MMB, join(vs), join(ks), join(lay), f.q(), pol))
							}
						}
					}
				}
			}
		}
	}
	// ---- B: count limit with 3-5 small messages (the request behind the in-flight one fills up; a later message opens a new partition batch)
	for _, g := range gens {
		for _, lay := range [][]int{{0, 0, 0, 0, 0}, {0, 1, 0, 1, 0}, {0, 0, 1, 1, 0}, {0, 0, 0, 1, 1}, {0, 0, 1}, {0, 1, 1}, {0, 0, 0, 1}, {0, 1, 0, 0}} {
			vs := make([]int, len(lay))
			for i := range vs {
				vs[i] = 6
			}
			for _, f := range flushCfgs(2, 60, 100, 2) {
				for _, pol := range []string{"drain", "input"} {
					small = append(small, fmt.Sprintf("lim?ver=%s&mmb=%d&vs=%s&parts=%s%s&policy=%s", g.ver, MMB, join(vs), join(lay), f.q(), pol))
				}
			}
		}
	}
	// ---- C1: MaxRequestSize, one big message whose frame straddles the limit byte by byte (followed by a small one)
	for _, g := range gens {
		for v := MRS - 150; v <= MRS+2; v++ {
			small = append(small, fmt.Sprintf("lim?ver=%s&mrs=%d&vs=%d,8&ks=-1,-1", g.ver, MRS, v))
			if thorough || v%3 == 0 {
				small = append(small, fmt.Sprintf("lim?ver=%s&mrs=%d&vs=%d,8&ks=500,-1&policy=input&ff=100", g.ver, MRS, v-500))
			}
		}
	}
	// ---- C2: MaxRequestSize, accumulation around sarama's batching threshold x Flush.* x generation x layout x latency
	lens = []int{3}
	if thorough {
		lens = []int{3, 4}
	}
	for _, g := range gens {
		for _, n := range lens {
			for _, vs := range vectors(WireAlphabet(g), n) {
				for _, lay := range layouts[n][:2] {
					for _, f := range flushCfgs(3, 1500, 100, 2) {
						for _, pol := range []string{"drain", "input"} {
							out = append(out, fmt.Sprintf("lim?ver=%s&mrs=%d&vs=%s&parts=%s%s&policy=%s", g.ver, MRS, join(vs), join(lay), f.q(), pol))
						}
					}
				}
			}
		}
	}
	// ---- D: lone message: every trigger combination x generation, one message at a time, three in a row
	for _, g := range gens {
		for _, fm := range []int{0, 1, 2} {
			for _, fb := range []int{0, 20, 4000} {
				for _, ff := range []int{0, 100} {
					for _, n := range []int{1, 3} {
						for _, keyed := range []int{-1, 4} {
							vs, ks := make([]int, n), make([]int, n)
							for i := range vs {
								vs[i], ks[i] = 6, keyed
							}
							small = append(small, fmt.Sprintf("lim?ver=%s&vs=%s&ks=%s&fm=%d&fb=%d&ff=%d", g.ver, join(vs), join(ks), fm, fb, ff))
						}
					}
				}
			}
		}
	}
	return out, small
}

// spread permutes the family with a fixed multiplicative stride so that every prefix (a run cut by the
// internal deadline) is a uniform cross-section of all sub-families; VERIF_SEED rotates the start.
func spread(in []string) []string {
	n := len(in)
	if n < 3 {
		return in
	}
	stride := 7919
	for gcd(stride, n) != 1 {
		stride++
	}
	out := make([]string, n)
	start := (ev.Seed() * 104729) % n
	if start < 0 {
		start += n
	}
	for i := range out {
		out[i] = in[(start+i*stride)%n]
	}
	return out
}

func gcd(a, b int) int {
	for b != 0 {
		a, b = b, a%b
	}
	return a
}

const FamilyRule = "A: every vector of 3 key+value sizes over the per-generation boundary alphabet of MaxMessageBytes=200 (quick: 6 letters; thorough: all 9 letters, and vectors of 4 over 5 letters) " +
	"(small; pairs just below/at/above sarama's partition-batch estimate; half the limit; exactly at / one above sarama's per-message measure; the limit and limit+1 in raw bytes) " +
	"x keys nil / key = half of the bytes (thorough, vectors of 3: also key = all but 3 bytes) x partition layouts x Flush{Messages 0/2, Bytes 0/120, Frequency 0/100ms, MaxMessages 0/2} x generation v0/v1/v2 x policy drain/input; " +
	"B: three to five small messages x eight partition layouts (a later message opening a new partition batch) x the same Flush matrix (count limit); C1: MaxRequestSize=12288 and one message whose value length runs byte by byte over [limit-150, limit+2] (nil key; key of 500 bytes) x generation; " +
	"C2: vectors of 3 (thorough: 4) value sizes around sarama's batching threshold (MaxRequestSize-10KiB) x Flush matrix x layouts x generation x policy; " +
	"D: lone messages (1 or 3 in a row, one at a time) x Flush.Messages 0/1/2 x Flush.Bytes 0/20/4000 x Flush.Frequency 0/100ms x generation. " +
	"Every member of A and C2 is executed through the real client+producer against the simulated broker with its default schedule, every member of B, C1 and D with all schedules of at most 1 (quick) / 2 (thorough) deviations; non-trivial = at least one produce request reached the broker's oracle or a message was rejected"
