// Package limrig: the rig of C16 ("produce requests respect the configured size and count limits, and
// flush on time"). Real NewClient + NewAsyncProducerFromClient against simkafka (one broker, 1-2
// partitions), messages of exactly chosen key/value sizes, every Flush.* / MaxMessageBytes /
// MaxRequestSize setting a scenario parameter. Everything the oracle judges is measured at the
// simulated broker (decoded produce requests) and on the raw byte stream the client writes (a tap
// around the dialled connection), never inside sarama.
package limrig

import (
	"encoding/binary"
	"fmt"
	"net"
	"net/url"
	"sort"
	"strconv"
	"strings"
	"sync"
	"testing/synctest"
	"time"

	"github.com/Shopify/sarama"

	"verif/engine/gx"
	"verif/engine/simkafka"
)

type Params struct {
	Version  sarama.KafkaVersion
	Gen      string // v0 | v1 | v2 : message format generation (its per-message overhead estimate differs)
	MMB      int    // Producer.MaxMessageBytes
	MRS      int    // sarama.MaxRequestSize is lowered to this inside the execution (0 = untouched)
	FM       int    // Flush.Messages
	FB       int    // Flush.Bytes
	FF       time.Duration
	FX       int     // Flush.MaxMessages
	VS       []int   // value size of message i (>= 3: the value starts with "m<i>|")
	KS       []int   // key size of message i, -1 = nil key
	Parts    []int32 // partition of message i (manual partitioner)
	NParts   int
	Policy   string                  // drain | input
	CloseAny bool                    // AsyncClose offered at every decision point after the first submit
	Gates    map[string]bool         // gate sites that are decision points (needed with faults: the retry path has merge points)
	Codec    sarama.CompressionCodec // codec=gzip|snappy|lz4 (default none): the size limits are stated on key+value bytes whatever the codec
	Faults   []string                // produce faults the broker may answer with (default none: C16 quantifies over sizes and latency)
}

func atoi(v url.Values, k string, def int) int {
	if s := v.Get(k); s != "" {
		n, err := strconv.Atoi(s)
		if err != nil {
			panic(err)
		}
		return n
	}
	return def
}

func ints(s string) ([]int, error) {
	var out []int
	if s == "" {
		return nil, nil
	}
	for _, x := range strings.Split(s, ",") {
		n, err := strconv.Atoi(x)
		if err != nil {
			return nil, err
		}
		out = append(out, n)
	}
	return out, nil
}

func Parse(v url.Values) (*Params, error) {
	p := &Params{
		MMB: atoi(v, "mmb", 1000000), MRS: atoi(v, "mrs", 0), FM: atoi(v, "fm", 0), FB: atoi(v, "fb", 0),
		FF: time.Duration(atoi(v, "ff", 0)) * time.Millisecond, FX: atoi(v, "fx", 0), Policy: v.Get("policy"),
		CloseAny: atoi(v, "closeany", 0) == 1, Faults: splitNonEmpty(v.Get("faults")), Gates: gateSet(v.Get("gates")),
	}
	if p.Policy == "" {
		p.Policy = "drain"
	}
	switch v.Get("codec") {
	case "gzip":
		p.Codec = sarama.CompressionGZIP
	case "snappy":
		p.Codec = sarama.CompressionSnappy
	case "lz4":
		p.Codec = sarama.CompressionLZ4
	}
	ver := v.Get("ver")
	if ver == "" {
		ver = "2.1.0"
	}
	kv, err := sarama.ParseKafkaVersion(ver)
	if err != nil {
		return nil, err
	}
	p.Version = kv
	switch {
	case kv.IsAtLeast(sarama.V0_11_0_0):
		p.Gen = "v2"
	case kv.IsAtLeast(sarama.V0_10_0_0):
		p.Gen = "v1"
	default:
		p.Gen = "v0"
	}
	if p.VS, err = ints(v.Get("vs")); err != nil {
		return nil, err
	}
	if len(p.VS) == 0 {
		return nil, fmt.Errorf("lim: no messages (vs=)")
	}
	for _, n := range p.VS {
		if n < 3 {
			return nil, fmt.Errorf("lim: value size %d < 3", n)
		}
	}
	if p.KS, err = ints(v.Get("ks")); err != nil {
		return nil, err
	}
	for len(p.KS) < len(p.VS) {
		p.KS = append(p.KS, -1)
	}
	ps, err := ints(v.Get("parts"))
	if err != nil {
		return nil, err
	}
	for i := range p.VS {
		x := 0
		if i < len(ps) {
			x = ps[i]
		}
		p.Parts = append(p.Parts, int32(x))
		if x >= p.NParts {
			p.NParts = x + 1
		}
	}
	if len(p.VS) > 9 {
		return nil, fmt.Errorf("lim: at most 9 messages")
	}
	return p, nil
}

func init() {
	gx.RegisterRig("lim", func(v url.Values) (*gx.Scenario, error) {
		p, err := Parse(v)
		if err != nil {
			return nil, err
		}
		return &gx.Scenario{Run: func(c *gx.Ctl) *gx.Outcome { return run(c, p) }}, nil
	})
}

type event struct {
	id  string
	ok  bool
	err string
}

// frame: one complete request frame seen on the byte stream the client wrote.
type frame struct {
	size int   // length prefix included
	key  int16 // api key
}

type liveV struct{ sig, msg string }

type rig struct {
	p         *Params
	c         *gx.Ctl
	cl        *simkafka.Cluster
	mu        sync.Mutex
	events    []event
	submitted int
	accepted  int
	closing   bool
	succDone  bool
	errDone   bool
	prod      sarama.AsyncProducer
	client    sarama.Client
	submitCh  chan *sarama.ProducerMessage
	setupErr  error
	frames    []frame

	// quiescent-point bookkeeping for the flush-liveness clauses
	obsAt       int // number of choices taken when the last observation was made (-1 = none)
	prevPending bool
	prevOutst   int
	prevSeen    int
	live        []liveV
	stats       map[string]int
	maxMRS      int32
}

func msgID(i int) string { return "m" + strconv.Itoa(i) }

func value(i, n int) []byte {
	s := msgID(i) + "|"
	return []byte(s + strings.Repeat("x", n-len(s)))
}

func key(n int) sarama.Encoder {
	if n < 0 {
		return nil
	}
	return sarama.ByteEncoder([]byte(strings.Repeat("k", n)))
}

func (p *Params) kv(i int) int {
	k := p.KS[i]
	if k < 0 {
		k = 0
	}
	return k + p.VS[i]
}

// recID extracts the harness message id from a record value ("m<i>|xxxx").
func recID(v []byte) string {
	if i := strings.IndexByte(string(v), '|'); i > 0 {
		return string(v[:i])
	}
	return ""
}

func idNum(id string) int {
	if !strings.HasPrefix(id, "m") {
		return -1
	}
	n, err := strconv.Atoi(id[1:])
	if err != nil {
		return -1
	}
	return n
}

// ---- wire tap: measures request frames on the byte stream written by the client, independently of
// what the simulated broker's decoder makes of them.
type tapDialer struct{ r *rig }

func (d tapDialer) Dial(network, addr string) (net.Conn, error) {
	c, err := d.r.cl.Dial(network, addr)
	if err != nil {
		return nil, err
	}
	return &tapConn{Conn: c, r: d.r}, nil
}

type tapConn struct {
	net.Conn
	r   *rig
	buf []byte
}

func (t *tapConn) Write(b []byte) (int, error) {
	n, err := t.Conn.Write(b)
	if n > 0 {
		t.r.mu.Lock()
		t.buf = append(t.buf, b[:n]...)
		for len(t.buf) >= 8 {
			l := int(binary.BigEndian.Uint32(t.buf))
			if l < 4 || len(t.buf) < 4+l {
				break
			}
			t.r.frames = append(t.r.frames, frame{size: 4 + l, key: int16(binary.BigEndian.Uint16(t.buf[4:]))})
			t.buf = t.buf[4+l:]
		}
		t.r.mu.Unlock()
	}
	return n, err
}

func run(c *gx.Ctl, p *Params) *gx.Outcome {
	r := &rig{p: p, c: c, submitCh: make(chan *sarama.ProducerMessage, 16), obsAt: -1, stats: map[string]int{}}
	cl := simkafka.New(c)
	r.cl = cl
	cl.AddBroker(1)
	var leaders []int32
	for i := 0; i < p.NParts; i++ {
		leaders = append(leaders, 1)
	}
	cl.AddTopic("t", leaders...)
	cl.UrgentMetadata = true
	cl.ProduceFaults = p.Faults
	c.AutoRelease = func(site string) bool { return !p.Gates[site] }

	// MaxRequestSize is a package variable: lowered for this execution only (executions of a process are
	// sequential), restored when the execution is over.
	oldMRS := sarama.MaxRequestSize
	if p.MRS > 0 {
		sarama.MaxRequestSize = int32(p.MRS)
	}
	r.maxMRS = sarama.MaxRequestSize
	defer func() { sarama.MaxRequestSize = oldMRS }()

	conf := sarama.NewConfig()
	conf.Version = p.Version
	conf.Net.Proxy.Enable = true
	conf.Net.Proxy.Dialer = tapDialer{r}
	conf.Producer.Return.Successes = true
	conf.Producer.Return.Errors = true
	conf.Metadata.RefreshFrequency = 0
	conf.Metadata.Retry.Max = 0
	conf.Metadata.Retry.Backoff = 0
	conf.Producer.Retry.Backoff = 0
	conf.Producer.Retry.Max = 1
	conf.Producer.Partitioner = sarama.NewManualPartitioner
	conf.Producer.MaxMessageBytes = p.MMB
	conf.Producer.Compression = p.Codec
	conf.Producer.Flush.Messages = p.FM
	conf.Producer.Flush.Bytes = p.FB
	conf.Producer.Flush.Frequency = p.FF
	conf.Producer.Flush.MaxMessages = p.FX
	conf.ChannelBufferSize = 16

	go func() {
		client, err := sarama.NewClient([]string{"b1:9092"}, conf)
		if err != nil {
			r.mu.Lock()
			r.setupErr = err
			r.mu.Unlock()
			return
		}
		r.mu.Lock()
		r.client = client
		r.mu.Unlock()
		prod, err := sarama.NewAsyncProducerFromClient(client)
		if err != nil {
			r.mu.Lock()
			r.setupErr = err
			r.mu.Unlock()
			return
		}
		go func() {
			for m := range prod.Successes() {
				id, _ := m.Metadata.(string)
				r.mu.Lock()
				r.events = append(r.events, event{id: id, ok: true})
				r.mu.Unlock()
			}
			r.mu.Lock()
			r.succDone = true
			r.mu.Unlock()
		}()
		go func() {
			for e := range prod.Errors() {
				id, _ := e.Msg.Metadata.(string)
				r.mu.Lock()
				r.events = append(r.events, event{id: id, ok: false, err: e.Err.Error()})
				r.mu.Unlock()
			}
			r.mu.Lock()
			r.errDone = true
			r.mu.Unlock()
		}()
		go func() {
			for m := range r.submitCh {
				prod.Input() <- m
				r.mu.Lock()
				r.accepted++
				r.mu.Unlock()
			}
		}()
		r.mu.Lock()
		r.prod = prod
		r.mu.Unlock()
	}()

	c.Providers = append(c.Providers, r.actors)
	c.Digest = r.digest
	c.Loop(func() bool {
		r.mu.Lock()
		defer r.mu.Unlock()
		return r.setupErr != nil || (r.closing && r.succDone && r.errDone)
	})
	out := r.judge()
	// teardown
	close(r.submitCh)
	c.ReleaseAll()
	r.mu.Lock()
	client := r.client
	r.mu.Unlock()
	if client != nil {
		done := make(chan struct{})
		go func() { client.Close(); close(done) }()
		synctest.Wait()
	}
	cl.CloseAll()
	synctest.Wait()
	return out
}

// produceSeen counts the produce requests that have arrived at the simulated broker so far (answered
// or still pending).
func (r *rig) produceSeen() int {
	return len(r.cl.Produced) + strings.Count(r.cl.PendingKinds(), ":Produce")
}

// observe is evaluated once at every quiescent point (every goroutine of the system durably blocked):
// the flush-liveness clauses of C16 are statements about these points.
func (r *rig) observe() {
	n := len(r.c.Choices)
	if r.obsAt == n {
		return
	}
	r.obsAt = n
	p := r.p
	pendingStr := r.cl.PendingKinds()
	pending := pendingStr != ""
	seen := r.produceSeen()
	done := map[string]bool{}
	for _, e := range r.events {
		done[e.id] = true
	}
	var outst []int // accepted, no outcome yet
	raw := 0
	for i := 0; i < r.accepted; i++ {
		if !done[msgID(i)] {
			outst = append(outst, i)
			raw += p.kv(i)
		}
	}
	last := ""
	if n > 0 {
		last = r.c.Choices[n-1].L
	}
	cfg := r.cfg()
	if last == "tick:flush" && !r.prevPending && r.prevOutst > 0 && seen > r.prevSeen {
		r.stats["flushed-by:timer"]++
		if r.prevOutst == 1 {
			r.stats["flushed-by:timer lone-message"]++
		}
	}
	if strings.HasPrefix(last, "submit:") && seen > r.prevSeen && !r.prevPending {
		if r.prevOutst == 0 {
			r.stats["flushed-by:submit lone-message (immediate or threshold 1)"]++
		} else {
			r.stats["flushed-by:submit threshold-or-overflow"]++
		}
	}
	if last == "close" && !pending && len(outst) > 0 {
		r.stats["buffered-at-close-without-trigger"]++
	}
	// (a message parked at a gate - scenarios with faults make the retry path's merge points decision points - is on its way,
	// not waiting for a trigger; and while a metadata request is pending a bounced message is waiting for its leader)
	if !pending && len(outst) > 0 && r.setupErr == nil && len(r.c.Parked()) == 0 {
		ids := []string{}
		for _, i := range outst {
			ids = append(ids, msgID(i))
		}
		lone := ""
		if len(outst) == 1 {
			lone = " lone-message"
		}
		where := fmt.Sprintf("after %v; buffered (accepted, no outcome, no request pending at the broker): %v", tail(r.c.Trace(), 4), ids)
		switch {
		case p.FF == 0 && p.FB == 0 && p.FM == 0:
			r.live = append(r.live, liveV{"not-flushed trigger=immediate(no-flush-setting)" + lone + " " + p.Gen,
				fmt.Sprintf("no Flush setting is configured, so a buffered message must be sent immediately, but the system is quiescent with nothing at the broker (%s) %s", cfg, where)})
		case p.FM > 0 && len(outst) >= p.FM:
			r.live = append(r.live, liveV{fmt.Sprintf("not-flushed trigger=Flush.Messages=%d buffered=%d %s", p.FM, len(outst), p.Gen),
				fmt.Sprintf("%d messages are buffered, Flush.Messages=%d is reached, but the system is quiescent with nothing at the broker (%s) %s", len(outst), p.FM, cfg, where)})
		case p.FB > 0 && raw >= p.FB:
			r.live = append(r.live, liveV{fmt.Sprintf("not-flushed trigger=Flush.Bytes=%d %s", p.FB, p.Gen),
				fmt.Sprintf("%d key+value bytes are buffered, Flush.Bytes=%d is reached, but the system is quiescent with nothing at the broker (%s) %s", raw, p.FB, cfg, where)})
		case p.FF > 0 && last == "tick:flush" && !r.prevPending && r.prevOutst > 0 && seen == r.prevSeen:
			r.live = append(r.live, liveV{"not-flushed trigger=Flush.Frequency after-one-full-period" + lone + " " + p.Gen,
				fmt.Sprintf("messages were buffered with nothing in flight, a full Flush.Frequency (%v) of fake time passed, and still no produce request arrived at the broker (%s) %s", p.FF, cfg, where)})
		}
	}
	r.prevPending, r.prevOutst, r.prevSeen = pending, len(outst), seen
}

func tail(s []string, n int) []string {
	if len(s) > n {
		return s[len(s)-n:]
	}
	return s
}

func (r *rig) cfg() string {
	p := r.p
	return fmt.Sprintf("%s MaxMessageBytes=%d MaxRequestSize=%d Flush{Messages=%d Bytes=%d Frequency=%v MaxMessages=%d} policy=%s", p.Gen, p.MMB, r.maxMRS, p.FM, p.FB, p.FF, p.FX, p.Policy)
}

func (r *rig) actors() []gx.Actor {
	r.mu.Lock()
	defer r.mu.Unlock()
	if r.prod == nil {
		return nil
	}
	r.observe()
	p := r.p
	n := len(p.VS)
	var acts []gx.Actor
	if !r.closing && r.submitted < n && r.accepted == r.submitted {
		rank := 2
		if p.Policy == "input" {
			rank = -1
		}
		i := r.submitted
		acts = append(acts, gx.Actor{Label: "submit:" + msgID(i), Rank: rank, Variants: []gx.Variant{{Do: func() {
			r.mu.Lock()
			r.submitted++
			r.mu.Unlock()
			id := msgID(i)
			r.submitCh <- &sarama.ProducerMessage{Topic: "t", Partition: p.Parts[i], Key: key(p.KS[i]), Value: sarama.ByteEncoder(value(i, p.VS[i])), Metadata: id}
		}}}})
	}
	outstanding := r.accepted > len(r.events)
	if p.FF > 0 && outstanding && r.c.Trailing("tick:") < 2 {
		acts = append(acts, gx.Actor{Label: "tick:flush", Rank: 3, Variants: []gx.Variant{{Do: func() { time.Sleep(p.FF) }}}})
	}
	if !r.closing && r.accepted == r.submitted && (r.submitted == n || (p.CloseAny && r.submitted > 0)) {
		acts = append(acts, gx.Actor{Label: "close", Rank: 4, Variants: []gx.Variant{{Do: func() {
			r.mu.Lock()
			r.closing = true
			r.mu.Unlock()
			r.prod.AsyncClose()
		}}}})
	}
	return acts
}

func (r *rig) digest() string {
	r.mu.Lock()
	defer r.mu.Unlock()
	var sb strings.Builder
	for _, ps := range r.cl.Topics["t"] {
		fmt.Fprintf(&sb, "L%d[", ps.ID)
		for _, x := range ps.Log {
			sb.WriteString(recID(x.Value) + ",")
		}
		sb.WriteString("]")
	}
	ev := make([]string, 0, len(r.events))
	for _, e := range r.events {
		ev = append(ev, fmt.Sprintf("%s:%v", e.id, e.ok))
	}
	sort.Strings(ev)
	fmt.Fprintf(&sb, "E%v S%d C%v P%s R%d", ev, r.submitted, r.closing, r.cl.PendingKinds(), len(r.cl.Produced))
	return sb.String()
}

func splitNonEmpty(s string) []string {
	if s == "" {
		return nil
	}
	return strings.Split(s, ",")
}

func gateSet(s string) map[string]bool {
	m := map[string]bool{}
	for _, g := range splitNonEmpty(s) {
		m[g] = true
	}
	return m
}
