// Package routerig: the producer-routing half of C17. Real client + async producer against simkafka
// with any subset of partitions leaderless and every built-in (and a few custom) partitioners: the
// producer must send each message to the partition the partitioner chose - offering keyed messages of
// consistency-requiring partitioners all partitions and other messages only writable ones - and must
// fail a message, without sending it anywhere, when the choice is out of range or no partition is available.
package routerig

import (
	"errors"
	"fmt"
	"hash"
	"hash/fnv"
	"net/url"
	"sort"
	"strconv"
	"strings"
	"sync"
	"testing/synctest"
	"time"

	"github.com/Shopify/sarama"

	"verif/engine/gx"
	"verif/engine/simkafka"
)

type call struct {
	id         string
	offered    int32
	choice     int32
	err        bool
	consistent bool
}

type recPartitioner struct {
	r     *rig
	inner sarama.Partitioner
	kind  string
}

func (p *recPartitioner) consistency(m *sarama.ProducerMessage) bool {
	if d, ok := p.inner.(sarama.DynamicConsistencyPartitioner); ok {
		return d.MessageRequiresConsistency(m)
	}
	return p.inner.RequiresConsistency()
}

func (p *recPartitioner) Partition(m *sarama.ProducerMessage, n int32) (int32, error) {
	c, err := p.inner.Partition(m, n)
	id, _ := m.Metadata.(string)
	p.r.mu.Lock()
	p.r.calls = append(p.r.calls, call{id: id, offered: n, choice: c, err: err != nil, consistent: p.consistency(m)})
	p.r.mu.Unlock()
	return c, err
}
func (p *recPartitioner) RequiresConsistency() bool { return p.inner.RequiresConsistency() }
func (p *recPartitioner) MessageRequiresConsistency(m *sarama.ProducerMessage) bool {
	return p.consistency(m)
}

// gatedHash is the hash.Hash32 a scenario hands to WithCustomHashFunction: user-supplied code through which the
// controller sees (and can hold) a partitioner between writing the key and reading the sum. Each call of the factory
// must give the partitioner of one topic its OWN hasher; a partitioner that shares one is visible when two topics
// hash at the same time.
type gatedHash struct {
	r  *rig
	h  hash.Hash32
	id int32
}

func (g *gatedHash) Write(b []byte) (int, error) {
	n, err := g.h.Write(b)
	g.r.c.Gate("hash.mid", string(b), g.id)
	return n, err
}
func (g *gatedHash) Sum(b []byte) []byte { return g.h.Sum(b) }
func (g *gatedHash) Reset()              { g.h.Reset() }
func (g *gatedHash) Size() int           { return g.h.Size() }
func (g *gatedHash) BlockSize() int      { return g.h.BlockSize() }
func (g *gatedHash) Sum32() uint32       { return g.h.Sum32() }

// custom partitioners returning something illegal
type fixedPartitioner struct {
	ret func(n int32) (int32, error)
}

func (f fixedPartitioner) Partition(m *sarama.ProducerMessage, n int32) (int32, error) {
	return f.ret(n)
}
func (f fixedPartitioner) RequiresConsistency() bool { return false }

// dynPartitioner: a user-supplied partitioner whose STATIC answer is "no consistency needed" while keyed messages do
// need it (DynamicConsistencyPartitioner is documented to take precedence per message)
type dynPartitioner struct{}

func (dynPartitioner) Partition(m *sarama.ProducerMessage, n int32) (int32, error) {
	if m.Key == nil {
		return 0, nil
	}
	k, _ := m.Key.Encode()
	h := fnv.New32a()
	h.Write(k)
	return int32(h.Sum32() % uint32(n)), nil
}
func (dynPartitioner) RequiresConsistency() bool { return false }
func (dynPartitioner) MessageRequiresConsistency(m *sarama.ProducerMessage) bool {
	return m.Key != nil
}

type event struct {
	id   string
	ok   bool
	part int32
	err  string
}

type rig struct {
	mu        sync.Mutex
	c         *gx.Ctl
	cl        *simkafka.Cluster
	calls     []call
	events    []event
	submitted int
	accepted  int
	closing   bool
	succDone  bool
	errDone   bool
	prod      sarama.AsyncProducer
	client    sarama.Client
	setupErr  error
	submitCh  chan *sarama.ProducerMessage
}

func atoi(v url.Values, k string, def int) int {
	if s := v.Get(k); s != "" {
		n, err := strconv.Atoi(s)
		if err != nil {
			panic(err)
		}
		return n
	}
	return def
}

func init() {
	gx.RegisterRig("route", func(v url.Values) (*gx.Scenario, error) {
		pt, lead, keys, nm := v.Get("pt"), atoi(v, "lead", 0), v.Get("keys"), atoi(v, "nm", 3)
		mdesc := atoi(v, "mdesc", 0) == 1
		return &gx.Scenario{Run: func(c *gx.Ctl) *gx.Outcome { return run(c, pt, lead, keys, nm, mdesc) }}, nil
	})
}

const nparts = 3

func run(c *gx.Ctl, pt string, leaderless int, keys string, nm int, mdesc bool) *gx.Outcome {
	r := &rig{c: c, submitCh: make(chan *sarama.ProducerMessage, 16)}
	cl := simkafka.New(c)
	r.cl = cl
	cl.AddBroker(1)
	cl.AddTopic("t", 1, 1, 1)
	if pt == "chash2" {
		cl.AddTopic("u", 1, 1, 1)
	}
	for p := 0; p < nparts; p++ {
		if leaderless&(1<<p) != 0 {
			cl.Part("t", int32(p)).Leader = -1
		}
	}
	cl.UrgentMetadata = true
	cl.MetaDescending = mdesc
	c.AutoRelease = func(site string) bool { return !(pt == "chash2" && site == "hash.mid") } // schedules are not the subject here, except for the gated custom hash

	conf := sarama.NewConfig()
	conf.Version = sarama.V2_1_0_0
	conf.Net.Proxy.Enable = true
	conf.Net.Proxy.Dialer = cl
	conf.Producer.Return.Successes = true
	conf.Producer.Return.Errors = true
	conf.Metadata.RefreshFrequency = 0
	conf.Metadata.Retry.Max = 0
	conf.Metadata.Retry.Backoff = 50 * time.Millisecond
	conf.Producer.Retry.Backoff = 50 * time.Millisecond
	conf.Producer.Retry.Max = 1
	conf.ChannelBufferSize = 16
	// ONE constructor for all topics, as an application configures it (Producer.Partitioner = NewCustomPartitioner(...))
	nh := int32(0)
	customCtor := sarama.NewCustomPartitioner(sarama.WithCustomHashFunction(func() hash.Hash32 {
		r.mu.Lock()
		nh++
		id := nh
		r.mu.Unlock()
		return &gatedHash{r: r, h: fnv.New32a(), id: id}
	}))
	mk := func(topic string) sarama.Partitioner {
		var inner sarama.Partitioner
		switch pt {
		case "hash":
			inner = sarama.NewHashPartitioner(topic)
		case "ref":
			inner = sarama.NewReferenceHashPartitioner(topic)
		case "random":
			inner = sarama.NewRandomPartitioner(topic)
		case "roundrobin":
			inner = sarama.NewRoundRobinPartitioner(topic)
		case "manual":
			inner = sarama.NewManualPartitioner(topic)
		case "chash2":
			inner = customCtor(topic)
		case "cdyn":
			inner = dynPartitioner{}
		case "cneg":
			inner = fixedPartitioner{func(n int32) (int32, error) { return -1, nil }}
		case "cn":
			inner = fixedPartitioner{func(n int32) (int32, error) { return n, nil }}
		case "cerr":
			inner = fixedPartitioner{func(n int32) (int32, error) { return 0, errors.New("partitioner failed (deliberate)") }}
		default:
			panic("partitioner " + pt)
		}
		return &recPartitioner{r: r, inner: inner, kind: pt}
	}
	conf.Producer.Partitioner = mk

	go func() {
		client, err := sarama.NewClient([]string{"b1:9092"}, conf)
		if err != nil {
			r.setupErr = err
			return
		}
		r.client = client
		prod, err := sarama.NewAsyncProducerFromClient(client)
		if err != nil {
			r.setupErr = err
			return
		}
		go func() {
			for m := range prod.Successes() {
				id, _ := m.Metadata.(string)
				r.mu.Lock()
				r.events = append(r.events, event{id: id, ok: true, part: m.Partition})
				r.mu.Unlock()
			}
			r.mu.Lock()
			r.succDone = true
			r.mu.Unlock()
		}()
		go func() {
			for e := range prod.Errors() {
				id, _ := e.Msg.Metadata.(string)
				r.mu.Lock()
				r.events = append(r.events, event{id: id, ok: false, part: e.Msg.Partition, err: e.Err.Error()})
				r.mu.Unlock()
			}
			r.mu.Lock()
			r.errDone = true
			r.mu.Unlock()
		}()
		go func() {
			for m := range r.submitCh {
				prod.Input() <- m
				r.mu.Lock()
				r.accepted++
				r.mu.Unlock()
			}
		}()
		r.mu.Lock()
		r.prod = prod
		r.mu.Unlock()
	}()

	c.Providers = append(c.Providers, func() []gx.Actor {
		r.mu.Lock()
		defer r.mu.Unlock()
		if r.prod == nil || r.closing {
			return nil
		}
		var acts []gx.Actor
		if r.submitted < nm && r.accepted == r.submitted {
			i := r.submitted
			acts = append(acts, gx.Actor{Label: fmt.Sprintf("submit:m%d", i), Rank: 2, Variants: []gx.Variant{{Do: func() {
				r.mu.Lock()
				r.submitted++
				r.mu.Unlock()
				id := fmt.Sprintf("m%d", i)
				m := &sarama.ProducerMessage{Topic: "t", Value: sarama.StringEncoder(id), Metadata: id, Partition: int32(i % nparts)}
				if pt == "chash2" && i%2 == 1 {
					m.Topic = "u"
				}
				switch keys {
				case "all":
					m.Key = sarama.StringEncoder(fmt.Sprintf("key-%d", i))
				case "mixed":
					if i%2 == 0 {
						m.Key = sarama.StringEncoder(fmt.Sprintf("key-%d", i))
					}
				case "same":
					m.Key = sarama.StringEncoder("the-key")
				}
				r.submitCh <- m
			}}}})
		}
		if r.submitted == nm && r.accepted == r.submitted {
			acts = append(acts, gx.Actor{Label: "close", Rank: 4, Variants: []gx.Variant{{Do: func() {
				r.mu.Lock()
				r.closing = true
				r.mu.Unlock()
				r.prod.AsyncClose()
			}}}})
		}
		return acts
	})
	c.Loop(func() bool {
		r.mu.Lock()
		defer r.mu.Unlock()
		return r.setupErr != nil || (r.closing && r.succDone && r.errDone)
	})
	out := r.judge(pt, leaderless)
	close(r.submitCh)
	c.ReleaseAll()
	if r.client != nil {
		go func() { r.client.Close() }()
		synctest.Wait()
	}
	cl.CloseAll()
	synctest.Wait()
	return out
}

func (r *rig) judge(pt string, leaderless int) *gx.Outcome {
	out := &gx.Outcome{}
	r.mu.Lock()
	defer r.mu.Unlock()
	if r.setupErr != nil {
		out.Obs = "setup-failed:" + r.setupErr.Error()
		return out
	}
	var all, writable []int32
	for p := int32(0); p < nparts; p++ {
		all = append(all, p)
		if leaderless&(1<<uint(p)) == 0 {
			writable = append(writable, p)
		}
	}
	cfg := fmt.Sprintf("partitioner=%s leaderless=%03b", pt, leaderless)
	byID := map[string][]event{}
	for _, e := range r.events {
		byID[e.id] = append(byID[e.id], e)
	}
	wire := map[string][]int32{}
	for _, pe := range r.cl.Produced {
		for _, b := range pe.Batches {
			for _, x := range b.Recs {
				wire[string(x.Value)] = append(wire[string(x.Value)], b.Partition)
			}
		}
	}
	callsOf := map[string][]call{}
	for _, c := range r.calls {
		callsOf[c.id] = append(callsOf[c.id], c)
	}
	var obs []string
	for i := 0; i < r.accepted; i++ {
		id := fmt.Sprintf("m%d", i)
		evs := byID[id]
		cs := callsOf[id]
		obs = append(obs, fmt.Sprintf("%s:%v/%v/%v", id, cs, evs, wire[id]))
		if len(evs) != 1 {
			out.Violate("C17", "routing-outcome-count", "%s got %d outcomes (%s)", id, len(evs), cfg)
			continue
		}
		e := evs[0]
		if len(cs) == 0 {
			// the partitioner was never consulted: legitimate only if no partition could be offered
			if len(writable) > 0 || len(wire[id]) > 0 || e.ok {
				out.Violate("C17", "routing-partitioner-not-consulted", "%s: partitioner not consulted although partitions are available, outcome %+v wire %v (%s)", id, e, wire[id], cfg)
			}
			continue
		}
		c := cs[0]
		list := writable
		if c.consistent {
			list = all
		}
		if int(c.offered) != len(list) {
			out.Violate("C17", fmt.Sprintf("routing-offered-wrong-partition-set consistent=%v", c.consistent), "%s: partitioner (requires consistency: %v) was offered %d partitions, expected %d (%v) (%s)", id, c.consistent, c.offered, len(list), list, cfg)
			continue
		}
		if c.err || c.choice < 0 || c.choice >= c.offered {
			if e.ok || len(wire[id]) > 0 {
				out.Violate("C17", "routing-illegal-choice-not-failed", "%s: partitioner returned %d (error %v) for %d partitions but the message was sent (wire %v) / reported %+v (%s)", id, c.choice, c.err, c.offered, wire[id], e, cfg)
			}
			continue
		}
		if pt == "chash2" {
			// equal keys map to equal partitions: the choice must be what the configured hash function gives for THIS key
			h := fnv.New32a()
			h.Write([]byte(fmt.Sprintf("key-%d", i)))
			ref := int32(h.Sum32()) % c.offered
			if ref < 0 {
				ref = -ref
			}
			if c.choice != ref {
				out.Violate("C17", "hash-partitioner-chose-by-another-key", "%s (key key-%d, %d partitions): the custom-hash partitioner chose %d, the hash of this key gives %d - partitioners of two topics hashing at the same time (%s)", id, i, c.offered, c.choice, ref, cfg)
			}
		}
		want := list[c.choice]
		for _, wp := range wire[id] {
			if wp != want {
				out.Violate("C17", "routing-sent-to-other-partition", "%s: partitioner chose index %d of %v = partition %d, the message was sent to partition %d (%s)", id, c.choice, list, want, wp, cfg)
			}
		}
		if e.part != want && (e.ok || len(wire[id]) > 0) {
			out.Violate("C17", "routing-event-partition", "%s: partitioner chose partition %d, the event names partition %d (%s)", id, want, e.part, cfg)
		}
		if e.ok && leaderless&(1<<uint(want)) != 0 {
			out.Violate("C17", "routing-success-on-leaderless-partition", "%s reported successful on leaderless partition %d (%s)", id, want, cfg)
		}
		if len(cs) > 1 {
			out.Violate("C17", "routing-partitioned-twice", "%s was partitioned %d times (the choice is made once, on the first pass) (%s)", id, len(cs), cfg)
		}
	}
	sort.Strings(obs)
	out.Obs = strings.Join(obs, " ")
	if !(r.closing && r.succDone && r.errDone) {
		out.Obs += " HANG"
	}
	return out
}

// Family enumerates partitioner x key pattern x every leaderless subset.
func Family() []string {
	var out []string
	for _, pt := range []string{"hash", "ref", "cdyn", "random", "roundrobin", "manual", "cneg", "cn", "cerr"} {
		for _, keys := range []string{"none", "all", "mixed", "same"} {
			if keys != "none" && keys != "all" && pt != "hash" && pt != "ref" && pt != "cdyn" {
				continue
			}
			for lead := 0; lead < 1<<nparts; lead++ {
				out = append(out, fmt.Sprintf("route?pt=%s&keys=%s&lead=%d&nm=4", pt, keys, lead))
				if keys == "all" && (pt == "hash" || pt == "ref" || pt == "manual" || pt == "cdyn" || pt == "roundrobin") {
					// the same with metadata that lists the partitions in descending order: index i of the offered list must
					// still be the i-th smallest partition id
					out = append(out, fmt.Sprintf("route?pt=%s&keys=%s&lead=%d&nm=4&mdesc=1", pt, keys, lead))
				}
			}
		}
	}
	return out
}
