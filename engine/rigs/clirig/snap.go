// Package clirig: the client-metadata rig of check C15 (DESIGN.md §6 "C15 – client metadata").
//
//   - snap.go    the alphabet of cluster snapshots and what a broker answers to a metadata request
//   - server.go  the scripted in-bubble server (net.Pipe through Config.Net.Proxy.Dialer)
//   - model.go   the REFERENCE FOLD of served responses and the judge of every read API answer
//   - hist.go    one execution of a history (sequence of events) against the real sarama client
//   - reach.go   one execution of a reachability case (seed/known broker subsets unreachable …)
//   - atomic.go  the GX scenario "cli": reader goroutines vs. a refresher, all orders
package clirig

import (
	"fmt"
	"sort"
	"strings"
)

// Kafka error codes used by the alphabet (numeric on purpose: the reference does not borrow
// sarama's classification).
const (
	ENone        int16 = 0
	EUnknownTP   int16 = 3
	ELeaderNA    int16 = 5
	EReplicaNA   int16 = 9
	EInvalidTop  int16 = 17
	ETopicAuthZ  int16 = 29
	unknownBrkID int32 = 9 // a broker id that never appears in a broker list
)

type Part struct {
	ID     int32   `json:"id"`
	Leader int32   `json:"leader"`
	Rep    []int32 `json:"rep,omitempty"`
	Isr    []int32 `json:"isr,omitempty"`
	Off    []int32 `json:"off,omitempty"`
	Err    int16   `json:"err,omitempty"`
}

type Topic struct {
	Name  string `json:"name"`
	Err   int16  `json:"err,omitempty"`
	Parts []Part `json:"parts,omitempty"`
}

type Brk struct {
	ID   int32  `json:"id"`
	Addr string `json:"addr"`
}

// Snap is one description of the cluster: what a broker would answer from now on.
type Snap struct {
	Name    string  `json:"name"`
	Brokers []Brk   `json:"brokers"`
	Ctrl    int32   `json:"ctrl"`
	Topics  []Topic `json:"topics"`
}

// Resp is one metadata response as served (the unit the reference folds over).
type Resp struct {
	Full    bool     `json:"full"` // the request named no topic = "all topics"
	Req     []string `json:"req,omitempty"`
	Snap    string   `json:"snap"`
	Brokers []Brk    `json:"brokers"`
	Ctrl    int32    `json:"ctrl"`
	Topics  []Topic  `json:"topics"`
	Conn    string   `json:"conn,omitempty"`
}

// A is the address of broker id; Ap the same broker after it moved to another host.
func A(id int32) string  { return fmt.Sprintf("b%d:9092", id) }
func Ap(id int32) string { return fmt.Sprintf("c%d:9092", id) }

const SeedAddr = "seed:9092"

func ok(id, leader int32, rep, isr, off []int32) Part {
	return Part{ID: id, Leader: leader, Rep: rep, Isr: isr, Off: off}
}
func lna(id int32, rep, isr []int32) Part {
	return Part{ID: id, Leader: -1, Rep: rep, Isr: isr, Err: ELeaderNA}
}
func i32(x ...int32) []int32 { return x }

func brks(ids ...int32) []Brk {
	var l []Brk
	for _, id := range ids {
		if id < 0 { // negative = moved to the primed address
			l = append(l, Brk{-id, Ap(-id)})
		} else {
			l = append(l, Brk{id, A(id)})
		}
	}
	return l
}

// Snaps is the alphabet of ≈20 representative snapshots. Index 0 is the cluster at NewClient.
// Relative to #0 they exercise: partitions added (#1), removed with leader move (#2), leaders and
// controller moving (#3), one/all leaders unavailable (#4, #5), a leader id that is in no broker
// list (#6) or that belonged to a broker just removed (#8), broker removed (#7), added (#9),
// re-addressed (#10), removed+re-addressed (#11), topic vanishing (#12, #13), every topic error
// class (#14 LEADER_NOT_AVAILABLE with partial partitions, #15 INVALID_TOPIC, #16
// TOPIC_AUTHORIZATION_FAILED, #17 UNKNOWN_TOPIC_OR_PARTITION listed in a full answer), replica
// detail changes (#18), an empty cluster without controller (#19), a partition-level
// REPLICA_NOT_AVAILABLE (#20).
var Snaps = []Snap{
	{Name: "0:base", Brokers: brks(1, 2), Ctrl: 1, Topics: []Topic{
		{Name: "t", Parts: []Part{ok(0, 1, i32(1, 2), i32(1, 2), nil), ok(1, 2, i32(2, 1), i32(2), nil)}},
		{Name: "u", Parts: []Part{ok(0, 2, i32(2), i32(2), nil)}}}},
	// (the response lists t's partitions as 2, 0, 1: the protocol promises no order, Partitions() must sort)
	{Name: "1:t-grows", Brokers: brks(1, 2), Ctrl: 1, Topics: []Topic{
		{Name: "t", Parts: []Part{ok(2, 1, i32(1), i32(1), nil), ok(0, 1, i32(1, 2), i32(1, 2), nil), ok(1, 2, i32(2, 1), i32(2), nil)}},
		{Name: "u", Parts: []Part{ok(0, 2, i32(2), i32(2), nil)}}}},
	{Name: "2:t-shrinks+leader-moves", Brokers: brks(1, 2), Ctrl: 1, Topics: []Topic{
		{Name: "t", Parts: []Part{ok(0, 2, i32(2, 1), i32(2), nil)}},
		{Name: "u", Parts: []Part{ok(0, 2, i32(2), i32(2), nil)}}}},
	{Name: "3:leaders+controller-move", Brokers: brks(1, 2), Ctrl: 2, Topics: []Topic{
		{Name: "t", Parts: []Part{ok(0, 2, i32(1, 2), i32(2), nil), ok(1, 1, i32(2, 1), i32(1, 2), nil)}},
		{Name: "u", Parts: []Part{ok(0, 1, i32(1), i32(1), nil)}}}},
	{Name: "4:t/0-leaderless", Brokers: brks(1, 2), Ctrl: 1, Topics: []Topic{
		{Name: "t", Parts: []Part{lna(0, i32(1, 2), i32(2)), ok(1, 2, i32(2, 1), i32(2), nil)}},
		{Name: "u", Parts: []Part{ok(0, 2, i32(2), i32(2), nil)}}}},
	{Name: "5:all-leaderless", Brokers: brks(1, 2), Ctrl: 1, Topics: []Topic{
		{Name: "t", Parts: []Part{lna(0, i32(1, 2), nil), lna(1, i32(2, 1), i32(1))}},
		{Name: "u", Parts: []Part{lna(0, i32(2), nil)}}}},
	{Name: "6:t/0-led-by-unlisted-broker", Brokers: brks(1, 2), Ctrl: 1, Topics: []Topic{
		{Name: "t", Parts: []Part{ok(0, unknownBrkID, i32(9, 2), i32(9), nil), ok(1, 2, i32(2, 1), i32(2), nil)}},
		{Name: "u", Parts: []Part{ok(0, 2, i32(2), i32(2), nil)}}}},
	{Name: "7:broker2-removed", Brokers: brks(1), Ctrl: 1, Topics: []Topic{
		{Name: "t", Parts: []Part{ok(0, 1, i32(1), i32(1), nil), ok(1, 1, i32(1), i32(1), nil)}},
		{Name: "u", Parts: []Part{ok(0, 1, i32(1), i32(1), nil)}}}},
	{Name: "8:broker2-removed-still-named-leader", Brokers: brks(1), Ctrl: 1, Topics: []Topic{
		{Name: "t", Parts: []Part{ok(0, 1, i32(1, 2), i32(1), i32(2)), ok(1, 2, i32(2, 1), i32(2), nil)}},
		{Name: "u", Parts: []Part{ok(0, 2, i32(2), i32(2), nil)}}}},
	{Name: "9:broker3-added", Brokers: brks(1, 2, 3), Ctrl: 3, Topics: []Topic{
		{Name: "t", Parts: []Part{ok(0, 3, i32(3, 1), i32(3, 1), nil), ok(1, 2, i32(2, 1), i32(2), nil)}},
		{Name: "u", Parts: []Part{ok(0, 3, i32(3), i32(3), nil)}}}},
	{Name: "10:broker1-readdressed", Brokers: brks(-1, 2), Ctrl: 1, Topics: []Topic{
		{Name: "t", Parts: []Part{ok(0, 1, i32(1, 2), i32(1, 2), nil), ok(1, 2, i32(2, 1), i32(2), nil)}},
		{Name: "u", Parts: []Part{ok(0, 2, i32(2), i32(2), nil)}}}},
	{Name: "11:broker1-removed+broker2-readdressed", Brokers: brks(-2), Ctrl: 2, Topics: []Topic{
		{Name: "t", Parts: []Part{ok(0, 2, i32(2), i32(2), nil), ok(1, 2, i32(2), i32(2), nil)}},
		{Name: "u", Parts: []Part{ok(0, 2, i32(2), i32(2), nil)}}}},
	{Name: "12:t-vanishes", Brokers: brks(1, 2), Ctrl: 1, Topics: []Topic{
		{Name: "u", Parts: []Part{ok(0, 2, i32(2), i32(2), nil)}}}},
	{Name: "13:u-vanishes+t-grows", Brokers: brks(1, 2), Ctrl: 1, Topics: []Topic{
		{Name: "t", Parts: []Part{ok(0, 1, i32(1, 2), i32(1, 2), nil), ok(1, 2, i32(2, 1), i32(2), nil), ok(2, 2, i32(2), i32(2), nil)}}}},
	{Name: "14:t-LEADER_NOT_AVAILABLE-partial", Brokers: brks(1, 2), Ctrl: 1, Topics: []Topic{
		{Name: "t", Err: ELeaderNA, Parts: []Part{ok(0, 2, i32(2), i32(2), nil)}},
		{Name: "u", Parts: []Part{ok(0, 2, i32(2), i32(2), nil)}}}},
	{Name: "15:t-INVALID_TOPIC", Brokers: brks(1, 2), Ctrl: 1, Topics: []Topic{
		{Name: "t", Err: EInvalidTop},
		{Name: "u", Parts: []Part{ok(0, 2, i32(2), i32(2), nil)}}}},
	{Name: "16:t-TOPIC_AUTHORIZATION_FAILED", Brokers: brks(1, 2), Ctrl: 1, Topics: []Topic{
		{Name: "t", Err: ETopicAuthZ},
		{Name: "u", Parts: []Part{ok(0, 1, i32(1), i32(1), nil)}}}},
	{Name: "17:t-UNKNOWN_TOPIC-listed", Brokers: brks(1, 2), Ctrl: 1, Topics: []Topic{
		{Name: "t", Err: EUnknownTP},
		{Name: "u", Parts: []Part{ok(0, 2, i32(2), i32(2), nil)}}}},
	{Name: "18:replica-details-change+u-grows", Brokers: brks(1, 2), Ctrl: 1, Topics: []Topic{
		{Name: "t", Parts: []Part{ok(0, 1, i32(1, 2, 3), i32(1), i32(3)), ok(1, 2, i32(2), i32(2), nil)}},
		{Name: "u", Parts: []Part{ok(1, 1, i32(1), i32(1), nil), ok(2, 2, i32(2), i32(2), nil), ok(0, 2, i32(2, 1), i32(2, 1), nil)}}}},
	{Name: "19:other-brokers-no-topics-no-controller", Brokers: brks(2, 3), Ctrl: -1, Topics: nil},
	{Name: "20:t/1-REPLICA_NOT_AVAILABLE", Brokers: brks(1, 2), Ctrl: 2, Topics: []Topic{
		{Name: "t", Parts: []Part{ok(0, 1, i32(1, 2), i32(1, 2), nil), {ID: 1, Leader: 2, Rep: i32(2, 3), Isr: i32(2), Err: EReplicaNA}}},
		{Name: "u", Parts: []Part{ok(0, 2, i32(2), i32(2), nil)}}}},
	// (same shape as snapshot 4 - two partitions, one of them leaderless - but the OTHER one: only the identity differs; and
	// the entry still names the previous leader, a listed broker, next to the error code: the code is what the response says)
	{Name: "21:t/1-leaderless", Brokers: brks(1, 2), Ctrl: 1, Topics: []Topic{
		{Name: "t", Parts: []Part{ok(0, 1, i32(1, 2), i32(1, 2), nil), {ID: 1, Leader: 2, Rep: i32(2, 1), Isr: i32(1), Err: ELeaderNA}}},
		{Name: "u", Parts: []Part{ok(0, 2, i32(2), i32(2), nil)}}}},
	// ---- thorough tier only (QuickSnaps = the 22 above)
	{Name: "22:t-middle-partition-removed", Brokers: brks(1, 2), Ctrl: 1, Topics: []Topic{
		{Name: "t", Parts: []Part{ok(0, 1, i32(1, 2), i32(1, 2), nil), ok(2, 2, i32(2), i32(2), nil)}},
		{Name: "u", Parts: []Part{ok(0, 2, i32(2), i32(2), nil)}}}},
	{Name: "23:both-brokers-readdressed+u-LEADER_NOT_AVAILABLE-topic", Brokers: brks(-1, -2), Ctrl: 1, Topics: []Topic{
		{Name: "t", Parts: []Part{ok(0, 1, i32(1, 2), i32(1, 2), nil), ok(1, 2, i32(2, 1), i32(2), nil)}},
		{Name: "u", Err: ELeaderNA, Parts: []Part{lna(0, i32(2), nil)}}}},
	{Name: "24:u-INVALID_TOPIC+t-on-three-brokers", Brokers: brks(1, 2, 3), Ctrl: 2, Topics: []Topic{
		{Name: "t", Parts: []Part{ok(0, 3, i32(3), i32(3), nil), ok(1, 1, i32(1), i32(1), nil), ok(2, 2, i32(2), i32(2), nil)}},
		{Name: "u", Err: EInvalidTop}}},
	{Name: "25:t/0-leader-minus-one-without-error", Brokers: brks(1, 2), Ctrl: 1, Topics: []Topic{
		{Name: "t", Parts: []Part{ok(0, -1, i32(1, 2), nil, nil), ok(1, 2, i32(2, 1), i32(2), nil)}},
		{Name: "u", Parts: []Part{ok(0, 2, i32(2), i32(2), nil)}}}},
	{Name: "26:controller-id-not-listed", Brokers: brks(1, 2), Ctrl: 3, Topics: []Topic{
		{Name: "t", Parts: []Part{ok(0, 1, i32(1, 2), i32(1, 2), nil), ok(1, 2, i32(2, 1), i32(2), nil)}},
		{Name: "u", Parts: []Part{ok(0, 2, i32(2), i32(2), nil)}}}},
}

// QuickSnaps is the number of snapshots used by the quick tier (the thorough tier uses all).
const QuickSnaps = 22

// Answer is what a broker holding snapshot s answers to a metadata request for the given topics
// (none = all): every broker and the controller; for a full request every topic entry of the
// snapshot (error entries included); for a named request exactly the named topics, a topic the
// cluster does not have being answered UNKNOWN_TOPIC_OR_PARTITION (auto-creation disabled).
func (s *Snap) Answer(req []string) Resp {
	r := Resp{Full: len(req) == 0, Req: append([]string(nil), req...), Snap: s.Name, Brokers: append([]Brk(nil), s.Brokers...), Ctrl: s.Ctrl}
	if r.Full {
		r.Topics = append(r.Topics, s.Topics...)
		return r
	}
	for _, name := range req {
		found := false
		for _, t := range s.Topics {
			if t.Name == name {
				r.Topics = append(r.Topics, t)
				found = true
			}
		}
		if !found {
			r.Topics = append(r.Topics, Topic{Name: name, Err: EUnknownTP})
		}
	}
	return r
}

// Clean: no topic entry carries an error and no partition is leaderless (a refresh answered like
// this has nothing to complain about).
func (r *Resp) Clean() bool {
	for _, t := range r.Topics {
		if t.Err != ENone {
			return false
		}
		for _, p := range t.Parts {
			if p.Err != ENone {
				return false
			}
		}
	}
	return true
}

func (r Resp) String() string {
	var sb strings.Builder
	if r.Full {
		sb.WriteString("all")
	} else {
		sb.WriteString(strings.Join(r.Req, ","))
	}
	sb.WriteString("<-" + r.Snap)
	return sb.String()
}

func sortedInts(l []int32) []int32 {
	o := append([]int32(nil), l...)
	sort.Slice(o, func(i, j int) bool { return o[i] < o[j] })
	return o
}
