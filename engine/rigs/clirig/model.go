package clirig

// The REFERENCE FOLD: what the read APIs must answer, derived from the property statement and the
// doc comments of the sarama.Client interface – not from client.go. Input: the metadata responses
// in the order the server served them (each with the topics the request named).
//
// Property sentences → rules
//  (P1) "After a metadata refresh that includes a topic returns, Partitions lists exactly that
//       topic's partition ids from the newest response, sorted" – Ref.Topics[name] is REPLACED as a
//       whole by the newest response that includes the topic.
//  (P2) "WritablePartitions lists exactly those whose leader is available" – demanded: every
//       partition whose newest entry names a leader that is in that response's broker list and is
//       not marked LEADER_NOT_AVAILABLE is listed; every partition marked LEADER_NOT_AVAILABLE is
//       not listed. OPEN (not demanded either way): an entry without error whose leader id is in no
//       broker list (a self-inconsistent response).
//  (P3) "Leader, Replicas, InSyncReplicas and OfflineReplicas return what that response said (a
//       leader that is not among the known brokers is reported as not available, never as a stale
//       broker)".
//  (P4) "topics answered with an error are forgotten or kept exactly as their error class
//       requires": no error → stored; LEADER_NOT_AVAILABLE → "retry, but store partial partition
//       results" (OPEN what the read APIs say meanwhile: the partial results of THAT response or
//       the topic being unknown are both accepted; anything older is stale and rejected);
//       every other class (UNKNOWN_TOPIC_OR_PARTITION, INVALID_TOPIC, TOPIC_AUTHORIZATION_FAILED, …)
//       → forgotten.
//  (P5) "Brokers absent from the newest response are dropped and brokers whose address changed are
//       replaced" – demanded for a FULL response: the broker set equals that response's list. For a
//       per-topic response the brokers it lists must be present with the listed address; brokers it
//       does not list MAY be dropped or kept (OPEN) until the next full response.
//  (P6) A topic missing from the newest FULL response has vanished: forgotten.
//  Controller() is not named by the property: if it returns a broker it must be the controller of
//  the newest response at its newest address (never stale); errors are accepted when the newest
//  response names no listed controller or when the call's own refresh reported a topic error.

import (
	"errors"
	"fmt"
	"sort"
	"strings"

	"github.com/Shopify/sarama"
)

type RefTopic struct {
	Parts   map[int32]Part
	Lenient bool // newest entry was topic-level LEADER_NOT_AVAILABLE (P4 open point)
}

type Ref struct {
	Topics map[string]*RefTopic
	Must   map[int32]string // brokers of the newest response
	May    map[int32]string // brokers not listed by per-topic responses since the last full one
	Ctrl   int32
	N      int // responses folded
}

func NewRef() *Ref {
	return &Ref{Topics: map[string]*RefTopic{}, Must: map[int32]string{}, May: map[int32]string{}, Ctrl: -1}
}

func (r *Ref) Clone() *Ref {
	c := &Ref{Topics: map[string]*RefTopic{}, Must: map[int32]string{}, May: map[int32]string{}, Ctrl: r.Ctrl, N: r.N}
	for k, v := range r.Topics {
		c.Topics[k] = v // RefTopic values are never mutated after creation
	}
	for k, v := range r.Must {
		c.Must[k] = v
	}
	for k, v := range r.May {
		c.May[k] = v
	}
	return c
}

func (r *Ref) Fold(resp *Resp) {
	r.N++
	must := map[int32]string{}
	for _, b := range resp.Brokers {
		must[b.ID] = b.Addr
	}
	may := map[int32]string{}
	if !resp.Full {
		for id, a := range r.May {
			may[id] = a
		}
		for id, a := range r.Must {
			may[id] = a
		}
		for id := range must {
			delete(may, id)
		}
	}
	r.Must, r.May = must, may
	r.Ctrl = resp.Ctrl
	if resp.Full {
		r.Topics = map[string]*RefTopic{}
	}
	for _, t := range resp.Topics {
		switch t.Err {
		case ENone, ELeaderNA:
			rt := &RefTopic{Parts: map[int32]Part{}, Lenient: t.Err == ELeaderNA}
			for _, p := range t.Parts {
				rt.Parts[p.ID] = p
			}
			r.Topics[t.Name] = rt
		default:
			delete(r.Topics, t.Name)
		}
	}
}

// Register: the client was told the coordinator of a group; it registers that broker (client.registerBroker: a new id is
// added, a known id with another address is replaced). A listed broker keeps being required, an unlisted one is allowed.
func (r *Ref) Register(b Brk) {
	if _, ok := r.Must[b.ID]; ok {
		r.Must[b.ID] = b.Addr
		return
	}
	r.May[b.ID] = b.Addr
}

// ---------------------------------------------------------------------------------------------
// observations

type Obs struct {
	Op    string   `json:"op"` // Topics | Brokers | Controller | Partitions | WritablePartitions | Leader | Replicas | InSyncReplicas | OfflineReplicas | RefreshMetadata
	Topic string   `json:"topic,omitempty"`
	Part  int32    `json:"part,omitempty"`
	Ints  []int32  `json:"ints,omitempty"`
	Nil   bool     `json:"nil,omitempty"` // the returned slice was nil
	Brks  []Brk    `json:"brks,omitempty"`
	Names []string `json:"names,omitempty"`
	Err   string   `json:"err,omitempty"`
	err   error
	// Resps: the responses the server served while this call ran
	Resps  []Resp `json:"-"`
	n0, n1 int    // number of responses served before / after the call (atomicity layer)
}

func (o *Obs) Call() string {
	switch o.Op {
	case "Topics", "Brokers", "Controller":
		return o.Op + "()"
	case "Partitions", "WritablePartitions":
		return fmt.Sprintf("%s(%s)", o.Op, o.Topic)
	case "RefreshMetadata":
		return fmt.Sprintf("RefreshMetadata(%s)", strings.Join(o.Names, ","))
	}
	return fmt.Sprintf("%s(%s,%d)", o.Op, o.Topic, o.Part)
}

func (o *Obs) String() string {
	var v string
	switch o.Op {
	case "Topics":
		v = fmt.Sprint(o.Names)
	case "Brokers", "Controller", "Leader":
		v = fmt.Sprint(o.Brks)
	case "RefreshMetadata":
		v = ""
	default:
		v = fmt.Sprint(o.Ints)
		if o.Nil {
			v = "nil"
		}
	}
	if o.Err != "" {
		v += " err=" + o.Err
	}
	return o.Call() + "=" + strings.TrimSpace(v)
}

func brkOf(b *sarama.Broker) Brk {
	id, addr := sarama.VerifBrokerIdent(b)
	return Brk{id, addr}
}

func setErr(o *Obs, err error) *Obs {
	o.err = err
	if err != nil {
		o.Err = err.Error()
	}
	return o
}

// Read performs one read API call on the client.
// scribble: the caller edits the answer it was given (sarama hands out copies of the replica lists so that this is
// harmless): a later call must still say what the response said.
func scribble(l []int32) {
	for i := range l {
		l[i] = -77
	}
}

func Read(c sarama.Client, op, topic string, part int32) *Obs {
	o := &Obs{Op: op, Topic: topic, Part: part}
	switch op {
	case "Topics":
		l, err := c.Topics()
		sort.Strings(l)
		o.Names = l
		return setErr(o, err)
	case "Brokers":
		for _, b := range c.Brokers() {
			o.Brks = append(o.Brks, brkOf(b))
		}
		sort.Slice(o.Brks, func(i, j int) bool {
			if o.Brks[i].ID != o.Brks[j].ID {
				return o.Brks[i].ID < o.Brks[j].ID
			}
			return o.Brks[i].Addr < o.Brks[j].Addr
		})
		return o
	case "Controller":
		b, err := c.Controller()
		if b != nil {
			o.Brks = []Brk{brkOf(b)}
		}
		return setErr(o, err)
	case "Partitions":
		l, err := c.Partitions(topic)
		o.Ints, o.Nil = l, l == nil
		return setErr(o, err)
	case "WritablePartitions":
		l, err := c.WritablePartitions(topic)
		o.Ints, o.Nil = l, l == nil
		return setErr(o, err)
	case "Leader":
		b, err := c.Leader(topic, part)
		if b != nil {
			o.Brks = []Brk{brkOf(b)}
		}
		return setErr(o, err)
	case "Replicas":
		l, err := c.Replicas(topic, part)
		o.Ints, o.Nil = append([]int32(nil), l...), l == nil
		scribble(l)
		return setErr(o, err)
	case "InSyncReplicas":
		l, err := c.InSyncReplicas(topic, part)
		o.Ints, o.Nil = append([]int32(nil), l...), l == nil
		scribble(l)
		return setErr(o, err)
	case "OfflineReplicas":
		l, err := c.OfflineReplicas(topic, part)
		o.Ints, o.Nil = append([]int32(nil), l...), l == nil
		scribble(l)
		return setErr(o, err)
	}
	panic("clirig: unknown read op " + op)
}

// ---------------------------------------------------------------------------------------------
// judge

type Verdict struct {
	Sig string `json:"sig"`
	Msg string `json:"msg"`
}

func eqInts(a, b []int32) bool {
	if len(a) != len(b) {
		return false
	}
	for i := range a {
		if a[i] != b[i] {
			return false
		}
	}
	return true
}

func (r *Ref) partIDs(t *RefTopic) []int32 {
	var l []int32
	for id := range t.Parts {
		l = append(l, id)
	}
	return sortedInts(l)
}

func (r *Ref) describe() string {
	var names []string
	for n := range r.Topics {
		names = append(names, n)
	}
	sort.Strings(names)
	var sb strings.Builder
	for _, n := range names {
		t := r.Topics[n]
		fmt.Fprintf(&sb, "%s", n)
		if t.Lenient {
			sb.WriteString("(LNA)")
		}
		sb.WriteString("{")
		for _, id := range r.partIDs(t) {
			p := t.Parts[id]
			fmt.Fprintf(&sb, "%d:L%d", id, p.Leader)
			if p.Err != 0 {
				fmt.Fprintf(&sb, "!%d", p.Err)
			}
			sb.WriteString(" ")
		}
		sb.WriteString("} ")
	}
	fmt.Fprintf(&sb, "brokers=%v may=%v ctrl=%d", r.Must, r.May, r.Ctrl)
	return sb.String()
}

// leaderClass: "yes" the newest entry names an available leader that the newest response lists;
// "no" it is marked LEADER_NOT_AVAILABLE; "open" otherwise (leader id in no broker list / only in May).
func (r *Ref) leaderClass(p Part) string {
	if p.Err == ELeaderNA {
		return "no"
	}
	if _, ok := r.Must[p.Leader]; ok {
		return "yes"
	}
	return "open"
}

func unknownOK(o *Obs) bool { return o.err != nil && len(o.Ints) == 0 && len(o.Brks) == 0 }

// Judge compares one observation with the reference view (the fold must already include the
// responses served during the call). Returns nil if the answer is acceptable.
func (r *Ref) Judge(o *Obs) *Verdict {
	bad := func(sig, format string, a ...interface{}) *Verdict {
		return &Verdict{Sig: sig, Msg: fmt.Sprintf("%s but %s; reference after %d responses: %s", o.String(), fmt.Sprintf(format, a...), r.N, r.describe())}
	}
	switch o.Op {
	case "Topics":
		if o.err != nil {
			return bad("Topics:error", "the client is open")
		}
		got := map[string]bool{}
		for _, n := range o.Names {
			if got[n] {
				return bad("Topics:duplicate", "%q listed twice", n)
			}
			got[n] = true
			if _, ok := r.Topics[n]; !ok {
				return bad("Topics:lists-forgotten-topic", "topic %q is not part of the newest metadata (vanished or answered with an error that forgets it)", n)
			}
		}
		for n, t := range r.Topics {
			if !got[n] && !t.Lenient {
				return bad("Topics:omits-known-topic", "topic %q was answered without error by the newest response that includes it", n)
			}
		}
		return nil
	case "Brokers":
		got := map[int32]string{}
		for _, b := range o.Brks {
			if _, dup := got[b.ID]; dup {
				return bad("Brokers:duplicate-id", "id %d twice", b.ID)
			}
			got[b.ID] = b.Addr
			if a, ok := r.Must[b.ID]; ok {
				if a != b.Addr {
					return bad("Brokers:stale-address", "broker %d is at %s in the newest response", b.ID, a)
				}
				continue
			}
			if a, ok := r.May[b.ID]; ok {
				if a != b.Addr {
					return bad("Brokers:stale-address", "broker %d was last listed at %s", b.ID, a)
				}
				continue
			}
			return bad("Brokers:not-dropped", "broker %d is absent from the newest full response", b.ID)
		}
		for id := range r.Must {
			if _, ok := got[id]; !ok {
				return bad("Brokers:omits-listed-broker", "broker %d is listed by the newest response", id)
			}
		}
		return nil
	case "Controller":
		if len(o.Brks) == 1 {
			b := o.Brks[0]
			if b.ID != r.Ctrl {
				return bad("Controller:stale-id", "the newest response names controller %d", r.Ctrl)
			}
			if a, ok := r.Must[b.ID]; ok && a != b.Addr {
				return bad("Controller:stale-address", "broker %d is at %s", b.ID, a)
			}
			if _, ok := r.Must[b.ID]; !ok {
				if a, ok := r.May[b.ID]; !ok || a != b.Addr {
					return bad("Controller:unknown-broker", "broker %d is not among the known brokers", b.ID)
				}
			}
			return nil
		}
		if o.err == nil {
			return bad("Controller:nil-without-error", "neither a broker nor an error")
		}
		if _, listed := r.Must[r.Ctrl]; listed {
			for _, rs := range o.Resps {
				if !rs.Clean() {
					return nil // the call's own refresh reported a topic problem: not covered by the property
				}
			}
			return bad("Controller:error-for-listed-controller", "controller %d is listed by the newest response", r.Ctrl)
		}
		return nil
	}
	t := r.Topics[o.Topic]
	switch o.Op {
	case "Partitions":
		if t == nil {
			if !unknownOK(o) {
				return bad("Partitions:answers-for-forgotten-topic", "topic %q is not part of the newest metadata", o.Topic)
			}
			return nil
		}
		if t.Lenient && unknownOK(o) {
			return nil
		}
		want := r.partIDs(t)
		if o.err != nil {
			return bad("Partitions:error-for-known-topic", "want %v", want)
		}
		if !eqInts(o.Ints, want) {
			return bad("Partitions:not-the-newest-list", "the newest response lists %v", want)
		}
		return nil
	case "WritablePartitions":
		if t == nil {
			if !unknownOK(o) {
				return bad("WritablePartitions:answers-for-forgotten-topic", "topic %q is not part of the newest metadata", o.Topic)
			}
			return nil
		}
		if t.Lenient && unknownOK(o) {
			return nil
		}
		got := map[int32]bool{}
		for i, id := range o.Ints {
			if i > 0 && o.Ints[i-1] >= id {
				return bad("WritablePartitions:not-sorted", "ids must be sorted and unique")
			}
			got[id] = true
			p, ok := t.Parts[id]
			if !ok {
				return bad("WritablePartitions:lists-removed-partition", "partition %d is not in the newest response", id)
			}
			if r.leaderClass(p) == "no" {
				return bad("WritablePartitions:includes-leaderless", "partition %d is LEADER_NOT_AVAILABLE in the newest response", id)
			}
		}
		for _, id := range r.partIDs(t) {
			if r.leaderClass(t.Parts[id]) == "yes" && !got[id] {
				if o.err != nil {
					return bad("WritablePartitions:error-for-known-topic", "partition %d has an available leader", id)
				}
				return bad("WritablePartitions:omits-writable", "partition %d has available leader %d in the newest response", id, t.Parts[id].Leader)
			}
		}
		return nil
	case "Leader":
		p, okp := Part{}, false
		if t != nil {
			p, okp = t.Parts[o.Part]
		}
		if !okp {
			if !unknownOK(o) {
				return bad("Leader:answers-for-unknown-partition", "%s/%d is not part of the newest metadata", o.Topic, o.Part)
			}
			return nil
		}
		if t.Lenient && unknownOK(o) {
			return nil
		}
		if len(o.Brks) == 1 && o.err != nil {
			return bad("Leader:broker-and-error", "both returned")
		}
		switch r.leaderClass(p) {
		case "yes":
			want := Brk{p.Leader, r.Must[p.Leader]}
			if o.err != nil {
				return bad("Leader:error-for-available-leader", "the newest response says %v", want)
			}
			if len(o.Brks) != 1 || o.Brks[0] != want {
				if len(o.Brks) == 1 && o.Brks[0].ID == want.ID {
					return bad("Leader:stale-address", "the newest response says %v", want)
				}
				return bad("Leader:not-the-newest-leader", "the newest response says %v", want)
			}
			return nil
		case "no":
			if len(o.Brks) != 0 {
				return bad("Leader:stale-broker-for-leaderless-partition", "the newest response marks %s/%d LEADER_NOT_AVAILABLE", o.Topic, o.Part)
			}
			if !errors.Is(o.err, sarama.ErrLeaderNotAvailable) {
				return bad("Leader:leaderless-not-reported-as-not-available", "want ErrLeaderNotAvailable")
			}
			return nil
		default: // leader id not listed by the newest response
			if a, may := r.May[p.Leader]; may && len(o.Brks) == 1 && o.Brks[0] == (Brk{p.Leader, a}) && o.err == nil {
				return nil // kept from before a per-topic response (P5 open point)
			}
			if len(o.Brks) != 0 {
				return bad("Leader:stale-broker-for-unknown-leader-id", "leader id %d of the newest response is not among the known brokers", p.Leader)
			}
			if !errors.Is(o.err, sarama.ErrLeaderNotAvailable) {
				return bad("Leader:unknown-leader-id-not-reported-as-not-available", "want ErrLeaderNotAvailable")
			}
			return nil
		}
	case "Replicas", "InSyncReplicas", "OfflineReplicas":
		p, okp := Part{}, false
		if t != nil {
			p, okp = t.Parts[o.Part]
		}
		if !okp {
			if !unknownOK(o) {
				return bad(o.Op+":answers-for-unknown-partition", "%s/%d is not part of the newest metadata", o.Topic, o.Part)
			}
			return nil
		}
		if t.Lenient && unknownOK(o) {
			return nil
		}
		want := p.Rep
		if o.Op == "InSyncReplicas" {
			want = p.Isr
		} else if o.Op == "OfflineReplicas" {
			want = p.Off
		}
		if !eqInts(o.Ints, want) {
			return bad(o.Op+":not-what-the-newest-response-said", "want %v", want)
		}
		if o.err != nil && !(p.Err != ENone && errors.Is(o.err, sarama.KError(p.Err))) {
			return bad(o.Op+":error-for-known-partition", "the entry carries error code %d", p.Err)
		}
		return nil
	}
	return &Verdict{Sig: "ENGINE", Msg: "unknown op " + o.Op}
}

// ReadJudged performs one read call, folds the responses served meanwhile into the reference and
// judges the answer against the folded view.
func ReadJudged(c sarama.Client, s *Server, ref *Ref, op, topic string, part int32) (*Obs, *Verdict) {
	n0 := s.Served()
	o := Read(c, op, topic, part)
	o.Resps = s.LogFrom(n0)
	for i := range o.Resps {
		ref.Fold(&o.Resps[i])
	}
	return o, ref.Judge(o)
}

// SweepCalls is the fixed order in which ALL read APIs are compared after an event.
type Call struct {
	Op    string
	Topic string
	Part  int32
}

func SweepCalls() []Call {
	l := []Call{{"Topics", "", 0}, {"Brokers", "", 0}}
	for _, t := range []string{"t", "u"} {
		l = append(l, Call{"Partitions", t, 0}, Call{"WritablePartitions", t, 0})
		for p := int32(0); p < 3; p++ {
			l = append(l, Call{"Leader", t, p}, Call{"Replicas", t, p}, Call{"InSyncReplicas", t, p}, Call{"OfflineReplicas", t, p})
		}
	}
	l = append(l, Call{"Controller", "", 0})
	return l
}

// predictsHit: the reference expects this call to be answered from the cache (no refresh).
func (r *Ref) predictsHit(c Call) bool {
	switch c.Op {
	case "Topics", "Brokers":
		return true
	case "Controller":
		_, ok := r.Must[r.Ctrl]
		return ok
	}
	t := r.Topics[c.Topic]
	if t == nil {
		return false
	}
	switch c.Op {
	case "Partitions":
		return len(t.Parts) > 0
	case "WritablePartitions":
		for _, p := range t.Parts {
			if r.leaderClass(p) == "yes" {
				return true
			}
		}
		return false
	}
	p, ok := t.Parts[c.Part]
	if !ok {
		return false
	}
	if c.Op == "Leader" {
		return r.leaderClass(p) == "yes"
	}
	return true
}

// SweepOrder: every read API for topics t,u × partitions 0..2. Calls the reference expects to be
// cache hits come first (a read that misses refreshes the topic and could repair – and thereby
// hide – stale state before the other calls look at it); then the calls expected to miss; then
// Brokers and Topics once more (after the refreshes the misses caused).
func (r *Ref) SweepOrder() []Call {
	var hits, misses []Call
	for _, c := range SweepCalls() {
		if r.predictsHit(c) {
			hits = append(hits, c)
		} else {
			misses = append(misses, c)
		}
	}
	l := append(hits, misses...)
	return append(l, Call{"Brokers", "", 0}, Call{"Topics", "", 0})
}

// OpenPoints names the open points (see the header) an observation touched, for the evidence.
func (r *Ref) OpenPoints(o *Obs) []string {
	var l []string
	t := r.Topics[o.Topic]
	switch o.Op {
	case "WritablePartitions":
		if t == nil {
			return nil
		}
		got := map[int32]bool{}
		for _, id := range o.Ints {
			got[id] = true
		}
		for id, p := range t.Parts {
			if r.leaderClass(p) == "open" {
				if got[id] {
					l = append(l, "open:WritablePartitions-lists-partition-whose-leader-id-is-in-no-broker-list")
				} else {
					l = append(l, "open:WritablePartitions-omits-partition-whose-leader-id-is-in-no-broker-list")
				}
			}
		}
	case "Partitions", "Leader", "Replicas", "InSyncReplicas", "OfflineReplicas":
		if t != nil && t.Lenient {
			if unknownOK(o) {
				l = append(l, "open:topic-level-LEADER_NOT_AVAILABLE-answered-as-unknown")
			} else {
				l = append(l, "open:topic-level-LEADER_NOT_AVAILABLE-answered-from-partial-results")
			}
		}
	case "Brokers":
		for _, b := range o.Brks {
			if _, ok := r.Must[b.ID]; !ok {
				l = append(l, "open:broker-not-listed-by-per-topic-response-kept")
			}
		}
		if len(r.May) > 0 && len(o.Brks) == len(r.Must) {
			l = append(l, "open:broker-not-listed-by-per-topic-response-dropped")
		}
	}
	return l
}
