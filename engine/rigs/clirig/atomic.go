package clirig

// ATOMICITY layer (GX): rig "cli". One refresher goroutine performs RefreshMetadata while the
// cluster changes from snapshot `from` to snapshot `to`; 1–2 reader goroutines perform read API
// calls. Actors: "switch" (the cluster changes), "refresh" (the refresher starts its call), "rK#i"
// (reader K starts its i-th call), "ans:<conn>" (the seed broker answers the head-of-line request
// from the snapshot current at that moment). All orders are explored by the GX explorer.
//
// Oracle: the served responses r1..rn define reference states σ0..σn (model.go). A call that ran
// while responses n0+1..n1 were served must be answered exactly as ONE σj, n0 ≤ j ≤ n1, prescribes
// (a whole "burst" of calls made back-to-back by one reader against one single σj: never Partitions
// from the new response and Leader from the old), and successive calls of one reader must be
// explained by non-decreasing j (time does not run backwards).

import (
	"fmt"
	"net/url"
	"runtime"
	"sort"
	"strconv"
	"strings"
	"sync"
	"testing/synctest"

	"github.com/Shopify/sarama"

	"verif/engine/gx"
)

const Prop = "C15"

type atomicParams struct {
	from, to int
	refresh  []string   // topics of the refresher's RefreshMetadata (empty = all)
	readers  [][]string // per reader ("/"-separated): the sequence of steps ("~"-separated); a step is "Op:topic:part" or "burst:topic"
	rm       int
	locks    bool // interleave at lock granularity: every acquisition of client.lock by a reader or the refresher is a gate
}

func parseAtomic(v url.Values) (*atomicParams, error) {
	p := &atomicParams{}
	var err error
	if p.from, err = strconv.Atoi(v.Get("from")); err != nil {
		return nil, err
	}
	if p.to, err = strconv.Atoi(v.Get("to")); err != nil {
		return nil, err
	}
	if p.from < 0 || p.from >= len(Snaps) || p.to < 0 || p.to >= len(Snaps) {
		return nil, fmt.Errorf("snapshot out of range")
	}
	if r := v.Get("ref"); r != "" && r != "all" {
		p.refresh = strings.Split(r, ",")
	}
	if s := v.Get("rm"); s != "" {
		if p.rm, err = strconv.Atoi(s); err != nil {
			return nil, err
		}
	}
	p.locks = v.Get("locks") == "1"
	for _, r := range strings.Split(v.Get("readers"), "/") {
		if r == "" {
			continue
		}
		steps := strings.Split(r, "~")
		for _, st := range steps {
			if strings.HasPrefix(st, "burst:") {
				continue
			}
			if _, ok := parseRead(st); !ok {
				return nil, fmt.Errorf("bad reader step %q", st)
			}
		}
		p.readers = append(p.readers, steps)
	}
	if len(p.readers) == 0 {
		return nil, fmt.Errorf("no readers")
	}
	return p, nil
}

func init() {
	gx.RegisterRig("cli", func(v url.Values) (*gx.Scenario, error) {
		p, err := parseAtomic(v)
		if err != nil {
			return nil, err
		}
		return &gx.Scenario{Run: func(c *gx.Ctl) *gx.Outcome { return runAtomic(c, p) }}, nil
	})
}

// BurstCalls: all read APIs of one topic, made back-to-back by one reader.
func BurstCalls(topic string) []Call {
	l := []Call{{"Partitions", topic, 0}, {"WritablePartitions", topic, 0}}
	for p := int32(0); p < 3; p++ {
		l = append(l, Call{"Leader", topic, p}, Call{"Replicas", topic, p}, Call{"InSyncReplicas", topic, p}, Call{"OfflineReplicas", topic, p})
	}
	return append(l, Call{"Brokers", "", 0}, Call{"Controller", "", 0}, Call{"Topics", "", 0})
}

// lockCtl turns every acquisition of an RWMutex of package sarama (here: client.lock) by a
// registered application goroutine into a GX gate "lockR(name,n)" / "lockW(name,n)" (n = ordinal of
// the acquisition by that goroutine), through the shim hook verifsync.OnLock. No code of sarama
// parks while holding client.lock (no nested acquisition), so a released goroutine runs its whole
// critical section and parks again at its next acquisition or blocks on the network: one macro-step.
//
// It also tracks WHEN a served response is applied: the first write-lock acquisition of the
// goroutine that received response k starts its application; the application is complete for sure
// when that goroutine's API call has returned.
type gstate struct {
	name      string
	nlocks    int
	unapplied int   // index (1-based, served order) of a response delivered to this goroutine and not yet applied
	applying  []int // applications started by this goroutine during its current call
}

type lockCtl struct {
	mu      sync.Mutex
	c       *gx.Ctl
	byGoid  map[uint64]*gstate
	byName  map[string]*gstate
	current string
	started []int // responses in the order their application started
	done    map[int]bool
}

func goid() uint64 {
	var b [64]byte
	f := strings.Fields(string(b[:runtime.Stack(b[:], false)]))
	n, _ := strconv.ParseUint(f[1], 10, 64)
	return n
}

func newLockCtl(c *gx.Ctl) *lockCtl {
	return &lockCtl{c: c, byGoid: map[uint64]*gstate{}, byName: map[string]*gstate{}, started: []int{1}, done: map[int]bool{1: true}}
}

// register must be called by the application goroutine itself.
func (l *lockCtl) register(name string) {
	if l == nil {
		return
	}
	l.mu.Lock()
	g := l.byName[name]
	if g == nil {
		g = &gstate{name: name}
		l.byName[name] = g
	}
	l.byGoid[goid()] = g
	l.current = name
	l.mu.Unlock()
}

func (l *lockCtl) onLock(kind string) {
	l.mu.Lock()
	g := l.byGoid[goid()]
	if g == nil {
		l.mu.Unlock()
		return // the controller itself (state dump) or a goroutine of sarama: not a decision point
	}
	g.nlocks++
	n := g.nlocks
	l.mu.Unlock()
	l.c.Gate("lock"+kind, g.name, int32(n))
	l.mu.Lock()
	l.current = g.name
	if kind == "W" && g.unapplied > 0 {
		l.started = append(l.started, g.unapplied)
		g.applying = append(g.applying, g.unapplied)
		g.unapplied = 0
	}
	l.mu.Unlock()
}

func (l *lockCtl) owner() string {
	l.mu.Lock()
	defer l.mu.Unlock()
	return l.current
}

func (l *lockCtl) setCurrent(name string) {
	l.mu.Lock()
	l.current = name
	l.mu.Unlock()
}

// answered: response k (served order) was delivered to the goroutine named owner.
func (l *lockCtl) answered(owner string, k int) {
	l.mu.Lock()
	if g := l.byName[owner]; g != nil {
		g.unapplied = k
	}
	l.mu.Unlock()
}

// returned: the API call of the goroutine has returned; what it was applying is applied.
func (l *lockCtl) returned(name string) {
	l.mu.Lock()
	if g := l.byName[name]; g != nil {
		for _, k := range g.applying {
			l.done[k] = true
		}
		g.applying = nil
	}
	l.mu.Unlock()
}

// bounds: (number of leading applications that are certainly complete, number of applications started).
func (l *lockCtl) bounds() (int, int) {
	l.mu.Lock()
	defer l.mu.Unlock()
	m := 0
	for m < len(l.started) && l.done[l.started[m]] {
		m++
	}
	return m, len(l.started)
}

type stepRec struct {
	reader, idx int
	step        string
	n0, n1      int
	obs         []*Obs
	started     bool
	done        bool
}

func runAtomic(c *gx.Ctl, p *atomicParams) *gx.Outcome {
	out := &gx.Outcome{}
	var mu sync.Mutex
	s := NewServer(&Snaps[p.from])
	conf := newConf(s, p.rm, true)
	client, err := sarama.NewClient([]string{SeedAddr}, conf)
	if err != nil {
		out.Violate(Prop, "atomic/NewClient:error-although-seed-answers", "NewClient: %v", err)
		s.CloseAll()
		synctest.Wait()
		return out
	}
	var lk *lockCtl
	if p.locks {
		lk = newLockCtl(c)
		s.OwnerFn = lk.owner
		sarama.VerifSetOnLock(lk.onLock)
		defer sarama.VerifSetOnLock(nil)            // process-global: never leave it installed
		c.GateRank = func(string) int { return -1 } // default schedule: a running call runs to completion; deviations = preemptions at lock acquisitions
	}
	// counters that delimit what a read may have seen: [certainly applied at its start, possibly applied at its end]
	bounds := func() (int, int) {
		if lk != nil {
			return lk.bounds()
		}
		n := s.Served()
		return n, n
	}
	s.mu.Lock()
	s.Manual = true
	s.mu.Unlock()

	var recs [][]*stepRec
	work := make([]chan *stepRec, len(p.readers))
	for k, steps := range p.readers {
		var l []*stepRec
		for i, st := range steps {
			l = append(l, &stepRec{reader: k, idx: i, step: st})
		}
		recs = append(recs, l)
		ch := make(chan *stepRec)
		work[k] = ch
		name := fmt.Sprintf("r%d", k+1)
		go func() {
			lk.register(name)
			for r := range ch {
				if lk != nil {
					lk.setCurrent(name)
				}
				n0, _ := bounds()
				var calls []Call
				if strings.HasPrefix(r.step, "burst:") {
					calls = BurstCalls(strings.TrimPrefix(r.step, "burst:"))
				} else {
					cl, _ := parseRead(r.step)
					calls = []Call{cl}
				}
				var obs []*Obs
				for _, cl := range calls {
					m0 := s.Served()
					a0, _ := bounds()
					o := Read(client, cl.Op, cl.Topic, cl.Part)
					o.Resps = s.LogFrom(m0)
					if lk != nil {
						lk.returned(name)
					}
					_, a1 := bounds()
					o.n0, o.n1 = a0, a1
					obs = append(obs, o)
				}
				_, n1 := bounds()
				mu.Lock()
				r.n0, r.n1, r.obs, r.done = n0, n1, obs, true
				mu.Unlock()
			}
		}()
	}
	switched, refreshStarted, refreshDone := false, false, false
	var refreshErr error
	refN0, refN1 := 0, 0

	c.Providers = append(c.Providers, func() []gx.Actor {
		mu.Lock()
		defer mu.Unlock()
		var acts []gx.Actor
		if !switched {
			acts = append(acts, gx.Actor{Label: "switch", Rank: 0, Variants: []gx.Variant{{Do: func() {
				s.SetCur(&Snaps[p.to])
				mu.Lock()
				switched = true
				mu.Unlock()
			}}}})
		}
		if !refreshStarted {
			acts = append(acts, gx.Actor{Label: "refresh", Rank: 1, Variants: []gx.Variant{{Do: func() {
				mu.Lock()
				refreshStarted = true
				refN0 = s.Served()
				mu.Unlock()
				go func() {
					lk.register("ref")
					err := client.RefreshMetadata(p.refresh...)
					if lk != nil {
						lk.returned("ref")
					}
					mu.Lock()
					refreshErr, refreshDone, refN1 = err, true, s.Served()
					mu.Unlock()
				}()
			}}}})
		}
		for k, l := range recs {
			for _, r := range l {
				if r.done {
					continue
				}
				if !r.started {
					r := r
					k := k
					acts = append(acts, gx.Actor{Label: fmt.Sprintf("r%d#%d:%s", k+1, r.idx+1, r.step), Rank: 2, Variants: []gx.Variant{{Do: func() {
						mu.Lock()
						r.started = true
						mu.Unlock()
						work[k] <- r
					}}}})
				}
				break // one step of a reader at a time
			}
		}
		for _, h := range s.Heads() {
			h := h
			acts = append(acts, gx.Actor{Label: "ans:" + h.Label, Rank: 3, Variants: []gx.Variant{{Name: "Metadata.ok", Do: func() {
				k := s.AnswerPending(h)
				if lk != nil {
					lk.answered(h.Owner, k)
				}
			}}}})
		}
		return acts
	})
	c.Digest = func() string {
		mu.Lock()
		defer mu.Unlock()
		return fmt.Sprintf("%v %v %v %d %s", switched, refreshStarted, refreshDone, s.Served(), sarama.VerifClientDump(client))
	}
	allDone := func() bool {
		mu.Lock()
		defer mu.Unlock()
		if !switched || !refreshDone {
			return false
		}
		for _, l := range recs {
			for _, r := range l {
				if !r.done {
					return false
				}
			}
		}
		return true
	}
	c.Loop(allDone)

	// ---- judge
	mu.Lock()
	log := s.LogFrom(0)
	order := make([]int, len(log)) // the order in which the responses were applied (1-based indexes into log)
	for i := range order {
		order[i] = i + 1
	}
	if lk != nil {
		lk.mu.Lock()
		order = append([]int(nil), lk.started...)
		lk.mu.Unlock()
	}
	states := []*Ref{NewRef()}
	for _, k := range order {
		n := states[len(states)-1].Clone()
		n.Fold(&log[k-1])
		states = append(states, n)
	}
	var obsLines []string
	var detail strings.Builder
	fmt.Fprintf(&detail, "served: %v\napplied in the order %v\n", log, order)
	if c.Stuck || !allDoneLocked(switched, refreshDone, recs) {
		out.Violate(Prop, "atomic/call-never-returns", "a reader or the refresher did not return although every request was answered (stuck=%v); trace %v", c.Stuck, c.Trace())
	}
	if refreshDone {
		clean := true
		for _, r := range log[refN0:refN1] {
			clean = clean && r.Clean()
		}
		if refreshErr != nil && clean && refN1 > refN0 {
			out.Violate(Prop, "atomic/RefreshMetadata:error-although-answered", "RefreshMetadata returned %v although it was answered without errors", refreshErr)
		}
		obsLines = append(obsLines, fmt.Sprintf("refresh[%d,%d]err=%v", refN0, refN1, refreshErr))
	}
	for k, l := range recs {
		prev := 0
		for _, r := range l {
			if !r.done {
				continue
			}
			// every observation of the step, in call order: the smallest j in [max(n0,prev), n1] whose
			// reference state explains it (calls made back-to-back without a response in between share
			// n0 = n1, hence must all be explained by the SAME state)
			var os []string
			var js []string
			for _, o := range r.obs {
				found := -1
				var why []string
				for j := o.n0; j <= o.n1 && j < len(states); j++ {
					if j < prev {
						continue
					}
					if v := states[j].Judge(o); v != nil {
						why = append(why, fmt.Sprintf("σ%d: %s", j, v.Msg))
						continue
					}
					found = j
					break
				}
				os = append(os, o.String())
				js = append(js, fmt.Sprint(found))
				if found < 0 {
					kind := "single-call"
					if len(r.obs) > 1 {
						kind = "burst"
					}
					sig := fmt.Sprintf("atomic/%s:%s:neither-before-nor-after-the-refresh", kind, o.Op)
					for j := o.n0; j <= o.n1 && j < len(states) && j < prev; j++ {
						if states[j].Judge(o) == nil {
							// explainable only by a state OLDER than the one this reader has already seen: a mixture across calls
							sig = fmt.Sprintf("atomic/%s:%s:mixture-older-state-after-this-reader-saw-a-newer-one", kind, o.Op)
							why = append(why, fmt.Sprintf("σ%d would explain it but this reader already saw σ%d", j, prev))
							break
						}
					}
					out.Violate(Prop, sig, "reader %d step %s: %s (admissible reference states σ%d..σ%d = responses certainly applied when the call began .. responses whose application had begun when it returned; the previous call of this reader was explained by σ%d) matches none of them: %s", k+1, r.step, o.String(), o.n0, o.n1, prev, strings.Join(why, " || "))
					continue
				}
				prev = found
				switch {
				case o.n1 > o.n0:
					out.Stat("read-refreshed-itself")
				case found == 1:
					out.Stat("read-saw-initial-state")
				default:
					out.Stat("read-saw-later-state")
				}
			}
			fmt.Fprintf(&detail, "reader %d step %d %s admissible σ%d..σ%d, explained by σ%v: %s\n", k+1, r.idx+1, r.step, r.n0, r.n1, js, strings.Join(os, "; "))
			obsLines = append(obsLines, fmt.Sprintf("r%d#%d[%d,%d]σ%v:%s", k+1, r.idx+1, r.n0, r.n1, js, strings.Join(os, ";")))
		}
	}
	mu.Unlock()
	for _, pn := range c.Panics {
		out.Violate(Prop, "atomic/panic-in-sarama-goroutine", "%s", pn)
	}
	if s.EngineErr != "" {
		c.EngineErr = s.EngineErr
	}
	sort.Strings(obsLines)
	out.Obs = strings.Join(obsLines, " | ")
	out.Detail = detail.String()
	// ---- teardown
	for _, ch := range work {
		close(ch)
	}
	c.ReleaseAll()
	go func() { _ = client.Close() }()
	synctest.Wait()
	s.CloseAll()
	synctest.Wait()
	return out
}

func allDoneLocked(switched, refreshDone bool, recs [][]*stepRec) bool {
	if !switched || !refreshDone {
		return false
	}
	for _, l := range recs {
		for _, r := range l {
			if !r.done {
				return false
			}
		}
	}
	return true
}
