package clirig

// ATOMICITY layer (GX): rig "cli". One refresher goroutine performs RefreshMetadata while the
// cluster changes from snapshot `from` to snapshot `to`; 1–2 reader goroutines perform read API
// calls. Actors: "switch" (the cluster changes), "refresh" (the refresher starts its call), "rK#i"
// (reader K starts its i-th call), "ans:<conn>" (the seed broker answers the head-of-line request
// from the snapshot current at that moment). All orders are explored by the GX explorer.
//
// Oracle: the served responses r1..rn define reference states σ0..σn (model.go). A call that ran
// while responses n0+1..n1 were served must be answered exactly as ONE σj, n0 ≤ j ≤ n1, prescribes
// (a whole "burst" of calls made back-to-back by one reader against one single σj: never Partitions
// from the new response and Leader from the old), and successive calls of one reader must be
// explained by non-decreasing j (time does not run backwards).

import (
	"fmt"
	"net/url"
	"sort"
	"strconv"
	"strings"
	"sync"
	"testing/synctest"

	"github.com/Shopify/sarama"

	"verif/engine/gx"
)

const Prop = "C15"

type atomicParams struct {
	from, to int
	refresh  []string   // topics of the refresher's RefreshMetadata (empty = all)
	readers  [][]string // per reader: the sequence of steps; a step is "Op:topic:part" or "burst:topic"
	rm       int
}

func parseAtomic(v url.Values) (*atomicParams, error) {
	p := &atomicParams{}
	var err error
	if p.from, err = strconv.Atoi(v.Get("from")); err != nil {
		return nil, err
	}
	if p.to, err = strconv.Atoi(v.Get("to")); err != nil {
		return nil, err
	}
	if p.from < 0 || p.from >= len(Snaps) || p.to < 0 || p.to >= len(Snaps) {
		return nil, fmt.Errorf("snapshot out of range")
	}
	if r := v.Get("ref"); r != "" && r != "all" {
		p.refresh = strings.Split(r, ",")
	}
	if s := v.Get("rm"); s != "" {
		if p.rm, err = strconv.Atoi(s); err != nil {
			return nil, err
		}
	}
	for _, r := range strings.Split(v.Get("readers"), ";") {
		if r == "" {
			continue
		}
		steps := strings.Split(r, "+")
		for _, st := range steps {
			if strings.HasPrefix(st, "burst:") {
				continue
			}
			if _, ok := parseRead(st); !ok {
				return nil, fmt.Errorf("bad reader step %q", st)
			}
		}
		p.readers = append(p.readers, steps)
	}
	if len(p.readers) == 0 {
		return nil, fmt.Errorf("no readers")
	}
	return p, nil
}

func init() {
	gx.RegisterRig("cli", func(v url.Values) (*gx.Scenario, error) {
		p, err := parseAtomic(v)
		if err != nil {
			return nil, err
		}
		return &gx.Scenario{Run: func(c *gx.Ctl) *gx.Outcome { return runAtomic(c, p) }}, nil
	})
}

// BurstCalls: all read APIs of one topic, made back-to-back by one reader.
func BurstCalls(topic string) []Call {
	l := []Call{{"Partitions", topic, 0}, {"WritablePartitions", topic, 0}}
	for p := int32(0); p < 3; p++ {
		l = append(l, Call{"Leader", topic, p}, Call{"Replicas", topic, p}, Call{"InSyncReplicas", topic, p}, Call{"OfflineReplicas", topic, p})
	}
	return append(l, Call{"Brokers", "", 0}, Call{"Controller", "", 0}, Call{"Topics", "", 0})
}

type stepRec struct {
	reader, idx int
	step        string
	n0, n1      int
	obs         []*Obs
	started     bool
	done        bool
}

func runAtomic(c *gx.Ctl, p *atomicParams) *gx.Outcome {
	out := &gx.Outcome{}
	var mu sync.Mutex
	s := NewServer(&Snaps[p.from])
	conf := newConf(s, p.rm, true)
	client, err := sarama.NewClient([]string{SeedAddr}, conf)
	if err != nil {
		out.Violate(Prop, "atomic/NewClient:error-although-seed-answers", "NewClient: %v", err)
		s.CloseAll()
		synctest.Wait()
		return out
	}
	s.mu.Lock()
	s.Manual = true
	s.mu.Unlock()

	var recs [][]*stepRec
	work := make([]chan *stepRec, len(p.readers))
	for k, steps := range p.readers {
		var l []*stepRec
		for i, st := range steps {
			l = append(l, &stepRec{reader: k, idx: i, step: st})
		}
		recs = append(recs, l)
		ch := make(chan *stepRec)
		work[k] = ch
		go func() {
			for r := range ch {
				n0 := s.Served()
				var calls []Call
				if strings.HasPrefix(r.step, "burst:") {
					calls = BurstCalls(strings.TrimPrefix(r.step, "burst:"))
				} else {
					cl, _ := parseRead(r.step)
					calls = []Call{cl}
				}
				var obs []*Obs
				for _, cl := range calls {
					m0 := s.Served()
					o := Read(client, cl.Op, cl.Topic, cl.Part)
					o.Resps = s.LogFrom(m0)
					o.n0, o.n1 = m0, m0+len(o.Resps)
					obs = append(obs, o)
				}
				mu.Lock()
				r.n0, r.n1, r.obs, r.done = n0, s.Served(), obs, true
				mu.Unlock()
			}
		}()
	}
	switched, refreshStarted, refreshDone := false, false, false
	var refreshErr error
	refN0, refN1 := 0, 0

	c.Providers = append(c.Providers, func() []gx.Actor {
		mu.Lock()
		defer mu.Unlock()
		var acts []gx.Actor
		if !switched {
			acts = append(acts, gx.Actor{Label: "switch", Rank: 0, Variants: []gx.Variant{{Do: func() {
				s.SetCur(&Snaps[p.to])
				mu.Lock()
				switched = true
				mu.Unlock()
			}}}})
		}
		if !refreshStarted {
			acts = append(acts, gx.Actor{Label: "refresh", Rank: 1, Variants: []gx.Variant{{Do: func() {
				mu.Lock()
				refreshStarted = true
				refN0 = s.Served()
				mu.Unlock()
				go func() {
					err := client.RefreshMetadata(p.refresh...)
					mu.Lock()
					refreshErr, refreshDone, refN1 = err, true, s.Served()
					mu.Unlock()
				}()
			}}}})
		}
		for k, l := range recs {
			for _, r := range l {
				if r.done {
					continue
				}
				if !r.started {
					r := r
					k := k
					acts = append(acts, gx.Actor{Label: fmt.Sprintf("r%d#%d:%s", k+1, r.idx+1, r.step), Rank: 2, Variants: []gx.Variant{{Do: func() {
						mu.Lock()
						r.started = true
						mu.Unlock()
						work[k] <- r
					}}}})
				}
				break // one step of a reader at a time
			}
		}
		for _, h := range s.Heads() {
			h := h
			acts = append(acts, gx.Actor{Label: "ans:" + h.Label, Rank: 3, Variants: []gx.Variant{{Name: "Metadata.ok", Do: func() { s.AnswerPending(h) }}}})
		}
		return acts
	})
	c.Digest = func() string {
		mu.Lock()
		defer mu.Unlock()
		return fmt.Sprintf("%v %v %v %d %s", switched, refreshStarted, refreshDone, s.Served(), sarama.VerifClientDump(client))
	}
	allDone := func() bool {
		mu.Lock()
		defer mu.Unlock()
		if !switched || !refreshDone {
			return false
		}
		for _, l := range recs {
			for _, r := range l {
				if !r.done {
					return false
				}
			}
		}
		return true
	}
	c.Loop(allDone)

	// ---- judge
	mu.Lock()
	log := s.LogFrom(0)
	states := []*Ref{NewRef()}
	for i := range log {
		n := states[len(states)-1].Clone()
		n.Fold(&log[i])
		states = append(states, n)
	}
	var obsLines []string
	var detail strings.Builder
	fmt.Fprintf(&detail, "served: %v\n", log)
	if c.Stuck || !allDoneLocked(switched, refreshDone, recs) {
		out.Violate(Prop, "atomic/call-never-returns", "a reader or the refresher did not return although every request was answered (stuck=%v); trace %v", c.Stuck, c.Trace())
	}
	if refreshDone {
		clean := true
		for _, r := range log[refN0:refN1] {
			clean = clean && r.Clean()
		}
		if refreshErr != nil && clean && refN1 > refN0 {
			out.Violate(Prop, "atomic/RefreshMetadata:error-although-answered", "RefreshMetadata returned %v although it was answered without errors", refreshErr)
		}
		obsLines = append(obsLines, fmt.Sprintf("refresh[%d,%d]err=%v", refN0, refN1, refreshErr))
	}
	for k, l := range recs {
		prev := 0
		for _, r := range l {
			if !r.done {
				continue
			}
			// every observation of the step, in call order: the smallest j in [max(n0,prev), n1] whose
			// reference state explains it (calls made back-to-back without a response in between share
			// n0 = n1, hence must all be explained by the SAME state)
			var os []string
			var js []string
			for _, o := range r.obs {
				found := -1
				var why []string
				for j := o.n0; j <= o.n1 && j < len(states); j++ {
					if j < prev {
						continue
					}
					if v := states[j].Judge(o); v != nil {
						why = append(why, fmt.Sprintf("σ%d: %s", j, v.Msg))
						continue
					}
					found = j
					break
				}
				os = append(os, o.String())
				js = append(js, fmt.Sprint(found))
				if found < 0 {
					kind := "single-call"
					if len(r.obs) > 1 {
						kind = "burst"
					}
					sig := fmt.Sprintf("atomic/%s:%s:neither-before-nor-after-the-refresh", kind, o.Op)
					if o.n1 < prev {
						sig = fmt.Sprintf("atomic/%s:%s:older-state-after-newer", kind, o.Op)
					}
					out.Violate(Prop, sig, "reader %d step %s: %s (responses %d..%d served during the call; the previous call of this reader was explained by σ%d) matches no admissible reference state: %s", k+1, r.step, o.String(), o.n0, o.n1, prev, strings.Join(why, " || "))
					continue
				}
				prev = found
				switch {
				case o.n1 > o.n0:
					out.Stat("read-refreshed-itself")
				case found == 1:
					out.Stat("read-saw-initial-state")
				default:
					out.Stat("read-saw-later-state")
				}
			}
			fmt.Fprintf(&detail, "reader %d step %d %s during responses (%d,%d] explained by σ%v: %s\n", k+1, r.idx+1, r.step, r.n0, r.n1, js, strings.Join(os, "; "))
			obsLines = append(obsLines, fmt.Sprintf("r%d#%d[%d,%d]σ%v:%s", k+1, r.idx+1, r.n0, r.n1, js, strings.Join(os, ";")))
		}
	}
	mu.Unlock()
	for _, pn := range c.Panics {
		out.Violate(Prop, "atomic/panic-in-sarama-goroutine", "%s", pn)
	}
	if s.EngineErr != "" {
		c.EngineErr = s.EngineErr
	}
	sort.Strings(obsLines)
	out.Obs = strings.Join(obsLines, " | ")
	out.Detail = detail.String()
	// ---- teardown
	for _, ch := range work {
		close(ch)
	}
	c.ReleaseAll()
	go func() { _ = client.Close() }()
	synctest.Wait()
	s.CloseAll()
	synctest.Wait()
	return out
}

func allDoneLocked(switched, refreshDone bool, recs [][]*stepRec) bool {
	if !switched || !refreshDone {
		return false
	}
	for _, l := range recs {
		for _, r := range l {
			if !r.done {
				return false
			}
		}
	}
	return true
}
