package clirig

// CONCURRENT-REFRESH layer (GX): rig "cli2". Two (or three) goroutines call RefreshMetadata at the same time while the
// seed brokers behave as the scenario says (each one answers, drops the request or refuses the dial; the brokers the client
// learnt at creation refuse). Every acquisition of client.lock by any of them is a gate (lockCtl), so the calls are
// interleaved at lock granularity: the default schedule lets a running call run to completion, a deviation is a
// preemption at a lock acquisition. When all calls have returned every seed heals, and one more RefreshMetadata is made.
//
// Oracle: "a refresh succeeds whenever at least one seed or known broker answers" - a concurrent call must return nil if
// some seed answers and an error if none does; the last call must return nil, whatever the concurrent calls did to the
// seed / dead-seed bookkeeping between them; nothing hangs, nothing panics.

import (
	"fmt"
	"net/url"
	"sync"
	"testing/synctest"

	"github.com/Shopify/sarama"

	"verif/engine/gx"
)

func init() {
	gx.RegisterRig("cli2", func(v url.Values) (*gx.Scenario, error) {
		beh := v.Get("beh") // behaviour of seed 1, 2, ... during the concurrent phase: A answers, D drops, R refuses
		if beh == "" {
			beh = "D"
		}
		order := v.Get("seeds") // the order in which the seed addresses are handed to NewClient, e.g. "21"
		if order == "" {
			order = "123"[:len(beh)]
		}
		if len(order) != len(beh) {
			return nil, fmt.Errorf("cli2: seeds=%q and beh=%q differ in length", order, beh)
		}
		n := 2
		if v.Get("n") == "3" {
			n = 3
		}
		return &gx.Scenario{Run: func(c *gx.Ctl) *gx.Outcome { return runDead2(c, order, beh, n) }}, nil
	})
}

func runDead2(c *gx.Ctl, order, beh string, ncalls int) *gx.Outcome {
	out := &gx.Outcome{}
	var mu sync.Mutex
	var panics []string
	sarama.PanicHandler = func(v interface{}) { mu.Lock(); panics = append(panics, fmt.Sprint(v)); mu.Unlock() }
	defer func() { sarama.PanicHandler = nil }()
	s := NewServer(&Snaps[0])
	conf := newConf(s, 0, true)
	var addrs []string
	healthy := map[string]byte{}
	phase := map[string]byte{}
	mustOK := false
	for _, ch := range order {
		i := int(ch - '0')
		addrs = append(addrs, seedAddr(i))
		healthy[seedAddr(i)] = BAnswer
		phase[seedAddr(i)] = beh[i-1]
		mustOK = mustOK || beh[i-1] == BAnswer
	}
	s.Behav = healthy
	client, err := sarama.NewClient(addrs, conf)
	if err != nil {
		out.Violate(Prop, "dead2/NewClient:error-although-seed-answers", "NewClient: %v", err)
		s.CloseAll()
		synctest.Wait()
		return out
	}
	lk := newLockCtl(c)
	sarama.VerifSetOnLock(lk.onLock)
	defer sarama.VerifSetOnLock(nil)
	c.GateRank = func(string) int { return -1 }
	// the concurrent phase: the seeds behave as the scenario says
	s.SetBehav(phase)

	started := make([]bool, ncalls)
	done := make([]bool, ncalls)
	errs := make([]error, ncalls)
	healed, lastStarted, lastDone := false, false, false
	var lastErr error
	call := func(name string, fin func(error)) {
		go func() {
			lk.register(name)
			e := client.RefreshMetadata()
			lk.returned(name)
			mu.Lock()
			fin(e)
			mu.Unlock()
		}()
	}
	c.Providers = append(c.Providers, func() []gx.Actor {
		mu.Lock()
		defer mu.Unlock()
		var acts []gx.Actor
		all := true
		for i := range started {
			i := i
			if !started[i] {
				acts = append(acts, gx.Actor{Label: fmt.Sprintf("refresh%d", i+1), Rank: i, Variants: []gx.Variant{{Do: func() {
					mu.Lock()
					started[i] = true
					mu.Unlock()
					call(fmt.Sprintf("ref%d", i+1), func(e error) { errs[i], done[i] = e, true })
				}}}})
			}
			all = all && done[i]
		}
		if all && !healed {
			acts = append(acts, gx.Actor{Label: "heal", Rank: 5, Variants: []gx.Variant{{Do: func() {
				s.SetBehav(healthy)
				mu.Lock()
				healed = true
				mu.Unlock()
			}}}})
		}
		if healed && !lastStarted {
			acts = append(acts, gx.Actor{Label: "refresh-after-heal", Rank: 6, Variants: []gx.Variant{{Do: func() {
				mu.Lock()
				lastStarted = true
				mu.Unlock()
				call("last", func(e error) { lastErr, lastDone = e, true })
			}}}})
		}
		return acts
	})
	c.Digest = func() string {
		mu.Lock()
		defer mu.Unlock()
		return fmt.Sprintf("%v %v %v %v %s", started, done, healed, lastDone, sarama.VerifClientDump(client))
	}
	c.Loop(func() bool { mu.Lock(); defer mu.Unlock(); return lastDone })

	mu.Lock()
	state := sarama.VerifClientDump(client)
	if c.Stuck || !lastDone {
		out.Violate(Prop, "dead2/call-never-returns", "a RefreshMetadata call did not return (started %v done %v healed %v last %v/%v stuck=%v); client %s; trace %v", started, done, healed, lastStarted, lastDone, c.Stuck, state, c.Trace())
	} else if lastErr != nil {
		out.Violate(Prop, fmt.Sprintf("dead2/refresh-fails-after-heal calls=%d beh=%s", ncalls, beh), "after %d concurrent RefreshMetadata calls (seed behaviours %s, results %v) every seed answers again, but RefreshMetadata returned %q; client state %s; trace %v", ncalls, beh, errs, lastErr, state, c.Trace())
	}
	for i, e := range errs {
		if done[i] && e == nil && !mustOK {
			out.Violate(Prop, "dead2/refresh-succeeds-although-nobody-answers", "RefreshMetadata #%d returned nil while no address answered (seed behaviours %s)", i+1, beh)
		}
		if done[i] && e != nil && mustOK {
			out.Violate(Prop, fmt.Sprintf("dead2/concurrent-refresh-fails-although-a-seed-answers calls=%d beh=%s", ncalls, beh), "RefreshMetadata #%d of %d concurrent calls returned %q although a seed answers (seeds %v behave %s); client state %s; trace %v", i+1, ncalls, e, addrs, beh, state, c.Trace())
		}
	}
	if len(panics) > 0 {
		out.Violate(Prop, "dead2/panic-in-sarama-goroutine", "%v", panics)
	}
	out.Obs = fmt.Sprintf("errs=%v last=%v", errs, lastErr)
	mu.Unlock()
	cd := false
	go func() { _ = client.Close(); cd = true }()
	synctest.Wait()
	s.CloseAll()
	synctest.Wait()
	_ = cd
	return out
}

var _ = url.Values{}
