package clirig

// HISTORY layer: one execution = one synctest bubble with a real sarama.NewClient against the
// scripted server; the events of a history are applied one after the other, the canonical state key
// is dumped, then ALL read APIs are compared with the reference fold.

import (
	"fmt"
	"hash/fnv"
	"runtime/debug"
	"strconv"
	"strings"
	"testing"
	"testing/synctest"
	"time"

	"github.com/Shopify/sarama"
	metrics "github.com/rcrowley/go-metrics"
)

func init() { metrics.UseNilMetrics = true }

// Event: an operation performed while the cluster is in snapshot Snap ("answered with snapshot s").
// Op: "R" = RefreshMetadata(), "R:t" / "R:t,u" = RefreshMetadata of the named topics, or a read API
// call "Partitions:t", "WritablePartitions:t", "Leader:t:1", "Replicas:t:2", "Controller" which
// refreshes by itself when it misses the cache.
type Event struct {
	Op   string `json:"op"`
	Snap int    `json:"snap"`
}

func (e Event) String() string { return fmt.Sprintf("%s@%d", e.Op, e.Snap) }

type HistCase struct {
	Events []Event `json:"events"`
	RM     int     `json:"rm"`             // Metadata.Retry.Max
	Part   bool    `json:"part,omitempty"` // Metadata.Full = false (no initial fetch, background refresh = known topics)
	NoKey  bool    `json:"-"`
}

func (h HistCase) String() string {
	s := make([]string, len(h.Events))
	for i, e := range h.Events {
		s[i] = e.String()
	}
	return fmt.Sprintf("rm=%d part=%v [%s]", h.RM, h.Part, strings.Join(s, " "))
}

type Violation struct {
	Sig string `json:"sig"`
	Msg string `json:"msg"`
}

type HistResult struct {
	Key       string         `json:"key"`
	Viol      []Violation    `json:"viol,omitempty"`
	Calls     int            `json:"calls"`
	Misses    int            `json:"misses"` // read calls during which the client refreshed
	Served    int            `json:"served"`
	ObsHash   uint64         `json:"obs_hash"`
	Trace     []string       `json:"trace,omitempty"`
	Leaked    bool           `json:"leaked,omitempty"`
	EngineErr string         `json:"engine_err,omitempty"`
	Stats     map[string]int `json:"stats,omitempty"`
}

// ReadOps are the read-API events of the history alphabet (each may or may not miss, depending on state).
var ReadOps = []string{"Partitions:t", "WritablePartitions:t", "Leader:t:1", "Leader:u:0", "Replicas:t:2", "Controller"}

// MoreReadOps are added by the thorough tier.
var MoreReadOps = []string{"Partitions:u", "WritablePartitions:u", "Leader:t:0", "Leader:t:2", "InSyncReplicas:t:0", "OfflineReplicas:u:0"}
var RefreshOps = []string{"R", "R:t", "R:u", "R:t,u"}

// OtherOps: client calls that are not metadata reads but touch the broker registry, and the passing of time
var OtherOps = []string{"Coord:g", "T"}

// UseOps: the application asks for a partition's leader and uses the broker it is handed (opens its connection). Explored in
// a variant of its own: an open connection is one more bit of state per broker.
var UseOps = []string{"Use:t:0", "Use:t:1"}

// BackgroundEvery is Metadata.RefreshFrequency of the history layer (sarama's default).
const BackgroundEvery = 10 * time.Minute

func parseRead(op string) (Call, bool) {
	f := strings.Split(op, ":")
	c := Call{Op: f[0]}
	if len(f) > 1 {
		c.Topic = f[1]
	}
	if len(f) > 2 {
		n, err := strconv.Atoi(f[2])
		if err != nil {
			return c, false
		}
		c.Part = int32(n)
	}
	switch c.Op {
	case "Topics", "Brokers", "Controller", "Partitions", "WritablePartitions", "Leader", "Replicas", "InSyncReplicas", "OfflineReplicas":
		return c, true
	}
	return c, false
}

func newConf(s *Server, rm int, full bool) *sarama.Config {
	conf := sarama.NewConfig()
	conf.Version = sarama.V2_0_0_0 // metadata v5: controller id and offline replicas travel
	conf.Net.Proxy.Enable = true
	conf.Net.Proxy.Dialer = s
	conf.Metadata.Full = full
	conf.Metadata.RefreshFrequency = 0 // background refresh = the event "R" (Full) / "R:t,u" (known topics)
	conf.Metadata.Retry.Max = rm
	conf.Metadata.Retry.Backoff = 250 * time.Millisecond
	conf.Metadata.Timeout = 0
	return conf
}

// bubble runs f inside a fresh synctest bubble and survives "blocked goroutines remain".
func bubble(t *testing.T, f func()) (leaked bool, panicMsg string) {
	done := make(chan struct{})
	go func() {
		defer close(done)
		defer func() {
			if r := recover(); r != nil {
				if strings.Contains(fmt.Sprint(r), "blocked goroutines remain") {
					leaked = true
				} else {
					panicMsg = fmt.Sprintf("%v\n%s", r, debug.Stack())
				}
			}
		}()
		synctest.Test(t, func(t *testing.T) { f() })
	}()
	<-done
	return
}

// doRefresh performs RefreshMetadata(topics...) and judges its return value.
func doRefresh(c sarama.Client, s *Server, ref *Ref, topics []string) (*Obs, *Verdict) {
	n0 := s.Served()
	err := c.RefreshMetadata(topics...)
	o := &Obs{Op: "RefreshMetadata", Names: topics}
	setErr(o, err)
	o.Resps = s.LogFrom(n0)
	clean := true
	for i := range o.Resps {
		ref.Fold(&o.Resps[i])
		clean = clean && o.Resps[i].Clean()
	}
	switch {
	case err == nil && len(o.Resps) == 0:
		return o, &Verdict{"RefreshMetadata:returns-nil-without-asking", o.String() + " but no metadata response was served during the call"}
	case err != nil && len(o.Resps) > 0 && clean:
		return o, &Verdict{"RefreshMetadata:error-although-answered", o.String() + " but the seed broker answered every request of this call without any topic or partition error"}
	}
	return o, nil
}

// RunHistory executes one history.
func RunHistory(t *testing.T, h *HistCase) *HistResult {
	res := &HistResult{Stats: map[string]int{}}
	var panics []string
	leaked, pmsg := bubble(t, func() {
		s := NewServer(&Snaps[0])
		sarama.PanicHandler = func(v interface{}) { panics = append(panics, fmt.Sprint(v)) }
		ref := NewRef()
		conf := newConf(s, h.RM, !h.Part)
		conf.Metadata.RefreshFrequency = BackgroundEvery // the event "T" lets that much (fake) time pass
		client, err := sarama.NewClient([]string{SeedAddr}, conf)
		for _, r := range s.LogFrom(0) {
			r := r
			ref.Fold(&r)
		}
		if err != nil {
			res.Viol = append(res.Viol, Violation{"NewClient:error-although-seed-answers", fmt.Sprintf("NewClient: %v although the seed broker answers (snapshot 0 has no errors)", err)})
			s.CloseAll()
			return
		}
		oh := fnv.New64a()
		note := func(where string, o *Obs, v *Verdict) {
			res.Calls++
			if len(o.Resps) > 0 && o.Op != "RefreshMetadata" {
				res.Misses++
				res.Stats["miss:"+o.Op]++
			}
			for _, op := range ref.OpenPoints(o) {
				res.Stats[op]++
			}
			oh.Write([]byte(o.String()))
			oh.Write([]byte{0})
			line := where + " " + o.String()
			if len(o.Resps) > 0 {
				line += fmt.Sprintf("  {served: %v}", o.Resps)
			}
			res.Trace = append(res.Trace, line)
			if v != nil {
				if v.Sig == "ENGINE" {
					res.EngineErr = v.Msg
					return
				}
				res.Viol = append(res.Viol, Violation{v.Sig, where + ": " + v.Msg})
			}
		}
		for i, e := range h.Events {
			if e.Snap < 0 || e.Snap >= len(Snaps) {
				res.EngineErr = "bad snapshot index"
				break
			}
			s.SetCur(&Snaps[e.Snap])
			where := fmt.Sprintf("event %d %s", i+1, e)
			if e.Op == "R" || strings.HasPrefix(e.Op, "R:") {
				var topics []string
				if len(e.Op) > 2 {
					topics = strings.Split(e.Op[2:], ",")
				}
				o, v := doRefresh(client, s, ref, topics)
				note(where, o, v)
			} else if e.Op == "T" {
				// time passes: the client's own background updater refreshes (everything, or the topics it knows)
				n0 := s.Served()
				time.Sleep(BackgroundEvery)
				synctest.Wait()
				o := &Obs{Op: "RefreshMetadata", Names: []string{"(background)"}}
				o.Resps = s.LogFrom(n0)
				for i := range o.Resps {
					ref.Fold(&o.Resps[i])
				}
				note(where, o, nil)
			} else if strings.HasPrefix(e.Op, "Use:") {
				// the application asks for a partition's leader and USES the broker it is handed (opens its connection and
				// waits for it): the read is judged like any other; the use itself is not a metadata call
				c, _ := parseRead("Leader:" + e.Op[4:])
				o, v := ReadJudged(client, s, ref, c.Op, c.Topic, c.Part)
				note(where, o, v)
				if o.Err == "" {
					if b, err := client.Leader(c.Topic, c.Part); err == nil && b != nil { // (served from the cache now)
						s.Accept(b.Addr()) // this endpoint is up (and stays up if the broker later moves to another address)
						_ = b.Open(conf)
						_, _ = b.Connected()
					}
				}
			} else if strings.HasPrefix(e.Op, "Coord:") {
				// Coordinator(group): not judged (not a metadata read), but the client registers the broker it is told
				n0, c0 := s.Served(), len(s.CoordsFrom(0))
				b, err := client.Coordinator(e.Op[6:])
				o := &Obs{Op: "Coordinator", Topic: e.Op[6:]}
				setErr(o, err)
				if b != nil {
					o.Ints = []int32{b.ID()}
				}
				o.Resps = s.LogFrom(n0)
				for i := range o.Resps {
					ref.Fold(&o.Resps[i])
				}
				for _, co := range s.CoordsFrom(c0) {
					ref.Register(co)
				}
				note(where, o, nil)
			} else {
				c, ok := parseRead(e.Op)
				if !ok {
					res.EngineErr = "bad event op " + e.Op
					break
				}
				o, v := ReadJudged(client, s, ref, c.Op, c.Topic, c.Part)
				note(where, o, v)
			}
			synctest.Wait()
		}
		if !h.NoKey {
			res.Key = sarama.VerifClientDump(client)
		}
		// compare ALL read APIs with the reference (the sweep itself refreshes on misses; those
		// responses are folded as further events)
		for _, c := range ref.SweepOrder() {
			o, v := ReadJudged(client, s, ref, c.Op, c.Topic, c.Part)
			note("sweep", o, v)
			synctest.Wait()
		}
		res.ObsHash = oh.Sum64()
		res.Served = s.Served()
		if s.EngineErr != "" {
			res.EngineErr = s.EngineErr
		}
		if s.Livelock {
			res.Viol = append(res.Viol, Violation{"livelock:dials-without-end", fmt.Sprintf("more than %d dial attempts in one history", s.MaxDials)})
		}
		_ = client.Close()
		s.CloseAll()
		synctest.Wait()
	})
	res.Leaked = leaked
	if pmsg != "" {
		res.EngineErr = "panic in harness: " + pmsg
	}
	if len(panics) > 0 {
		res.Viol = append(res.Viol, Violation{"panic-in-sarama-goroutine", strings.Join(panics, " | ")})
	}
	return res
}
