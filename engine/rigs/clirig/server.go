package clirig

import (
	"errors"
	"fmt"
	"net"
	"sync"
	"time"

	"github.com/Shopify/sarama"
)

// Behaviours of an address (reachability layer). History and atomicity layers use only A for the
// seed and R for everything else.
const (
	BAnswer  byte = 'A' // accepts and answers every metadata request from the current snapshot
	BRefuse  byte = 'R' // the dial is refused at once
	BUnreach byte = 'U' // the dial gets no answer: it fails after Net.DialTimeout of (fake) time
	BDrop    byte = 'D' // accepts, reads the request, then drops the connection (fails mid-request)
	BHang    byte = 'H' // accepts, reads the request, never answers (the client's ReadTimeout ends it)
)

type ReqRec struct {
	Addr   string   `json:"addr"`
	Topics []string `json:"topics,omitempty"`
	Fate   string   `json:"fate"` // answered | dropped | ignored
}

// Pending is a request that was read completely and waits for the controller (manual mode).
type Pending struct {
	Label string
	Addr  string
	Owner string // lock mode: the application goroutine that sent it
	sv    net.Conn
	req   *sarama.VerifRequest
}

type svConn struct {
	addr string
	sv   net.Conn
}

// Server is the scripted cluster: every dial gets a net.Pipe whose server end is served by one
// goroutine decoding requests with sarama's own request decoder. Every response it serves is
// appended to Log – the input of the reference fold.
type Server struct {
	mu          sync.Mutex
	Cur         *Snap
	Behav       map[string]byte
	Default     byte
	DialTimeout time.Duration
	Log         []Resp
	Dials       []string
	Reqs        []ReqRec
	Coords      []Brk // coordinators named in FindCoordinator answers, in order
	conns       []svConn
	nconn       map[string]int

	Manual  bool
	OwnerFn func() string
	pending []*Pending

	MaxDials  int // more dial attempts than this in one execution = the client is looping
	Livelock  bool
	park      chan struct{}
	EngineErr string
}

func NewServer(cur *Snap) *Server {
	return &Server{Cur: cur, Behav: map[string]byte{SeedAddr: BAnswer}, Default: BRefuse, DialTimeout: 30 * time.Second,
		nconn: map[string]int{}, MaxDials: 400, park: make(chan struct{})}
}

// Accept makes the endpoint at addr accept connections and answer from now on.
func (s *Server) Accept(addr string) {
	s.mu.Lock()
	defer s.mu.Unlock()
	nb := make(map[string]byte, len(s.Behav)+1)
	for k, v := range s.Behav {
		nb[k] = v
	}
	nb[addr] = BAnswer
	s.Behav = nb
}

func (s *Server) behav(addr string) byte {
	if b, ok := s.Behav[addr]; ok {
		return b
	}
	return s.Default
}

func (s *Server) fail(msg string) {
	if s.EngineErr == "" {
		s.EngineErr = msg
	}
}

// Dial implements proxy.Dialer.
func (s *Server) Dial(network, addr string) (net.Conn, error) {
	s.mu.Lock()
	s.Dials = append(s.Dials, addr)
	if len(s.Dials) > s.MaxDials {
		// the client keeps dialling without ever giving up: park this goroutine for ever so that the
		// bubble becomes quiescent and the harness can report the loop (it could not be interrupted otherwise)
		s.Livelock = true
		s.mu.Unlock()
		<-s.park
		return nil, errors.New("clirig: parked")
	}
	b := s.behav(addr)
	switch b {
	case BRefuse:
		s.mu.Unlock()
		return nil, errors.New("clirig: connection refused: " + addr)
	case BUnreach:
		d := s.DialTimeout
		s.mu.Unlock()
		time.Sleep(d)
		return nil, errors.New("clirig: dial " + addr + ": i/o timeout")
	}
	c, sv := net.Pipe()
	s.nconn[addr]++
	label := fmt.Sprintf("%s#%d", addr, s.nconn[addr])
	s.conns = append(s.conns, svConn{addr, sv})
	s.mu.Unlock()
	go s.serve(addr, label, sv)
	return c, nil
}

func (s *Server) serve(addr, label string, sv net.Conn) {
	for {
		r, err := sarama.VerifDecodeRequest(sv)
		if err != nil {
			sv.Close()
			return
		}
		mr, isMeta := r.Body.(*sarama.MetadataRequest)
		s.mu.Lock()
		if fc, isFC := r.Body.(*sarama.FindCoordinatorRequest); isFC {
			// the coordinator of every group is the highest-numbered broker of the current snapshot; answered at once
			// (coordinator lookups are not the subject of C15: they matter because the client REGISTERS the named broker)
			if b := s.behav(addr); b == BDrop || b == BRefuse || b == BUnreach {
				s.mu.Unlock()
				sv.Close()
				return
			}
			var co Brk
			for _, b := range s.Cur.Brokers {
				if b.ID >= co.ID {
					co = b
				}
			}
			s.Coords = append(s.Coords, co)
			frame, err := sarama.VerifEncodeResponse(r.CorrelationID, &sarama.FindCoordinatorResponse{Version: fc.Version, Coordinator: sarama.VerifNewBroker(co.ID, co.Addr)})
			if err != nil {
				s.fail("clirig: cannot encode FindCoordinator response: " + err.Error())
			}
			s.mu.Unlock()
			if _, err := sv.Write(frame); err != nil {
				sv.Close()
				return
			}
			continue
		}
		if !isMeta {
			s.fail(fmt.Sprintf("clirig: unexpected request %T", r.Body))
			s.mu.Unlock()
			sv.Close()
			return
		}
		switch s.behav(addr) {
		case BDrop, BRefuse, BUnreach:
			s.Reqs = append(s.Reqs, ReqRec{addr, mr.Topics, "dropped"})
			s.mu.Unlock()
			sv.Close()
			return
		case BHang:
			s.Reqs = append(s.Reqs, ReqRec{addr, mr.Topics, "ignored"})
			s.mu.Unlock()
			continue
		}
		if s.Manual {
			pd := &Pending{Label: label, Addr: addr, sv: sv, req: r}
			if s.OwnerFn != nil {
				pd.Owner = s.OwnerFn()
			}
			s.pending = append(s.pending, pd)
			s.mu.Unlock()
			continue
		}
		frame := s.answerLocked(addr, label, r, mr)
		s.mu.Unlock()
		if frame == nil {
			sv.Close()
			return
		}
		if _, err := sv.Write(frame); err != nil {
			sv.Close()
			return
		}
	}
}

// answerLocked builds, logs and encodes the answer to one metadata request from the current snapshot.
func (s *Server) answerLocked(addr, label string, r *sarama.VerifRequest, mr *sarama.MetadataRequest) []byte {
	resp := s.Cur.Answer(mr.Topics)
	resp.Conn = label
	m := &sarama.MetadataResponse{Version: mr.Version, ControllerID: resp.Ctrl}
	for _, b := range resp.Brokers {
		m.AddBroker(b.Addr, b.ID)
	}
	for _, t := range resp.Topics {
		tm := &sarama.TopicMetadata{Name: t.Name, Err: sarama.KError(t.Err)}
		for _, p := range t.Parts {
			tm.Partitions = append(tm.Partitions, &sarama.PartitionMetadata{ID: p.ID, Leader: p.Leader, Replicas: append([]int32(nil), p.Rep...),
				Isr: append([]int32(nil), p.Isr...), OfflineReplicas: append([]int32(nil), p.Off...), Err: sarama.KError(p.Err)})
		}
		m.Topics = append(m.Topics, tm)
	}
	frame, err := sarama.VerifEncodeResponse(r.CorrelationID, m)
	if err != nil {
		s.fail("clirig: cannot encode metadata response: " + err.Error())
		return nil
	}
	if mr.Version < 5 {
		// offline replicas do not travel below v5: the served response did not say them
		for i := range resp.Topics {
			ps := append([]Part(nil), resp.Topics[i].Parts...)
			for j := range ps {
				ps[j].Off = nil
			}
			resp.Topics[i].Parts = ps
		}
	}
	s.Log = append(s.Log, resp)
	s.Reqs = append(s.Reqs, ReqRec{addr, mr.Topics, "answered"})
	return frame
}

// Heads returns the head-of-line pending request of every connection (manual mode), sorted by label.
func (s *Server) Heads() []*Pending {
	s.mu.Lock()
	defer s.mu.Unlock()
	seen := map[string]bool{}
	var l []*Pending
	for _, p := range s.pending {
		if !seen[p.Label] {
			seen[p.Label] = true
			l = append(l, p)
		}
	}
	return l
}

// AnswerPending serves one pending request from the current snapshot (manual mode) and returns the
// 1-based index of the response in the served log (0 if nothing was served).
func (s *Server) AnswerPending(p *Pending) int {
	s.mu.Lock()
	for i := range s.pending {
		if s.pending[i] == p {
			s.pending = append(s.pending[:i:i], s.pending[i+1:]...)
			break
		}
	}
	frame := s.answerLocked(p.Addr, p.Label, p.req, p.req.Body.(*sarama.MetadataRequest))
	k := len(s.Log)
	s.mu.Unlock()
	if frame == nil {
		return 0
	}
	sv := p.sv
	go func() { _, _ = sv.Write(frame) }()
	return k
}

// CoordsFrom returns the coordinators named since the n-th FindCoordinator answer.
func (s *Server) CoordsFrom(n int) []Brk {
	s.mu.Lock()
	defer s.mu.Unlock()
	return append([]Brk(nil), s.Coords[n:]...)
}

func (s *Server) Served() int {
	s.mu.Lock()
	defer s.mu.Unlock()
	return len(s.Log)
}

func (s *Server) LogFrom(n int) []Resp {
	s.mu.Lock()
	defer s.mu.Unlock()
	return append([]Resp(nil), s.Log[n:]...)
}

func (s *Server) SetCur(sn *Snap) {
	s.mu.Lock()
	s.Cur = sn
	s.mu.Unlock()
}

// SetBehav installs the behaviours of a new phase; connections to addresses that no longer answer
// break (the broker went away), as they would in reality.
func (s *Server) SetBehav(b map[string]byte) {
	s.mu.Lock()
	s.Behav = b
	var closeList []net.Conn
	for _, c := range s.conns {
		if s.behav(c.addr) != BAnswer {
			closeList = append(closeList, c.sv)
		}
	}
	s.mu.Unlock()
	for _, c := range closeList {
		c.Close()
	}
}

func (s *Server) CloseAll() {
	s.mu.Lock()
	cs := append([]svConn(nil), s.conns...)
	s.mu.Unlock()
	for _, c := range cs {
		c.sv.Close()
	}
}

func (s *Server) DialLog() []string {
	s.mu.Lock()
	defer s.mu.Unlock()
	return append([]string(nil), s.Dials...)
}

func (s *Server) ReqLog() []ReqRec {
	s.mu.Lock()
	defer s.mu.Unlock()
	return append([]ReqRec(nil), s.Reqs...)
}
