package clirig

// REACHABILITY layer: 1–3 seed brokers and 0–2 brokers known from metadata; per phase (NewClient,
// then one or two RefreshMetadata calls) every address is given a behaviour (answer / refuse the
// dial / unreachable until the dial timeout / drop the connection mid-request / never answer); the
// order of the seed list and the order in which client.any() picks known brokers are parameters.
// Oracle: the call returns (fake time is free), and succeeds iff at least one candidate answers.

import (
	"fmt"
	"sort"
	"strings"
	"sync"
	"testing"
	"testing/synctest"
	"time"

	"github.com/Shopify/sarama"
)

type ReachCase struct {
	Seeds   []int    `json:"seeds"`             // seed numbers in the order given to NewClient, e.g. [2,1,3]
	Known   int      `json:"known"`             // brokers 1..Known are listed by the metadata
	Alias   bool     `json:"alias,omitempty"`   // broker 1 lives at the address of seed 1 (seeds usually are brokers)
	RM      int      `json:"rm"`                // Metadata.Retry.Max
	New     string   `json:"new"`               // behaviour of seed 1..n during NewClient
	Refresh []string `json:"refresh,omitempty"` // per RefreshMetadata call: behaviour of seed 1..n then broker 1..Known
	Pick    []int32  `json:"pick,omitempty"`    // priority in which client.any() picks among known brokers
	Conc    int      `json:"conc,omitempty"`    // >1: that many RefreshMetadata calls are issued concurrently in each refresh phase
}

func (c ReachCase) String() string {
	s := fmt.Sprintf("seeds=%v known=%d alias=%v rm=%d new=%s refresh=%v pick=%v", c.Seeds, c.Known, c.Alias, c.RM, c.New, c.Refresh, c.Pick)
	if c.Conc > 1 {
		s += fmt.Sprintf(" concurrent-calls=%d", c.Conc)
	}
	return s
}

type ReachResult struct {
	Viol      []Violation    `json:"viol,omitempty"`
	Outcome   string         `json:"outcome"`              // e.g. "new:ok refresh:ok refresh:fail"
	SeedOrder string         `json:"seed_order,omitempty"` // order in which the seeds were actually dialled first
	Trace     []string       `json:"trace,omitempty"`
	Stats     map[string]int `json:"stats,omitempty"`
	Leaked    bool           `json:"leaked,omitempty"`
	EngineErr string         `json:"engine_err,omitempty"`
}

func seedAddr(i int) string { return fmt.Sprintf("s%d:9092", i) }

func (c *ReachCase) brokerAddr(id int32) string {
	if c.Alias && id == 1 {
		return seedAddr(1)
	}
	return A(id)
}

func (c *ReachCase) snap() *Snap {
	s := &Snap{Name: fmt.Sprintf("reach:%d-brokers", c.Known), Ctrl: -1}
	for id := int32(1); id <= int32(c.Known); id++ {
		s.Brokers = append(s.Brokers, Brk{id, c.brokerAddr(id)})
	}
	if c.Known > 0 {
		s.Ctrl = 1
		s.Topics = []Topic{{Name: "t", Parts: []Part{ok(0, 1, i32(1), i32(1), nil)}}}
	}
	return s
}

// behav maps a behaviour string (seed 1..n, then broker 1..Known) to addresses. With Alias the
// entry of broker 1 is ignored (its address is seed 1's).
func (c *ReachCase) behav(b string) (map[string]byte, error) {
	n := len(c.Seeds)
	m := map[string]byte{}
	if len(b) != n && len(b) != n+c.Known {
		return nil, fmt.Errorf("behaviour string %q does not fit %d seeds + %d brokers", b, n, c.Known)
	}
	for i := 0; i < n; i++ {
		m[seedAddr(i+1)] = b[i]
	}
	for i := n; i < len(b); i++ {
		id := int32(i - n + 1)
		if c.Alias && id == 1 {
			continue
		}
		m[A(id)] = b[i]
	}
	return m, nil
}

// await lets fake time run until the call returns; false = it never does.
func await(done *bool, s *Server) bool {
	for i := 0; i < 6; i++ {
		synctest.Wait()
		if *done {
			return true
		}
		if s.Livelock {
			return false
		}
		time.Sleep(10 * time.Minute)
	}
	synctest.Wait()
	return *done
}

func RunReach(t *testing.T, rc *ReachCase) *ReachResult {
	res := &ReachResult{Stats: map[string]int{}}
	var panics []string
	leaked, pmsg := bubble(t, func() {
		defer func() { sarama.VerifPickFn = nil }()
		sn := rc.snap()
		s := NewServer(sn)
		s.MaxDials = 120
		s.Default = BRefuse
		sarama.PanicHandler = func(v interface{}) { panics = append(panics, fmt.Sprint(v)) }
		b1, err := rc.behav(rc.New)
		if err != nil {
			res.EngineErr = err.Error()
			return
		}
		s.Behav = b1
		if len(rc.Pick) > 0 {
			prio := rc.Pick
			sarama.VerifPickFn = func(m map[int32]*sarama.Broker) *sarama.Broker {
				for _, id := range prio {
					if b := m[id]; b != nil {
						return b
					}
				}
				// ids outside the priority list: lowest id first (deterministic)
				var ids []int32
				for id := range m {
					ids = append(ids, id)
				}
				if len(ids) == 0 {
					return nil
				}
				sort.Slice(ids, func(i, j int) bool { return ids[i] < ids[j] })
				return m[ids[0]]
			}
		}
		var addrs []string
		for _, i := range rc.Seeds {
			addrs = append(addrs, seedAddr(i))
		}
		conf := newConf(s, rc.RM, true)
		var client sarama.Client
		var cerr error
		done := false
		go func() { client, cerr = sarama.NewClient(addrs, conf); done = true }()
		returned := await(&done, s)
		// the order in which the seeds were first dialled
		seen := map[string]bool{}
		var order []string
		for _, a := range s.DialLog() {
			if strings.HasPrefix(a, "s") && !seen[a] {
				seen[a] = true
				order = append(order, a[:2])
			}
		}
		res.SeedOrder = strings.Join(order, ",")
		anyA := strings.ContainsRune(rc.New, rune(BAnswer))
		res.Trace = append(res.Trace, fmt.Sprintf("NewClient(%v) behaviours %s → returned=%v err=%v; dials %v; requests %v", addrs, rc.New, returned, cerr, s.DialLog(), s.ReqLog()))
		switch {
		case !returned:
			sig := "NewClient:never-returns"
			if s.Livelock {
				sig = "NewClient:livelock-redialling"
			}
			res.Viol = append(res.Viol, Violation{sig, fmt.Sprintf("NewClient did not return within an hour of fake time (livelock=%v): dials %v", s.Livelock, tailS(s.DialLog(), 12))})
			res.Outcome = "new:hang"
			return
		case anyA && cerr != nil:
			res.Viol = append(res.Viol, Violation{fmt.Sprintf("NewClient:fails-although-a-seed-answers rm=%d", rc.RM), fmt.Sprintf("NewClient returned %v although a seed answers (behaviours %s of seeds 1..%d, given as %v)", cerr, rc.New, len(rc.Seeds), rc.Seeds)})
			res.Outcome = "new:fail!"
			return
		case !anyA && cerr == nil:
			res.Viol = append(res.Viol, Violation{"NewClient:succeeds-although-no-seed-answers", "NewClient returned a client although no seed answers: " + rc.New})
			res.Outcome = "new:ok!"
		case cerr != nil:
			res.Outcome = "new:fail"
			s.CloseAll()
			synctest.Wait()
			return
		default:
			res.Outcome = "new:ok"
		}
		everListed := map[string]bool{}
		for _, b := range sn.Brokers {
			everListed[b.Addr] = true
		}
		tainted := false
		for k, beh := range rc.Refresh {
			bm, err := rc.behav(beh)
			if err != nil {
				res.EngineErr = err.Error()
				break
			}
			s.SetBehav(bm)
			synctest.Wait()
			// candidates: the seeds and the brokers the client currently knows
			var known []Brk
			for _, b := range client.Brokers() {
				known = append(known, brkOf(b))
			}
			sort.Slice(known, func(i, j int) bool { return known[i].ID < known[j].ID })
			mustOK, canOK := false, false
			for _, a := range addrs {
				if s.behav(a) == BAnswer {
					mustOK, canOK = true, true
				}
			}
			for _, b := range known {
				if s.behav(b.Addr) == BAnswer {
					mustOK, canOK = true, true
				}
			}
			for a := range everListed {
				if s.behav(a) == BAnswer {
					canOK = true
				}
			}
			// distinguishing feature for signatures: are the answering candidates only seeds that an
			// earlier call set aside as dead (bridge dump "D[addr,…]")?
			dump := sarama.VerifClientDump(client)
			deadList := ""
			if i := strings.LastIndex(dump, "D["); i >= 0 {
				deadList = dump[i+2:]
			}
			onlyDeadSeeds := mustOK
			for _, a := range addrs {
				if s.behav(a) == BAnswer && !strings.Contains(deadList, a+",") {
					onlyDeadSeeds = false
				}
			}
			for _, b := range known {
				if s.behav(b.Addr) == BAnswer {
					onlyDeadSeeds = false
				}
			}
			nd, nr := len(s.DialLog()), len(s.ReqLog())
			var rerr error
			done = false
			ncall := 1
			if rc.Conc > 1 && k == 0 {
				ncall = rc.Conc // the first phase is the concurrent one; later phases are single calls that see what it left behind
			}
			errs := make([]error, ncall)
			var wg sync.WaitGroup
			for ci := 0; ci < ncall; ci++ {
				ci := ci
				wg.Add(1)
				go func() { defer wg.Done(); errs[ci] = client.RefreshMetadata() }()
			}
			go func() { wg.Wait(); done = true }()
			returned := await(&done, s)
			for _, e := range errs {
				if e != nil && rerr == nil {
					rerr = e // a phase succeeds when every call of it does
				}
			}
			res.Trace = append(res.Trace, fmt.Sprintf("RefreshMetadata #%d behaviours %s known=%v → returned=%v err=%v; dials %v; requests %v", k+1, beh, known, returned, rerr, s.DialLog()[nd:], s.ReqLog()[nr:]))
			if !returned {
				sig := "RefreshMetadata:never-returns"
				if s.Livelock {
					sig = "RefreshMetadata:livelock-redialling"
				}
				res.Viol = append(res.Viol, Violation{sig, fmt.Sprintf("RefreshMetadata #%d did not return within an hour of fake time (livelock=%v): dials %v", k+1, s.Livelock, tailS(s.DialLog(), 12))})
				res.Outcome += " refresh:hang"
				return
			}
			switch {
			case mustOK && rerr != nil:
				who := "known-broker"
				for _, a := range addrs {
					if s.behav(a) == BAnswer {
						who = "seed"
					}
				}
				if onlyDeadSeeds {
					who = "seed-set-aside-as-dead-by-an-earlier-refresh"
				}
				conc := ""
				if ncall > 1 {
					conc = fmt.Sprintf(" concurrent-calls=%d", ncall)
				} else if rc.Conc > 1 {
					conc = " after-concurrent-phase"
				}
				sig := fmt.Sprintf("RefreshMetadata:fails-although-a-%s-answers rm=%d%s", who, rc.RM, conc)
				if ncall > 1 {
					// the callers of this phase are real goroutines whose interleaving is the Go scheduler's: what goes wrong here
					// is not reproducible, and ONE signature stands for it (the controlled exploration of concurrent refreshes is
					// rig cli2). What such a failure leaves behind is not judged either
					sig = fmt.Sprintf("RefreshMetadata:concurrent-calls-fail-although-a-candidate-answers concurrent-calls=%d", ncall)
					tainted = true
				} else if tainted {
					res.Stats["not-judged:after-a-failed-concurrent-phase"]++
					res.Outcome += " refresh:fail(after-failed-concurrent-phase)"
					continue
				}
				res.Viol = append(res.Viol, Violation{sig,
					fmt.Sprintf("RefreshMetadata #%d returned %q although a %s answers (behaviours %s over seeds 1..%d + brokers 1..%d; client knew brokers %v; client state before the call %s)", k+1, rerr, who, beh, len(rc.Seeds), rc.Known, known, dump)})
				res.Outcome += " refresh:fail!"
			case !canOK && rerr == nil:
				res.Viol = append(res.Viol, Violation{"RefreshMetadata:succeeds-although-nobody-answers", fmt.Sprintf("RefreshMetadata #%d returned nil although no seed and no broker answers: %s", k+1, beh)})
				res.Outcome += " refresh:ok!"
			case rerr == nil:
				res.Outcome += " refresh:ok"
			default:
				res.Outcome += " refresh:fail"
				if canOK {
					res.Stats["open:only-a-broker-the-client-itself-forgot-answers"]++
				}
			}
		}
		if s.EngineErr != "" {
			res.EngineErr = s.EngineErr
		}
		cd := false
		go func() { _ = client.Close(); cd = true }()
		synctest.Wait()
		s.CloseAll()
		synctest.Wait()
		_ = cd
	})
	res.Leaked = leaked
	if pmsg != "" {
		res.EngineErr = "panic in harness: " + pmsg
	}
	if len(panics) > 0 {
		res.Viol = append(res.Viol, Violation{"panic-in-sarama-goroutine", strings.Join(panics, " | ")})
	}
	return res
}

func tailS(l []string, n int) []string {
	if len(l) > n {
		return l[len(l)-n:]
	}
	return l
}
