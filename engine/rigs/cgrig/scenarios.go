package cgrig

import "verif/engine/gx"

var Assumptions = []string{
	"simkafka's group coordinator implements the JoinGroup/SyncGroup/Heartbeat/LeaveGroup state machine (join answers held until every member rejoined, follower syncs held until the leader's sync), offset commits admitted only for the current generation's members",
	"each partition is led by its own broker and the coordinator is a further broker, so that a session's claims, heartbeats and commits do not race for one connection in the same step; heartbeats are gated (cg.heartbeat)",
	"bounds: 1-2 members, 1-2 partitions, 2-3 records per partition, <=2 Consume calls per member, <=B deviations",
}

const gates = "cg.heartbeat,pc.subscribe,pc.resubscribe,pc.redispatch,bc.round,sess.claim"
const faults = "join-rebalance,join-unknown-member,join-drop,sync-rebalance,sync-unknown-member,sync-illegal-generation,sync-notcoord,sync-drop,hb-rebalance,hb-unknown-member,hb-illegal-generation,hb-drop,leave-drop,commit-drop,commit-notcoord,commit-missing"

func Scenarios(prop string) []gx.Sc {
	ca := ""
	if prop == "C12" {
		// close at every point; the error-reporting window of the group is a decision point too
		ca = "&closeany=1"
		g := gates + ",cg.err.mid"
		f := faults + ",fetch-unknown-error,fetch-drop"
		return []gx.Sc{
			{Name: "cg?m=1&np=1&n=2&mode=all&ns=1&gates=" + g + "&faults=" + f + ca, Q: 2, T: 3},
			{Name: "cg?m=1&np=1&n=2&mode=k1&ns=2&init=valid&gates=" + g + "&faults=" + f + ca, Q: 2, T: 3},
			{Name: "cg?m=2&np=1&n=2&mode=all&ns=1&gates=" + g + "&faults=" + f + ca, Q: 1, T: 2},
			// two members, one partition, both rejoin: one of them runs a session without any claim
			{Name: "cg?m=2&np=1&n=2&mode=all&ns=2&gates=" + g + "&faults=" + f + ca, Q: 1, T: 2},
			{Name: "cg?m=1&np=1&n=2&mode=all&ns=1&cleanerr=1&gates=" + g + "&faults=" + f + ca, Q: 2, T: 3},
			// the coordinator cannot be found for a while (before the first join, or when a rebalance has to look it up again):
			// a close in that period must complete, the member must not keep asking for ever
			{Name: "cg?m=1&np=1&n=2&mode=all&ns=1&coordenv=1&gates=" + g + "&faults=sync-notcoord,hb-rebalance" + ca, Q: 2, T: 3},
		}
	}
	return []gx.Sc{
		{Name: "cg?m=1&np=1&n=2&mode=all&ns=2&gates=" + gates + "&faults=" + faults + ca, Q: 2, T: 3},
		{Name: "cg?m=1&np=1&n=3&mode=k1&ns=2&init=valid&gates=" + gates + "&faults=" + faults + ca, Q: 2, T: 3},
		{Name: "cg?m=1&np=1&n=2&mode=ret&ns=2&init=oor&gates=" + gates + "&faults=" + faults + ca, Q: 2, T: 3},
		{Name: "cg?m=1&np=1&n=2&mode=k1&ns=2&init=zero&gates=" + gates + "&faults=" + faults + ca, Q: 1, T: 2},
		{Name: "cg?m=2&np=1&n=2&mode=all&ns=2&gates=" + gates + "&faults=" + faults + ca, Q: 2, T: 3},
		{Name: "cg?m=1&np=2&n=2&mode=k2&ns=1&strategy=roundrobin&gates=" + gates + "&faults=" + faults + ca, Q: 2, T: 3},
		{Name: "cg?m=1&np=1&n=2&mode=all&ns=1&setuperr=1&gates=" + gates + "&faults=" + faults + ca, Q: 2, T: 3},
		{Name: "cg?m=1&np=1&n=2&mode=all&ns=2&strategy=sticky&gates=" + gates + "&faults=" + faults + ca, Q: 2, T: 3},
		{Name: "cg?m=2&np=2&n=2&mode=all&ns=2&strategy=roundrobin&gates=" + gates + "&faults=" + faults + ca, Q: 1, T: 2},
		// the lookup of the partition's offsets fails while a claim opens its partition consumer (ListOffsets answered
		// NOT_LEADER, connection lost): the claim may fail, it must not start anywhere else than at the committed offset
		{Name: "cg?m=1&np=1&n=3&mode=k1&ns=2&init=valid&gates=" + gates + "&faults=offsets-notleader,offsets-drop,hb-rebalance" + ca, Q: 2, T: 3},
		// the fetch of the committed offsets fails while a session starts (coordinator moved, connection lost, an error
		// without special treatment): the session may fail, a claim must not start anywhere else than at the committed offset
		{Name: "cg?m=1&np=1&n=3&mode=k1&ns=2&init=valid&gates=" + gates + "&faults=ofetch-notcoord,ofetch-drop,ofetch-other,hb-rebalance" + ca, Q: 2, T: 3},
		// the coordinator moves while a member joins; errors of join and sync that have no special treatment
		{Name: "cg?m=1&np=1&n=2&mode=all&ns=2&gates=" + gates + "&faults=join-notcoord,join-other,sync-other,sync-notcoord,hb-rebalance" + ca, Q: 2, T: 3},
		// a claim that commits by hand (session.Commit) and then returns an error
		{Name: "cg?m=1&np=1&n=3&mode=k1e&ns=2&init=valid&gates=" + gates + "&faults=" + faults + ca, Q: 1, T: 2},
		// an explicit offset retention: commits travel in the request version that carries it
		{Name: "cg?m=1&np=1&n=2&mode=all&ns=2&ret=1&gates=" + gates + "&faults=" + faults + ca, Q: 1, T: 2},
		// the partition moves to another broker, e.g. between two sessions (the next session talks to the new leader while the old
		// session's last fetch may still be waiting at the old one)
		{Name: "cg?m=1&np=1&n=2&mode=all&ns=2&move=1&gates=" + gates + "&faults=hb-rebalance" + ca, Q: 2, T: 3},
		// no rebalance retries at all (Rebalance.Retry.Max = 0): every budget-bound branch of a rebalance is on its last attempt
		{Name: "cg?m=1&np=1&n=2&mode=all&ns=2&rbmax=0&gates=" + gates + "&faults=" + faults + ca, Q: 2, T: 3},
		// the application closes the group at any moment of a running session (the other scenarios close between sessions):
		// Cleanup, the final commit of what was marked and only then the departure from the group
		{Name: "cg?m=1&np=1&n=2&mode=all&ns=1&gates=" + gates + "&faults=hb-rebalance,commit-drop,leave-drop&closeany=1", Q: 2, T: 3},
		{Name: "cg?m=1&np=2&n=2&mode=k2&ns=1&gates=" + gates + "&faults=hb-rebalance&closeany=1", Q: 1, T: 2},
	}
}
