// Package cgrig: 1-2 real ConsumerGroup members (own clients) against simkafka's group coordinator
// and partition leaders; oracles of C07 (session life-cycle, identity, start offsets, coverage) and
// C12 (group part).
package cgrig

import (
	"context"
	"errors"
	"fmt"
	"net/url"
	"os"
	"sort"
	"strconv"
	"strings"
	"sync"
	"testing/synctest"
	"time"

	"github.com/Shopify/sarama"

	"verif/engine/gx"
	"verif/engine/simkafka"
)

type Params struct {
	Members  int
	NParts   int
	N        int    // records per partition
	Mode     string // ret | k1 | k2 | all
	NSess    int    // Consume calls per member
	Faults   []string
	Strategy string
	Init     string // none | zero | valid | oor
	Gates    map[string]bool
	SetupErr bool
	RbMax    int  // Consumer.Group.Rebalance.Retry.Max (default of the rig: 2)
	Move     bool // the environment may move partition 0 to another broker once (env:move-leader), e.g. between two sessions
	Ret      bool // Consumer.Offsets.Retention set (commits travel as v2 requests)
	CoordEnv bool // the environment may make every coordinator lookup fail for a while (env:coord-down / env:coord-up)
	CleanErr bool
	CloseAny bool
}

func atoi(v url.Values, k string, def int) int {
	if s := v.Get(k); s != "" {
		n, err := strconv.Atoi(s)
		if err != nil {
			panic(err)
		}
		return n
	}
	return def
}

func init() {
	gx.RegisterRig("cg", func(v url.Values) (*gx.Scenario, error) {
		p := &Params{Members: atoi(v, "m", 1), NParts: atoi(v, "np", 1), N: atoi(v, "n", 2), Mode: v.Get("mode"), NSess: atoi(v, "ns", 1),
			Strategy: v.Get("strategy"), Init: v.Get("init"), SetupErr: atoi(v, "setuperr", 0) == 1, RbMax: atoi(v, "rbmax", 2), CoordEnv: atoi(v, "coordenv", 0) == 1, Ret: atoi(v, "ret", 0) == 1, Move: atoi(v, "move", 0) == 1, CleanErr: atoi(v, "cleanerr", 0) == 1, CloseAny: atoi(v, "closeany", 0) == 1}
		if p.Mode == "" {
			p.Mode = "all"
		}
		if p.Init == "" {
			p.Init = "none"
		}
		if s := v.Get("faults"); s != "" {
			p.Faults = strings.Split(s, ",")
		}
		p.Gates = map[string]bool{}
		for _, g := range strings.Split(v.Get("gates"), ",") {
			if g != "" {
				p.Gates[g] = true
			}
		}
		return &gx.Scenario{Run: func(c *gx.Ctl) *gx.Outcome { return run(c, p) }}, nil
	})
}

const group = "g"

type hev struct {
	kind    string // setup claim-start claim-end cleanup consume-return
	member  int
	sess    int // Consume call ordinal of that member
	mid     string
	gen     int32
	topic   string
	part    int32
	initial int64
	claims  string
	err     string
	store   map[int32]simkafka.StoredOffset // coordinator store at that moment (consume-return, setup)
}

type member struct {
	idx       int
	client    sarama.Client
	group     sarama.ConsumerGroup
	running   bool
	cancel    context.CancelFunc
	canceled  bool
	started   int
	closed    bool
	closing   bool
	offered   map[int32]map[int64]bool
	taken     map[int32]int
	permits   map[int32]chan struct{}
	out       map[int32]int
	reading   map[int32]bool // a claim handler is currently in its read loop for this partition
	delivered map[int32][]int64
	marks     map[int][]string // per session: "p/off"
	errs      []string
	errClosed bool
	closeCh   chan struct{}
}

type rig struct {
	moved     bool // env:move-leader has happened
	coordEver bool // the coordinator-down period has begun (it happens at most once per execution)
	p         *Params
	c         *gx.Ctl
	cl        *simkafka.Cluster
	mu        sync.Mutex
	ms        []*member
	log       []hev
	ready     int
	setupErr  error
}

type tracker struct {
	r *rig
	m *member
}

func (t *tracker) OnConsume(msg *sarama.ConsumerMessage) {
	t.r.mu.Lock()
	if t.m.offered[msg.Partition] == nil {
		t.m.offered[msg.Partition] = map[int64]bool{}
	}
	t.m.offered[msg.Partition][msg.Offset] = true
	t.r.mu.Unlock()
}

type handler struct {
	r    *rig
	m    *member
	sess int
}

func (h *handler) storeCopy() map[int32]simkafka.StoredOffset {
	out := map[int32]simkafka.StoredOffset{}
	for tp, so := range h.r.cl.Group(group).Offsets {
		out[tp.Partition] = so
	}
	return out
}

func claimsStr(c map[string][]int32) string {
	var s []string
	for t, ps := range c {
		s = append(s, fmt.Sprintf("%s%v", t, ps))
	}
	sort.Strings(s)
	return strings.Join(s, ",")
}

func (h *handler) Setup(s sarama.ConsumerGroupSession) error {
	h.r.mu.Lock()
	h.r.log = append(h.r.log, hev{kind: "setup", member: h.m.idx, sess: h.sess, mid: s.MemberID(), gen: s.GenerationID(), claims: claimsStr(s.Claims()), store: h.storeCopy()})
	h.r.mu.Unlock()
	if h.r.p.SetupErr {
		return errors.New("setup failed (deliberate)")
	}
	return nil
}

func (h *handler) Cleanup(s sarama.ConsumerGroupSession) error {
	h.r.mu.Lock()
	h.r.log = append(h.r.log, hev{kind: "cleanup", member: h.m.idx, sess: h.sess, mid: s.MemberID(), gen: s.GenerationID()})
	h.r.mu.Unlock()
	if h.r.p.CleanErr {
		return errors.New("cleanup failed (deliberate)")
	}
	return nil
}

func (h *handler) ConsumeClaim(s sarama.ConsumerGroupSession, c sarama.ConsumerGroupClaim) error {
	part := c.Partition()
	h.r.mu.Lock()
	h.r.log = append(h.r.log, hev{kind: "claim-start", member: h.m.idx, sess: h.sess, mid: s.MemberID(), gen: s.GenerationID(), topic: c.Topic(), part: part, initial: c.InitialOffset()})
	permits := h.m.permits[part]
	h.r.mu.Unlock()
	defer func() {
		h.r.mu.Lock()
		h.m.reading[part] = false
		h.r.log = append(h.r.log, hev{kind: "claim-end", member: h.m.idx, sess: h.sess, topic: c.Topic(), part: part})
		h.r.mu.Unlock()
	}()
	want := -1
	switch h.r.p.Mode {
	case "ret":
		return nil
	case "k1":
		want = 1
	case "k2":
		want = 2
	case "k1e":
		// reads and marks one message, commits by hand (ConsumerGroupSession.Commit) and FAILS
		want = 1
	}
	h.r.mu.Lock()
	h.m.reading[part] = true
	h.r.mu.Unlock()
	for n := 0; want < 0 || n < want; {
		select {
		case <-permits:
			msg, ok := <-c.Messages()
			h.r.mu.Lock()
			h.m.out[part]--
			if ok {
				h.m.taken[part]++
				h.m.delivered[part] = append(h.m.delivered[part], msg.Offset)
				h.m.marks[h.sess] = append(h.m.marks[h.sess], fmt.Sprintf("%d/%d", part, msg.Offset+1))
			}
			h.r.mu.Unlock()
			if !ok {
				return nil
			}
			s.MarkMessage(msg, "")
			n++
		case <-s.Context().Done():
			return nil
		case <-h.m.closeCh:
			// the application is closing the group: like a handler that ranges over Messages(), drain
			// the claim until the channel is closed, then return
			for range c.Messages() {
			}
			return nil
		}
	}
	if h.r.p.Mode == "k1e" {
		s.Commit()
		return errors.New("claim failed (deliberate)")
	}
	return nil
}

func run(c *gx.Ctl, p *Params) *gx.Outcome {
	r := &rig{p: p, c: c}
	cl := simkafka.New(c)
	r.cl = cl
	nb := p.NParts + 1
	if p.Move {
		nb++ // a spare broker that partition 0 can move to
	}
	for b := 1; b <= nb; b++ {
		cl.AddBroker(int32(b))
	}
	var leaders []int32
	for i := 0; i < p.NParts; i++ {
		leaders = append(leaders, int32(1+i))
	}
	cl.AddTopic("t", leaders...)
	g := cl.Group(group)
	g.Coordinator = int32(p.NParts + 1)
	cl.CommitGuard = simkafka.GroupCommitGuard
	for _, f := range p.Faults {
		switch {
		case strings.HasPrefix(f, "commit-"):
			cl.CommitFaults = append(cl.CommitFaults, strings.TrimPrefix(f, "commit-"))
		case strings.HasPrefix(f, "fetch-"):
			cl.FetchFaults = append(cl.FetchFaults, strings.TrimPrefix(f, "fetch-"))
		case strings.HasPrefix(f, "ofetch-"):
			cl.OffsetFetchFaults = append(cl.OffsetFetchFaults, strings.TrimPrefix(f, "ofetch-"))
		case strings.HasPrefix(f, "offsets-"):
			cl.OffsetFaults = append(cl.OffsetFaults, strings.TrimPrefix(f, "offsets-"))
		default:
			cl.GroupFaults = append(cl.GroupFaults, f)
		}
	}
	for i := 0; i < p.NParts; i++ {
		part := cl.Part("t", int32(i))
		for k := 0; k < p.N; k++ {
			part.Batches = append(part.Batches, &simkafka.StoredBatch{Base: int64(k), Magic: 2, PID: -1, Epoch: -1, FirstSeq: -1,
				Recs: []simkafka.StoredRec{{Value: []byte(fmt.Sprintf("p%d-%d", i, k)), Timestamp: time.Unix(1600000000+int64(k), 0)}}})
		}
		switch p.Init {
		case "valid":
			g.Offsets[simkafka.TP{Topic: "t", Partition: int32(i)}] = simkafka.StoredOffset{Offset: 1}
		case "zero":
			// a commit at offset 0 (an application that reset to the beginning): "committed" and not "none"
			g.Offsets[simkafka.TP{Topic: "t", Partition: int32(i)}] = simkafka.StoredOffset{Offset: 0}
		case "oor":
			g.Offsets[simkafka.TP{Topic: "t", Partition: int32(i)}] = simkafka.StoredOffset{Offset: int64(p.N + 5)}
		}
	}
	c.AutoRelease = func(site string) bool { return !p.Gates[site] }
	c.StepLimitOutcome = true

	var creators []func()
	for i := 0; i < p.Members; i++ {
		m := &member{idx: i, offered: map[int32]map[int64]bool{}, taken: map[int32]int{}, permits: map[int32]chan struct{}{}, out: map[int32]int{},
			reading: map[int32]bool{}, delivered: map[int32][]int64{}, marks: map[int][]string{}, closeCh: make(chan struct{})}
		for k := 0; k < p.NParts; k++ {
			m.permits[int32(k)] = make(chan struct{}, 64)
		}
		r.ms = append(r.ms, m)
		conf := sarama.NewConfig()
		conf.Version = sarama.V2_1_0_0
		conf.ClientID = fmt.Sprintf("member%d", i)
		conf.Net.Proxy.Enable = true
		conf.Net.Proxy.Dialer = cl
		conf.Metadata.RefreshFrequency = time.Hour
		conf.Metadata.Retry.Max = 1
		conf.Metadata.Retry.Backoff = 50 * time.Millisecond
		conf.Consumer.Return.Errors = true
		conf.Consumer.Retry.Backoff = 50 * time.Millisecond
		conf.Consumer.Offsets.Initial = sarama.OffsetOldest
		conf.Consumer.Offsets.AutoCommit.Interval = time.Second
		conf.Consumer.Offsets.Retry.Max = 1
		if p.Ret {
			conf.Consumer.Offsets.Retention = time.Hour
		}
		conf.Consumer.Group.Heartbeat.Interval = time.Second
		conf.Consumer.Group.Session.Timeout = 10 * time.Second
		conf.Consumer.Group.Rebalance.Retry.Max = p.RbMax
		conf.Consumer.Group.Rebalance.Retry.Backoff = 50 * time.Millisecond
		switch p.Strategy {
		case "roundrobin":
			conf.Consumer.Group.Rebalance.Strategy = sarama.BalanceStrategyRoundRobin
		case "sticky":
			conf.Consumer.Group.Rebalance.Strategy = sarama.BalanceStrategySticky
		default:
			conf.Consumer.Group.Rebalance.Strategy = sarama.BalanceStrategyRange
		}
		conf.Consumer.Interceptors = []sarama.ConsumerInterceptor{&tracker{r, m}}
		conf.ChannelBufferSize = 0
		creators = append(creators, func() {
			client, err := sarama.NewClient([]string{"b1:9092"}, conf)
			if err != nil {
				r.fail(err)
				return
			}
			grp, err := sarama.NewConsumerGroupFromClient(group, client)
			if err != nil {
				r.fail(err)
				return
			}
			go func() {
				for e := range grp.Errors() {
					r.mu.Lock()
					m.errs = append(m.errs, e.Error())
					r.mu.Unlock()
				}
				r.mu.Lock()
				m.errClosed = true
				r.mu.Unlock()
			}()
			r.mu.Lock()
			m.client, m.group = client, grp
			r.ready++
			r.mu.Unlock()
		})
	}
	// the members' clients are created one after the other (concurrent bootstraps would race for dial ordinals)
	go func() {
		for _, f := range creators {
			f()
		}
	}()

	c.Providers = append(c.Providers, r.actors)
	c.Digest = r.digest
	c.Loop(func() bool {
		r.mu.Lock()
		defer r.mu.Unlock()
		if r.setupErr != nil {
			return true
		}
		for _, m := range r.ms {
			if !m.closed || m.running {
				return false
			}
		}
		return true
	})
	out := r.judge()
	// teardown
	c.ReleaseAll()
	cl.AnswerIdleFetch = true
	for _, m := range r.ms {
		m := m
		if m.cancel != nil {
			m.cancel()
		}
		if m.group != nil && !m.closed {
			go func() { m.group.Close() }()
		}
	}
	synctest.Wait()
	cl.CloseAll()
	synctest.Wait()
	for _, m := range r.ms {
		if m.client != nil {
			m := m
			go func() { m.client.Close() }()
		}
	}
	synctest.Wait()
	cl.CloseAll()
	synctest.Wait()
	return out
}

func (r *rig) fail(err error) {
	r.mu.Lock()
	r.setupErr = err
	r.mu.Unlock()
}

func (r *rig) hbWaiting() bool {
	// Time may pass only while every ticker-driven loop (heartbeat loops, the offset managers' commit
	// loops) is waiting in its select: a tick that is buffered while such a loop is busy would later be
	// ready together with a shutdown signal, and Go resolves that select at random. So: nothing parked,
	// and nothing pending at the brokers except fetch long polls.
	if len(r.c.Parked()) > 0 {
		return false
	}
	for _, k := range r.cl.AnswerableKinds() {
		if k != "Fetch" {
			return false
		}
	}
	return true
}

const futile = 6

func (r *rig) actors() []gx.Actor {
	r.mu.Lock()
	defer r.mu.Unlock()
	if r.ready < len(r.ms) || r.setupErr != nil {
		return nil
	}
	p := r.p
	var acts []gx.Actor
	anyRunning := false
	// while one member's Close is in progress the application does nothing with the other members:
	// Close has to complete on its own, not because somebody else leaves or cancels
	closingNow := false
	for _, m := range r.ms {
		if m.closing && !m.closed {
			closingNow = true
		}
		if m.running {
			anyRunning = true
		}
	}
	for _, m := range r.ms {
		m := m
		if m.closing || closingNow {
			continue
		}
		name := string(rune('A' + m.idx))
		if m.running {
			anyRunning = true
			for part := int32(0); part < int32(p.NParts); part++ {
				part := part
				if m.reading[part] && m.out[part] == 0 && len(m.offered[part]) > m.taken[part] {
					acts = append(acts, gx.Actor{Label: fmt.Sprintf("read:%s:p%d", name, part), Rank: 2, Variants: []gx.Variant{{Do: func() {
						r.mu.Lock()
						m.out[part]++
						r.mu.Unlock()
						m.permits[part] <- struct{}{}
					}}}})
				}
			}
			if !m.canceled {
				acts = append(acts, gx.Actor{Label: "cancel:" + name, Rank: 4, Variants: []gx.Variant{{Do: func() {
					// idle: nothing is parked and no request is pending - the session has done whatever it was going to do
					idle := len(r.c.Parked()) == 0 && r.cl.PendingKinds() == ""
					r.mu.Lock()
					m.canceled = true
					kind := "app-cancel"
					if idle {
						kind = "app-cancel-idle"
					}
					r.log = append(r.log, hev{kind: kind, member: m.idx, sess: m.started - 1})
					r.mu.Unlock()
					m.cancel()
				}}}})
			}
		} else if m.started < p.NSess {
			acts = append(acts, gx.Actor{Label: "consume:" + name, Rank: 2, Variants: []gx.Variant{{Do: func() {
				ctx, cancel := context.WithCancel(context.Background())
				r.mu.Lock()
				m.running, m.canceled, m.cancel = true, false, cancel
				sess := m.started
				m.started++
				// a new session delivers from the committed position again: the tracker starts afresh
				m.offered = map[int32]map[int64]bool{}
				m.taken = map[int32]int{}
				r.mu.Unlock()
				go func() {
					err := m.group.Consume(ctx, []string{"t"}, &handler{r: r, m: m, sess: sess})
					es := ""
					if err != nil {
						es = err.Error()
					}
					r.mu.Lock()
					h := &handler{r: r, m: m}
					r.log = append(r.log, hev{kind: "consume-return", member: m.idx, sess: sess, err: es, store: h.storeCopy()})
					m.running = false
					r.mu.Unlock()
				}()
			}}}})
		}
		if (!m.running && m.started >= p.NSess) || p.CloseAny {
			acts = append(acts, gx.Actor{Label: "close:" + name, Rank: 5, Variants: []gx.Variant{{Do: func() {
				r.mu.Lock()
				m.closing = true
				r.log = append(r.log, hev{kind: "app-close", member: m.idx, sess: m.started - 1})
				r.mu.Unlock()
				close(m.closeCh)
				go func() {
					_ = m.group.Close()
					_ = m.group.Close() // closing a group twice must be harmless
					_ = m.client.Close()
					r.mu.Lock()
					m.closed = true
					r.mu.Unlock()
				}()
			}}}})
		}
	}
	futileLabels := []string{"tick:", "Heartbeat", "cg.heartbeat", "poll-expires", "bc.round"}
	if p.CoordEnv {
		// while the coordinator cannot be found a member asks again after every back-off: that alone is no progress
		futileLabels = append(futileLabels, "FindCoordinator", "Metadata")
	}
	futileCap, backoffCap := futile*2, 12
	if p.CoordEnv && closingNow {
		// a close during the outage has to get through every bounded retry of the shutdown path (final commit, leave), each
		// of which waits for back-offs: time must keep passing. A shutdown that never ends runs into the step limit instead
		futileCap, backoffCap = 400, 400
	}
	if anyRunning && r.hbWaiting() && r.c.TrailingAny(futileLabels...) < futileCap {
		acts = append(acts, gx.Actor{Label: "tick:heartbeat", Rank: 3, Variants: []gx.Variant{{Do: func() { time.Sleep(time.Second) }}}})
	}
	if p.Move && !r.moved && !closingNow {
		// partition 0 moves to the spare broker (a reassignment): whoever fetches from the old leader is told NOT_LEADER, whoever
		// asks for metadata learns the new one
		acts = append(acts, gx.Actor{Label: "env:move-leader", Rank: 7, Variants: []gx.Variant{{Do: func() {
			r.mu.Lock()
			r.moved = true
			r.mu.Unlock()
			part := r.cl.Part("t", 0)
			part.Leader = int32(p.NParts + 2)
			part.Replicas = []int32{int32(p.NParts + 2)}
		}}}})
	}
	if p.CoordEnv {
		// a period in which no broker knows the group's coordinator: ONE environment state, not one fault per lookup
		switch {
		case !r.coordEver && !closingNow:
			acts = append(acts, gx.Actor{Label: "env:coord-down", Rank: 7, Variants: []gx.Variant{{Do: func() {
				r.mu.Lock()
				r.coordEver = true
				r.mu.Unlock()
				r.cl.CoordDown = true
			}}}})
		case r.cl.CoordDown:
			// (only when a lookup has failed since the last such tick: somebody sleeps until he may ask again)
			failedSince := false
			tr := r.c.Trace()
			for i := len(tr) - 1; i >= 0 && !strings.HasPrefix(tr[i], "tick:backoff"); i-- {
				if strings.Contains(tr[i], "FindCoordinator.down") {
					failedSince = true
				}
			}
			if anyRunning && failedSince && r.c.TrailingAny("tick:", "FindCoordinator") < backoffCap {
				// a member waits for its back-off to expire before it asks again
				acts = append(acts, gx.Actor{Label: "tick:backoff", Rank: 3, Variants: []gx.Variant{{Do: func() { time.Sleep(60 * time.Millisecond) }}}})
			}
			if !closingNow {
				// (once the application has asked for shutdown the outage lasts: Close must not depend on the cluster healing)
				acts = append(acts, gx.Actor{Label: "env:coord-up", Rank: 5, Last: true, Variants: []gx.Variant{{Do: func() { r.cl.CoordDown = false }}}})
			}
		}
	}
	if r.cl.RebalanceTimeoutPossible(group) {
		acts = append(acts, gx.Actor{Label: "env:rebalance-timeout", Rank: 6, Variants: []gx.Variant{{Do: func() { r.cl.RebalanceTimeout(group) }}}})
	}
	return acts
}

func (r *rig) digest() string {
	r.mu.Lock()
	defer r.mu.Unlock()
	var sb strings.Builder
	for _, m := range r.ms {
		fmt.Fprintf(&sb, "m%d run%v can%v st%d cl%v/%v del%v;", m.idx, m.running, m.canceled, m.started, m.closing, m.closed, m.delivered)
	}
	g := r.cl.Group(group)
	fmt.Fprintf(&sb, "%s store%v log%d P%s", g.MembershipDigest(), g.Offsets, len(r.log), r.cl.PendingKinds())
	return sb.String()
}

func (r *rig) judge() *gx.Outcome {
	out := &gx.Outcome{}
	if r.c.StepLimit {
		// the group never came to rest: some loop of the implementation (a partition consumer that re-dispatches for
		// ever, a member that rejoins for ever) keeps producing work although every request is answered faithfully
		tr := r.c.Trace()
		if len(tr) > 14 {
			tr = tr[len(tr)-14:]
		}
		prop := "C07"
		if r.p.CloseAny {
			prop = "C12"
		}
		out.Violate(prop, "group-never-comes-to-rest", "after %d decisions the consumer group is still busy and no Consume/Close has completed its course; last decisions %v", r.c.MaxSteps, tr)
	}
	r.mu.Lock()
	defer r.mu.Unlock()
	p := r.p
	if r.setupErr != nil {
		out.Obs = "setup-failed:" + r.setupErr.Error()
		return out
	}
	for _, f := range r.cl.FaultsTaken {
		out.Stat("fault:" + f)
	}
	g := r.cl.Group(group)
	glog := g.M
	var reqs []simkafka.GroupReq
	if glog != nil {
		reqs = glog.Log
	}
	lines := func() string {
		var s []string
		for _, e := range r.log {
			s = append(s, fmt.Sprintf("%c%d:%s(%s g%d %s p%d@%d %s)", 'A'+e.member, e.sess, e.kind, e.mid, e.gen, e.claims, e.part, e.initial, e.err))
		}
		var q []string
		for _, e := range reqs {
			q = append(q, fmt.Sprintf("%s[%s g%d]=%s", e.Kind, e.MemberID, e.Generation, e.Answer))
		}
		return fmt.Sprintf("handler log %v; coordinator log %v; commits %d; store %v", s, q, len(g.Commits), g.Offsets)
	}
	// issued identities: (member id, generation) pairs handed out by JoinGroup answers
	issued := map[string]bool{}
	for _, e := range reqs {
		if e.Kind == "JoinGroup" && e.Answer == "ok" && e.Err == sarama.ErrNoError {
			issued[fmt.Sprintf("%s/%d", e.RespMember, e.RespGen)] = true
		}
	}
	// ---- per session life-cycle automaton
	type skey struct{ m, s int }
	sessions := map[skey][]hev{}
	var order []skey
	for _, e := range r.log {
		k := skey{e.member, e.sess}
		if _, ok := sessions[k]; !ok {
			order = append(order, k)
		}
		sessions[k] = append(sessions[k], e)
	}
	for _, k := range order {
		evs := sessions[k]
		name := fmt.Sprintf("%c%d", 'A'+k.m, k.s)
		nSetup, nCleanup, started, ended := 0, 0, map[int32]int{}, map[int32]int{}
		cleanupSeen, returned := false, false
		appEnded := false // the application cancelled or closed while this session was running
		var setup *hev
		for i := range evs {
			e := evs[i]
			switch e.kind {
			case "setup":
				nSetup++
				setup = &evs[i]
				if len(started) > 0 || cleanupSeen {
					out.Violate("C07", "setup-not-first", "session %s: Setup ran after a claim or Cleanup; %s", name, lines())
				}
				if !issued[fmt.Sprintf("%s/%d", e.mid, e.gen)] {
					out.Violate("C07", "session-identity-not-issued", "session %s runs as (%s, generation %d) which no JoinGroup answer issued; %s", name, e.mid, e.gen, lines())
				}
			case "claim-start":
				started[e.part]++
				if nSetup != 1 || cleanupSeen {
					out.Violate("C07", "claim-outside-setup-cleanup", "session %s: ConsumeClaim(p%d) started before Setup or after Cleanup; %s", name, e.part, lines())
				}
				if started[e.part] > 1 {
					out.Violate("C07", "claim-started-twice", "session %s: ConsumeClaim started twice for partition %d; %s", name, e.part, lines())
				}
				if setup != nil {
					// start offset: the group's committed offset when the session was set up; the configured
					// initial position if there is none or it is out of range
					want := sarama.OffsetOldest
					if so, ok := setup.store[e.part]; ok && so.Offset >= 0 && so.Offset <= int64(p.N) {
						want = so.Offset
					}
					if e.initial != want {
						out.Violate("C07", "claim-start-offset", "session %s: claim p%d InitialOffset=%d, committed/initial position is %d (store at session start %v); %s", name, e.part, e.initial, want, setup.store, lines())
					}
					if !strings.Contains(setup.claims, fmt.Sprint(e.part)) {
						out.Violate("C07", "claim-not-assigned", "session %s: ConsumeClaim for partition %d which is not among the session's claims %s; %s", name, e.part, setup.claims, lines())
					}
				}
			case "app-cancel", "app-close":
				appEnded = true
			case "app-cancel-idle":
				appEnded = true
				// "one ConsumeClaim per assigned partition unless the session is already ending; the session ends when a claim
				// ends": a claim that could not start ends the session by itself. Here the application had to cancel an idle
				// session in which an assigned partition never got its ConsumeClaim
				if setup != nil && !cleanupSeen {
					for pt := int32(0); pt < int32(p.NParts); pt++ {
						if strings.Contains(setup.claims, fmt.Sprint(pt)) && started[pt] == 0 {
							out.Violate("C07", "session-idles-without-claim", "session %s: partition %d is among the session's claims %s, no ConsumeClaim ever started for it, and the session kept running until the application cancelled it; %s", name, pt, setup.claims, lines())
						}
					}
				}
			case "claim-end":
				ended[e.part]++
			case "cleanup":
				nCleanup++
				cleanupSeen = true
				for pt, n := range started {
					if ended[pt] < n {
						out.Violate("C07", "cleanup-before-claims-returned", "session %s: Cleanup ran while ConsumeClaim(p%d) had not returned; %s", name, pt, lines())
					}
				}
			case "consume-return":
				returned = true
				if setup != nil && !appEnded && len(r.cl.FaultsTaken) == 0 && p.Mode != "ret" && p.Members == 1 && !p.SetupErr {
					// (one member only: with two, the other one's joining or leaving ends a session legitimately before its claims start)
					// no broker fault anywhere in this execution, and the application did not end the session: nothing can have
					// kept a claimed partition from getting its ConsumeClaim
					for pt := int32(0); pt < int32(p.NParts); pt++ {
						if strings.Contains(setup.claims, fmt.Sprint(pt)) && started[pt] == 0 {
							out.Violate("C07", "claim-missing-without-fault", "session %s: partition %d is among the session's claims %s but no ConsumeClaim started for it, although no broker answered with a fault and the application did not end the session; %s", name, pt, setup.claims, lines())
						}
					}
				}
				if nSetup > 1 || nCleanup > 1 {
					out.Violate("C07", "hook-ran-twice", "session %s: Setup ran %d times, Cleanup %d times; %s", name, nSetup, nCleanup, lines())
				}
				if nSetup == 1 && nCleanup != 1 {
					out.Violate("C07", "cleanup-missing", "session %s: Setup ran but Consume returned without Cleanup; %s", name, lines())
				}
				if nSetup == 0 && (nCleanup > 0 || len(started) > 0) {
					out.Violate("C07", "hooks-without-setup", "session %s: Cleanup/claims without Setup; %s", name, lines())
				}
				for pt, n := range started {
					if ended[pt] < n {
						out.Violate("C07", "consume-returned-before-claims", "session %s: Consume returned while ConsumeClaim(p%d) was still running; %s", name, pt, lines())
					}
				}
				// final commit: what this session marked is stored when Consume returns, provided the
				// coordinator accepted the session's commits (no commit fault, member not fenced/rebalanced away)
				if nSetup == 1 && p.Mode != "ret" {
					clean := true
					for _, f := range r.cl.FaultsTaken {
						if strings.HasPrefix(f, "OffsetCommit") || strings.HasPrefix(f, "Heartbeat") || strings.HasPrefix(f, "FindCoordinator") {
							clean = false
						}
					}
					for _, ce := range g.Commits {
						for i, st := range ce.Stored {
							_ = i
							if !st {
								clean = false
							}
						}
					}
					if clean && p.Members == 1 {
						last := map[int32]int64{}
						for _, mk := range r.ms[k.m].marks[k.s] {
							var pt int32
							var off int64
							fmt.Sscanf(mk, "%d/%d", &pt, &off)
							if off > last[pt] {
								last[pt] = off
							}
						}
						for pt, off := range last {
							if so, ok := e.store[pt]; !ok || so.Offset != off {
								out.Violate("C07", "final-commit-missing", "session %s: Consume returned but partition %d's marked offset %d is not committed (store %v); %s", name, pt, off, e.store, lines())
							}
						}
					}
				}
			}
		}
		_ = returned
	}
	// ---- identity carried by requests: every Sync/Heartbeat/Commit uses an issued (member, generation)
	for _, e := range reqs {
		switch e.Kind {
		case "SyncGroup", "Heartbeat":
			if !issued[fmt.Sprintf("%s/%d", e.MemberID, e.Generation)] {
				out.Violate("C07", "request-identity-not-issued", "%s carried (%s, generation %d) which no JoinGroup answer issued; %s", e.Kind, e.MemberID, e.Generation, lines())
			}
		}
	}
	for _, ce := range g.Commits {
		if !issued[fmt.Sprintf("%s/%d", ce.MemberID, ce.Generation)] {
			out.Violate("C07", "request-identity-not-issued", "OffsetCommit carried (%s, generation %d) which no JoinGroup answer issued; %s", ce.MemberID, ce.Generation, lines())
		}
	}
	// a member answered UNKNOWN_MEMBER_ID / ILLEGAL_GENERATION on join or sync rejoins with an empty member id
	for i, e := range reqs {
		if (e.Kind == "JoinGroup" || e.Kind == "SyncGroup") && (e.Err == sarama.ErrUnknownMemberId || e.Err == sarama.ErrIllegalGeneration) {
			for _, n := range reqs[i+1:] {
				if n.Kind == "JoinGroup" && n.Conn == e.Conn {
					if n.MemberID != "" {
						out.Violate("C07", "fenced-member-kept-identity", "after %s answered %v the member rejoined as %q instead of with a fresh identity; %s", e.Kind, e.Err, n.MemberID, lines())
					}
					break
				}
			}
		}
	}
	// a member that holds an issued identity and was not fenced keeps it when it rejoins (only a fenced member
	// - UNKNOWN_MEMBER_ID / ILLEGAL_GENERATION on join or sync - or one that left starts over with an empty id)
	if p.Members == 1 {
		holds, mayReset := "", false
		for _, e := range reqs {
			switch e.Kind {
			case "JoinGroup":
				if e.MemberID == "" && holds != "" && !mayReset {
					out.Violate("C07", "rejoin-dropped-issued-identity", "the member holds the issued id %q and was not fenced, but sent JoinGroup with an empty member id (the coordinator now carries a phantom member); %s", holds, lines())
				}
				if e.Err == sarama.ErrNoError && e.RespMember != "" {
					holds, mayReset = e.RespMember, false
				}
			case "LeaveGroup":
				holds, mayReset = "", false
			}
			if e.Err == sarama.ErrUnknownMemberId || e.Err == sarama.ErrIllegalGeneration || e.Err == sarama.ErrFencedInstancedId {
				mayReset = true
			}
		}
	}
	// ---- coverage over successive sessions (single member): nothing between the first start and the last delivery is skipped
	if p.Members == 1 {
		m := r.ms[0]
		for pt, offs := range m.delivered {
			seen := map[int64]bool{}
			max := int64(-1)
			min := int64(1 << 40)
			for _, o := range offs {
				seen[o] = true
				if o > max {
					max = o
				}
				if o < min {
					min = o
				}
			}
			for o := min; o <= max; o++ {
				if !seen[o] {
					out.Violate("C07", "record-skipped-across-sessions", "partition %d: offset %d was never delivered although %d..%d were (delivered %v); %s", pt, o, min, max, offs, lines())
					break
				}
			}
		}
	}
	// ---- shutdown (C12 group part)
	if len(r.c.Panics) > 0 {
		out.Violate("C12", "consumer-group-panic", "a consumer group goroutine panicked: %s", strings.SplitN(r.c.Panics[0], "\n", 2)[0])
	}
	for _, m := range r.ms {
		if (m.closing && !m.closed) || (m.closing && m.running) || (r.c.Stuck && m.running) {
			out.Violate("C12", "consumer-group-close-or-consume-hangs", "member %c: Close returned=%v, Consume still blocked=%v (stuck=%v parked=%v pending=%s); %s", 'A'+m.idx, m.closed, m.running, r.c.Stuck, r.c.Parked(), r.cl.PendingKinds(), lines())
		}
		if m.closed && !m.errClosed {
			out.Violate("C12", "consumer-group-errors-not-closed", "member %c: Errors() not closed after Close", 'A'+m.idx)
		}
	}
	var ob []string
	for _, e := range r.log {
		ob = append(ob, fmt.Sprintf("%c%d:%s", 'A'+e.member, e.sess, e.kind))
	}
	sort.Strings(ob)
	out.Obs = fmt.Sprintf("%v store=%v", ob, g.Offsets)
	if os.Getenv("VERIF_REPLAY") != "" {
		out.Detail = lines()
		for _, m := range r.ms {
			out.Detail += fmt.Sprintf("\n  member %c delivered=%v errs=%v", 'A'+m.idx, m.delivered, m.errs)
		}
	}
	return out
}
