// Package omrig: real NewOffsetManagerFromClient + ManagePartition against simkafka's group
// coordinator; explicit-state search over mark/reset/commit/answer/close events (C06, C12 part).
package omrig

import (
	"fmt"
	"net/url"
	"os"
	"sort"
	"strconv"
	"strings"
	"sync"
	"testing/synctest"
	"time"

	"github.com/Shopify/sarama"

	"verif/engine/gx"
	"verif/engine/simkafka"
)

type Params struct {
	NParts    int
	Auto      bool
	Retention bool
	Faults    []string
	Initial   string // none | zero | valid
	ConstMeta bool   // all marks/resets carry the same (empty) metadata
	Split     bool   // the second managed partition is u/1 instead of t/1 (a commit request spanning two topics)
	RetryMax  int
	MaxOps    int      // marks+resets per partition
	OFaults   []string // faults of the OffsetFetch that ManagePartition makes (notcoord, drop, other)
	Gates     map[string]bool
	CloseAny  bool
	ErrBuf    int  // ChannelBufferSize (capacity of every Errors() channel)
	SlowErr   bool // the application reads Errors() only when the controller lets it (a slow, but servicing, reader)
}

func atoi(v url.Values, k string, def int) int {
	if s := v.Get(k); s != "" {
		n, err := strconv.Atoi(s)
		if err != nil {
			panic(err)
		}
		return n
	}
	return def
}

func init() {
	gx.RegisterRig("om", func(v url.Values) (*gx.Scenario, error) {
		p := &Params{NParts: atoi(v, "np", 1), Auto: atoi(v, "auto", 1) == 1, Retention: atoi(v, "ret", 0) == 1, Initial: v.Get("init"), ConstMeta: v.Get("meta") == "const", Split: atoi(v, "split", 0) == 1,
			RetryMax: atoi(v, "rm", 1), MaxOps: atoi(v, "ops", 2), CloseAny: atoi(v, "closeany", 1) == 1,
			ErrBuf: atoi(v, "errbuf", 16), SlowErr: atoi(v, "slowerr", 0) == 1}
		if p.Initial == "" {
			p.Initial = "none"
		}
		if s := v.Get("faults"); s != "" {
			p.Faults = strings.Split(s, ",")
		}
		if s := v.Get("ofaults"); s != "" {
			p.OFaults = strings.Split(s, ",")
		}
		p.Gates = map[string]bool{}
		for _, g := range strings.Split(v.Get("gates"), ",") {
			if g != "" {
				p.Gates[g] = true
			}
		}
		return &gx.Scenario{Run: func(c *gx.Ctl) *gx.Outcome { return run(c, p) }}, nil
	})
}

type pair struct {
	off  int64
	meta string
}

type pstate struct {
	pom        sarama.PartitionOffsetManager
	calls      []string // call log: M<off>/<meta> or R<off>/<meta>
	marked     map[pair]bool
	resets     []int64
	latest     *pair
	nops       int
	initial    pair
	errs       int
	errClosed  bool
	errOut     int
	errPermits chan struct{}
}

type rig struct {
	topicOf         func(int32) string
	p               *Params
	c               *gx.Ctl
	cl              *simkafka.Cluster
	mu              sync.Mutex
	client          sarama.Client
	om              sarama.OffsetManager
	ps              []*pstate
	ready           bool
	setupErr        error
	seq             int
	commitRunning   bool
	closing         bool
	closed          bool
	commitsAtClose  int
	viol            []func(*gx.Outcome)
	snapshot        string
	parksSinceClose int
}

const group = "g"

func run(c *gx.Ctl, p *Params) *gx.Outcome {
	r := &rig{p: p, c: c}
	cl := simkafka.New(c)
	r.cl = cl
	cl.AddBroker(1)
	var leaders []int32
	for i := 0; i < p.NParts; i++ {
		leaders = append(leaders, 1)
	}
	cl.AddTopic("t", leaders...)
	if p.Split {
		// split=1: the second managed partition lives in another topic (u/1), so that one commit request spans topics
		cl.AddTopic("u", 1, 1)
	}
	topicOf := func(k int32) string {
		if p.Split && k == 1 {
			return "u"
		}
		return "t"
	}
	r.topicOf = topicOf
	cl.CommitFaults = p.Faults
	cl.OffsetFetchFaults = p.OFaults // the fetch of the stored position when a partition manager is created
	g := cl.Group(group)
	if p.Initial == "valid" {
		for i := 0; i < p.NParts; i++ {
			g.Offsets[simkafka.TP{Topic: topicOf(int32(i)), Partition: int32(i)}] = simkafka.StoredOffset{Offset: 5, Metadata: "init"}
		}
	}
	if p.Initial == "zero" {
		// a commit at offset 0 is a stored position, not "none"
		for i := 0; i < p.NParts; i++ {
			g.Offsets[simkafka.TP{Topic: topicOf(int32(i)), Partition: int32(i)}] = simkafka.StoredOffset{Offset: 0, Metadata: "init0"}
		}
	}
	c.AutoRelease = func(site string) bool { return !p.Gates[site] }
	c.OnPark = func(site, label string) {
		if site != "om.flush.sent" || r.om == nil {
			return
		}
		// the committer parks right after building its request: the snapshot it holds on its stack is
		// exactly the dirty partitions as they are now; it is part of the state
		poms, _ := sarama.VerifOffsetManagerState(r.om)
		var sn []string
		for _, ps := range poms {
			if ps.Dirty {
				sn = append(sn, fmt.Sprintf("%d=%d/%s", ps.Partition, ps.Offset, ps.Metadata))
			}
		}
		r.mu.Lock()
		r.snapshot = fmt.Sprint(sn)
		if r.closing {
			r.parksSinceClose++ // = number of flush attempts of Close's final loop that found something to send
		}
		r.mu.Unlock()
	}

	conf := sarama.NewConfig()
	conf.Version = sarama.V2_1_0_0
	conf.Net.Proxy.Enable = true
	conf.Net.Proxy.Dialer = cl
	conf.Metadata.RefreshFrequency = 0
	conf.Metadata.Retry.Max = 0
	conf.Metadata.Retry.Backoff = 50 * time.Millisecond
	conf.Consumer.Return.Errors = true
	conf.Consumer.Offsets.AutoCommit.Enable = p.Auto
	conf.Consumer.Offsets.AutoCommit.Interval = time.Second
	conf.Consumer.Offsets.Retry.Max = p.RetryMax
	conf.Consumer.Offsets.Initial = sarama.OffsetOldest
	if p.Retention {
		conf.Consumer.Offsets.Retention = time.Hour
	}
	conf.ChannelBufferSize = p.ErrBuf

	for i := 0; i < p.NParts; i++ {
		r.ps = append(r.ps, &pstate{marked: map[pair]bool{}, errPermits: make(chan struct{}, 64)})
	}
	go func() {
		client, err := sarama.NewClient([]string{"b1:9092"}, conf)
		if err != nil {
			r.fail(err)
			return
		}
		r.client = client
		om, err := sarama.NewOffsetManagerFromClient(group, client)
		if err != nil {
			r.fail(err)
			return
		}
		r.om = om
		for i, ps := range r.ps {
			pom, err := om.ManagePartition(r.topicOf(int32(i)), int32(i))
			if err != nil {
				r.fail(err)
				return
			}
			ps := ps
			off, meta := pom.NextOffset()
			r.mu.Lock()
			ps.pom = pom
			ps.initial = pair{off, meta}
			r.mu.Unlock()
			// NextOffset of a fresh manager: the stored position, or the configured initial position
			so, ok := g.Offsets[simkafka.TP{Topic: r.topicOf(int32(i)), Partition: int32(i)}]
			want := pair{sarama.OffsetOldest, ""}
			if ok {
				want = pair{so.Offset, so.Metadata}
			}
			if (pair{off, meta}) != want {
				w, o, m := want, off, meta
				r.viol = append(r.viol, func(out *gx.Outcome) {
					out.Violate("C06", "nextoffset-initial", "NextOffset of a fresh partition manager returned (%d,%q), stored/initial position is (%d,%q)", o, m, w.off, w.meta)
				})
			}
			go func() {
				for {
					if p.SlowErr {
						<-ps.errPermits
					}
					_, ok := <-pom.Errors()
					r.mu.Lock()
					if p.SlowErr && ps.errOut > 0 {
						ps.errOut--
					}
					if !ok {
						ps.errClosed = true
						r.mu.Unlock()
						return
					}
					ps.errs++
					r.mu.Unlock()
				}
			}()
		}
		r.mu.Lock()
		r.ready = true
		r.mu.Unlock()
	}()

	c.Providers = append(c.Providers, r.actors)
	c.Digest = r.key
	c.Loop(func() bool {
		r.mu.Lock()
		defer r.mu.Unlock()
		return r.setupErr != nil || r.closed
	})
	out := r.judge()
	c.ReleaseAll()
	cl.AnswerIdleFetch = true
	if !r.closed && r.client != nil {
		go func() {
			if r.om != nil {
				for _, ps := range r.ps {
					if ps.pom != nil {
						ps.pom.AsyncClose()
					}
				}
				done := make(chan struct{})
				go func() { r.om.Close(); close(done) }()
			}
		}()
		synctest.Wait()
		cl.CloseAll()
		synctest.Wait()
		go func() { r.client.Close() }()
		synctest.Wait()
	}
	cl.CloseAll()
	synctest.Wait()
	return out
}

func (r *rig) fail(err error) {
	r.mu.Lock()
	r.setupErr = err
	r.mu.Unlock()
}

func (r *rig) inflight() bool {
	if r.commitRunning {
		return true
	}
	for _, l := range r.c.Parked() {
		if strings.HasPrefix(l, "om.flush.sent") {
			return true
		}
	}
	return strings.Contains(r.cl.PendingKinds(), "OffsetCommit") || strings.Contains(r.cl.PendingKinds(), "FindCoordinator")
}

func (r *rig) actors() []gx.Actor {
	r.mu.Lock()
	defer r.mu.Unlock()
	if !r.ready {
		return nil
	}
	p := r.p
	var acts []gx.Actor
	if r.closing {
		// a slow reader keeps servicing Errors() while the manager closes
		if p.SlowErr {
			for k, ps := range r.ps {
				k, ps := k, ps
				if ps.errOut == 0 && !ps.errClosed {
					acts = append(acts, gx.Actor{Label: fmt.Sprintf("readerr:p%d", k), Rank: 2, Variants: []gx.Variant{{Do: func() {
						r.mu.Lock()
						ps.errOut++
						r.mu.Unlock()
						ps.errPermits <- struct{}{}
					}}}})
				}
			}
		}
		return acts
	}
	for k, ps := range r.ps {
		k, ps := k, ps
		if ps.nops >= p.MaxOps {
			continue
		}
		cur, _ := ps.pom.NextOffset()
		if cur < 0 {
			cur = 0
		}
		do := func(kind string, target int64) gx.Actor {
			return gx.Actor{Label: fmt.Sprintf("%s:p%d:%d", kind, k, target), Rank: 2, Variants: []gx.Variant{{Do: func() {
				r.mu.Lock()
				r.seq++
				meta := fmt.Sprintf("%s%d", kind[:1], r.seq)
				if p.ConstMeta {
					meta = "" // what most applications pass: every mark and reset carries the same metadata
				}
				ps.nops++
				r.mu.Unlock()
				b0, _ := ps.pom.NextOffset()
				if kind == "mark" {
					ps.pom.MarkOffset(target, meta)
				} else {
					ps.pom.ResetOffset(target, meta)
				}
				a0, am := ps.pom.NextOffset()
				r.mu.Lock()
				ps.calls = append(ps.calls, fmt.Sprintf("%s(%d,%s)", kind, target, meta))
				ps.marked[pair{target, meta}] = true
				if kind == "reset" {
					ps.resets = append(ps.resets, target)
				}
				took := a0 == target && am == meta
				if took {
					ps.latest = &pair{target, meta}
				}
				if kind == "mark" && a0 < b0 && b0 >= 0 {
					r.viol = append(r.viol, func(out *gx.Outcome) {
						out.Violate("C06", "mark-lowered-position", "MarkOffset(%d) lowered the pending position from %d to %d", target, b0, a0)
					})
				}
				if kind == "reset" && a0 > b0 && (b0 >= 0 || a0 >= 0) {
					r.viol = append(r.viol, func(out *gx.Outcome) {
						out.Violate("C06", "reset-raised-position", "ResetOffset(%d) raised the pending position from %d to %d", target, b0, a0)
					})
				}
				r.mu.Unlock()
			}}}}
		}
		acts = append(acts, do("mark", cur+1), do("mark", cur+2))
		if cur >= 1 {
			acts = append(acts, do("reset", cur-1))
			// a late mark (two goroutines of the application marking out of order): position and metadata must stay
			acts = append(acts, do("mark", cur-1))
		}
		acts = append(acts, do("reset", cur))
		// a reset ABOVE the pending position (also when nothing is stored yet and the position is the configured initial
		// one): it must change nothing
		acts = append(acts, do("reset", cur+1))
		if cur >= 2 {
			acts = append(acts, do("reset", 0)) // back to the very beginning (with constant metadata: the all-zero pair)
		}
	}
	if !p.Auto && !r.commitRunning && (r.c.HaltAfterPrefix || r.c.Trailing("commit") < 1) {
		acts = append(acts, gx.Actor{Label: "commit", Rank: 2, Variants: []gx.Variant{{Do: func() {
			r.mu.Lock()
			r.commitRunning = true
			r.mu.Unlock()
			go func() {
				r.om.Commit()
				r.mu.Lock()
				r.commitRunning = false
				r.mu.Unlock()
			}()
		}}}})
	}
	// in explicit-state search a futile tick leads back to a visited state, so no cap is needed (and a cap
	// that depends on the last choice would be hidden state the key does not contain)
	if p.Auto && !r.inflight() && (r.c.HaltAfterPrefix || r.c.Trailing("tick:") < 1) {
		acts = append(acts, gx.Actor{Label: "tick:autocommit", Rank: 3, Variants: []gx.Variant{{Do: func() { time.Sleep(time.Second) }}}})
	}
	if p.SlowErr {
		for k, ps := range r.ps {
			k, ps := k, ps
			if ps.errOut == 0 && !ps.errClosed && ps.errs < 4 {
				acts = append(acts, gx.Actor{Label: fmt.Sprintf("readerr:p%d", k), Rank: 2, Variants: []gx.Variant{{Do: func() {
					r.mu.Lock()
					ps.errOut++
					r.mu.Unlock()
					ps.errPermits <- struct{}{}
				}}}})
			}
		}
	}
	if !r.commitRunning || p.SlowErr {
		acts = append(acts, gx.Actor{Label: "close", Rank: 4, Variants: []gx.Variant{{Do: r.doClose}}})
	}
	return acts
}

func (r *rig) doClose() {
	r.mu.Lock()
	r.closing = true
	r.commitsAtClose = len(r.cl.Group(group).Commits)
	r.mu.Unlock()
	if r.p.SlowErr {
		// the application keeps servicing Errors() while it closes (as the API requires), at its own pace:
		// the controller still decides when each error is taken
	}
	go func() {
		for _, ps := range r.ps {
			ps.pom.AsyncClose()
		}
		_ = r.om.Close()
		for _, ps := range r.ps {
			_ = ps.pom.Close() // after the manager is closed every partition manager's channel is closed
		}
		_ = r.om.Close() // closing twice must be harmless
		_ = r.client.Close()
		r.mu.Lock()
		r.closed = true
		r.mu.Unlock()
	}()
}

// key is the canonical state of the component: private state of the offset manager (bridge dump),
// coordinator store, request in flight, parked gate, and the history summary the oracle depends on.
func (r *rig) key() string {
	r.mu.Lock()
	defer r.mu.Unlock()
	var sb strings.Builder
	if r.om != nil {
		poms, has := sarama.VerifOffsetManagerState(r.om)
		fmt.Fprintf(&sb, "om%v b%v|", poms, has)
	}
	g := r.cl.Group(group)
	var st []string
	for tp, so := range g.Offsets {
		st = append(st, fmt.Sprintf("%d=%d/%s", tp.Partition, so.Offset, so.Metadata))
	}
	sort.Strings(st)
	fmt.Fprintf(&sb, "store%v|", st)
	for _, ps := range r.ps {
		fmt.Fprintf(&sb, "calls%v e%d|", ps.calls, ps.errs)
	}
	pk := r.c.Parked()
	fmt.Fprintf(&sb, "run%v closing%v closed%v viol%d|P%s|G%v", r.commitRunning, r.closing, r.closed, len(r.viol), r.cl.PendingKinds(), pk)
	if len(pk) > 0 {
		sb.WriteString("|snap" + r.snapshot)
	}
	sb.WriteString("|conns " + r.cl.ConnState())
	if r.closing {
		fmt.Fprintf(&sb, "|attempts%d", r.parksSinceClose)
	}
	// the content of the commit request in flight (a snapshot taken earlier)
	for _, k := range r.cl.PendingDetail() {
		sb.WriteString("|" + k)
	}
	return sb.String()
}

func (r *rig) judge() *gx.Outcome {
	out := &gx.Outcome{}
	out.Key = r.key()
	r.mu.Lock()
	defer r.mu.Unlock()
	p := r.p
	if r.setupErr != nil {
		out.Obs = "setup-failed:" + r.setupErr.Error()
		if len(r.cl.FaultsTaken) == 0 {
			out.Violate("C06", "setup-failed", "offset manager setup failed without fault: %v", r.setupErr)
		}
		return out
	}
	if !r.ready {
		out.Obs = "setup-incomplete"
		return out
	}
	for _, f := range r.cl.FaultsTaken {
		out.Stat("fault:" + f)
	}
	for _, f := range r.viol {
		f(out)
	}
	g := r.cl.Group(group)
	cfg := fmt.Sprintf("auto=%v np=%d ret=%v", p.Auto, p.NParts, p.Retention)
	hist := func() string {
		var s []string
		for k, ps := range r.ps {
			s = append(s, fmt.Sprintf("p%d:%v", k, ps.calls))
		}
		var cm []string
		for _, ce := range g.Commits {
			cm = append(cm, fmt.Sprintf("%s%v", ce.Fault, ce.Blocks))
		}
		return fmt.Sprintf("calls %v; commits %v; store %v (%s)", s, cm, g.Offsets, cfg)
	}
	// (1) every committed pair is one the application marked or reset to
	last := map[int32]int64{}
	for _, ce := range g.Commits {
		for i, b := range ce.Blocks {
			ps := r.ps[b.Partition]
			if !ps.marked[pair{b.Offset, b.Metadata}] {
				out.Violate("C06", "committed-unmarked", "commit carried (%d,%q) for partition %d which the application never marked or reset to; %s", b.Offset, b.Metadata, b.Partition, hist())
			}
			if p.Retention != (ce.Version >= 2) {
				out.Violate("C06", "retention-version", "retention set=%v but commit request version %d", p.Retention, ce.Version)
			}
			if ce.Stored[i] {
				if prev, ok := last[b.Partition]; ok && b.Offset < prev {
					okReset := false
					for _, ro := range ps.resets {
						if ro <= b.Offset {
							okReset = true
						}
					}
					if !okReset {
						out.Violate("C06", "stored-offset-went-backwards", "partition %d: stored offset went from %d back to %d without a ResetOffset to <= %d; %s", b.Partition, prev, b.Offset, b.Offset, hist())
					}
				}
				last[b.Partition] = b.Offset
			}
		}
	}
	poms, _ := sarama.VerifOffsetManagerState(r.om)
	// (2) while nothing is in flight, a position that differs from the store is dirty (a later commit carries it)
	if !r.inflight() && !r.closing {
		for _, ps := range poms {
			so, ok := g.Offsets[simkafka.TP{Topic: r.topicOf(ps.Partition), Partition: ps.Partition}]
			same := ok && so.Offset == ps.Offset && so.Metadata == ps.Metadata
			if !ok && r.ps[ps.Partition].latest == nil {
				same = true
			}
			if !same && !ps.Dirty {
				out.Violate("C06", "lost-mark-not-dirty", "partition %d: pending position (%d,%q) differs from the stored one (%v,%v) but is not flagged for commit: the mark is lost; %s", ps.Partition, ps.Offset, ps.Metadata, so, ok, hist())
			}
		}
	}
	// (3) Close with auto-commit on and the final attempts accepted: store == latest mark before Close
	if r.closed && p.Auto {
		clean := true
		for _, ce := range g.Commits[r.commitsAtClose:] {
			if ce.Fault != "ok" {
				clean = false
			}
		}
		for _, l := range r.cl.FaultsTaken {
			if strings.HasPrefix(l, "FindCoordinator") {
				clean = false
			}
		}
		if clean {
			for k, ps := range r.ps {
				if ps.latest == nil {
					continue
				}
				so, ok := g.Offsets[simkafka.TP{Topic: r.topicOf(int32(k)), Partition: int32(k)}]
				if !ok || so.Offset != ps.latest.off || so.Metadata != ps.latest.meta {
					out.Violate("C06", "final-commit-lost-mark", "partition %d: Close returned (auto-commit on, final attempts accepted) but the coordinator stores (%d,%q), latest mark before Close was (%d,%q); %s", k, so.Offset, so.Metadata, ps.latest.off, ps.latest.meta, hist())
				}
			}
		}
	}
	// shutdown (C12 part)
	if len(r.c.Panics) > 0 {
		out.Violate("C12", "offset-manager-panic", "an offset manager goroutine panicked: %s", strings.SplitN(r.c.Panics[0], "\n", 2)[0])
	}
	if r.closing && !r.closed && !r.c.Halted {
		out.Violate("C12", "offset-manager-close-hangs", "closing the offset manager did not complete: parked=%v pending=%s; %s", r.c.Parked(), r.cl.PendingKinds(), hist())
	}
	if r.closed {
		for k, ps := range r.ps {
			if !ps.errClosed {
				out.Violate("C12", "offset-manager-channels-not-closed", "partition %d: Errors() not closed after Close", k)
			}
		}
	}
	out.Obs = fmt.Sprintf("store=%v closed=%v", g.Offsets, r.closed)
	if os.Getenv("VERIF_REPLAY") != "" {
		out.Detail = hist() + fmt.Sprintf("\n  poms=%v\n  key=%s", poms, out.Key)
	}
	return out
}
