// Package prodrig: the common producer rig (DESIGN.md §6): real NewClient + NewAsyncProducerFromClient
// against simkafka, with the oracles of C01, C02, C04, C05, C12 (producer part), C18 (producer part).
package prodrig

import (
	"errors"
	"fmt"
	"net/url"
	"sort"
	"strconv"
	"strings"
	"sync"
	"testing/synctest"
	"time"

	"github.com/Shopify/sarama"

	"verif/engine/gx"
	"verif/engine/simkafka"
)

type Params struct {
	Idem            bool
	RetryMax        int
	NMsgs           int
	Parts           []int32 // partition of message i (manual partitioner); len == NMsgs
	NParts          int
	NBrokers        int // partition p is led by broker 1+(p % NBrokers)
	FlushMsgs       int
	FlushFreq       time.Duration
	FlushMax        int // Producer.Flush.MaxMessages
	Backoff         time.Duration
	Policy          string // drain | input
	Version         sarama.KafkaVersion
	Faults          []string
	MetaFaults      []string
	Gates           map[string]bool // gate sites that are decision points
	CloseAny        bool            // AsyncClose enabled at every decision point after the first submit
	BoFunc          bool            // the back-off comes from Producer.Retry.BackoffFunc (growing with the attempt) instead of Retry.Backoff
	SClose          bool            // the application shuts down with Close() (which drains both channels itself) instead of AsyncClose()
	LastAfter       bool            // the last message is submitted only after the first outcome event
	Icpt            int             // number of interceptors (counting + header-appending)
	Pad             int             // >0: every value is padded to exactly Pad bytes ("<id>|xxx…"): record sizes at chosen points
	BadEnc          int             // >0: the Value of message number BadEnc (1-based) is an Encoder whose Encode() fails
	Tomb            int             // >0: message number Tomb (1-based) is a tombstone: nil Value, its id travels in the key
	IcptNil         int             // >0: the chain entry at this (1-based) position is a nil interceptor (calling it panics: contained like any panic)
	IcptPanic       int             // >0: the interceptor at this (1-based) position of the chain panics after doing its work
	Election        bool            // partition 0 goes through a leader election (env:leader-down / env:leader-up)
	Big             int             // >0: message number Big (1-based) is larger than Producer.MaxMessageBytes (set to 200)
	ElectionAtStart bool            // election=2: partition 0 is leaderless from the start (the client's first metadata says so)
	Acks            sarama.RequiredAcks
	Sync            int // 0 async producer, 1 SyncProducer.SendMessage per message, 2 one SendMessages call
	Codec           sarama.CompressionCodec
	KV              bool // keys and headers on some messages (see KeyOf / HeadersOf)
	EmptyVal        int  // >0: message number EmptyVal (1-based) has an EMPTY, non-nil value (not a tombstone); its id travels in the key
	Reuse           bool // reuse=1: the application keeps its message values in a pool: a value handed back on Successes()/Errors() is filled in again and submitted as the next message
	OldHdr          bool // oldhdr=1: headers also under a message format that cannot carry them (the producer must refuse such a message)
}

func atoi(v url.Values, k string, def int) int {
	if s := v.Get(k); s != "" {
		n, err := strconv.Atoi(s)
		if err != nil {
			panic(err)
		}
		return n
	}
	return def
}

func Parse(v url.Values) (*Params, error) {
	p := &Params{
		Idem: atoi(v, "idem", 0) == 1, RetryMax: atoi(v, "rm", 1), NMsgs: atoi(v, "nm", 2), NParts: atoi(v, "np", 1),
		NBrokers: atoi(v, "nb", 1), FlushMsgs: atoi(v, "fm", 0), FlushMax: atoi(v, "fx", 0), FlushFreq: time.Duration(atoi(v, "ff", 0)) * time.Millisecond,
		Backoff: time.Duration(atoi(v, "bo", 0)) * time.Millisecond, Policy: v.Get("policy"), SClose: atoi(v, "sclose", 0) == 1, BoFunc: atoi(v, "bofunc", 0) == 1, CloseAny: atoi(v, "closeany", 0) == 1,
		LastAfter: atoi(v, "lastafter", 0) == 1, Big: atoi(v, "big", 0), Election: atoi(v, "election", 0) >= 1, ElectionAtStart: atoi(v, "election", 0) == 2, Icpt: atoi(v, "icpt", 0), IcptNil: atoi(v, "icptnil", 0), Tomb: atoi(v, "tomb", 0), BadEnc: atoi(v, "badenc", 0), Pad: atoi(v, "pad", 0), IcptPanic: atoi(v, "icptpanic", 0),
		Acks: sarama.RequiredAcks(atoi(v, "acks", 1)), Sync: atoi(v, "sync", 0),
	}
	if p.Policy == "" {
		p.Policy = "drain"
	}
	switch v.Get("codec") {
	case "gzip":
		p.Codec = sarama.CompressionGZIP
	case "snappy":
		p.Codec = sarama.CompressionSnappy
	case "lz4":
		p.Codec = sarama.CompressionLZ4
	case "zstd":
		p.Codec = sarama.CompressionZSTD
	}
	p.KV = atoi(v, "kv", 0) == 1
	p.OldHdr = atoi(v, "oldhdr", 0) == 1
	p.Reuse = atoi(v, "reuse", 0) == 1
	p.EmptyVal = atoi(v, "emptyval", 0)
	ver := v.Get("ver")
	if ver == "" {
		ver = "2.1.0"
	}
	kv, err := sarama.ParseKafkaVersion(ver)
	if err != nil {
		return nil, err
	}
	p.Version = kv
	if s := v.Get("faults"); s != "" {
		p.Faults = nil
		for _, f := range strings.Split(s, ",") {
			if f == "codes" { // every Kafka error code as a produce answer
				p.Faults = append(p.Faults, strings.Split(CodeFaults(), ",")...)
			} else {
				p.Faults = append(p.Faults, f)
			}
		}
	}
	if s := v.Get("mfaults"); s != "" {
		p.MetaFaults = strings.Split(s, ",")
	}
	p.Gates = map[string]bool{}
	if s := v.Get("gates"); s != "" {
		for _, g := range strings.Split(s, ",") {
			p.Gates[g] = true
		}
	}
	if s := v.Get("parts"); s != "" {
		for _, x := range strings.Split(s, ",") {
			n, err := strconv.Atoi(x)
			if err != nil {
				return nil, err
			}
			p.Parts = append(p.Parts, int32(n))
		}
		p.NMsgs = len(p.Parts)
	} else {
		for i := 0; i < p.NMsgs; i++ {
			p.Parts = append(p.Parts, int32(i%p.NParts))
		}
	}
	for _, x := range p.Parts {
		if int(x) >= p.NParts {
			p.NParts = int(x) + 1
		}
	}
	if p.Idem {
		p.Acks = sarama.WaitForAll
	}
	return p, nil
}

func init() {
	gx.RegisterRig("prod", func(v url.Values) (*gx.Scenario, error) {
		p, err := Parse(v)
		if err != nil {
			return nil, err
		}
		return &gx.Scenario{Run: func(c *gx.Ctl) *gx.Outcome { return run(c, p) }}, nil
	})
}

type event struct {
	id   string
	ok   bool
	part int32
	off  int64
	err  string
	hdrs []sarama.RecordHeader
}

type seqAssign struct {
	key   string
	epoch int16
	seq   int32
}

// failingEncoder: a user-supplied Encoder that knows its length but fails to encode.
type failingEncoder struct{}

func (failingEncoder) Encode() ([]byte, error) { return nil, errors.New("encoder failed (deliberate)") }
func (failingEncoder) Length() int             { return 5 }

type icpt struct {
	r     *rig
	idx   int
	panic bool
}

func (i *icpt) OnSend(m *sarama.ProducerMessage) {
	id, _ := m.Metadata.(string)
	i.r.mu.Lock()
	i.r.icptLog = append(i.r.icptLog, fmt.Sprintf("%s/%d", id, i.idx))
	i.r.mu.Unlock()
	m.Headers = append(m.Headers, sarama.RecordHeader{Key: []byte("i" + strconv.Itoa(i.idx)), Value: []byte("x")})
	if i.panic {
		panic("interceptor panic (deliberate)")
	}
}

type rig struct {
	p             *Params
	c             *gx.Ctl
	cl            *simkafka.Cluster
	mu            sync.Mutex
	events        []event
	icptLog       []string
	seqEpoch      int16
	seqLog        []seqAssign
	stopReaders   chan struct{}
	readers       sync.WaitGroup
	closeReturned bool
	subAt         []int                     // subAt[i]: len(events) at the moment message i was submitted
	pool          []*sarama.ProducerMessage // reuse=1: values the producer handed back
	election      int                       // 0 not started, 1 partition 0 leaderless, 2 over
	oldLeader     int32
	submitted     int
	accepted      int
	closing       bool
	closedOK      bool
	succDone      bool
	errDone       bool
	prod          sarama.AsyncProducer
	client        sarama.Client
	submitCh      chan *sarama.ProducerMessage
	setupErr      error
	batch         []*sarama.ProducerMessage
	calls         int
	sync          sarama.SyncProducer
}

func msgID(i int) string { return "m" + strconv.Itoa(i) }

func run(c *gx.Ctl, p *Params) *gx.Outcome {
	r := &rig{p: p, c: c, submitCh: make(chan *sarama.ProducerMessage, 16), stopReaders: make(chan struct{})}
	cl := simkafka.New(c)
	r.cl = cl
	for b := 1; b <= p.NBrokers; b++ {
		cl.AddBroker(int32(b))
	}
	var leaders []int32
	for i := 0; i < p.NParts; i++ {
		leaders = append(leaders, int32(1+i%p.NBrokers))
	}
	cl.AddTopic("t", leaders...)
	if p.ElectionAtStart {
		r.election, r.oldLeader = 1, cl.Part("t", 0).Leader
		cl.Part("t", 0).Leader = -1
	}
	cl.ProduceFaults = p.Faults
	cl.MetaFaults = p.MetaFaults
	// the idempotent broker worker refreshes metadata synchronously in the middle of handling a
	// response; keep that window atomic (DESIGN.md §3.2 "urgent actors")
	cl.UrgentMetadata = true
	c.AutoRelease = func(site string) bool { return !p.Gates[site] }
	// every sequence number the transaction manager hands out (observation hooks txn.epoch / txn.seq, called under its lock)
	c.OnHit = func(site, key string, n int32) {
		switch site {
		case "txn.epoch":
			r.mu.Lock()
			r.seqEpoch = int16(n)
			r.mu.Unlock()
		case "txn.seq":
			r.mu.Lock()
			r.seqLog = append(r.seqLog, seqAssign{key: key, epoch: r.seqEpoch, seq: n})
			r.mu.Unlock()
		}
	}

	conf := sarama.NewConfig()
	conf.Version = p.Version
	conf.Net.Proxy.Enable = true
	conf.Net.Proxy.Dialer = cl
	conf.Producer.Return.Successes = true
	conf.Producer.Return.Errors = true
	conf.Metadata.RefreshFrequency = 0
	conf.Metadata.Retry.Max = 0
	conf.Metadata.Retry.Backoff = 0
	conf.Producer.Retry.Backoff = p.Backoff
	if p.BoFunc {
		conf.Producer.Retry.Backoff = 0
		conf.Producer.Retry.BackoffFunc = func(retries, maxRetries int) time.Duration { return p.Backoff * time.Duration(retries) }
	}
	conf.Producer.Retry.Max = p.RetryMax
	if p.Big > 0 {
		conf.Producer.MaxMessageBytes = 200
	}
	conf.Producer.Partitioner = sarama.NewManualPartitioner
	conf.Producer.Flush.Messages = p.FlushMsgs
	conf.Producer.Flush.Frequency = p.FlushFreq
	conf.Producer.Flush.MaxMessages = p.FlushMax
	conf.Producer.RequiredAcks = p.Acks
	conf.Producer.Compression = p.Codec
	conf.ChannelBufferSize = 16
	if p.Idem {
		conf.Producer.Idempotent = true
		conf.Producer.RequiredAcks = sarama.WaitForAll
		conf.Net.MaxOpenRequests = 1
	}
	for i := 0; i < p.Icpt; i++ {
		if p.IcptNil == i+1 {
			conf.Producer.Interceptors = append(conf.Producer.Interceptors, nil)
			continue
		}
		conf.Producer.Interceptors = append(conf.Producer.Interceptors, &icpt{r: r, idx: i, panic: p.IcptPanic == i+1})
	}

	go func() {
		client, err := sarama.NewClient([]string{"b1:9092"}, conf)
		if err != nil {
			r.setupErr = err
			return
		}
		r.client = client
		if p.Sync > 0 {
			sp, err := sarama.NewSyncProducerFromClient(client)
			if err != nil {
				r.setupErr = err
				return
			}
			r.mu.Lock()
			r.sync = sp
			r.prod = syncStandIn{}
			r.mu.Unlock()
			return
		}
		prod, err := sarama.NewAsyncProducerFromClient(client)
		if err != nil {
			r.setupErr = err
			return
		}
		r.readers.Add(2)
		go func() {
			defer r.readers.Done()
			for {
				select {
				case m, ok := <-prod.Successes():
					if !ok {
						r.mu.Lock()
						r.succDone = true
						r.mu.Unlock()
						return
					}
					id, _ := m.Metadata.(string)
					r.mu.Lock()
					r.events = append(r.events, event{id: id, ok: true, part: m.Partition, off: m.Offset, hdrs: m.Headers})
					if p.Reuse {
						r.pool = append(r.pool, m)
					}
					r.mu.Unlock()
				case <-r.stopReaders: // sclose=1: Close() takes over both channels
					return
				}
			}
		}()
		go func() {
			defer r.readers.Done()
			for {
				select {
				case e, ok := <-prod.Errors():
					if !ok {
						r.mu.Lock()
						r.errDone = true
						r.mu.Unlock()
						return
					}
					id, _ := e.Msg.Metadata.(string)
					r.mu.Lock()
					r.events = append(r.events, event{id: id, ok: false, part: e.Msg.Partition, err: e.Err.Error()})
					if p.Reuse {
						r.pool = append(r.pool, e.Msg)
					}
					r.mu.Unlock()
				case <-r.stopReaders:
					return
				}
			}
		}()
		go func() {
			for m := range r.submitCh {
				prod.Input() <- m
				r.mu.Lock()
				r.accepted++
				r.mu.Unlock()
			}
		}()
		r.mu.Lock()
		r.prod = prod
		r.mu.Unlock()
	}()

	c.Providers = append(c.Providers, r.actors)
	c.Digest = r.digest
	c.Loop(func() bool {
		r.mu.Lock()
		defer r.mu.Unlock()
		return r.setupErr != nil || (r.closing && r.succDone && r.errDone)
	})
	out := r.judge()
	// teardown
	close(r.submitCh)
	c.ReleaseAll()
	if r.client != nil {
		done := make(chan struct{})
		go func() { r.client.Close(); close(done) }()
		synctest.Wait()
	}
	cl.CloseAll()
	synctest.Wait()
	return out
}

func (r *rig) actors() []gx.Actor {
	r.mu.Lock()
	defer r.mu.Unlock()
	if r.prod == nil || r.closing {
		return nil
	}
	p := r.p
	var acts []gx.Actor
	if r.submitted < p.NMsgs && r.accepted == r.submitted {
		gated := p.LastAfter && r.submitted == p.NMsgs-1 && len(r.events) == 0
		if p.LastAfter && p.Election && r.submitted == p.NMsgs-1 {
			// with an election in the scenario the last message comes after it is over ("later, ordinary traffic")
			gated = r.election != 2
		}
		if !gated {
			rank := 2
			if p.Policy == "input" {
				rank = -1
			}
			if p.Policy == "window" {
				// fresh input lands inside an open retry window (a fin chaser is on its way back) by default
				for _, l := range r.c.Parked() {
					if strings.HasPrefix(l, "pp.fin(") {
						rank = -1
					}
				}
			}
			i := r.submitted
			acts = append(acts, gx.Actor{Label: "submit:" + msgID(i), Rank: rank, Variants: []gx.Variant{{Do: func() {
				r.mu.Lock()
				r.submitted++
				r.subAt = append(r.subAt, len(r.events)) // how many terminal events had been delivered when message i was submitted
				var msg *sarama.ProducerMessage
				if n := len(r.pool); p.Reuse && n > 0 {
					msg, r.pool = r.pool[n-1], r.pool[:n-1]
				}
				r.mu.Unlock()
				id := msgID(i)
				if msg == nil {
					msg = &sarama.ProducerMessage{}
				}
				// every field the application owns is (re)written; what the producer keeps inside the value is its own business
				msg.Topic, msg.Partition, msg.Value, msg.Metadata, msg.Key, msg.Offset = "t", p.Parts[i], sarama.StringEncoder(id), id, nil, 0
				if p.Pad > len(id)+1 {
					msg.Value = sarama.StringEncoder(id + "|" + strings.Repeat("x", p.Pad-len(id)-1))
				}
				if p.Tomb == i+1 {
					msg.Value = nil // a tombstone (Encoder interface left nil)
				}
				if p.EmptyVal == i+1 {
					msg.Value = sarama.ByteEncoder([]byte{}) // an empty value is a value: it must not arrive as null (a tombstone)
				}
				if p.BadEnc == i+1 {
					msg.Value = failingEncoder{} // cannot be encoded: the message must end with an error, the others are not affected
				}
				if p.Big == i+1 {
					// one message larger than Producer.MaxMessageBytes: the dispatcher must reject it with an error
					msg.Value = sarama.StringEncoder(id + strings.Repeat("x", 400))
				}
				if k := p.KeyOf(i); k != nil {
					msg.Key = sarama.ByteEncoder(k)
				}
				msg.Headers = p.HeadersOf(i)
				msg.Timestamp = p.TimestampOf(i)
				switch p.Sync {
				case 0:
					r.submitCh <- msg
				case 1:
					// SyncProducer.SendMessage from its own goroutine (several may be in flight)
					r.mu.Lock()
					r.accepted++
					r.calls++
					r.mu.Unlock()
					go func() {
						part, off, err := r.sync.SendMessage(msg)
						r.mu.Lock()
						if err != nil {
							r.events = append(r.events, event{id: id, ok: false, part: msg.Partition, err: err.Error()})
						} else {
							r.events = append(r.events, event{id: id, ok: true, part: part, off: off})
						}
						r.calls--
						r.mu.Unlock()
					}()
				case 2:
					// all messages go out in ONE SendMessages call, made when the last one is "submitted"
					r.mu.Lock()
					r.accepted++
					r.batch = append(r.batch, msg)
					last := r.submitted == p.NMsgs
					batch := r.batch
					if last {
						r.calls++
					}
					r.mu.Unlock()
					if last {
						go func() {
							err := r.sync.SendMessages(batch)
							failed := map[*sarama.ProducerMessage]string{}
							if pes, ok := err.(sarama.ProducerErrors); ok {
								for _, pe := range pes {
									failed[pe.Msg] += pe.Err.Error()
									if _, mine := indexOf(batch, pe.Msg); !mine {
										r.mu.Lock()
										r.events = append(r.events, event{id: "?alien-error", ok: false, err: pe.Err.Error()})
										r.mu.Unlock()
									}
								}
							} else if err != nil {
								for _, m := range batch {
									failed[m] = err.Error()
								}
							}
							r.mu.Lock()
							for _, m := range batch {
								mid, _ := m.Metadata.(string)
								if e, bad := failed[m]; bad {
									r.events = append(r.events, event{id: mid, ok: false, part: m.Partition, err: e})
								} else {
									r.events = append(r.events, event{id: mid, ok: true, part: m.Partition, off: m.Offset})
								}
							}
							r.calls--
							r.mu.Unlock()
						}()
					}
				}
			}}}})
		}
	}
	if p.Election && !r.closing {
		// a leader election on partition 0: the partition is leaderless from "down" until "up" (every metadata
		// answer in between says so - one environment state instead of one fault per answer)
		part := r.cl.Part("t", 0)
		switch r.election {
		case 0:
			acts = append(acts, gx.Actor{Label: "env:leader-down", Rank: 3, Variants: []gx.Variant{{Do: func() {
				r.mu.Lock()
				r.election, r.oldLeader = 1, part.Leader
				r.mu.Unlock()
				part.Leader = -1
			}}}})
		case 1:
			acts = append(acts, gx.Actor{Label: "env:leader-up", Rank: 5, Last: true, Variants: []gx.Variant{{Do: func() {
				r.mu.Lock()
				r.election = 2
				r.mu.Unlock()
				part.Leader = r.oldLeader
			}}}})
		}
	}
	outstanding := r.accepted > len(r.events)
	quiet := r.c.Trailing("tick:") < 2
	if p.FlushFreq > 0 && outstanding && quiet {
		acts = append(acts, gx.Actor{Label: "tick:flush", Rank: 3, Variants: []gx.Variant{{Do: func() { time.Sleep(p.FlushFreq) }}}})
	}
	if p.Backoff > 0 && outstanding && quiet {
		acts = append(acts, gx.Actor{Label: "tick:backoff", Rank: 3, Variants: []gx.Variant{{Do: func() { time.Sleep(p.Backoff) }}}})
	}
	if (r.submitted == p.NMsgs && r.accepted == r.submitted) || (p.CloseAny && r.submitted > 0 && r.accepted == r.submitted) {
		acts = append(acts, gx.Actor{Label: "close", Rank: 4, Variants: []gx.Variant{{Do: func() {
			r.mu.Lock()
			r.closing = true
			r.mu.Unlock()
			if r.sync != nil {
				go func() {
					_ = r.sync.Close()
					r.mu.Lock()
					r.succDone, r.errDone = true, true
					r.mu.Unlock()
				}()
				return
			}
			if p.SClose {
				// the readers stop first (the decision point is quiescent: nothing is on its way to them), then Close() drains
				// Successes itself and hands back the errors it collected
				close(r.stopReaders)
				r.readers.Wait()
				go func() {
					err := r.prod.Close()
					r.mu.Lock()
					if pes, ok := err.(sarama.ProducerErrors); ok {
						for _, pe := range pes {
							id, _ := pe.Msg.Metadata.(string)
							r.events = append(r.events, event{id: id, ok: false, part: pe.Msg.Partition, err: pe.Err.Error()})
						}
					}
					r.closeReturned = true
					select {
					case _, open := <-r.prod.Successes():
						r.succDone = !open
					default:
					}
					select {
					case _, open := <-r.prod.Errors():
						r.errDone = !open
					default:
					}
					r.mu.Unlock()
				}()
				return
			}
			r.prod.AsyncClose()
		}}}})
	}
	return acts
}

func (r *rig) digest() string {
	r.mu.Lock()
	defer r.mu.Unlock()
	var sb strings.Builder
	for _, ps := range r.cl.Topics["t"] {
		fmt.Fprintf(&sb, "L%d@%d[", ps.ID, ps.Leader)
		for _, x := range ps.Log {
			sb.WriteString(x.ID + ",")
		}
		sb.WriteString("]")
	}
	ev := make([]string, 0, len(r.events))
	for _, e := range r.events {
		ev = append(ev, fmt.Sprintf("%s:%v", e.id, e.ok))
	}
	sort.Strings(ev)
	fmt.Fprintf(&sb, "E%v S%d C%v P%s", ev, r.submitted, r.closing, r.cl.PendingKinds())
	return sb.String()
}

// syncStandIn marks "a producer exists" for the actor provider when the SyncProducer is under test.
type syncStandIn struct{ sarama.AsyncProducer }

func indexOf(l []*sarama.ProducerMessage, m *sarama.ProducerMessage) (int, bool) {
	for i, x := range l {
		if x == m {
			return i, true
		}
	}
	return -1, false
}

// KeyOf / HeadersOf: the key and headers message i is submitted with (kv=1: odd messages carry a
// key - every fourth an empty one -, every third message headers when the format has them).
func (p *Params) KeyOf(i int) []byte {
	if p.Tomb == i+1 || p.EmptyVal == i+1 {
		return []byte(msgID(i))
	}
	if !p.KV || i%2 == 0 {
		return nil
	}
	if i%4 == 3 {
		return []byte{}
	}
	return []byte("key-" + strconv.Itoa(i))
}

// TimestampOf: the timestamp message i is submitted with (kv=1: two of three messages supply one, and the
// supplied ones DEcrease with i, so that a later message of a batch is older than the batch's first).
func (p *Params) TimestampOf(i int) time.Time {
	if !p.KV || i%3 == 1 {
		return time.Time{}
	}
	return time.Date(2020, 1, 1, 0, 0, 0, 0, time.UTC).Add(time.Duration(50-7*i) * time.Second)
}

func (p *Params) HeadersOf(i int) []sarama.RecordHeader {
	if !p.KV || i%3 != 0 || (!p.Version.IsAtLeast(sarama.V0_11_0_0) && !p.OldHdr) {
		return nil
	}
	return []sarama.RecordHeader{{Key: []byte("h"), Value: []byte("v" + strconv.Itoa(i))}, {Key: []byte("empty"), Value: []byte{}}}
}
