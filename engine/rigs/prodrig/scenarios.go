package prodrig

import (
	"fmt"
	"strconv"
	"strings"

	"verif/engine/gx"
)

const Gates = "pp.send,pp.fin,pp.flush,bridge.take,retryBatch.out,retryBatch.start"
const Faults = "notleader,timeout-appended,fatal,missing,drop,drop-appended"

var Assumptions = []string{
	"simkafka (engine/simkafka) is a faithful-enough reading of Kafka's produce/metadata protocol and idempotence rules; requests are decoded with sarama's own decoder (the codec is judged independently by C09/C10)",
	"interleavings are explored at gates (pp.send/pp.fin/pp.flush/bridge.take/retryBatch.out), broker answers, application operations, timer ticks and close; not at every memory access (data races are outside this check)",
	"bounds: 2-4 messages, 1-2 partitions, 1-2 brokers; all executions with at most B deviations from each scenario's default policy",
	"channel-based sync shim replaces sync.Mutex/RWMutex/Once inside package sarama (overlay) so that lock waits are durably blocking",
}

type base struct {
	q    string
	b, t int // quick / thorough bound
	tags string
}

var matrix = []base{
	{"rm=1&nm=2&np=1", 4, 5, "plain"},
	{"rm=0&nm=3&parts=0,0,0&lastafter=1&policy=input", 4, 4, "rm0 order"},
	{"rm=0&nm=3&parts=0,1,0&nb=1", 3, 4, "rm0 order multi"},
	{"rm=2&nm=3&np=1&fm=2&ff=100", 3, 4, "batch"},
	{"idem=1&rm=1&nm=2&fm=2&ff=100", 4, 5, "idem batch"},
	{"idem=1&rm=2&nm=3&parts=0,1,0&nb=1", 3, 4, "idem multi"},
	{"idem=1&rm=1&nm=3&parts=0,1,0&nb=2&xf=moved", 3, 4, "idem multi move"},
	// two partitions on two brokers, four messages: two sequenced messages can fail at different moments with fresh input in between
	{"idem=1&rm=1&nm=5&parts=0,1,0,0,0&nb=2", 3, 4, "idem two failures"},
	{"rm=1&nm=3&parts=0,1,0&nb=2&policy=input&xf=moved", 3, 4, "multi move order"},
	// one response with two different per-partition outcomes (a request carrying both partitions: one is answered with a
	// retriable error - before or after the append -, the other with a fatal one)
	{"idem=1&rm=2&nm=3&parts=0,1,0&nb=1&policy=input&xf=timeout-appended~fatal,notleader~fatal", 2, 3, "idem multi pair"},
	{"rm=2&nm=3&parts=0,1,0&nb=1&policy=input&xf=notleader~fatal,timeout-appended~notleader", 2, 3, "multi pair"},
	{"ver=0.8.2.0&rm=1&nm=2", 3, 4, "v0"},
	{"ver=0.10.2.0&rm=1&nm=2&fm=2&ff=100", 3, 3, "v1 batch"},
	// RequiredAcks = NoResponse: the broker never answers, success is reported once the request is written
	{"acks=0&rm=1&nm=3&parts=0,1,0&nb=1&policy=input", 2, 3, "acks0"},
	// a message whose Encoder fails when the batch is built: an error for it, nothing else is disturbed
	{"rm=1&nm=3&np=1&badenc=2&policy=input", 2, 3, "bad encoder"},
	// (the idempotent variant is not run: failing the unencodable message bumps the epoch while its neighbours are being batched,
	// and which of them share a request is decided by an unowned race - executions did not reproduce)
	{"rm=1&nm=2&bo=100", 3, 4, "backoff"},
	{"rm=2&nm=2&bo=100&bofunc=1", 3, 4, "backoff func"},
	{"rm=1&nm=2&mfaults=drop,leader-unavailable", 3, 4, "meta"},
	// a leader election: partition 0 is leaderless for a while (every metadata answer says so), then led again
	{"idem=1&rm=2&nm=2&np=1&election=1", 3, 4, "idem election"},
	{"idem=1&rm=2&nm=3&np=1&election=2&bo=100", 3, 4, "idem election at start"},
	{"rm=2&nm=3&np=1&election=1&policy=input", 3, 4, "election order"},
	// ... with fresh input landing in the retry window and a last message after the election is over
	{"rm=2&nm=3&np=1&election=1&policy=window&lastafter=1", 3, 4, "election window"},
	{"rm=1&nm=3&np=1&fm=2", 2, 3, "nofreq close"},
	// a full buffer (Flush.MaxMessages) while a request is in flight: later input waits for space inside the broker worker
	{"rm=2&nm=5&np=1&fx=2&policy=input", 2, 3, "maxmsgs wait"},
	{"idem=1&rm=2&nm=5&np=1&fx=2&policy=input", 2, 3, "idem maxmsgs wait"},
	{"rm=1&nm=4&parts=0,0,1,0&nb=1&fx=2&policy=input", 2, 3, "maxmsgs wait multi"},
	// SyncProducer: one SendMessage per message from concurrent goroutines / one SendMessages call
	{"sync=1&rm=1&nm=3&np=1&policy=input", 3, 4, "sync"},
	{"sync=2&rm=1&nm=3&parts=0,1,0&nb=1", 3, 4, "sync batch"},
	{"sync=2&idem=1&rm=1&nm=3&np=1&fm=2&ff=100", 3, 4, "sync idem batch"},
	{"closeany=1&rm=1&nm=2", 3, 4, "close"},
	{"closeany=1&idem=1&rm=1&nm=2&fm=2&ff=100", 3, 4, "close idem"},
	// the application shuts down with Close() at any point: Close drains Successes itself and returns the errors it collected
	{"closeany=1&sclose=1&rm=1&nm=2", 2, 3, "close sclose"},
}

// Deep scenarios: minimal alphabets (one produce fault, one metadata fault, no gates) explored to a larger
// deviation bound: histories such as "fault, metadata failure at the fin, later a second retry cycle".
var deep = []base{
	{"rm=2&nm=3&np=1&df=notleader&mfaults=drop&nogates=1", 5, 7, "deep"},
	{"idem=1&rm=2&nm=3&np=1&df=timeout-appended,notleader&nogates=1", 4, 6, "deep idem"},
}

// CodeFaults: one produce fault per Kafka error code sarama knows (and one it does not know).
func CodeFaults() string {
	var l []string
	for c := 1; c <= 88; c++ {
		if c == 46 {
			// DUPLICATE_SEQUENCE_NUMBER says "this batch is already in the log": a broker that answers it for a batch it
			// never appended does not exist (the faithful form is the fault "dupcode")
			continue
		}
		l = append(l, "code"+strconv.Itoa(c))
	}
	return strings.Join(append(l, "code-1"), ",")
}

// C04Family: payload x format generation x codec x batch composition x acks, run with the default
// schedule and every single deviation (input-first policy: batches of several messages and several
// partitions per request form by themselves).
func C04Family() []string {
	var out []string
	for _, ver := range []string{"0.8.2.0", "0.10.2.0", "0.11.0.0", "2.1.0"} {
		for _, codec := range []string{"none", "gzip", "snappy", "lz4", "zstd"} {
			if codec == "zstd" && ver != "2.1.0" {
				continue
			}
			for _, parts := range []string{"0,0,0", "0,1,0,1", "0,1,1,0,0"} {
				for _, acks := range []string{"1", "-1"} {
					for _, fm := range []string{"0", "3"} {
						out = append(out, "prod?ver="+ver+"&codec="+codec+"&kv=1&rm=1&nb=1&parts="+parts+"&acks="+acks+"&fm="+fm+"&ff=100&policy=input&faults=notleader,timeout-appended,drop-appended&gates="+Gates)
					}
				}
			}
		}
	}
	// an empty value and a tombstone side by side, in every format generation: "" is a value, null is a deletion
	for _, ver := range []string{"0.8.2.0", "0.10.2.0", "0.11.0.0", "2.1.0"} {
		for _, codec := range []string{"none", "gzip"} {
			out = append(out, "prod?ver="+ver+"&codec="+codec+"&rm=1&nb=1&parts=0,0,0&emptyval=2&tomb=3&acks=1&fm=0&ff=100&policy=input&faults=notleader&gates="+Gates)
		}
	}
	// headers under a message format that has no place for them: the message must be refused, not sent without them
	for _, ver := range []string{"0.8.2.0", "0.10.0.0", "0.10.2.0"} {
		out = append(out, "prod?ver="+ver+"&codec=none&kv=1&oldhdr=1&rm=1&nb=1&parts=0,0,0,0&acks=1&fm=0&ff=100&policy=input&faults=notleader&gates="+Gates)
	}
	return out
}

// C04Sizes: value sizes around the points where the length prefix of a record changes its width (a record body of 64 and of
// 8192 bytes; the legacy formats have fixed-width prefixes but share the path), two messages of one partition in one
// request, plain and compressed; default schedule only.
func C04Sizes(thorough bool) []string {
	var out []string
	sizes := []int{}
	for n := 50; n <= 70; n++ {
		sizes = append(sizes, n)
	}
	if thorough {
		for n := 8176; n <= 8256; n++ {
			sizes = append(sizes, n)
		}
	} else {
		sizes = append(sizes, 8184, 8185, 8186, 8187, 8247, 8248)
	}
	for _, ver := range []string{"0.10.2.0", "2.1.0"} {
		for _, codec := range []string{"none", "gzip"} {
			for _, n := range sizes {
				out = append(out, fmt.Sprintf("prod?ver=%s&codec=%s&rm=1&nb=1&parts=0,0&pad=%d&fm=2&ff=100&policy=input&faults=notleader&gates=%s", ver, codec, n, Gates))
			}
		}
	}
	return out
}

// Scenarios returns the producer scenario list judged for one property.
func Scenarios(prop string) []gx.Sc {
	var out []gx.Sc
	for _, m := range matrix {
		q := m.q
		faults := Faults
		if i := strings.Index(q, "&xf="); i >= 0 {
			faults += "," + q[i+4:]
			q = q[:i]
		}
		switch prop {
		case "C05":
			if !strings.Contains(m.tags, "idem") {
				continue
			}
			faults += ",dupcode"
		case "C18":
			if strings.Contains(m.tags, "close") || strings.Contains(m.tags, "meta") {
				continue
			}
			q += "&icpt=2"
		case "C12":
			if !strings.Contains(m.tags, "close") && !strings.Contains(m.tags, "nofreq") {
				continue
			}
		case "C02":
			if strings.Contains(m.tags, "close") {
				continue
			}
		}
		out = append(out, gx.Sc{Name: "prod?" + q + "&faults=" + faults + "&gates=" + Gates, Q: m.b, T: m.t})
	}
	if prop == "C01" || prop == "C02" || prop == "C05" || prop == "C04" {
		for _, m := range deep {
			if prop == "C05" && !strings.Contains(m.tags, "idem") {
				continue
			}
			q := strings.Replace(m.q, "&df=", "&faults=", 1)
			q = strings.Replace(q, "&nogates=1", "&gates="+Gates, 1) // (gates are needed for determinism, not only for exploration)
			out = append(out, gx.Sc{Name: "prod?" + q, Q: m.b, T: m.t})
		}
	}
	if prop == "C01" || prop == "C04" || prop == "C12" {
		// the hand-over of a partition to a broker worker (its syn marker) as a decision point: the worker may have lost its
		// connection between being chosen and being told
		out = append(out, gx.Sc{Name: "prod?rm=0&nm=3&parts=0,1,0&nb=1&policy=input&faults=" + Faults + "&gates=" + Gates + ",pp.syn", Q: 3, T: 4})
		out = append(out, gx.Sc{Name: "prod?sync=1&rm=0&nm=3&parts=0,1,0&nb=1&policy=input&faults=drop,notleader&gates=" + Gates + ",pp.syn", Q: 2, T: 3})
	}
	if prop == "C01" || prop == "C12" || prop == "C05" {
		// every Kafka error code in place of success (one answer of the run): each code belongs to some class - retried,
		// fatal, swallowed - and a code that falls between two lists is neither failed nor retried
		q := "prod?rm=1&nm=2&np=1"
		if prop == "C05" {
			q = "prod?idem=1&rm=1&nm=2&np=1"
		}
		if prop == "C12" {
			q += "&closeany=1"
		}
		out = append(out, gx.Sc{Name: q + "&faults=codes&gates=" + Gates, Q: 1, T: 1})
	}
	if prop == "C01" || prop == "C12" || prop == "C18" {
		// the application keeps its message values in a pool: a value that came back on Successes() or Errors() - after a
		// retry, or as a failure - is filled in again and submitted as the next message
		q := "prod?rm=1&nm=3&np=1&reuse=1"
		if prop == "C18" {
			q += "&icpt=2"
		}
		out = append(out, gx.Sc{Name: q + "&faults=notleader,fatal&gates=" + Gates, Q: 3, T: 3})
	}
	if prop == "C18" {
		out = append(out, gx.Sc{Name: "prod?rm=1&nm=2&icpt=2&icptpanic=1&faults=" + Faults + "&gates=" + Gates, Q: 2, T: 3})
		// the panicking interceptor in the middle and at the end of a longer chain (the ones before it must not run again,
		// the ones after it must still run)
		out = append(out, gx.Sc{Name: "prod?rm=1&nm=2&icpt=4&icptpanic=3&faults=" + Faults + "&gates=" + Gates, Q: 1, T: 2})
		out = append(out, gx.Sc{Name: "prod?rm=1&nm=2&icpt=3&icptpanic=2&faults=" + Faults + "&gates=" + Gates, Q: 1, T: 2})
		out = append(out, gx.Sc{Name: "prod?rm=1&nm=1&icpt=3&icptpanic=3&faults=" + Faults + "&gates=" + Gates, Q: 1, T: 2})
		// a nil entry in the middle of the chain (calling it panics; contained like any panicking interceptor)
		out = append(out, gx.Sc{Name: "prod?rm=1&nm=2&icpt=3&icptnil=2&faults=" + Faults + "&gates=" + Gates, Q: 1, T: 2})
		// a tombstone (nil Value) through a chain with a panicking interceptor in the middle
		out = append(out, gx.Sc{Name: "prod?rm=1&nm=2&icpt=3&icptpanic=2&tomb=1&faults=" + Faults + "&gates=" + Gates, Q: 1, T: 2})
		// a submission the dispatcher rejects (larger than MaxMessageBytes) while another message is being retried
		out = append(out, gx.Sc{Name: "prod?rm=2&nm=3&np=1&big=2&icpt=2&policy=input&faults=" + Faults + "&gates=" + Gates, Q: 2, T: 3})
	}
	return out
}
