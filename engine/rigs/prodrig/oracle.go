package prodrig

import (
	"bytes"
	"fmt"
	"os"
	"sort"
	"strconv"
	"strings"
	"time"

	"github.com/Shopify/sarama"

	"verif/engine/gx"
	"verif/engine/simkafka"
)

func idNum(id string) int {
	if !strings.HasPrefix(id, "m") {
		return -1
	}
	n, err := strconv.Atoi(id[1:])
	if err != nil {
		return -1
	}
	return n
}

func (r *rig) judge() *gx.Outcome {
	out := &gx.Outcome{}
	r.mu.Lock()
	defer r.mu.Unlock()
	p := r.p
	cfg := fmt.Sprintf("idem=%v rm=%d fm=%d", p.Idem, p.RetryMax, p.FlushMsgs)
	if r.setupErr != nil {
		out.Obs = "setup-failed:" + r.setupErr.Error()
		return out
	}
	for _, f := range r.cl.FaultsTaken {
		out.Stat("fault:" + f)
	}

	// an epoch bump (a sequenced message was failed) resets every partition's sequence numbers while
	// other messages may still carry numbers of the old epoch: a known defect class of the pinned tree
	// whose consequences get their own signatures
	bumped := ""
	for _, pe := range r.cl.Produced {
		for _, b := range pe.Batches {
			if b.IsBatch && b.Epoch > 0 {
				bumped = " after-epoch-bump"
			}
		}
	}
	if p.Idem && bumped == "" {
		// the epoch is bumped in the producer's transaction manager whenever a sequenced message is failed,
		// also when no batch of the new epoch reaches the wire afterwards
		for _, e := range r.events {
			if !e.ok && e.err != sarama.ErrShuttingDown.Error() {
				bumped = " after-epoch-bump"
			}
		}
	}
	if p.Idem && bumped != "" && r.quietBumps() {
		// the recorded defect class needs messages that carry sequence numbers of the old epoch when the epoch is bumped.
		// When every failure was delivered while no other submitted message was still undecided (each one had its terminal
		// event before, or was submitted after the failure had been delivered), nothing carries old numbers: whatever goes
		// wrong afterwards is NOT that class and gets its own qualifier
		bumped = " after-quiet-epoch-bump"
	}
	byID := map[string][]event{}
	for _, e := range r.events {
		byID[e.id] = append(byID[e.id], e)
	}
	logs := map[int32][]string{}
	for _, ps := range r.cl.Topics["t"] {
		for _, x := range ps.Log {
			logs[ps.ID] = append(logs[ps.ID], x.ID)
		}
	}
	summary := func() string {
		var ev []string
		for _, e := range r.events {
			if e.ok {
				ev = append(ev, fmt.Sprintf("%s:ok@%d/%d", e.id, e.part, e.off))
			} else {
				ev = append(ev, fmt.Sprintf("%s:err(%s)", e.id, normErr(e.err)))
			}
		}
		sort.Strings(ev) // arrival order across partitions depends on Go's map order; no oracle depends on it
		var lg []string
		for _, ps := range r.cl.Topics["t"] {
			lg = append(lg, fmt.Sprintf("p%d=%v", ps.ID, logs[ps.ID]))
		}
		return fmt.Sprintf("events=%v logs=%v submitted=%d", ev, lg, r.submitted)
	}

	// ---- C12 (producer part) / C01 liveness: shutdown completes, nothing panicked
	hang := r.c.Stuck || !(r.closing && r.succDone && r.errDone)
	if len(r.c.Panics) > 0 {
		out.Violate("C12", "producer-panic", "a producer goroutine panicked: %s", firstLine(r.c.Panics[0]))
	}
	lost := []string{}
	for i := 0; i < r.accepted; i++ {
		if len(byID[msgID(i)]) == 0 {
			lost = append(lost, msgID(i))
		}
	}
	// known class: shutdown waits for every in-flight message, but a broker worker only flushes on one of
	// its configured triggers; with a count/byte threshold, no Flush.Frequency, and fewer messages buffered
	// than the threshold, nothing ever triggers
	below := ""
	if p.FlushMsgs > 1 && p.FlushFreq == 0 && len(lost) > 0 && len(lost) < p.FlushMsgs {
		below = " buffered-below-Flush.Messages no-Flush.Frequency"
	}
	if hang {
		sig := "close-hangs"
		if len(lost) > 0 {
			sig = "close-hangs-after-lost-outcome"
		}
		sig += below
		out.Violate("C12", sig, "AsyncClose did not complete: Successes closed=%v Errors closed=%v; parked=%v pending=%s; %s", r.succDone, r.errDone, r.c.Parked(), r.cl.PendingKinds(), summary())
	}

	// ---- C01 exactly one terminal outcome
	for i := 0; i < r.accepted; i++ {
		id := msgID(i)
		switch n := len(byID[id]); {
		case n == 0 && p.SClose && r.closeReturned:
			// Close() drains Successes() itself: a message still on its way when the application called Close() may have
			// succeeded without anybody seeing it - not judged
		case n == 0:
			out.Violate("C01", "no-outcome"+below, "message %s was accepted on Input() but never got a success or error event (%s); %s", id, cfg, summary())
		case n > 1:
			out.Violate("C01", "two-outcomes", "message %s got %d terminal events (%s); %s", id, n, cfg, summary())
		}
	}
	if r.calls > 0 {
		out.Violate("C01", "sync-call-never-returned", "%d SendMessage/SendMessages call(s) never returned (%s); %s", r.calls, cfg, summary())
	}
	for id := range byID {
		if n := idNum(id); n < 0 || n >= r.submitted {
			out.Violate("C01", "alien-outcome", "a terminal event was emitted for a message the application never submitted (Metadata=%q: an internal marker surfaced) (%s); %s", id, cfg, summary())
		}
	}
	if hang {
		out.Violate("C01", "close-hangs"+below, "AsyncClose never closed Successes/Errors (%s); %s", cfg, summary())
	}

	// ---- C02 per-partition order
	for part, l := range logs {
		seen := map[string]bool{}
		last := -1
		for _, id := range l {
			if seen[id] {
				continue
			}
			seen[id] = true
			n := idNum(id)
			if n < last {
				out.Violate("C02", orderSig("log-order", p, bumped), "partition %d: first copies in the log are not in submission order: %v (%s); %s", part, l, cfg, summary())
				break
			}
			last = n
		}
	}
	{
		type so struct {
			n   int
			off int64
		}
		per := map[int32][]so{}
		for _, e := range r.events {
			if e.ok && len(byID[e.id]) == 1 && p.Acks != sarama.NoResponse {
				per[e.part] = append(per[e.part], so{idNum(e.id), e.off})
			}
		}
		for part, l := range per {
			sort.Slice(l, func(i, j int) bool { return l[i].n < l[j].n })
			for i := 1; i < len(l); i++ {
				if l[i].off <= l[i-1].off {
					out.Violate("C02", orderSig("offset-order", p, bumped), "partition %d: m%d (offset %d) was submitted before m%d (offset %d) but both succeeded with non-increasing offsets (%s); %s", part, l[i-1].n, l[i-1].off, l[i].n, l[i].off, cfg, summary())
					break
				}
			}
		}
	}

	// ---- C04 success identifies where and what
	if p.Acks != sarama.NoResponse {
		for _, e := range r.events {
			if !e.ok || idNum(e.id) < 0 {
				continue
			}
			want := p.Parts[idNum(e.id)]
			if e.part != want {
				out.Violate("C04", "wrong-partition", "%s reported partition %d, partitioner chose %d; %s", e.id, e.part, want, summary())
				continue
			}
			ps := r.cl.Part("t", e.part)
			dupcode := false
			for _, f := range r.cl.FaultsTaken {
				if f == "Produce.dupcode" {
					dupcode = true
				}
			}
			if dupcode {
				continue // the broker deliberately withheld the offset of a duplicate; the offset clause does not apply
			}
			if e.off < 0 || e.off >= int64(len(ps.Log)) || ps.Log[e.off].ID != e.id {
				got := "<out of range>"
				if e.off >= 0 && e.off < int64(len(ps.Log)) {
					got = ps.Log[e.off].ID
				}
				out.Violate("C04", "wrong-offset"+bumped, "%s reported successful at %d/%d but that position holds %s (%s); %s", e.id, e.part, e.off, got, cfg, summary())
			}
		}
	}
	for part, l := range logs {
		for _, id := range l {
			if n := idNum(id); n < 0 || n >= r.submitted {
				out.Violate("C04", "alien-record", "partition %d log holds a record the application did not submit (value %q); %s", part, id, summary())
			}
		}
	}
	for _, br := range r.cl.BadRequests {
		out.Violate("C04", "undecodable-request-on-wire", "the broker received bytes that do not decode as a request (codec %v, %s): %s", p.Codec, p.Version, br)
		break
	}
	for _, pe := range r.cl.Produced {
		for _, b := range pe.Batches {
			for _, x := range b.Recs {
				n := idNum(simkafka.RecID(x.Key, x.Value))
				if n < 0 || n >= r.submitted {
					out.Violate("C04", "alien-record-on-wire", "a produce request carried a record the application did not submit (value %q)", x.Value)
					continue
				}
				if b.Partition != p.Parts[n] {
					out.Violate("C04", "wrong-partition-on-wire", "m%d was sent to partition %d, partitioner chose %d", n, b.Partition, p.Parts[n])
				}
				if wk := p.KeyOf(n); !bytes.Equal(x.Key, wk) || (len(wk) > 0) != (len(x.Key) > 0) {
					out.Violate("C04", "altered-on-wire key", "m%d carried key %q, submitted %q (codec %v, %s)", n, x.Key, wk, p.Codec, p.Version)
				}
				if (p.Tomb == n+1 || p.EmptyVal == n+1) && (x.Value == nil) != (p.Tomb == n+1) {
					out.Violate("C04", "altered-on-wire value null-vs-empty", "m%d was submitted with a nil value: %v, the request carried a null value: %v (codec %v, %s)", n, p.Tomb == n+1, x.Value == nil, p.Codec, p.Version)
				}
				if wt := p.TimestampOf(n); !wt.IsZero() && p.Version.IsAtLeast(sarama.V0_10_0_0) && !x.Timestamp.Equal(wt) {
					out.Violate("C04", "altered-on-wire timestamp", "m%d carried timestamp %s, submitted %s (codec %v, %s)", n, x.Timestamp.UTC().Format(time.RFC3339), wt.Format(time.RFC3339), p.Codec, p.Version)
				}
				if p.Icpt == 0 {
					wh := p.HeadersOf(n)
					if len(x.Headers) != len(wh) {
						out.Violate("C04", "altered-on-wire headers", "m%d carried %d headers, submitted %d (codec %v, %s)", n, len(x.Headers), len(wh), p.Codec, p.Version)
					} else {
						for j := range wh {
							if !bytes.Equal(wh[j].Key, x.Headers[j].Key) || !bytes.Equal(wh[j].Value, x.Headers[j].Value) {
								out.Violate("C04", "altered-on-wire headers", "m%d header %d is %s=%s, submitted %s=%s", n, j, x.Headers[j].Key, x.Headers[j].Value, wh[j].Key, wh[j].Value)
							}
						}
					}
				}
			}
		}
	}

	// ---- C05 idempotent producer
	if p.Idem {
		for part, l := range logs {
			cnt := map[string]int{}
			for _, id := range l {
				cnt[id]++
			}
			for id, n := range cnt {
				if n > 1 {
					// the recorded epoch-bump family writes the second copy under a LATER epoch (the message is
					// sequenced or sent again after the bump); copies under one and the same epoch are not it
					q := bumped
					if q != "" {
						ep := map[int16]bool{}
						for _, x := range r.cl.Part("t", part).Log {
							if x.ID == id {
								ep[x.Epoch] = true
							}
						}
						if len(ep) == 1 {
							q = " same-epoch"
						}
					}
					out.Violate("C05", "duplicate-in-log"+q, "partition %d holds %s %d times although the producer is idempotent and the broker enforces sequences: %v (%s); %s", part, id, n, l, cfg, summary())
				}
			}
		}
		for _, e := range r.events {
			if e.ok && idNum(e.id) >= 0 {
				n := 0
				for _, id := range logs[e.part] {
					if id == e.id {
						n++
					}
				}
				if n != 1 {
					out.Violate("C05", "success-not-once"+bumped, "%s was reported successful but occurs %d times in partition %d (%s); %s", e.id, n, e.part, cfg, summary())
				}
			}
		}
		// sequence discipline per (partition, epoch): new batches start at previous last+1; re-sent batches identical
		type key struct {
			part  int32
			epoch int16
		}
		type sent struct {
			first   int32
			ids     []string
			connErr bool // the request carrying it ended in a connection-level failure (no response)
		}
		// sequence numbers as handed out: within one epoch a partition's numbers are 0, 1, 2, ... without a gap and
		// without re-use ("each batch starts at the sequence number following the previous batch's last record")
		nextSeq := map[string]int32{}
		for _, a := range r.seqLog {
			k := fmt.Sprintf("%s@%d", a.key, a.epoch)
			if a.seq != nextSeq[k] {
				out.Violate("C05", "sequence-not-consecutive-within-epoch", "the producer handed out sequence number %d for %s in epoch %d, expected %d (numbers handed out so far: %v) (%s); %s", a.seq, a.key, a.epoch, nextSeq[k], r.seqLog, cfg, summary())
				break
			}
			nextSeq[k] = a.seq + 1
		}
		// "a message's sequence number is assigned once": the transaction manager never hands out more numbers for a
		// partition than messages were submitted to it (a re-sent message keeps the number it has)
		handed := map[string]int{}
		for _, a := range r.seqLog {
			handed[a.key]++
		}
		for k, n := range handed {
			subm := 0
			for i := 0; i < r.submitted && i < len(p.Parts); i++ {
				if fmt.Sprintf("t-%d", p.Parts[i]) == k {
					subm++
				}
			}
			if n > subm {
				out.Violate("C05", "sequence-assigned-more-than-once", "%d sequence numbers were handed out for %s but only %d messages were submitted to it: a re-sent message was given a new number (numbers handed out: %v) (%s); %s", n, k, subm, r.seqLog, cfg, summary())
			}
		}
		seenB := map[key][]*sent{}
		// "a resent batch carries the identical sequence range, epoch and records": a batch handed back to a broker
		// worker as a whole (retryBatch) is recognisable in the trace - between the answer to its previous
		// transmission and the answer to this one retryBatch.out(partition) was released and no message of the
		// partition went through the partition dispatcher (pp.send) again. (Re-sends of messages that were re-queued
		// one by one are judged by the per-epoch rules below, where the known epoch-bump family lives.)
		type wire struct {
			ids         string
			epoch       int16
			first, step int
		}
		lastWire := map[int32][]wire{}
		trace := r.c.Trace()
		for _, pe := range r.cl.Produced {
			for _, b := range pe.Batches {
				if !b.IsBatch || b.PID < 0 {
					continue
				}
				ids := []string{}
				for _, x := range b.Recs {
					ids = append(ids, simkafka.RecID(x.Key, x.Value))
				}
				cur := wire{fmt.Sprint(ids), b.Epoch, int(b.FirstSeq), pe.Step}
				l := lastWire[b.Partition]
				for i := len(l) - 1; i >= 0; i-- {
					if l[i].ids != cur.ids {
						continue
					}
					if l[i].epoch != cur.epoch || l[i].first != cur.first {
						viaBatch, viaDispatch := false, false
						for s := l[i].step; s < cur.step && s < len(trace); s++ {
							if strings.HasPrefix(trace[s], fmt.Sprintf("rel:retryBatch.out(t,%d)", b.Partition)) {
								viaBatch = true
							}
							if strings.HasPrefix(trace[s], fmt.Sprintf("rel:pp.send(t,%d)", b.Partition)) {
								viaDispatch = true
							}
						}
						if viaBatch && !viaDispatch {
							out.Violate("C05", "resent-batch-differs via-retryBatch", "partition %d: batch %v handed back as a whole (retryBatch) was re-sent as (epoch %d, first sequence %d), originally (epoch %d, first sequence %d) (%s); %s",
								b.Partition, ids, cur.epoch, cur.first, l[i].epoch, l[i].first, cfg, summary())
						}
					}
					break
				}
				lastWire[b.Partition] = append(l, cur)
			}
		}
		connErrSeen := false // a connection-level failure happened earlier in the run (the worker then re-queues everything it holds one by one)
		for _, pe := range r.cl.Produced {
			connErr := pe.Fault == "drop" || pe.Fault == "drop-appended"
			for _, b := range pe.Batches {
				if !b.IsBatch || b.PID < 0 {
					out.Violate("C05", "unsequenced-batch", "idempotent producer sent a batch without producer id/sequence to partition %d", b.Partition)
					continue
				}
				k := key{b.Partition, b.Epoch}
				ids := []string{}
				for _, x := range b.Recs {
					ids = append(ids, simkafka.RecID(x.Key, x.Value))
				}
				var prev *sent
				for _, s := range seenB[k] {
					if s.first == b.FirstSeq {
						prev = s
					}
				}
				if prev != nil {
					if fmt.Sprint(prev.ids) != fmt.Sprint(ids) {
						sig := "resend-differs after-response" + bumped
						if prev.connErr || connErrSeen {
							// known class: after a connection-level failure the producer re-queues the
							// messages one by one and batches them afresh
							sig = "resend-rebatched-after-connection-error"
						}
						out.Violate("C05", sig, "partition %d epoch %d: batch with first sequence %d re-sent with different records: %v then %v (%s); %s", b.Partition, b.Epoch, b.FirstSeq, prev.ids, ids, cfg, summary())
						prev.ids = ids // the re-batched form supersedes the original for the continuity rule below
					}
					prev.connErr = prev.connErr || connErr
					continue
				}
				l := seenB[k]
				var want int32
				if len(l) > 0 {
					want = l[len(l)-1].first + int32(len(l[len(l)-1].ids))
				}
				if b.FirstSeq != want {
					sig := "sequence-gap" + bumped
					for _, x := range l {
						if (x.connErr || connErrSeen) && bumped == "" {
							// consequence of the known re-batching after a connection-level failure: the messages of the
							// failed batch come back one by one and are merged with later ones under their old numbers
							sig = "sequence-gap after-connection-error-rebatch"
						}
					}
					if b.Epoch > 0 && len(l) == 0 && bumped != " after-quiet-epoch-bump" {
						// known class: the epoch was bumped (a sequenced message failed) while this message
						// already carried a sequence number of the previous epoch
						sig = "stale-sequence-after-epoch-bump"
					}
					out.Violate("C05", sig, "partition %d epoch %d: new batch %v starts at sequence %d, expected %d (%s); %s", b.Partition, b.Epoch, ids, b.FirstSeq, want, cfg, summary())
				}
				seenB[k] = append(l, &sent{b.FirstSeq, ids, connErr})
			}
			connErrSeen = connErrSeen || connErr
		}
	}

	// ---- C18 interceptors exactly once per submitted message, in configuration order
	if p.Icpt > 0 {
		cnt := map[string]int{}
		for _, s := range r.icptLog {
			cnt[s]++
		}
		for i := 0; i < r.accepted; i++ {
			for j := 0; j < p.Icpt; j++ {
				if p.IcptNil == j+1 {
					continue // the nil entry of the chain records nothing
				}
				k := fmt.Sprintf("%s/%d", msgID(i), j)
				if cnt[k] != 1 {
					// a message rejected at shutdown is never intercepted, legitimately
					if cnt[k] == 0 && len(byID[msgID(i)]) == 1 && byID[msgID(i)][0].err == sarama.ErrShuttingDown.Error() {
						continue
					}
					sig := "producer-interceptor-twice"
					if cnt[k] == 0 {
						sig = "producer-interceptor-skipped"
					}
					out.Violate("C18", sig, "interceptor %d ran %d times for %s (must be exactly once, on the first pass) (%s); log=%v", j, cnt[k], msgID(i), cfg, r.icptLog)
				}
			}
		}
		for k := range cnt {
			id := k[:strings.Index(k, "/")]
			if n := idNum(id); n < 0 || n >= r.submitted {
				out.Violate("C18", "producer-interceptor-on-marker", "an interceptor ran for a message the application did not submit (Metadata=%q: internal marker) (%s); log=%v", id, cfg, r.icptLog)
			}
		}
		// order: for each message the first invocations are 0,1,2..
		pos := map[string]int{}
		for _, s := range r.icptLog {
			id := s[:strings.Index(s, "/")]
			j, _ := strconv.Atoi(s[strings.Index(s, "/")+1:])
			if p.IcptNil == pos[id]+1 {
				pos[id]++ // the nil entry records nothing
			}
			if j == pos[id] {
				pos[id]++
			} else if j > pos[id] {
				out.Violate("C18", "producer-interceptor-order", "interceptor %d ran for %s before interceptor %d; log=%v", j, id, pos[id], r.icptLog)
			}
		}
		if p.Version.IsAtLeast(sarama.V0_11_0_0) {
			for _, ps := range r.cl.Topics["t"] {
				for _, x := range ps.Log {
					if idNum(x.ID) < 0 {
						continue
					}
					hc := map[string]int{}
					for _, h := range x.Headers {
						hc[string(h.Key)]++
					}
					for j := 0; j < p.Icpt; j++ {
						if p.IcptNil == j+1 {
							continue
						}
						if hc["i"+strconv.Itoa(j)] != 1 {
							out.Violate("C18", "producer-interceptor-twice", "record %s in the log shows %d applications of interceptor %d (headers %s)", x.ID, hc["i"+strconv.Itoa(j)], j, hdrs(x.Headers))
						}
					}
				}
			}
		}
	}

	out.Obs = summary()
	if os.Getenv("VERIF_REPLAY") != "" {
		var sb strings.Builder
		for i, pe := range r.cl.Produced {
			fmt.Fprintf(&sb, "  produce#%d conn=%s fault=%s:", i, pe.Conn, pe.Fault)
			for k, b := range pe.Batches {
				ids := []string{}
				for _, x := range b.Recs {
					ids = append(ids, simkafka.RecID(x.Key, x.Value))
				}
				v := pe.Verdicts[k]
				fmt.Fprintf(&sb, " [p%d pid=%d epoch=%d seq=%d recs=%v -> appended=%v dup=%v base=%d err=%d answered=%v]", b.Partition, b.PID, b.Epoch, b.FirstSeq, ids, v.Appended, v.Duplicate, v.Base, int16(v.Err), v.Answered)
			}
			sb.WriteString("\n")
		}
		for _, pn := range r.c.Panics {
			fmt.Fprintf(&sb, "  PANIC: %s\n", firstLines(pn, 14))
		}
		out.Detail = sb.String()
	}
	if hang {
		out.Obs += " HANG"
	}
	return out
}

// orderSig: with Retry.Max=0 a failed request makes the producer abandon the broker worker while
// that worker may still hold buffered messages of the partition; later messages overtake them through
// the replacement worker. That defect class gets its own signature; any other reordering keeps the
// generic one.
// quietBumps: every failed message was reported at a moment when every other message submitted so far had already been
// reported; later messages were submitted only after that failure had been delivered to the application. (returnError bumps
// the epoch BEFORE it hands the error to the application, and a message is sequenced only after it has been submitted.)
func (r *rig) quietBumps() bool {
	if len(r.subAt) == 0 {
		return false
	}
	first := map[string]int{}
	for k, e := range r.events {
		if _, seen := first[e.id]; !seen {
			first[e.id] = k
		}
	}
	for k, e := range r.events {
		if e.ok || e.err == sarama.ErrShuttingDown.Error() {
			continue
		}
		for j := range r.subAt {
			id := msgID(j)
			if id == e.id {
				continue
			}
			if t, done := first[id]; done && t < k {
				continue
			}
			if r.subAt[j] > k {
				continue
			}
			return false
		}
	}
	return true
}

func orderSig(kind string, p *Params, bumped string) string {
	if bumped != "" {
		return kind + " idem" + bumped
	}
	if p.RetryMax == 0 && !p.Idem {
		return "reorder-after-abandoned-broker-worker Retry.Max=0"
	}
	return fmt.Sprintf("%s rm=%d idem=%v", kind, p.RetryMax, p.Idem)
}

func hdrs(h []sarama.RecordHeader) string {
	var b bytes.Buffer
	for _, x := range h {
		fmt.Fprintf(&b, "%s=%s;", x.Key, x.Value)
	}
	return b.String()
}

func firstLine(s string) string {
	if i := strings.IndexByte(s, '\n'); i >= 0 {
		return s[:i]
	}
	return s
}

func firstLines(s string, n int) string {
	l := strings.Split(s, "\n")
	if len(l) > n {
		l = l[:n]
	}
	return strings.Join(l, "\n    ")
}

// normErr: which of several equivalent connection-failure texts a caller sees depends on which side
// noticed the closed pipe first; they are one observation.
func normErr(e string) string {
	switch {
	case e == "EOF", strings.Contains(e, "closed pipe"), strings.Contains(e, "unexpected EOF"), strings.Contains(e, "broker not connected"):
		return "<connection failure>"
	}
	return e
}
