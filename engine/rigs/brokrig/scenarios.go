package brokrig

import (
	"fmt"

	"verif/engine/gx"
)

var Assumptions = []string{
	"one real sarama.Broker (NewBroker+Open) on a net.Pipe injected through Config.Net.Proxy.Dialer; the server end is a scripted in-bubble server that takes requests off the wire as they arrive (socket-buffer semantics) and whose every action on the oldest unanswered request is a controller choice",
	"a request counts as 'on the wire awaiting a response' at a quiescent point when the server has fully received it, has not acted on it in any way, and its caller has not returned yet; the count is compared with Net.MaxOpenRequests at every decision point",
	"connection fault = a faulty server action (out-of-order/unknown correlation id, truncated frame + close, length field > MaxResponseSize / <= 4 / negative, abrupt close) or a full Net.ReadTimeout (1 s of fake time, explicit tick actor) of silence while a call is outstanding (silence = the answer is postponed, or the server stalls for good: variant `stall`); Broker.Close racing with calls is NOT a fault (calls outstanding at Close may still complete normally)",
	"one server fault per execution (after it only faithful answers are offered; they are never read), any number of read timeouts; all executions with at most B deviations from the default policy (pol=calls: start every call before answering; pol=answers: answer each request before the next call)",
	"interleavings at actor granularity: one call enters Broker.send per decision, so two callers never race for Broker.lock inside one step (lock waiters queue FIFO on the channel-based sync shim); data races are outside this check",
	"request kinds: MetadataRequest v0 and OffsetRequest v0 (response header version 0); each call names a unique topic so the server identifies the call from the request body, independently of the correlation id; each response body carries a unique nonce",
}

// Scenarios: callers x calls per caller x MaxOpenRequests x default policy, Close racing in all of them.
func Scenarios() []gx.Sc {
	var out []gx.Sc
	type shape struct{ nc, nk int }
	for _, sh := range []shape{{2, 1}, {3, 1}, {2, 2}, {4, 1}, {3, 2}} {
		for _, max := range []int{1, 2, 3} {
			for _, pol := range []string{"calls", "answers"} {
				q, t := 4, 5 // 6 calls
				if n := sh.nc * sh.nk; n <= 2 {
					q, t = 4, 7
				} else if n <= 4 {
					q, t = 4, 6
				}
				out = append(out, gx.Sc{Name: fmt.Sprintf("brok?nc=%d&nk=%d&max=%d&pol=%s", sh.nc, sh.nk, max, pol), Q: q, T: t})
			}
		}
	}
	return out
}
